(* C08 — A service handler runs exactly when the invocation is authorized. *)
From Ucanto Require Import Base Pattern Time Validator ValidatorSpec Server EndToEnd.

(* For every store, fuel, server (any context, any registered handlers) and invocation:
   the handler call log of Run is empty or one call of the handler registered for the
   invocation's single ability; and it is non-empty IF AND ONLY IF the validator authorizes
   the invocation for that handler's capability. *)
Theorem C08_iff : forall U fuel srv inv rc calls,
  run U fuel srv inv = Some (rc, calls) ->
  (calls = [] \/ exists h a t c, calls = [(h_can h, node_cap a)] /\
      tok U inv = Some t /\ t_caps t = [c] /\ find_handler (r_can c) (s_service srv) = Some h /\
      fst (access U (s_ctx srv) fuel (h_desc h) inv) = AOk a) /\
  (forall h t c, tok U inv = Some t -> t_caps t = [c] ->
      find_handler (r_can c) (s_service srv) = Some h ->
      (calls <> [] <-> exists a, fst (access U (s_ctx srv) fuel (h_desc h) inv) = AOk a)).
Proof. exact run_calls. Qed.
Print Assumptions C08_iff.

Theorem C08_once : forall U fuel srv inv rc calls,
  run U fuel srv inv = Some (rc, calls) -> (length calls <= 1)%nat.
Proof. exact run_at_most_once. Qed.
Print Assumptions C08_once.

(* the handler receives exactly the invocation's capability: same ability, same resource,
   caveats as read by the handler's own descriptor *)
Theorem C08_args : forall U fuel srv,
  (forall l p, resolve_proof (s_ctx srv) l = Some p -> d_link p = l) ->
  forall inv rc k cp t c,
  run U fuel srv inv = Some (rc, [(k, cp)]) -> tok U inv = Some t -> t_caps t = [c] ->
  exists h, find_handler (r_can c) (s_service srv) = Some h /\ k = h_can h /\
    parse_cap (h_desc h) c = Some cp /\
    can cp = r_can c /\ wth cp = r_with c /\ ds_nb (h_desc h) (r_nb c) = Some (nb cp).
Proof. exact run_args. Qed.
Print Assumptions C08_args.

Theorem C08_unauthorized : forall U fuel srv inv t c h e,
  tok U inv = Some t -> t_caps t = [c] -> find_handler (r_can c) (s_service srv) = Some h ->
  fst (access U (s_ctx srv) fuel (h_desc h) inv) = AErr e ->
  run U fuel srv inv = Some (mkRcpt (d_link inv) (s_id srv) (RErr e_unauthorized) no_fx, []).
Proof. exact run_unauthorized. Qed.
Print Assumptions C08_unauthorized.

Theorem C08_cap_count : forall U fuel srv inv t,
  tok U inv = Some t -> length (t_caps t) <> 1%nat ->
  run U fuel srv inv = Some (mkRcpt (d_link inv) (s_id srv) (RErr e_capability) no_fx, []).
Proof. exact run_cap_count. Qed.
Print Assumptions C08_cap_count.

Theorem C08_not_found : forall U fuel srv inv t c,
  tok U inv = Some t -> t_caps t = [c] -> find_handler (r_can c) (s_service srv) = None ->
  run U fuel srv inv = Some (mkRcpt (d_link inv) (s_id srv) (RErr e_not_found) no_fx, []).
Proof. exact run_not_found. Qed.
Print Assumptions C08_not_found.

(* for a whole request: at most one call per DISTINCT invocation of the execute list *)
Theorem C08_batch_once : forall U fuel srv vis exec rep calls,
  execute U fuel srv vis exec = ExecOk rep calls ->
  (length calls <= length (dedupe [] exec))%nat.
Proof. exact execute_calls_once. Qed.
Print Assumptions C08_batch_once.

(* Composition with C01 (server.Run + validator.Access): a handler is called only for an
   invocation carrying a complete valid delegation chain (ValidatorSpec.P: every token on the
   path inside its time window and signed / session-backed, citations aligned, capabilities
   derived through the handler's own descriptor, rooted where can_issue holds, accepted by the
   revocation checker) — and with that chain's capability. *)
Theorem C08_call_has_valid_chain : forall U fuel srv,
  (forall l p, resolve_proof (s_ctx srv) l = Some p -> d_link p = l) ->
  forall inv rc calls, run U fuel srv inv = Some (rc, calls) -> calls <> [] ->
  exists h a t c, calls = [(h_can h, node_cap a)] /\
    tok U inv = Some t /\ t_caps t = [c] /\ find_handler (r_can c) (s_service srv) = Some h /\
    fst (access U (s_ctx srv) fuel (h_desc h) inv) = AOk a /\
    P U (s_ctx srv) fuel (h_desc h) [inv] a.
Proof. exact handler_call_has_valid_chain. Qed.
Print Assumptions C08_call_has_valid_chain.

(* ... and for a whole request: EVERY entry of the handler call log belongs to an invocation of
   the execute list whose block travelled, with a complete valid chain for the handler called *)
Theorem C08_request_calls_have_valid_chains : forall U fuel srv,
  (forall l p, resolve_proof (s_ctx srv) l = Some p -> d_link p = l) ->
  forall vis exec rep calls, execute U fuel srv vis exec = ExecOk rep calls ->
  forall k, In k calls ->
  exists l h a t c, In l exec /\ In l vis /\ k = (h_can h, node_cap a) /\
    tok U (mkDlg l vis) = Some t /\ t_caps t = [c] /\ find_handler (r_can c) (s_service srv) = Some h /\
    P U (s_ctx srv) fuel (h_desc h) [mkDlg l vis] a.
Proof. exact request_calls_have_valid_chains. Qed.
Print Assumptions C08_request_calls_have_valid_chains.

(* ------------------------------------------------------------------ *)
(* "... and its result is what the receipt carries": the EFFECTS (fork links in order, join). *)
From Coq Require Import Permutation.

(* one invocation: authorized, and its handler returned (a value, fx) for the capability it was
   called with — the receipt Run issues is the ok receipt carrying exactly fx, and that handler
   call is the only one *)
Theorem C08_run_receipt_effects : forall U fuel srv inv rc calls t c h a fx,
  run U fuel srv inv = Some (rc, calls) ->
  tok U inv = Some t -> t_caps t = [c] -> find_handler (r_can c) (s_service srv) = Some h ->
  fst (access U (s_ctx srv) fuel (h_desc h) inv) = AOk a ->
  h_result h (node_cap a) = HOk fx ->
  rc_out rc = ROk /\ rc_fx rc = fx /\ calls = [(h_can h, node_cap a)].
Proof. exact run_receipt_effects. Qed.
Print Assumptions C08_run_receipt_effects.

(* a whole request, under EVERY order sigma in which the goroutines append their receipts: for
   every invocation of the execute list that is authorized and whose handler returned (ok, fx),
   the receipt filed under that invocation in the report has rc_fx = fx (same forks, same order,
   same join), is ok, and names that invocation *)
Theorem C08_receipt_effects : forall U fuel srv vis exec sigma rep calls,
  (forall rs, Permutation rs (sigma rs)) ->
  execute_sched U fuel srv vis exec sigma = ExecOk rep calls ->
  forall l t c h a fx, In l exec ->
    tok U (mkDlg l vis) = Some t -> t_caps t = [c] ->
    find_handler (r_can c) (s_service srv) = Some h ->
    fst (access U (s_ctx srv) fuel (h_desc h) (mkDlg l vis)) = AOk a ->
    h_result h (node_cap a) = HOk fx ->
    exists r, rget l rep = Some r /\ rc_ran r = l /\ rc_out r = ROk /\ rc_fx r = fx.
Proof. exact execute_receipt_effects. Qed.
Print Assumptions C08_receipt_effects.

(* a receipt of the report whose class is not ok (Unauthorized, InvocationCapabilityError,
   HandlerNotFoundError, HandlerExecutionError) has empty effects *)
Theorem C08_no_effects_without_success : forall U fuel srv vis exec sigma rep calls,
  (forall rs, Permutation rs (sigma rs)) ->
  execute_sched U fuel srv vis exec sigma = ExecOk rep calls ->
  forall l r, rget l rep = Some r -> rc_out r <> ROk -> rc_fx r = no_fx.
Proof. exact execute_no_effects_without_success. Qed.
Print Assumptions C08_no_effects_without_success.

(* ... and conversely nothing else ever appears: non-empty effects of a receipt of the report are
   the effects the handler of that invocation's ability returned, for an authorized invocation *)
Theorem C08_effects_only_from_handler : forall U fuel srv vis exec sigma rep calls,
  (forall rs, Permutation rs (sigma rs)) ->
  execute_sched U fuel srv vis exec sigma = ExecOk rep calls ->
  forall l r, rget l rep = Some r -> rc_fx r <> no_fx ->
  exists h a t c, tok U (mkDlg l vis) = Some t /\ t_caps t = [c] /\
    find_handler (r_can c) (s_service srv) = Some h /\
    fst (access U (s_ctx srv) fuel (h_desc h) (mkDlg l vis)) = AOk a /\
    rc_out r = ROk /\ h_result h (node_cap a) = HOk (rc_fx r).
Proof. exact execute_effects_from_handler. Qed.
Print Assumptions C08_effects_only_from_handler.

(* ------------------------------------------------------------------ *)
(* From the request BODY (ServerBytes.v). *)
From Ucanto Require Import Ipld Cbor Formats MessageFormat Car MessageBytes TokenBytes TokenView LinkIntegrity ServerBytes.

(* A body written by the library's encoders — the blocks of some tokens followed by the root block
   of a message m, distinct CIDs, every block matching its CID — is served as Server.execute on
   exactly those blocks: the execute list of m, every block visible, the token store U_of blocks
   (every block read as delegation.Data() reads it: with its fields when its CID is the dag-cbor /
   sha2-256 CID of its bytes, as the token without fields otherwise).
   (`view`: how a block is read as a token, see C08_bytes_world; extb: the blocks the proof resolver
   can supply beyond those of the request.) *)
Theorem C08_bytes_refines :
  forall (mh_digest : N -> N -> bstr -> option bstr) (hdr_oracle : bstr -> option (list bstr * N))
         (fuel : nat) (srv : server) (extb : list (bstr * bstr)) (view : bstr -> token)
         (m : amsg) (root : bstr) (toks : list (bstr * utoken)),
    wf_ipld (message_ipld m) = true -> in_budget (message_ipld m) = true ->
    let blocks := request_blocks toks root m in
    roots_ok 1 [root] -> Forall (block_ok mh_digest) blocks -> NoDup (map fst blocks) ->
    msg_root_ok mh_digest root (message_bytes m) ->
    serve_bytes mh_digest hdr_oracle fuel srv extb view (car_encode [root] blocks) =
    SDone (execute (U_of mh_digest extb view blocks) fuel srv (vis_of blocks) (exec_of (canon_msg m))).
Proof. exact serve_bytes_refines. Qed.
Print Assumptions C08_bytes_refines.

(* ... and when blocks are read as TokenView.view_block reads them, that token store is the abstract
   world, pointwise: the view of each token (in the canonical form the decoder returns) under the
   number of its CID WHEN THAT CID IS cid_of OF THE TOKEN'S BYTES, the empty token for a token filed
   under any other CID, the empty token for the message's own root block, nothing for every link
   that is neither a block of the request nor one of the resolver's *)
Theorem C08_bytes_world :
  forall (mh_digest : N -> N -> bstr -> option bstr)
         (keys : list N) (valid : N -> bstr -> bstr -> bool) (alg_of : N -> bstr)
         (extb : list (bstr * bstr)) (view : bstr -> token),
    (forall b, view b = view_block lid keys valid alg_of b) ->
  forall (m : amsg) (root : bstr) (toks : list (bstr * utoken)),
    wf_ipld (message_ipld m) = true -> in_budget (message_ipld m) = true ->
    let blocks := request_blocks toks root m in
    NoDup (map fst blocks) ->
    (forall c t, In (c, t) toks ->
       wf_ipld (token_ipld t) = true /\ in_budget (token_ipld t) = true /\ token_typed_ok t = true /\ u_fct t <> Some []) ->
    (forall c t, In (c, t) toks -> cid_of mh_digest (token_bytes t) = Some c ->
       U_of mh_digest extb view blocks (lid c) = Some (view_token lid keys valid alg_of (canon_token t))) /\
    (forall c t, In (c, t) toks -> cid_of mh_digest (token_bytes t) <> Some c ->
       U_of mh_digest extb view blocks (lid c) = Some empty_token) /\
    U_of mh_digest extb view blocks (lid root) = Some empty_token /\
    (forall l, ~ In l (vis_of (blocks ++ extb)) -> U_of mh_digest extb view blocks l = None).
Proof. exact serve_bytes_world. Qed.
Print Assumptions C08_bytes_world.

(* The library's encoder (block.Encode with the dag-cbor codec and the sha2-256 hasher: enc_toks)
   files every token under cid_of of its bytes, so for a request it wrote "the blocks are bound" is
   proved, not assumed: every token is in the store with its fields *)
Theorem C08_bytes_world_encoded :
  forall (mh_digest : N -> N -> bstr -> option bstr)
         (keys : list N) (valid : N -> bstr -> bstr -> bool) (alg_of : N -> bstr)
         (extb : list (bstr * bstr)) (view : bstr -> token),
    (forall b, view b = view_block lid keys valid alg_of b) ->
  forall (m : amsg) (root : bstr) (ts : list utoken) (toks : list (bstr * utoken)),
    enc_toks mh_digest ts = Some toks ->
    wf_ipld (message_ipld m) = true -> in_budget (message_ipld m) = true ->
    let blocks := request_blocks toks root m in
    NoDup (map fst blocks) ->
    (forall t, In t ts ->
       wf_ipld (token_ipld t) = true /\ in_budget (token_ipld t) = true /\ token_typed_ok t = true /\ u_fct t <> Some []) ->
    (forall c t, In (c, t) toks ->
       U_of mh_digest extb view blocks (lid c) = Some (view_token lid keys valid alg_of (canon_token t))) /\
    U_of mh_digest extb view blocks (lid root) = Some empty_token /\
    (forall l, ~ In l (vis_of (blocks ++ extb)) -> U_of mh_digest extb view blocks l = None).
Proof. exact serve_bytes_world_encoded. Qed.
Print Assumptions C08_bytes_world_encoded.

(* ONE theorem from bytes to "a handler ran only for a complete valid chain": whatever the body,
   if serving it produced a report, every handler call belongs to an entry of the decoded message's
   execute list whose block is in the request's block table UNDER THE dag-cbor / sha2-256 CID OF ITS
   BYTES (cid_of data = Some cid), decodes (typed decoding) to a UCAN
   with exactly one capability naming the handler that was called, and carries an authorization
   satisfying ValidatorSpec.P — also in the form P_sg whose signature clauses speak about the signed
   bytes of blocks of this very body or of the resolver (C01_sound_bytes), and in the form whose
   clause sig_ok_bound adds that each such block is bound to the link of its delegation. *)
Theorem C08_bytes_calls_have_valid_chains :
  forall (mh_digest : N -> N -> bstr -> option bstr) (hdr_oracle : bstr -> option (list bstr * N))
         (keys : list N) (valid : N -> bstr -> bstr -> bool) (alg_of : N -> bstr) (fuel : nat) (srv : server)
         (extb : list (bstr * bstr)) (view : bstr -> token),
    (forall b, view b = view_block lid keys valid alg_of b) ->
  forall (body : bstr) (rep : report) (calls : list call),
    (forall l p, resolve_proof (s_ctx srv) l = Some p -> d_link p = l) ->
    serve_bytes mh_digest hdr_oracle fuel srv extb view body = SDone (ExecOk rep calls) ->
    exists d, decode_message mh_digest hdr_oracle body = Some d /\
    forall k, In k calls ->
    exists cid data ut h a c,
      In cid (invocations_bytes (d_msg d)) /\ tbl_get (d_store d) cid = Some data /\
      cid_of mh_digest data = Some cid /\
      token_decode_typed data = Some ut /\
      map (view_cap lid) (u_att ut) = [c] /\ find_handler (r_can c) (s_service srv) = Some h /\
      k = (h_can h, node_cap a) /\
      let U := U_of mh_digest extb view (blocks_of d) in
      let inv := mkDlg (lid cid) (vis_of (blocks_of d)) in
      P U (s_ctx srv) fuel (h_desc h) [inv] a /\
      P_sg U (s_ctx srv) (sig_ok_bytes (B_of (blocks_of d ++ extb)) lid keys valid alg_of) fuel (h_desc h) [inv] a /\
      P_sg U (s_ctx srv) (sig_ok_bound mh_digest keys valid alg_of (blocks_of d ++ extb)) fuel (h_desc h) [inv] a.
Proof. exact serve_bytes_calls_have_valid_chains. Qed.
Print Assumptions C08_bytes_calls_have_valid_chains.

(* An invocation that travels under a CID other than the dag-cbor / sha2-256 CIDv1 of its bytes
   (raw codec, CIDv0, dag-json, another hash function — the CAR reader accepts them all) never makes
   a handler run: whatever its bytes say and whatever else the request carries, server.Run answers
   it with the InvocationCapabilityError receipt and calls nothing, and that is the receipt filed
   under its link in the report of the request. *)
Theorem C08_bytes_relabelled_runs_nothing :
  forall (mh_digest : N -> N -> bstr -> option bstr) (hdr_oracle : bstr -> option (list bstr * N))
         (keys : list N) (valid : N -> bstr -> bstr -> bool) (alg_of : N -> bstr) (fuel : nat) (srv : server)
         (extb : list (bstr * bstr)) (view : bstr -> token),
    (forall b, view b = view_block lid keys valid alg_of b) ->
  forall (body : bstr) (d : decoded) (cid data : bstr),
    decode_message mh_digest hdr_oracle body = Some d ->
    In (cid, data) (blocks_of d) -> cid_of mh_digest data <> Some cid ->
    let rc := mkRcpt (lid cid) (s_id srv) (RErr e_capability) no_fx in
    (forall vis, run (U_of mh_digest extb view (blocks_of d)) fuel srv (mkDlg (lid cid) vis) = Some (rc, [])) /\
    (forall rep calls, serve_bytes mh_digest hdr_oracle fuel srv extb view body = SDone (ExecOk rep calls) ->
       In cid (invocations_bytes (d_msg d)) -> rget (lid cid) rep = Some rc).
Proof. exact serve_bytes_relabelled_runs_nothing. Qed.
Print Assumptions C08_bytes_relabelled_runs_nothing.

(* ... and a request all of whose execute-list entries travel that way makes no handler call *)
Theorem C08_bytes_all_relabelled_no_calls :
  forall (mh_digest : N -> N -> bstr -> option bstr) (hdr_oracle : bstr -> option (list bstr * N))
         (keys : list N) (valid : N -> bstr -> bstr -> bool) (alg_of : N -> bstr) (fuel : nat) (srv : server)
         (extb : list (bstr * bstr)) (view : bstr -> token),
    (forall b, view b = view_block lid keys valid alg_of b) ->
  forall (body : bstr) (d : decoded) (rep : report) (calls : list call),
    decode_message mh_digest hdr_oracle body = Some d ->
    (forall cid, In cid (invocations_bytes (d_msg d)) ->
       exists data, In (cid, data) (blocks_of d) /\ cid_of mh_digest data <> Some cid) ->
    serve_bytes mh_digest hdr_oracle fuel srv extb view body = SDone (ExecOk rep calls) -> calls = [].
Proof. exact serve_bytes_all_relabelled_no_calls. Qed.
Print Assumptions C08_bytes_all_relabelled_no_calls.
