(* C13 — Messages and delegation archives read back unchanged. *)
From Ucanto Require Import Base Ipld Cbor Formats Blockstore MessageFormat.

(* an agent message passed through the codec reads back with the same invocation links (same
   order) and the same invocation -> receipt mapping (the report is a map: canonical key order) *)
Theorem C13_message_transport : forall m,
  wf_ipld (message_ipld m) = true -> in_budget (message_ipld m) = true ->
  message_decode (message_bytes m) = Some (canon_msg m).
Proof. exact message_transport. Qed.

Theorem C13_report_is_same_map : forall (r : list (bstr * bstr)) k,
  NoDup (map fst r) -> slookup k (canon_report r) = slookup k r.
Proof. exact report_lookup_preserved. Qed.

(* a delegation archive's variant block names the delegation *)
Theorem C13_archive_transport : forall l,
  wf_ipld (archive_ipld l) = true -> in_budget (archive_ipld l) = true ->
  (v <- cbor_decode_all (cbor_encode (archive_ipld l)) ;; archive_of_ipld v) = Some l.
Proof. exact archive_transport. Qed.

(* the token block itself reads back (fields, signature bytes) — C07_transport_bytes *)
Theorem C13_token_transport : forall t,
  wf_ipld (token_ipld t) = true -> in_budget (token_ipld t) = true ->
  token_decode (token_bytes t) = Some (canon_token t).
Proof. exact token_transport. Qed.

(* block closure: the blocks of a delegation contain its root, the blocks of every delegation
   embedded as a proof — transitively, to any depth — and every attached block *)
Theorem C13_root_travels : forall d, In (fst (d_root d)) (d_links d).
Proof. exact d_blocks_root. Qed.

Theorem C13_proofs_travel : forall d q, reach d q -> forall k, In k (d_links q) -> In k (d_links d).
Proof. exact d_blocks_transitive. Qed.

Theorem C13_attachments_travel : forall r ps at_ b, In b at_ -> In (fst b) (d_links (DNode r ps at_)).
Proof. exact d_blocks_attached. Qed.

(* a message carries, for each of its invocations, the root of every delegation reachable
   through embedded proofs; blocks shared between invocations appear once *)
Theorem C13_message_carries : forall invs rb root i,
  In i invs -> forall q, reach i q -> In (fst (d_root q)) (message_blocks invs rb root).
Proof. exact message_carries_invocation. Qed.

Theorem C13_message_blocks_nodup : forall invs rb root, NoDup (message_blocks invs rb root).
Proof. exact message_blocks_nodup. Qed.

(* reading a transported block sequence back builds the same store *)
Theorem C13_reader : forall l, new_block_reader N bstr N.eqb [] l = run_puts N bstr N.eqb l.
Proof. exact reader_of_sequence. Qed.

Print Assumptions C13_message_transport.
Print Assumptions C13_report_is_same_map.
Print Assumptions C13_archive_transport.
Print Assumptions C13_token_transport.
Print Assumptions C13_root_travels.
Print Assumptions C13_proofs_travel.
Print Assumptions C13_attachments_travel.
Print Assumptions C13_message_carries.
Print Assumptions C13_message_blocks_nodup.
Print Assumptions C13_reader.
