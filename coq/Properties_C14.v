(* C14 — Principals survive every representation; keys never cross-verify.
   This file contains only the property theorems; definitions and proofs are in
   VarintMore.v, Sig.v, Did.v and Crypto.v.

   The base encodings are CONCRETE functions: BaseEnc.b58enc / BaseDec.b58dec
   (base58btc of mr-tron/base58 behind go-multibase), BaseDec.mb64enc /
   BaseDec.mb_decode (multibase.Encode(Base64pad, .) / multibase.Decode), with
   their round-trip laws proved (first block below) and compared with the Go
   libraries on every run (cases_C14_base_*.v).  bytes_ok b says every element of
   b is below 256, i.e. b is a Go []byte / string.

   The Section below lists the trusted base of the symbolic part: x509 PKCS#1
   parsing as an oracle, and the crypto libraries as oracles with the symbolic
   (Dolev-Yao) assumption that a signature is accepted for exactly the key and
   message that produced it.  Everything the library itself adds (varint
   framing, multicodec tags, length checks, DID text/byte forms, the algorithm
   gate in Verify, Wrap) is modelled byte for byte and proved. *)
From Ucanto Require Import Base Varint VarintMore Sig BaseEnc BaseDec Did Crypto.
Open Scope N_scope.

(* ---- base encodings (go-multibase, mr-tron/base58, encoding/base64) ---- *)

(* base58btc: decode (encode b) = b for every non-empty byte string (the Go
   decoder rejects the empty string, which is the encoding of the empty byte string) *)
Theorem C14_b58_roundtrip : forall b : bstr, bytes_ok b -> b <> [] -> b58dec (b58enc b) = Some b.
Proof. exact b58_roundtrip. Qed.
Print Assumptions C14_b58_roundtrip.

Theorem C14_b58dec_bytes : forall s b : bstr, b58dec s = Some b -> bytes_ok b.
Proof. exact b58dec_bytes. Qed.
Print Assumptions C14_b58dec_bytes.

(* a string decodes only to the bytes whose encoding it is: the decoder is injective
   on its domain, so two different did:key strings never carry the same key *)
Theorem C14_b58dec_canonical : forall s b : bstr, b58dec s = Some b -> b58enc b = s.
Proof. exact b58dec_enc. Qed.
Print Assumptions C14_b58dec_canonical.

Theorem C14_b58dec_injective : forall s1 s2 b : bstr, b58dec s1 = Some b -> b58dec s2 = Some b -> s1 = s2.
Proof. exact b58dec_inj. Qed.
Print Assumptions C14_b58dec_injective.

(* the decoder accepts exactly the non-empty strings over the alphabet *)
Theorem C14_b58dec_domain : forall s : bstr,
  (exists b, b58dec s = Some b) <-> s <> [] /\ Forall (fun c => In c tbl_b58) s.
Proof. exact b58dec_domain. Qed.
Print Assumptions C14_b58dec_domain.

(* multibase base64pad ("M..."), the form of signer key strings *)
Theorem C14_mb64_roundtrip : forall b : bstr, bytes_ok b -> mb_decode (mb64enc b) = Some b.
Proof. exact mb_roundtrip. Qed.
Print Assumptions C14_mb64_roundtrip.

Theorem C14_mb_decode_bytes : forall s b : bstr, bytes_ok s -> mb_decode s = Some b -> bytes_ok b.
Proof. exact mb_decode_bytes. Qed.
Print Assumptions C14_mb_decode_bytes.

(* ... whose Go decoder is NOT injective (line breaks are skipped, the bits below the
   last byte are not checked): different key strings can parse to the same signer.
   Canonical strings (no line break, dropped bits zero) decode only to the bytes
   whose encoding they are. *)
Theorem C14_b64_decode_not_injective :
  b64pad_dec tbl_b64std (bs "TQ==") = Some [77] /\ b64pad_dec tbl_b64std (bs "TR==") = Some [77] /\
  b64pad_dec tbl_b64std [84; 10; 81; 13; 61; 61; 10] = Some [77] /\
  b64pad (bs "M") = bs "TQ==".
Proof. exact b64pad_dec_not_injective. Qed.
Print Assumptions C14_b64_decode_not_injective.

Theorem C14_key_string_canonical : forall s b : bstr,
  b64pad_canonical tbl_b64std s -> mb_decode (77 :: s) = Some b -> mb64enc b = 77 :: s.
Proof. exact mb64_dec_enc. Qed.
Print Assumptions C14_key_string_canonical.

Theorem C14_b64_canonical : forall s b : bstr,
  b64_canonical tbl_b64std s -> b64raw_dec tbl_b64std s = Some b -> b64std b = s.
Proof. exact (b64raw_dec_enc tbl_b64std tbl_b64std_ok). Qed.
Print Assumptions C14_b64_canonical.

(* ---- signature framing (ucan/crypto/signature) -------------------- *)

Theorem C14_sig_framing : forall (c : N) (r : bstr),
  c < 2 ^ 63 -> N.of_nat (length r) < 2 ^ 63 ->
  sig_code (new_signature c r) = c /\
  sig_size (new_signature c r) = Ret (N.of_nat (length r)) /\
  sig_raw (new_signature c r) = Ret r.
Proof. exact sig_framing. Qed.
Print Assumptions C14_sig_framing.

Theorem C14_sig_injective : forall c r c' r',
  c < 2 ^ 63 -> c' < 2 ^ 63 ->
  N.of_nat (length r) < 2 ^ 63 -> N.of_nat (length r') < 2 ^ 63 ->
  new_signature c r = new_signature c' r' -> c = c' /\ r = r'.
Proof. exact new_signature_inj. Qed.
Print Assumptions C14_sig_injective.

(* Code / Size / Raw never panic, whatever the bytes *)
Theorem C14_sig_total : forall s : bstr, exists n r, sig_size s = Ret n /\ sig_raw s = Ret r.
Proof. exact sig_total. Qed.
Print Assumptions C14_sig_total.

(* ---- DIDs (did/did.go, with fixes/C14_did_key_alias.diff) ----------- *)

(* on the tree without the repair the round trip fails for a DID string that parses *)
Theorem C14_did_roundtrip_pinned_refuted : ~ did_roundtrip_pinned_full.
Proof. exact did_roundtrip_pinned_refuted. Qed.
Print Assumptions C14_did_roundtrip_pinned_refuted.

Section Principals.
  (* crypto/x509 PKCS#1 parsing *)
  Variable pkcs1_pub_ok : bstr -> bool.
  Variable pkcs1_priv_pub : bstr -> option bstr.
  (* crypto/ed25519, crypto/rsa on key material bytes *)
  Variable raw_verify : alg -> bstr -> bstr -> bstr -> bool.
  Variable sign_bytes : alg -> bstr -> bstr -> bstr.
  (* generated keys: ids, their key material, the signature term *)
  Variable kvalid : alg -> N -> bool.
  Variable pub_bytes : alg -> N -> bstr.
  Variable priv_bytes : alg -> N -> bstr.
  Variable raw_sig : alg -> N -> bstr -> bstr.
  (* key material is a byte string *)
  Hypothesis pub_bytes_ok : forall a k, kvalid a k = true -> bytes_ok (pub_bytes a k).
  Hypothesis ed_pub_len : forall k, kvalid Ed25519 k = true -> length (pub_bytes Ed25519 k) = 32%nat.
  Hypothesis ed_priv_len : forall k, kvalid Ed25519 k = true -> length (priv_bytes Ed25519 k) = 32%nat.
  Hypothesis rsa_pub_ok : forall k, kvalid RSA k = true -> pkcs1_pub_ok (pub_bytes RSA k) = true.
  Hypothesis rsa_priv_pub : forall k, kvalid RSA k = true ->
    pkcs1_priv_pub (priv_bytes RSA k) = Some (pub_bytes RSA k).
  Hypothesis sign_correct : forall a k m, kvalid a k = true ->
    sign_bytes a (priv_material pub_bytes priv_bytes a k) m = raw_sig a k m.
  (* symbolic unforgeability + uniqueness *)
  Hypothesis sig_unforgeable : forall a k m r, kvalid a k = true ->
    (raw_verify a (pub_bytes a k) m r = true <-> r = raw_sig a k m).
  Hypothesis raw_sig_inj : forall a k k' m m', kvalid a k = true -> kvalid a k' = true ->
    raw_sig a k m = raw_sig a k' m' -> k = k' /\ m = m'.

  (* every DID that Parse returns survives Bytes/Decode and String/Parse;
     String never panics *)
  Theorem C14_did_roundtrip_parse : forall (s : bstr) (d : did),
    did_parse b58dec s = Some d ->
    did_decode (did_bytes d) = Some d /\
    exists s', did_to_string b58enc d = Ret s' /\ did_parse b58dec s' = Some d.
  Proof using. exact (did_roundtrip_of_parse b58enc b58dec b58dec_bytes b58_roundtrip). Qed.

  (* ... and so does every DID that Decode returns *)
  Theorem C14_did_roundtrip_decode : forall (b : bstr) (d : did),
    bytes_ok b -> did_decode b = Some d ->
    did_bytes d = b /\ did_decode (did_bytes d) = Some d /\
    exists s', did_to_string b58enc d = Ret s' /\ did_parse b58dec s' = Some d.
  Proof using. exact (did_roundtrip_of_decode b58enc b58dec b58_roundtrip). Qed.

  (* no two (well-formed) DIDs print the same string *)
  Theorem C14_did_string_injective : forall d1 d2 : did,
    did_wf d1 = true -> did_wf d2 = true -> bytes_ok (did_bytes d1) -> bytes_ok (did_bytes d2) ->
    did_to_string_v b58enc d1 = did_to_string_v b58enc d2 -> d1 = d2.
  Proof using. exact (did_to_string_inj b58enc b58dec b58_roundtrip). Qed.

  Theorem C14_did_string_total : forall d : did,
    did_to_string b58enc d = Ret (did_to_string_v b58enc d).
  Proof using. exact (did_to_string_total b58enc). Qed.

  (* Encode/Decode and Format/Parse of every decoded verifier and signer *)
  Theorem C14_verifier_roundtrip : forall a b v,
    verifier_decode pkcs1_pub_ok a b = Some v ->
    verifier_encode v = b /\ v_alg v = a /\
    verifier_decode pkcs1_pub_ok a (verifier_encode v) = Some v.
  Proof. exact (verifier_roundtrip pkcs1_pub_ok). Qed.

  (* a decoded verifier is a did:key over exactly its bytes, tagged with its own algorithm *)
  Theorem C14_verifier_did : forall a b v,
    verifier_decode pkcs1_pub_ok a b = Some v ->
    v_did v = mkdid true b /\ did_wf (v_did v) = true /\
    exists k, from_uvarint b = inr (pub_code a, k).
  Proof. exact (verifier_decode_did pkcs1_pub_ok). Qed.

  Theorem C14_verifier_format_parse : forall a b v,
    bytes_ok b -> verifier_decode pkcs1_pub_ok a b = Some v ->
    exists s, verifier_format b58enc v = Ret s /\ verifier_parse b58dec pkcs1_pub_ok a s = Some v.
  Proof using. exact (verifier_format_parse b58enc b58dec b58_roundtrip pkcs1_pub_ok). Qed.

  Theorem C14_signer_roundtrip : forall a b s,
    signer_decode pkcs1_pub_ok pkcs1_priv_pub a b = Some s ->
    signer_encode s = b /\ s_alg s = a /\
    signer_decode pkcs1_pub_ok pkcs1_priv_pub a (signer_encode s) = Some s.
  Proof. exact (signer_roundtrip pkcs1_pub_ok pkcs1_priv_pub). Qed.

  Theorem C14_signer_format_parse : forall a b s,
    bytes_ok b -> signer_decode pkcs1_pub_ok pkcs1_priv_pub a b = Some s ->
    signer_parse mb_decode pkcs1_pub_ok pkcs1_priv_pub a (signer_format mb64enc s) = Some s.
  Proof using. exact (signer_format_parse mb64enc mb_decode mb_roundtrip pkcs1_pub_ok pkcs1_priv_pub). Qed.

  (* a generated key: its encoding decodes to it; signer, verifier and the
     verifier parsed from the DID string agree on the DID and accept the
     signer's signatures *)
  Theorem C14_agree : forall a k, kvalid a k = true ->
    let s := signer_of pub_bytes priv_bytes a k in
    signer_decode pkcs1_pub_ok pkcs1_priv_pub a (signer_bytes pub_bytes priv_bytes a k) = Some s /\
    signer_verifier s = verifier_of pub_bytes a k /\
    signer_did s = v_did (verifier_of pub_bytes a k) /\
    dkey (signer_did s) = true /\
    (exists str, verifier_format b58enc (signer_verifier s) = Ret str /\
                 did_to_string b58enc (signer_did s) = Ret str /\
                 verifier_parse b58dec pkcs1_pub_ok a str = Some (verifier_of pub_bytes a k)) /\
    (forall m, sig_fits raw_sig a k m ->
       verifier_verify raw_verify (verifier_of pub_bytes a k) m (signer_sign sign_bytes s m) = Ret true).
  Proof.
    exact (principals_agree b58enc b58dec b58_roundtrip pkcs1_pub_ok pkcs1_priv_pub raw_verify sign_bytes
             kvalid pub_bytes priv_bytes raw_sig pub_bytes_ok ed_pub_len ed_priv_len rsa_pub_ok rsa_priv_pub
             sign_correct sig_unforgeable raw_sig_inj).
  Qed.

  (* Wrap changes only the DID (any verifier / signer that Wrap accepts) *)
  Theorem C14_wrap_verifier : forall v id w,
    verifier_wrap b58enc v id = Ret (Some w) ->
    v_did w = id /\ v_alg w = v_alg v /\ verifier_encode w = verifier_encode v /\
    forall msg sig, verifier_verify raw_verify w msg sig = verifier_verify raw_verify v msg sig.
  Proof. exact (verifier_wrap_spec b58enc raw_verify). Qed.

  Theorem C14_wrap_signer : forall s id w,
    signer_wrap b58enc s id = Ret (Some w) ->
    signer_did w = id /\ s_alg w = s_alg s /\ signer_encode w = signer_encode s /\
    (forall msg, signer_sign sign_bytes w msg = signer_sign sign_bytes s msg) /\
    (forall msg sig, verifier_verify raw_verify (s_ver w) msg sig =
                     verifier_verify raw_verify (s_ver s) msg sig).
  Proof. exact (signer_wrap_spec b58enc raw_verify sign_bytes). Qed.

  (* ... and every generated key can be wrapped *)
  Theorem C14_wrap_generated : forall a k id, kvalid a k = true ->
    exists w ws,
      verifier_wrap b58enc (verifier_of pub_bytes a k) id = Ret (Some w) /\
      signer_wrap b58enc (signer_of pub_bytes priv_bytes a k) id = Ret (Some ws) /\
      v_did w = id /\ signer_did ws = id /\ s_ver ws = w /\
      verifier_encode w = verifier_bytes pub_bytes a k /\
      signer_encode ws = signer_bytes pub_bytes priv_bytes a k /\
      (forall m, signer_sign sign_bytes ws m =
                 signer_sign sign_bytes (signer_of pub_bytes priv_bytes a k) m) /\
      (forall m s, verifier_verify raw_verify w m s =
                   verifier_verify raw_verify (verifier_of pub_bytes a k) m s).
  Proof. exact (wrap_generated b58enc raw_verify sign_bytes kvalid pub_bytes priv_bytes). Qed.

  (* a verifier accepts exactly: its own algorithm code, a declared size equal to the size of
     the raw signature that follows, carrying its own key's signature of exactly this message *)
  Theorem C14_only_own : forall a k m s, kvalid a k = true ->
    (verifier_verify raw_verify (verifier_of pub_bytes a k) m s = Ret true <->
     sig_code s = sig_alg_code a /\ sig_size_v s = N.of_nat (length (sig_raw_v s)) /\ sig_raw_v s = raw_sig a k m).
  Proof. exact (verify_only_own raw_verify kvalid pub_bytes raw_sig sig_unforgeable). Qed.

  (* never another key, another algorithm or another message *)
  Theorem C14_never_cross : forall a k m a' k' m',
    kvalid a k = true -> kvalid a' k' = true -> sig_fits raw_sig a' k' m' ->
    (verifier_verify raw_verify (verifier_of pub_bytes a k) m
       (signer_sign sign_bytes (signer_of pub_bytes priv_bytes a' k') m') = Ret true <->
     a = a' /\ k = k' /\ m = m').
  Proof.
    exact (verify_never_cross raw_verify sign_bytes kvalid pub_bytes priv_bytes raw_sig
             ed_pub_len ed_priv_len sign_correct sig_unforgeable raw_sig_inj).
  Qed.

  (* any other algorithm code on the frame: rejected *)
  Theorem C14_retagged : forall a k m c r, kvalid a k = true ->
    c < 2 ^ 63 -> c <> sig_alg_code a ->
    verifier_verify raw_verify (verifier_of pub_bytes a k) m (new_signature c r) = Ret false.
  Proof. exact (verify_retagged raw_verify kvalid pub_bytes). Qed.

  (* Verify never panics, whatever the signature bytes *)
  Theorem C14_verify_total : forall v msg sig, exists r, verifier_verify raw_verify v msg sig = Ret r.
  Proof. exact (verifier_verify_total raw_verify). Qed.
End Principals.

(* the hypotheses of the Section are satisfiable (toy keys; Crypto.Toy) *)
Theorem C14_hyps_satisfiable :
  (forall a k, Toy.kvalid a k = true -> bytes_ok (Toy.pub_bytes a k)) /\
  (forall k, Toy.kvalid Ed25519 k = true -> length (Toy.pub_bytes Ed25519 k) = 32%nat) /\
  (forall k, Toy.kvalid Ed25519 k = true -> length (Toy.priv_bytes Ed25519 k) = 32%nat) /\
  (forall k, Toy.kvalid RSA k = true -> Toy.pkcs1_pub_ok (Toy.pub_bytes RSA k) = true) /\
  (forall k, Toy.kvalid RSA k = true -> Toy.pkcs1_priv_pub (Toy.priv_bytes RSA k) = Some (Toy.pub_bytes RSA k)) /\
  (forall a k m, Toy.kvalid a k = true ->
     Toy.sign_bytes a (priv_material Toy.pub_bytes Toy.priv_bytes a k) m = Toy.raw_sig a k m) /\
  (forall a k m r, Toy.kvalid a k = true ->
     (Toy.raw_verify a (Toy.pub_bytes a k) m r = true <-> r = Toy.raw_sig a k m)) /\
  (forall a k k' m m', Toy.kvalid a k = true -> Toy.kvalid a k' = true ->
     Toy.raw_sig a k m = Toy.raw_sig a k' m' -> k = k' /\ m = m') /\
  sig_fits Toy.raw_sig Ed25519 7 [1; 2; 3].
Proof. exact Toy.hyps_satisfiable. Qed.
Print Assumptions C14_hyps_satisfiable.

Print Assumptions C14_did_roundtrip_parse.
Print Assumptions C14_did_roundtrip_decode.
Print Assumptions C14_did_string_injective.
Print Assumptions C14_did_string_total.
Print Assumptions C14_verifier_roundtrip.
Print Assumptions C14_verifier_did.
Print Assumptions C14_verifier_format_parse.
Print Assumptions C14_signer_roundtrip.
Print Assumptions C14_signer_format_parse.
Print Assumptions C14_agree.
Print Assumptions C14_wrap_verifier.
Print Assumptions C14_wrap_signer.
Print Assumptions C14_wrap_generated.
Print Assumptions C14_only_own.
Print Assumptions C14_never_cross.
Print Assumptions C14_retagged.
Print Assumptions C14_verify_total.
