(* C19 — Validation work is bounded by the size of the proof set.
   The full statement (quadratic in the number of distinct delegations, for every proof-DAG
   shape) is FALSE of the code and of its model.  What holds, for all inputs:
     - the work is bounded by the PATH WEIGHT of the invocation (one unit per citation path
       and capability alternative), for every store, context, descriptor, fuel, invocation;
     - forests of single-capability did:key delegations are linear, chains of every depth
       cost exactly one verification per token;
     - layered DAGs of every width w and depth d with failing roots cost exactly
       1 + w + ... + w^d, which exceeds the quadratic bound for every w >= 2 and d >= 10. *)
From Ucanto Require Import Base Pattern Time Validator Check_Validator ValidatorCost ValidatorBound.
Open Scope N_scope.

(* full statement: for every world the number of signature verifications is at most
   quadratic in the number of distinct delegations carried *)
Definition C19_full : Prop := forall w : wcase, quadratic_bound w.

(* refuted: the layered DAG of width 3 and depth 5 (16 delegations) costs 364 verifications;
   the same count is observed on the implementation by the correspondence check *)
Theorem C19_refuted : ~ C19_full.
Proof. exact quadratic_bound_refuted. Qed.
Print Assumptions C19_refuted.

Theorem C19_witness : verifications (layered_world 3 5) = 364 /\ delegations (layered_world 3 5) = 16.
Proof. exact layered_3_5. Qed.
Print Assumptions C19_witness.

(* ------------------------------------------------------------------ *)
(* the positive half: a bound that holds for every input                *)

(* the number of verifications Access makes never exceeds the path weight of the invocation:
   every proof is validated once per citation path that reaches it and per capability
   alternative offered along that path (plus, for issuers that are neither did:key nor the
   authority, the same count for the search of an attestation among its siblings) *)
Theorem C19_work_le_path_weight :
  forall (U : link -> option token) (C : ctx) (n : nat) (ds : desc) (inv : dlg),
    count_verifies (snd (access U C n ds inv)) <= paths_weight U C n inv.
Proof. exact access_cost. Qed.
Print Assumptions C19_work_le_path_weight.

(* the weight only grows with the fuel (longer paths are counted), so the weight at any larger
   fuel is a bound as well: running out of fuel never makes the statement true *)
Theorem C19_work_le_path_weight_any_fuel :
  forall (U : link -> option token) (C : ctx) (n m : nat) (ds : desc) (inv : dlg), (n <= m)%nat ->
    count_verifies (snd (access U C n ds inv)) <= paths_weight U C m inv.
Proof. exact access_cost_any_fuel. Qed.
Print Assumptions C19_work_le_path_weight_any_fuel.

(* (b) whenever the path weight is within the quadratic bound, so is the work: sharing
   (a proof reached along several paths) and alternatives are the only source of a blow-up *)
Theorem C19_quadratic_if_weight :
  forall (U : link -> option token) (C : ctx) (n : nat) (ds : desc) (inv : dlg) (k : N),
    paths_weight U C n inv <= k * k + 2 ->
    count_verifies (snd (access U C n ds inv)) <= k * k + 2.
Proof. exact access_quadratic_if_weight. Qed.
Print Assumptions C19_quadratic_if_weight.

(* (a) forests: every issuer a did:key (or the authority), at most one capability per
   delegation, no delegation reached along two citation paths: at most |dom| + 1
   verifications, for any list dom containing the delegations reached *)
Theorem C19_forest_linear :
  forall (U : link -> option token) (C : ctx),
    (forall l t, U l = Some t -> direct_iss C t = true) ->
    (forall l t, U l = Some t -> (length (t_caps t) <= 1)%nat) ->
    forall (n : nat) (ds : desc) (inv : dlg) (dom : list link),
      NoDup (reach U C (pred n) inv) -> incl (reach U C (pred n) inv) dom ->
      count_verifies (snd (access U C n ds inv)) <= N.of_nat (length dom) + 1.
Proof. exact forest_linear. Qed.
Print Assumptions C19_forest_linear.

(* the same with the forest condition stated on the citations: the store is acyclic, no token
   lists a proof twice and no proof is cited by two different tokens *)
Theorem C19_cited_once_linear :
  forall (U : link -> option token) (C : ctx),
    (forall l p, resolve_proof C l = Some p -> d_link p = l) ->
    forall rank : link -> nat,
    (forall l t p, U l = Some t -> In p (t_prf t) -> (rank p < rank l)%nat) ->
    (forall l t, U l = Some t -> NoDup (t_prf t)) ->
    (forall l1 t1 l2 t2 p, U l1 = Some t1 -> U l2 = Some t2 ->
       In p (t_prf t1) -> In p (t_prf t2) -> l1 = l2) ->
    forall (n : nat) (ds : desc) (inv : dlg) (dom : list link),
      (forall l t, U l = Some t -> direct_iss C t = true) ->
      (forall l t, U l = Some t -> (length (t_caps t) <= 1)%nat) ->
      incl (reach U C (pred n) inv) dom ->
      count_verifies (snd (access U C n ds inv)) <= N.of_nat (length dom) + 1.
Proof. exact cited_once_linear. Qed.
Print Assumptions C19_cited_once_linear.

(* for a world given as a finite token list that passes the decidable forest certificate:
   verifications <= delegations + 1, within the quadratic bound of the property *)
Theorem C19_forest_world_linear :
  forall (w : wcase) (rank : link -> nat) (n : nat),
    forest_cert (wc_ctx w) rank (wc_tokens w) = true ->
    (forall l p, alookup l (wc_resolver w) = Some p -> d_link p = l) ->
    incl (reach (wc_U w) (wc_ctx w) (pred n) (wc_inv w)) (map fst (wc_tokens w)) ->
    verifications_at n w <= delegations w + 1.
Proof. exact forest_world_linear. Qed.
Print Assumptions C19_forest_world_linear.

(* ------------------------------------------------------------------ *)
(* chains, every depth                                                  *)

(* a chain of d single-capability delegations costs exactly d + 1 verifications, with a
   succeeding and with a failing root, for every depth; any fuel >= d + 2 suffices and the
   result is a verdict, not out-of-fuel *)
Theorem C19_chains_linear :
  forall (root_ok : bool) (d n : nat), (d + 2 <= n)%nat ->
    (if root_ok return Prop
     then exists a, fst (run_at n (chain root_ok d)) = AOk a
     else exists e, fst (run_at n (chain root_ok d)) = AErr e) /\
    verifications_at n (chain root_ok d) = N.of_nat d + 1.
Proof. exact chain_cost. Qed.
Print Assumptions C19_chains_linear.

(* with the fuel run_world uses (the correspondence runs): all depths it can handle *)
Theorem C19_chains_linear_run_world :
  forall (root_ok : bool) (d : nat), (d <= 38)%nat -> verifications (chain root_ok d) = N.of_nat d + 1.
Proof. exact chain_cost_run_world. Qed.
Print Assumptions C19_chains_linear_run_world.

(* ------------------------------------------------------------------ *)
(* layered DAGs, every width and depth (the negative half)              *)

(* geo w d = 1 + w + ... + w^d: V(0) = 1, V(d+1) = 1 + w * V(d) *)
Theorem C19_geo_recurrence : forall w d, geo w 0 = 1 /\ geo w (S d) = 1 + w * geo w d.
Proof. exact geo_recurrence. Qed.
Print Assumptions C19_geo_recurrence.
Theorem C19_geo_closed_form : forall w d, 2 <= w -> geo w d = (w ^ N.of_nat (S d) - 1) / (w - 1).
Proof. exact geo_div. Qed.
Print Assumptions C19_geo_closed_form.

(* d layers of w delegations, each citing the whole layer below, roots issued by a stranger:
   Access answers Unauthorized after exactly 1 + w + ... + w^d verifications *)
Theorem C19_layered_cost :
  forall (w d n : nat), (d + 2 <= n)%nat ->
    (exists e, fst (run_at n (lay_world false w d)) = AErr e) /\
    verifications_at n (lay_world false w d) = geo (N.of_nat w) d.
Proof. exact lay_fail_cost. Qed.
Print Assumptions C19_layered_cost.

(* the same proof sets with roots issued by the owner: the first path succeeds and the work
   is one verification per delegation *)
Theorem C19_layered_ok_linear :
  forall (w d n : nat), (1 <= w)%nat -> (d + 2 <= n)%nat ->
    (exists a, fst (run_at n (lay_world true w d)) = AOk a) /\
    verifications_at n (lay_world true w d) = delegations (lay_world true w d).
Proof. exact lay_ok_linear. Qed.
Print Assumptions C19_layered_ok_linear.

(* on this family the general bound is attained: work = path weight *)
Theorem C19_path_weight_attained :
  forall (w d n : nat), (d + 2 <= n)%nat ->
    verifications_at n (lay_world false w d) =
    paths_weight (wc_U (lay_world false w d)) (wc_ctx (lay_world false w d)) n (wc_inv (lay_world false w d)).
Proof. exact lay_weight_tight. Qed.
Print Assumptions C19_path_weight_attained.

(* the quadratic bound fails for EVERY width >= 2 from depth 10 on (delegations = w*d + 1) *)
Theorem C19_layered_exceeds_quadratic :
  forall (w d n : nat), (2 <= w)%nat -> (10 <= d)%nat -> (d + 2 <= n)%nat ->
    delegations (lay_world false w d) = N.of_nat (w * d + 1) /\
    delegations (lay_world false w d) * delegations (lay_world false w d) + 2
      < verifications_at n (lay_world false w d).
Proof. exact lay_exceeds_quadratic_full. Qed.
Print Assumptions C19_layered_exceeds_quadratic.

(* with run_world's own fuel: a refuting world for every width *)
Theorem C19_refuted_family : forall w : nat, (2 <= w)%nat -> exists d, ~ quadratic_bound (lay_world false w d).
Proof. exact refuted_family. Qed.
Print Assumptions C19_refuted_family.
