(* C19 — Validation work is bounded by the size of the proof set.
   The full statement is FALSE of the code (and of its model): refuted by a witness. *)
From Ucanto Require Import Base Pattern Time Validator Check_Validator ValidatorCost.
Open Scope N_scope.

(* full statement: for every world the number of signature verifications is at most
   quadratic in the number of distinct delegations carried *)
Definition C19_full : Prop := forall w : wcase, quadratic_bound w.

(* refuted: the layered DAG of width 3 and depth 5 (16 delegations) costs 364 verifications;
   the same count is observed on the implementation by the correspondence check *)
Theorem C19_refuted : ~ C19_full.
Proof. exact quadratic_bound_refuted. Qed.
Print Assumptions C19_refuted.

Theorem C19_witness : verifications (layered_world 3 5) = 364 /\ delegations (layered_world 3 5) = 16.
Proof. exact layered_3_5. Qed.
Print Assumptions C19_witness.

(* partial (finite instances, by computation): chains of 1..12 single-capability delegations
   cost exactly one verification per token, with succeeding and with failing roots *)
Theorem C19_chains_linear_partial :
  forallb (fun d => (verifications (chain_world d false) =? N.of_nat d + 1) &&
                    (verifications (chain_world d true) =? N.of_nat d + 1))
          (seq 1 12) = true.
Proof. exact chains_linear. Qed.
Print Assumptions C19_chains_linear_partial.
