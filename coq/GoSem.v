(* GoSem.v — the meaning of the tiny pure Go subset that verif-extract
   translates (harness/cmd/harness/extract.go).  Every translated term lives
   in the outcome monad so that slicing and dereferencing keep their panic
   semantics and && / || keep their short-circuit evaluation order. *)
From Ucanto Require Import Base.
Open Scope N_scope.

Class GoEq (A : Type) := goeq : A -> A -> bool.
#[global] Instance GoEq_bstr : GoEq bstr := beq.
#[global] Instance GoEq_Z : GoEq Z := Z.eqb.
#[global] Instance GoEq_bool : GoEq bool := Bool.eqb.

Definition ret {A} (a : A) : outcome A := Ret a.

Definition eqM {A} `{GoEq A} (a b : outcome A) : outcome bool :=
  bind a (fun x => bind b (fun y => Ret (goeq x y))).
Definition neqM {A} `{GoEq A} (a b : outcome A) : outcome bool :=
  fmap negb (eqM a b).
Definition notM (a : outcome bool) : outcome bool := fmap negb a.
Definition andM (a b : outcome bool) : outcome bool :=
  bind a (fun x => if x then b else Ret false).
Definition orM (a b : outcome bool) : outcome bool :=
  bind a (fun x => if x then Ret true else b).
Definition leM (a b : outcome Z) : outcome bool :=
  bind a (fun x => bind b (fun y => Ret (x <=? y)%Z)).
Definition ltM (a b : outcome Z) : outcome bool :=
  bind a (fun x => bind b (fun y => Ret (x <? y)%Z)).
Definition subM (a b : outcome Z) : outcome Z :=
  bind a (fun x => bind b (fun y => Ret (x - y)%Z)).
Definition addM (a b : outcome Z) : outcome Z :=
  bind a (fun x => bind b (fun y => Ret (x + y)%Z)).
Definition lenM (s : outcome bstr) : outcome Z :=
  fmap (fun s => Z.of_nat (length s)) s.
Definition sliceM (s : outcome bstr) (lo hi : outcome Z) : outcome bstr :=
  bind s (fun s' => bind lo (fun l => bind hi (fun h => slice s' l h))).
(* strings.HasPrefix(s, p) etc.: first argument is the subject *)
Definition prefixM (s p : outcome bstr) : outcome bool :=
  bind s (fun s' => bind p (fun p' => Ret (prefixb p' s'))).
Definition suffixM (s p : outcome bstr) : outcome bool :=
  bind s (fun s' => bind p (fun p' => Ret (suffixb p' s'))).
Definition containsM (s p : outcome bstr) : outcome bool :=
  bind s (fun s' => bind p (fun p' => Ret (containsb p' s'))).
(* pointers to integers: nil test and dereference *)
Definition isnilM {A} (p : outcome (option A)) : outcome bool :=
  fmap (fun o => match o with None => true | Some _ => false end) p.
Definition derefM {A} (p : outcome (option A)) : outcome A :=
  bind p (fun o => match o with Some v => Ret v | None => Panic site_nil end).

(* evaluate the monadic plumbing of a translated term *)
Ltac gosem := cbv [orM andM eqM neqM notM prefixM suffixM containsM sliceM lenM subM addM leM ltM
  isnilM derefM fmap ret goeq GoEq_bstr GoEq_Z GoEq_bool bind].
