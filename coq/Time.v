(* Time.v — ucan.IsExpired / ucan.IsTooEarly (ucan/lib.go). *)
From Ucanto Require Import Base.
From Coq Require Import ZifyBool.
Open Scope Z_scope.

(* IsExpired: exp != nil && *exp <= now *)
Definition is_expired (exp : option Z) (now : Z) : bool :=
  match exp with None => false | Some e => e <=? now end.

(* IsTooEarly: nbf != 0 && now <= nbf   (nbf = 0 means "not set") *)
Definition is_too_early (nbf now : Z) : bool := negb (nbf =? 0) && (now <=? nbf).

Definition in_window (exp : option Z) (nbf now : Z) : bool :=
  negb (is_expired exp now) && negb (is_too_early nbf now).

Lemma no_expiration_never_expires now : is_expired None now = false.
Proof. reflexivity. Qed.

Lemma expired_iff e now : is_expired (Some e) now = true <-> e <= now.
Proof. unfold is_expired. lia. Qed.

Lemma too_early_iff nbf now : is_too_early nbf now = true <-> nbf <> 0 /\ now <= nbf.
Proof. unfold is_too_early. lia. Qed.

(* strictly inside the window: never rejected for time reasons *)
Lemma inside_window exp nbf now :
  (match exp with None => True | Some e => now < e end) ->
  (nbf = 0 \/ nbf < now) -> in_window exp nbf now = true.
Proof.
  unfold in_window, is_expired, is_too_early. destruct exp as [e|]; intros H1 H2; lia.
Qed.

(* boundary seconds *)
Example boundary_exp now : is_expired (Some now) now = true.
Proof. unfold is_expired. lia. Qed.
Example boundary_exp_after now : is_expired (Some (now + 1)) now = false.
Proof. unfold is_expired. lia. Qed.
Example boundary_nbf now : now <> 0 -> is_too_early now now = true.
Proof. unfold is_too_early. lia. Qed.
Example boundary_nbf_before now : is_too_early (now - 1) now = false.
Proof. unfold is_too_early. lia. Qed.
