(* Check_ServerBytes.v — correspondence for ServerBytes.serve_bytes: the harness sends a batch
   through client.Execute over a channel that records the request BODY, and the same body, the
   sha2-256 digests of its blocks (go-multihash), the observed signature checks (key ids that
   accept each signature), the blocks the proof resolver knows, and what the server answered
   (receipts per execute-list entry, handler calls) are evaluated here:
     serve_bytes body  =?=  the answer,
   with NO token rendered by the harness: the tokens come out of the body's bytes. *)
From Ucanto Require Import Base Varint Ipld Cbor Formats Blockstore MessageFormat Cid Car BaseEnc DagJson Signing.
From Ucanto Require Import MessageBytes TokenBytes.
From Ucanto Require Import Check_Json.
From Ucanto Require Import Pattern Time Validator ValidatorSpec Check_Validator Server Check_Server TokenView Check_TokenView ServerBytes.
Open Scope N_scope.

Record sbcase := {
  sb_body : bstr;
  sb_digests : list (bstr * bstr);        (* block payload -> its sha2-256 digest *)
  sb_links : list (bstr * N);             (* CID bytes -> the number the world case gives that link *)
  sb_keys : list (N * bstr * bstr);       (* key id, DID bytes, algorithm name *)
  sb_sigs : list (bstr * list N);         (* signature bytes -> the key ids observed to accept them *)
  sb_ext : list (bstr * bstr);            (* blocks of the delegations the proof resolver can supply *)
  sb_case : bcase }.                      (* context, handlers and the observed answer (Check_Server) *)

Definition digest_of (tbl : list (bstr * bstr)) (code len : N) (data : bstr) : option bstr :=
  if (code =? 18) && (len =? 32) then slookup data tbl else None.

Definition valid_sigs (tbl : list (bstr * list N)) : N -> bstr -> bstr -> bool :=
  fun k _ s => match slookup s tbl with Some ks => existsb (N.eqb k) ks | None => false end.

(* world number -> the byte-level link number of the same CID *)
Definition renum_of (links : list (bstr * N)) (n : N) : link :=
  match find (fun e => snd e =? n) links with Some e => lid (fst e) | None => 0 end.

Definition renum_cval (r : N -> link) (v : cval) : cval := match v with VLink l => VLink (r l) | _ => v end.
Definition renum_cap (r : N -> link) (c : cap) : cap :=
  mkCap (can c) (wth c) (map (fun e => (fst e, renum_cval r (snd e))) (nb c)).

Definition renum_fx (r : N -> link) (fx : effects) : effects := (map r (fst fx), option_map r (snd fx)).

(* the validation context of the world with its link-valued parts renumbered *)
Definition ctx_bytes (r : N -> link) (w : wcase) : ctx :=
  let c := wc_ctx w in
  mkCtx (authority c) (can_issue c)
        (fun a => existsb (fun n => existsb (N.eqb (fst n)) (map r (wc_revoked w))) (path_of a))
        (fun l => match find (fun e => r (fst e) =? l) (wc_resolver w) with
                  | Some e => Some (mkDlg (r (d_link (snd e))) (map r (d_vis (snd e))))
                  | None => None end)
        (parse_principal c) (resolve_did_key c) (now c).

Definition sb_srv (c : sbcase) : server :=
  let b := sb_case c in
  mkServer (bc_server b) (ctx_bytes (renum_of (sb_links c)) (bc_world b))
    (map (fun e => mkHandler (fst e) (std_desc (fst e))
                     (fun _ => handler_result (map (fun x => (fst x, renum_fx (renum_of (sb_links c)) (snd x))) (bc_fx b)) e))
         (bc_handlers b)).

(* reading a block as a token, cheaply: DID strings from a table computed once per case file, the
   signing input examined only for the keys the signature table names *)
Definition sigv_sigs (ds : bstr -> bstr) (alg_of : N -> bstr) (sigs : list (bstr * list N)) (t : utoken) (k : N) : bool :=
  match slookup (u_s t) sigs with
  | Some ks => if existsb (N.eqb k) ks then signing_ok_with ds (alg_of k) t else false
  | None => false
  end.

Lemma sigv_sigs_eq ds alg_of sigs t k : (forall b, ds b = did_string b) ->
  sigv_sigs ds alg_of sigs t k = sig_valid (valid_sigs sigs) alg_of t k.
Proof.
  intros H. unfold sigv_sigs, sig_valid, valid_sigs, signing_ok_with, signing_input, sign_payload_opt.
  rewrite (signable_with_eq _ _ t H), (payload_ipld_with_eq ds t true H).
  destruct (slookup (u_s t) sigs) as [ks|].
  - destruct (existsb (N.eqb k) ks).
    + destruct (signable (alg_of k) t); cbn [andb]; [|reflexivity].
      destruct (json_encodable (payload_ipld t true)); reflexivity.
    + destruct (signable (alg_of k) t); cbn [andb]; [|reflexivity].
      destruct (json_encodable (payload_ipld t true)); reflexivity.
  - destruct (signable (alg_of k) t); cbn [andb]; [|reflexivity].
    destruct (json_encodable (payload_ipld t true)); reflexivity.
Qed.

Definition view_fast (tbl : list (bstr * bstr)) (keys : list N) (alg_of : N -> bstr) (sigs : list (bstr * list N)) (b : bstr) : token :=
  match token_decode_typed b with
  | Some t => view_token_with lid (memo_did tbl) keys (sigv_sigs (memo_did tbl) alg_of sigs) t
  | None => empty_token
  end.

(* it IS TokenView.view_block: the hypothesis `Hview` of the ServerBytes theorems *)
Theorem view_fast_eq dids keys alg_of sigs b :
  view_fast (did_table dids) keys alg_of sigs b = view_block lid keys (valid_sigs sigs) alg_of b.
Proof.
  unfold view_fast, view_block. destruct (token_decode_typed b) as [t|]; [|reflexivity].
  unfold view_token. apply view_token_with_ext.
  - intros x. apply memo_did_eq.
  - intros k. apply sigv_sigs_eq. intros x. apply memo_did_eq.
Qed.

Definition run_sb (tbl : list (bstr * bstr)) (c : sbcase) : served :=
  serve_bytes (digest_of (sb_digests c)) (fun _ => None) Check_Validator.fuel (sb_srv c) (sb_ext c)
              (view_fast tbl (key_ids (sb_keys c)) (alg_of_keys (sb_keys c)) (sb_sigs c)) (sb_body c).

(* 0 agreement; 1 whole-request outcome; 2 a receipt missing/unexpected; 3 receipt class;
   4 ran / issuer of a receipt; 5 handler calls; 6 number of receipts; 7 answered 400 although the
   request was served; 8 effects of a receipt (fork links in order, join); 9 fuel *)
Definition check_sb (tbl : list (bstr * bstr)) (c : sbcase) : N :=
  let b := sb_case c in
  let r := renum_of (sb_links c) in
  match run_sb tbl c with
  | SBad => if ob_exec_err b then 0 else 7
  | SDone ExecFuel => 9
  | SDone ExecErr => if ob_exec_err b then 0 else 1
  | SDone (ExecOk rep calls) =>
    if ob_exec_err b then 1 else
    let per := map (fun o =>
      match o with (l, found, cls, ran, iss) =>
        match rget (r l) rep with
        | None => if found then 2 else 0
        | Some rc => if negb found then 2
                     else if negb (rclass_eqb (rc_out rc) cls) then 3
                     else if negb ((rc_ran rc =? r ran) && beq (did_str (rc_iss rc)) iss) then 4 else 0
        end end) (ob_rcpts b) in
    match filter (fun x => negb (x =? 0)) per with
    | x :: _ => x
    | [] => if negb (multiset_eqb call_eqb calls (map (fun k => (fst k, renum_cap r (snd k))) (ob_calls b))) then 5
            else if negb (N.of_nat (length rep) =? ob_nreceipts b) then 6
            else if negb (check_fx rep (map (fun o => (r (fst o), renum_fx r (snd o))) (ob_fx b))) then 8 else 0
    end
  end.

Definition check_sbs (tbl : list (bstr * bstr)) (l : list sbcase) : list (N * N) :=
  filter_map (fun c => let x := check_sb tbl c in if x =? 0 then None else Some (wc_id (bc_world (sb_case c)), x)) l.
