(* ReceiptBytes.v — reading the receipt a report names, on ARBITRARY block bytes:

     receipt.NewReceipt(root, blocks, Receipt type)            core/receipt/receipt.go
       = blocks.Get(root); block.Decode(block, &ReceiptModel{}, typ, dag-cbor, sha2-256);
         "result has neither ok nor error"

   (ReceiptReader.Read and the client's use of message.Get + NewReceipt go through it.)  As
   TokenBytes.v does for UCAN root blocks: the dag-cbor decoder without the duplicate-key check
   followed by a matcher that mirrors what bindnode's assemblers accept for

       type Receipt struct { ocm Outcome  sig Bytes }
       type Outcome struct { ran Link  out Result  fx Effects  meta {String:Any}
                             iss optional String  prf [Link] }
       type Result  struct { ok optional Any  err optional Any (rename "error") }   ("err" is accepted too, see result_typed)
       type Effects struct { fork [Link]  join optional Link }

   * a struct must be a map; a key that is not a field is refused; a missing required field is
     refused; kinds are exact; nothing is nullable (null refused for join, iss, ok, error, the
     values of meta);
   * Any values (ok / error / meta values) are built by basicnode: a repeated key at any depth is
     refused (TokenBytes.nodup_deep);
   * `meta` is a typed map without duplicate check (TokenBytes.fact_typed);
   * a REPEATED KEY OF A STRUCT (Receipt, Outcome, Result, Effects) is outside the modelled domain:
     the matcher answers TUnm and the correspondence check skips the case (counted in the evidence).
     Nothing the library or a CAR-level alteration produces has one; the hand-written family has
     three to exercise the skip.
   The result is checked on every run against receipt.NewReceipt for every receipt a decoded body's
   report names (Check_Bytes.v, code 8), including the `rcpt:` family of hand-written root blocks. *)
From Coq Require Import Permutation.
From Ucanto Require Import Base Varint Ipld Cbor Formats Blockstore MessageFormat Cid Car MessageBytes TokenBytes ReceiptFormat.
Open Scope N_scope.

Inductive tri (A : Type) := TOk (a : A) | TBad | TUnm.
Arguments TOk {A} a. Arguments TBad {A}. Arguments TUnm {A}.

Definition tbind {A B} (x : tri A) (f : A -> tri B) : tri B :=
  match x with TOk a => f a | TBad => TBad | TUnm => TUnm end.
Definition of_opt {A} (o : option A) : tri A := match o with Some a => TOk a | None => TBad end.

Definition keys_within (allowed : list bstr) (es : list (bstr * ipld)) : bool :=
  forallb (fun kv => existsb (beq (fst kv)) allowed) es.

(* a struct: a map, no foreign key; a repeated key is not modelled *)
Definition as_struct (allowed : list bstr) (v : ipld) : tri (list (bstr * ipld)) :=
  match v with
  | IMap es => if negb (keys_within allowed es) then TBad
               else if nodupb (map fst es) then TOk es else TUnm
  | _ => TBad
  end.

Definition req {A} (k : bstr) (es : list (bstr * ipld)) (rd : ipld -> option A) : tri A :=
  of_opt (x <- slookup k es ;; rd x).
Definition opt {A} (k : bstr) (es : list (bstr * ipld)) (rd : ipld -> option A) : tri (option A) :=
  match slookup k es with None => TOk None | Some x => of_opt (y <- rd x ;; Some (Some y)) end.

Definition links_typed (v : ipld) : option (list bstr) := l <- as_list v ;; omap as_link l.

Definition effects_typed (v : ipld) : tri (list bstr * option bstr) :=
  tbind (as_struct [k_fork; k_join] v) (fun es =>
  tbind (req k_fork es links_typed) (fun fork =>
  tbind (opt k_join es as_link) (fun join => TOk (fork, join)))).

(* `err optional Any (rename "error")`: bindnode maps the representation key back to the field name
   and FALLS BACK TO THE KEY ITSELF when no field is renamed to it (inboundMappedKey), so the
   unrenamed name "err" is accepted as well — found by the correspondence check (rcpt:out-err-key-unrenamed).
   Both spellings at once assign the same field twice: not modelled. *)
Definition k_err := bs "err".
Definition result_typed (v : ipld) : tri (option ipld * option ipld) :=
  tbind (as_struct [k_ok; k_error; k_err] v) (fun es =>
  tbind (opt k_ok es as_any) (fun o =>
  tbind (opt k_error es as_any) (fun e =>
  tbind (opt k_err es as_any) (fun e' =>
  match e, e' with
  | Some _, Some _ => TUnm
  | Some x, None | None, Some x => TOk (o, Some x)
  | None, None => TOk (o, None)
  end)))).

(* the decoded model: the result may still have neither side *)
Record tout := mkTout {
  t_ran : bstr; t_okv : option ipld; t_errv : option ipld; t_fork : list bstr; t_join : option bstr;
  t_meta : list (bstr * ipld); t_iss : option bstr; t_prf : list bstr }.

Definition outcome_typed (v : ipld) : tri tout :=
  tbind (as_struct [k_ran; k_out; k_fx; k_meta; k_iss; k_prf] v) (fun es =>
  tbind (req k_ran es as_link) (fun ran =>
  tbind (match slookup k_out es with Some x => result_typed x | None => TBad end) (fun out =>
  tbind (match slookup k_fx es with Some x => effects_typed x | None => TBad end) (fun fx =>
  tbind (req k_meta es fact_typed) (fun meta =>
  tbind (opt k_iss es as_string) (fun iss =>
  tbind (req k_prf es links_typed) (fun prf =>
  TOk (mkTout ran (fst out) (snd out) (fst fx) (snd fx) meta iss prf)))))))).

Definition receipt_typed (v : ipld) : tri (tout * bstr) :=
  tbind (as_struct [k_ocm; k_sig] v) (fun es =>
  tbind (match slookup k_ocm es with Some x => outcome_typed x | None => TBad end) (fun o =>
  tbind (req k_sig es as_bytes) (fun s => TOk (o, s)))).

(* fromResultModel: ok first; NewReceipt refuses a result with neither side *)
Definition to_outcome (t : tout) : option outcome :=
  match t_okv t, t_errv t with
  | Some x, _ => Some (mkOcm (t_ran t) true x (t_fork t) (t_join t) (t_meta t) (t_iss t) (t_prf t))
  | None, Some x => Some (mkOcm (t_ran t) false x (t_fork t) (t_join t) (t_meta t) (t_iss t) (t_prf t))
  | None, None => None
  end.

Inductive rres :=
| ROk (r : rcpt)
| RMissing        (* "missing receipt root block" *)
| RBad            (* "decoding receipt": not dag-cbor, or not a Receipt *)
| RIntegrity      (* "data integrity error": the link is not CIDv1 / dag-cbor / sha2-256 of the bytes *)
| RNoResult       (* "result has neither ok nor error" *)
| RUnm.           (* a struct key repeats: not modelled *)

Section Read.
  Variable mh_digest : N -> N -> bstr -> option bstr.

  Definition read_receipt (s : bstore) (root : bstr) : rres :=
    match tbl_get s root with
    | None => RMissing
    | Some data =>
      match cbor_decode_all_t data with
      | None => RBad
      | Some v =>
        match receipt_typed v with
        | TBad => RBad
        | TUnm => RUnm
        | TOk (t, sg) =>
          if root_integrity mh_digest root data then
            match to_outcome t with Some o => ROk (mkRc o sg) | None => RNoResult end
          else RIntegrity
        end
      end
    end.

  (* the receipt the client obtains for an invocation: message.Get, then the reader *)
  Definition client_receipt (d : decoded) (inv : bstr) : option rres :=
    match get_bytes (d_msg d) inv with
    | Ret (Some rl) => Some (read_receipt (d_store d) rl)
    | _ => None
    end.
End Read.

(* ------------------------------------------------------------------ *)
(* what a successful read says, for EVERY store and link                *)

Section ReadFacts.
  Variable mh_digest : N -> N -> bstr -> option bstr.

  Theorem read_receipt_ok_inv s root r :
    read_receipt mh_digest s root = ROk r ->
    exists data v t,
      tbl_get s root = Some data /\ cbor_decode_all_t data = Some v /\
      receipt_typed v = TOk (t, r_sig r) /\ to_outcome t = Some (r_ocm r) /\
      root_integrity mh_digest root data = true.
  Proof.
    unfold read_receipt. destruct (tbl_get s root) as [data|] eqn:G; [|discriminate].
    destruct (cbor_decode_all_t data) as [v|] eqn:D; [|discriminate].
    destruct (receipt_typed v) as [[t sg]| |] eqn:RT; try discriminate.
    destruct (root_integrity mh_digest root data) eqn:I; [|discriminate].
    destruct (to_outcome t) as [o|] eqn:T; [|discriminate].
    intros E. inversion E. subst r. cbn [r_sig r_ocm]. exists data, v, t.
    split; [reflexivity|]. split; [exact D|]. split; [exact RT|]. split; [exact T|exact I].
  Qed.

  (* the bytes under the link decide the reading: two stores that bind the link to the same bytes
     read the same receipt, whatever else they hold *)
  Theorem read_receipt_bytes_decide s s' root :
    tbl_get s root = tbl_get s' root -> read_receipt mh_digest s root = read_receipt mh_digest s' root.
  Proof. unfold read_receipt. intros ->. reflexivity. Qed.

  Theorem read_receipt_missing s root : tbl_get s root = None -> read_receipt mh_digest s root = RMissing.
  Proof. unfold read_receipt. intros ->. reflexivity. Qed.

  (* a block whose bytes are not the sha2-256 / dag-cbor preimage of the link never reads as a receipt *)
  Theorem read_receipt_relabelled s root data :
    tbl_get s root = Some data -> root_integrity mh_digest root data = false ->
    forall r, read_receipt mh_digest s root <> ROk r.
  Proof.
    intros G I r H. destruct (read_receipt_ok_inv _ _ _ H) as [d [v [t [G' [_ [_ [_ I']]]]]]].
    rewrite G in G'. inversion G'. subst d. congruence.
  Qed.

  (* a receipt that was read has a result: exactly one side is reported, ok first *)
  Theorem read_receipt_has_result s root r :
    read_receipt mh_digest s root = ROk r ->
    exists t, to_outcome t = Some (r_ocm r) /\
      (if o_ok (r_ocm r) then t_okv t = Some (o_val (r_ocm r))
       else t_okv t = None /\ t_errv t = Some (o_val (r_ocm r))).
  Proof.
    intros H. destruct (read_receipt_ok_inv _ _ _ H) as [_ [_ [t [_ [_ [_ [T _]]]]]]].
    exists t. split; [exact T|]. unfold to_outcome in T.
    destruct (t_okv t) as [x|]; [inversion T; reflexivity|].
    destruct (t_errv t) as [x|]; [inversion T; cbn; auto | discriminate].
  Qed.

  (* the client's path: a receipt obtained for an invocation comes from the report and from the
     bytes the response binds to the reported link *)
  Theorem client_receipt_inv d inv r :
    client_receipt mh_digest d inv = Some (ROk r) ->
    exists rl data, get_bytes (d_msg d) inv = Ret (Some rl) /\ tbl_get (d_store d) rl = Some data /\
                    root_integrity mh_digest rl data = true.
  Proof.
    unfold client_receipt. destruct (get_bytes (d_msg d) inv) as [[rl|]| |] eqn:G; try discriminate.
    intros E. inversion E as [H]. destruct (read_receipt_ok_inv _ _ _ H) as [data [_ [_ [G' [_ [_ [_ I]]]]]]].
    exists rl, data. auto.
  Qed.

  Theorem client_receipt_total d inv :
    client_receipt mh_digest d inv = None \/ exists x, client_receipt mh_digest d inv = Some x.
  Proof. destruct (client_receipt mh_digest d inv); eauto. Qed.
End ReadFacts.

(* ------------------------------------------------------------------ *)
(* on the encoder's output the typed matcher is the reader of ReceiptFormat.v:                     *)
(* a receipt the library can issue reads back as itself (canonical form)                           *)

Lemma keys_within_perm allowed (a b : list (bstr * ipld)) : Permutation a b -> keys_within allowed a = keys_within allowed b.
Proof.
  intros P. unfold keys_within. destruct (forallb _ b) eqn:B.
  - rewrite forallb_forall in *. intros x Hx. apply B. eapply Permutation_in; eauto.
  - destruct (forallb _ a) eqn:A; [|reflexivity]. rewrite <- B. symmetry.
    rewrite forallb_forall in *. intros x Hx. apply A. eapply Permutation_in; [symmetry|]; eauto.
Qed.

Lemma as_struct_canon allowed m :
  keys_within allowed m = true -> NoDup (map fst m) ->
  exists es, as_struct allowed (canon (IMap m)) = TOk es /\
             forall k, slookup k es = option_map canon (slookup k m).
Proof.
  intros K ND. exists (sort_map (map (on_snd canon) m)). split.
  - rewrite canon_map_eq. unfold as_struct.
    rewrite (keys_within_perm allowed _ _ (sort_map_perm _)).
    assert (K' : keys_within allowed (map (on_snd canon) m) = true).
    { unfold keys_within in *. rewrite forallb_forall in *. intros x Hx. apply in_map_iff in Hx.
      destruct Hx as [[k v] [<- Hin]]. exact (K _ Hin). }
    rewrite K'. cbn [negb].
    assert (N : nodupb (map fst (sort_map (map (on_snd canon) m))) = true).
    { apply nodupb_NoDup. eapply Permutation_NoDup; [apply Permutation_map; symmetry; apply sort_map_perm|].
      rewrite map_fst_on_snd. exact ND. }
    rewrite N. reflexivity.
  - intros k. pose proof (map_get_canon_top k m ND) as H. rewrite canon_map_eq in H. exact H.
Qed.

Lemma links_typed_canon l : links_typed (canon (IList (map ILink l))) = Some l.
Proof. unfold links_typed. cbn [canon as_list obind]. apply links_roundtrip. Qed.

Lemma effects_typed_canon fork join :
  effects_typed (canon (struct_map [field k_fork (IList (map ILink fork)); opt_field k_join (option_map ILink join)]))
  = TOk (fork, join).
Proof.
  unfold struct_map.
  set (m := concat [field k_fork (IList (map ILink fork)); opt_field k_join (option_map ILink join)]).
  assert (K : keys_within [k_fork; k_join] m = true) by (destruct join; reflexivity).
  assert (ND : NoDup (map fst m)).
  { destruct join; cbn; repeat constructor; cbn; intuition discriminate. }
  destruct (as_struct_canon _ _ K ND) as [es [E L]].
  unfold effects_typed. rewrite E. cbn [tbind]. unfold req, opt. rewrite !L.
  assert (F : slookup k_fork m = Some (IList (map ILink fork))) by (destruct join; reflexivity).
  rewrite F. cbn [option_map obind]. rewrite links_typed_canon. cbn [of_opt tbind].
  destruct join as [j|].
  - assert (J : slookup k_join m = Some (ILink j)) by reflexivity. rewrite J. reflexivity.
  - assert (J : slookup k_join m = None) by reflexivity. rewrite J. reflexivity.
Qed.

Lemma result_typed_canon (okk : bool) val :
  wf_ipld val = true -> is_null val = false ->
  result_typed (canon (IMap [((if okk then k_ok else k_error), val)]))
  = TOk (if okk then (Some (canon val), None) else (None, Some (canon val))).
Proof.
  intros W N.
  set (m := [((if okk then k_ok else k_error), val)]).
  assert (K : keys_within [k_ok; k_error; k_err] m = true) by (destruct okk; reflexivity).
  assert (ND : NoDup (map fst m)) by (cbn; repeat constructor; cbn; intuition).
  destruct (as_struct_canon _ _ K ND) as [es [E L]].
  unfold result_typed. rewrite E. cbn [tbind]. unfold opt. rewrite !L.
  destruct okk.
  - assert (A : slookup k_ok m = Some val) by reflexivity.
    assert (B : slookup k_error m = None) by reflexivity.
    assert (C : slookup k_err m = None) by reflexivity.
    rewrite A, B, C. cbn [option_map]. rewrite (as_any_canon _ W N). reflexivity.
  - assert (A : slookup k_ok m = None) by reflexivity.
    assert (B : slookup k_error m = Some val) by reflexivity.
    assert (C : slookup k_err m = None) by reflexivity.
    rewrite A, B, C. cbn [option_map]. rewrite (as_any_canon _ W N). reflexivity.
Qed.

Definition tout_of (o : outcome) : tout :=
  mkTout (o_ran o) (if o_ok o then Some (o_val o) else None) (if o_ok o then None else Some (o_val o))
         (o_fork o) (o_join o) (o_meta o) (o_iss o) (o_prf o).

Lemma to_outcome_tout_of o : to_outcome (tout_of o) = Some o.
Proof. destruct o as [ran okk val fork join meta iss prf]. destruct okk; reflexivity. Qed.

(* what receipt.Issue can produce: a present, well-formed result value; well-formed, distinct meta entries *)
Definition outcome_typed_ok (o : outcome) : bool :=
  negb (is_null (o_val o)) && wf_ipld (o_val o) && fact_typed_ok (o_meta o).

Lemma outcome_typed_canon o :
  outcome_typed_ok o = true -> outcome_typed (canon (outcome_ipld o)) = TOk (tout_of (canon_outcome o)).
Proof.
  unfold outcome_typed_ok. rewrite !andb_true_iff, negb_true_iff. intros [[N W] FM].
  destruct o as [ran okk val fork join meta iss prf].
  cbn [o_val o_meta] in N, W, FM.
  unfold outcome_ipld, struct_map. cbn [o_ran o_ok o_val o_fork o_join o_meta o_iss o_prf].
  set (vout := IMap [((if okk then k_ok else k_error), val)]).
  set (vfx := IMap (concat [field k_fork (IList (map ILink fork)); opt_field k_join (option_map ILink join)])).
  set (m := concat [field k_ran (ILink ran); field k_out vout; field k_fx vfx; field k_meta (IMap meta);
                    opt_field k_iss (option_map IString iss); field k_prf (IList (map ILink prf))]).
  assert (K : keys_within [k_ran; k_out; k_fx; k_meta; k_iss; k_prf] m = true) by (destruct iss; reflexivity).
  assert (ND : NoDup (map fst m)).
  { destruct iss; cbn; repeat constructor; cbn; intuition discriminate. }
  destruct (as_struct_canon _ _ K ND) as [es [E L]].
  unfold outcome_typed. rewrite E. cbn [tbind]. unfold req, opt. rewrite !L.
  assert (A1 : slookup k_ran m = Some (ILink ran)) by (destruct iss; reflexivity).
  assert (A2 : slookup k_out m = Some vout) by (destruct iss; reflexivity).
  assert (A3 : slookup k_fx m = Some vfx) by (destruct iss; reflexivity).
  assert (A4 : slookup k_meta m = Some (IMap meta)) by (destruct iss; reflexivity).
  assert (A5 : slookup k_iss m = option_map IString iss) by (destruct iss; reflexivity).
  assert (A6 : slookup k_prf m = Some (IList (map ILink prf))) by (destruct iss; reflexivity).
  rewrite A1, A2, A3, A4, A5, A6. cbn [option_map].
  subst vout vfx.
  change (canon (ILink ran)) with (ILink ran).
  cbn [as_link obind of_opt tbind].
  rewrite (result_typed_canon okk val W N). cbn [tbind].
  change (IMap (concat [field k_fork (IList (map ILink fork)); opt_field k_join (option_map ILink join)]))
    with (struct_map [field k_fork (IList (map ILink fork)); opt_field k_join (option_map ILink join)]).
  rewrite effects_typed_canon. cbn [tbind obind].
  rewrite (fact_typed_canon meta FM). cbn [tbind obind of_opt].
  unfold tout_of, canon_outcome. cbn [o_ran o_ok o_val o_fork o_join o_meta o_iss o_prf].
  destruct iss as [i|]; cbn [option_map];
    [change (canon (IString i)) with (IString i)|]; cbn [as_string obind of_opt tbind];
    rewrite links_typed_canon; cbn [of_opt tbind]; destruct okk; reflexivity.
Qed.

Definition rcpt_typed_ok (r : rcpt) : bool := outcome_typed_ok (r_ocm r).

Theorem receipt_typed_canon r :
  rcpt_typed_ok r = true ->
  receipt_typed (canon (receipt_ipld r)) = TOk (tout_of (canon_outcome (r_ocm r)), r_sig r).
Proof.
  intros OK. destruct r as [o sg]. unfold rcpt_typed_ok in OK. cbn [r_ocm r_sig] in *.
  unfold receipt_ipld, struct_map. cbn [r_ocm r_sig].
  set (vo := outcome_ipld o).
  set (m := concat [field k_ocm vo; field k_sig (IBytes sg)]).
  assert (K : keys_within [k_ocm; k_sig] m = true) by reflexivity.
  assert (ND : NoDup (map fst m)) by (cbn; repeat constructor; cbn; intuition discriminate).
  destruct (as_struct_canon _ _ K ND) as [es [E L]].
  unfold receipt_typed. rewrite E. cbn [tbind]. unfold req. rewrite !L.
  assert (A1 : slookup k_ocm m = Some vo) by reflexivity.
  assert (A2 : slookup k_sig m = Some (IBytes sg)) by reflexivity.
  rewrite A1, A2. cbn [option_map]. subst vo. rewrite (outcome_typed_canon o OK).
  reflexivity.
Qed.

Section RoundTrip.
  Variable mh_digest : N -> N -> bstr -> option bstr.

  Lemma decode_t_encode v : wf_ipld v = true -> in_budget v = true -> cbor_decode_all_t (cbor_encode v) = Some (canon v).
  Proof. intros W B. apply cbor_decode_all_t_of_checked. apply cbor_roundtrip; assumption. Qed.

  (* a receipt the library can issue, filed under the link of its bytes, reads back as itself (canonical form) *)
  Theorem read_receipt_roundtrip s root r :
    wf_ipld (receipt_ipld r) = true -> in_budget (receipt_ipld r) = true -> rcpt_typed_ok r = true ->
    tbl_get s root = Some (receipt_bytes r) -> root_integrity mh_digest root (receipt_bytes r) = true ->
    read_receipt mh_digest s root = ROk (canon_rcpt r).
  Proof.
    intros W B OK G I. unfold read_receipt. rewrite G. unfold receipt_bytes in *.
    rewrite (decode_t_encode _ W B). rewrite (receipt_typed_canon r OK). rewrite I.
    rewrite to_outcome_tout_of. reflexivity.
  Qed.

  (* ... and so does the client's lookup for the invocation the report files it under *)
  Theorem client_receipt_roundtrip d inv rl r :
    get_bytes (d_msg d) inv = Ret (Some rl) ->
    wf_ipld (receipt_ipld r) = true -> in_budget (receipt_ipld r) = true -> rcpt_typed_ok r = true ->
    tbl_get (d_store d) rl = Some (receipt_bytes r) -> root_integrity mh_digest rl (receipt_bytes r) = true ->
    client_receipt mh_digest d inv = Some (ROk (canon_rcpt r)).
  Proof.
    intros G W B OK T I. unfold client_receipt. rewrite G. f_equal.
    apply read_receipt_roundtrip; assumption.
  Qed.

  (* C10 through the reader: a receipt that verifies is read back as a receipt that verifies *)
  Variable valid : N -> bstr -> bstr -> bool.
  Theorem read_back_verifies k s root r :
    wf_ipld (receipt_ipld r) = true -> in_budget (receipt_ipld r) = true -> rcpt_typed_ok r = true ->
    tbl_get s root = Some (receipt_bytes r) -> root_integrity mh_digest root (receipt_bytes r) = true ->
    verify_receipt valid k r = true ->
    exists r', read_receipt mh_digest s root = ROk r' /\ verify_receipt valid k r' = true /\ r_sig r' = r_sig r.
  Proof.
    intros W B OK G I V. exists (canon_rcpt r). split; [apply read_receipt_roundtrip; assumption|].
    split; [apply receipt_verifies_after_transport; exact V | reflexivity].
  Qed.
End RoundTrip.

(* non-vacuity: a concrete receipt under the toy digest meets every hypothesis and reads back *)
Definition exr : rcpt :=
  mkRc (mkOcm ex_link true (IMap [(bs "n", IInt 7)]) [ex_link] (Some ex_link) [(bs "a", IInt 1)] (Some (bs "did:key:z6Mk")) [ex_link])
       [237; 161; 3; 1; 9].
Definition exr_data : bstr := receipt_bytes exr.
Definition exr_root : bstr := cidv1 113 (mh_encode 18 (match toy_digest 18 32 exr_data with Some d => d | None => [] end)).
Example exr_hyps :
  wf_ipld (receipt_ipld exr) = true /\ in_budget (receipt_ipld exr) = true /\ rcpt_typed_ok exr = true /\
  tbl_get (tbl_of [ex_b1; (exr_root, exr_data)]) exr_root = Some (receipt_bytes exr) /\
  root_integrity toy_digest exr_root (receipt_bytes exr) = true.
Proof. vm_compute. repeat split; reflexivity. Qed.
Example exr_reads : read_receipt toy_digest (tbl_of [ex_b1; (exr_root, exr_data)]) exr_root = ROk (canon_rcpt exr).
Proof. vm_compute. reflexivity. Qed.
(* ... and the decision logic on altered blocks *)
Example exr_decisions :
  read_receipt toy_digest (tbl_of [ex_b1]) exr_root = RMissing /\
  read_receipt toy_digest (tbl_of [(exr_root, firstn 20 exr_data)]) exr_root = RBad /\
  read_receipt toy_digest (tbl_of [(ex_link, exr_data)]) ex_link = RIntegrity /\
  read_receipt toy_digest (tbl_of [(exr_root, cbor_encode (IMap []))]) exr_root = RBad.
Proof. vm_compute. repeat split; reflexivity. Qed.
