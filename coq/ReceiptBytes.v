(* ReceiptBytes.v — reading the receipt a report names, on ARBITRARY block bytes:

     receipt.NewReceipt(root, blocks, Receipt type)            core/receipt/receipt.go
       = blocks.Get(root); block.Decode(block, &ReceiptModel{}, typ, dag-cbor, sha2-256);
         "result has neither ok nor error"

   (ReceiptReader.Read and the client's use of message.Get + NewReceipt go through it.)  As
   TokenBytes.v does for UCAN root blocks: the dag-cbor decoder without the duplicate-key check
   followed by a matcher that mirrors what bindnode's assemblers accept for

       type Receipt struct { ocm Outcome  sig Bytes }
       type Outcome struct { ran Link  out Result  fx Effects  meta {String:Any}
                             iss optional String  prf [Link] }
       type Result  struct { ok optional Any  err optional Any (rename "error") }   ("err" is accepted too, see result_typed)
       type Effects struct { fork [Link]  join optional Link }

   * a struct must be a map; a key that is not a field is refused; a missing required field is
     refused; kinds are exact; nothing is nullable (null refused for join, iss, ok, error, the
     values of meta);
   * Any values (ok / error / meta values) are built by basicnode: a repeated key at any depth is
     refused (TokenBytes.nodup_deep);
   * `meta` is a typed map without duplicate check (TokenBytes.fact_typed);
   * a REPEATED KEY OF A STRUCT (Receipt, Outcome, Result, Effects) is outside the modelled domain:
     the matcher answers TUnm and the correspondence check skips the case (counted in the evidence).
     Nothing the library or a CAR-level alteration produces has one; the hand-written family has
     three to exercise the skip.
   The result is checked on every run against receipt.NewReceipt for every receipt a decoded body's
   report names (Check_Bytes.v, code 8), including the `rcpt:` family of hand-written root blocks. *)
From Ucanto Require Import Base Varint Ipld Cbor Formats Blockstore MessageFormat Cid Car MessageBytes TokenBytes ReceiptFormat.
Open Scope N_scope.

Inductive tri (A : Type) := TOk (a : A) | TBad | TUnm.
Arguments TOk {A} a. Arguments TBad {A}. Arguments TUnm {A}.

Definition tbind {A B} (x : tri A) (f : A -> tri B) : tri B :=
  match x with TOk a => f a | TBad => TBad | TUnm => TUnm end.
Definition of_opt {A} (o : option A) : tri A := match o with Some a => TOk a | None => TBad end.

Definition keys_within (allowed : list bstr) (es : list (bstr * ipld)) : bool :=
  forallb (fun kv => existsb (beq (fst kv)) allowed) es.

(* a struct: a map, no foreign key; a repeated key is not modelled *)
Definition as_struct (allowed : list bstr) (v : ipld) : tri (list (bstr * ipld)) :=
  match v with
  | IMap es => if negb (keys_within allowed es) then TBad
               else if nodupb (map fst es) then TOk es else TUnm
  | _ => TBad
  end.

Definition req {A} (k : bstr) (es : list (bstr * ipld)) (rd : ipld -> option A) : tri A :=
  of_opt (x <- slookup k es ;; rd x).
Definition opt {A} (k : bstr) (es : list (bstr * ipld)) (rd : ipld -> option A) : tri (option A) :=
  match slookup k es with None => TOk None | Some x => of_opt (y <- rd x ;; Some (Some y)) end.

Definition links_typed (v : ipld) : option (list bstr) := l <- as_list v ;; omap as_link l.

Definition effects_typed (v : ipld) : tri (list bstr * option bstr) :=
  tbind (as_struct [k_fork; k_join] v) (fun es =>
  tbind (req k_fork es links_typed) (fun fork =>
  tbind (opt k_join es as_link) (fun join => TOk (fork, join)))).

(* `err optional Any (rename "error")`: bindnode maps the representation key back to the field name
   and FALLS BACK TO THE KEY ITSELF when no field is renamed to it (inboundMappedKey), so the
   unrenamed name "err" is accepted as well — found by the correspondence check (rcpt:out-err-key-unrenamed).
   Both spellings at once assign the same field twice: not modelled. *)
Definition k_err := bs "err".
Definition result_typed (v : ipld) : tri (option ipld * option ipld) :=
  tbind (as_struct [k_ok; k_error; k_err] v) (fun es =>
  tbind (opt k_ok es as_any) (fun o =>
  tbind (opt k_error es as_any) (fun e =>
  tbind (opt k_err es as_any) (fun e' =>
  match e, e' with
  | Some _, Some _ => TUnm
  | Some x, None | None, Some x => TOk (o, Some x)
  | None, None => TOk (o, None)
  end)))).

(* the decoded model: the result may still have neither side *)
Record tout := mkTout {
  t_ran : bstr; t_okv : option ipld; t_errv : option ipld; t_fork : list bstr; t_join : option bstr;
  t_meta : list (bstr * ipld); t_iss : option bstr; t_prf : list bstr }.

Definition outcome_typed (v : ipld) : tri tout :=
  tbind (as_struct [k_ran; k_out; k_fx; k_meta; k_iss; k_prf] v) (fun es =>
  tbind (req k_ran es as_link) (fun ran =>
  tbind (match slookup k_out es with Some x => result_typed x | None => TBad end) (fun out =>
  tbind (match slookup k_fx es with Some x => effects_typed x | None => TBad end) (fun fx =>
  tbind (req k_meta es fact_typed) (fun meta =>
  tbind (opt k_iss es as_string) (fun iss =>
  tbind (req k_prf es links_typed) (fun prf =>
  TOk (mkTout ran (fst out) (snd out) (fst fx) (snd fx) meta iss prf)))))))).

Definition receipt_typed (v : ipld) : tri (tout * bstr) :=
  tbind (as_struct [k_ocm; k_sig] v) (fun es =>
  tbind (match slookup k_ocm es with Some x => outcome_typed x | None => TBad end) (fun o =>
  tbind (req k_sig es as_bytes) (fun s => TOk (o, s)))).

(* fromResultModel: ok first; NewReceipt refuses a result with neither side *)
Definition to_outcome (t : tout) : option outcome :=
  match t_okv t, t_errv t with
  | Some x, _ => Some (mkOcm (t_ran t) true x (t_fork t) (t_join t) (t_meta t) (t_iss t) (t_prf t))
  | None, Some x => Some (mkOcm (t_ran t) false x (t_fork t) (t_join t) (t_meta t) (t_iss t) (t_prf t))
  | None, None => None
  end.

Inductive rres :=
| ROk (r : rcpt)
| RMissing        (* "missing receipt root block" *)
| RBad            (* "decoding receipt": not dag-cbor, or not a Receipt *)
| RIntegrity      (* "data integrity error": the link is not CIDv1 / dag-cbor / sha2-256 of the bytes *)
| RNoResult       (* "result has neither ok nor error" *)
| RUnm.           (* a struct key repeats: not modelled *)

Section Read.
  Variable mh_digest : N -> N -> bstr -> option bstr.

  Definition read_receipt (s : bstore) (root : bstr) : rres :=
    match tbl_get s root with
    | None => RMissing
    | Some data =>
      match cbor_decode_all_t data with
      | None => RBad
      | Some v =>
        match receipt_typed v with
        | TBad => RBad
        | TUnm => RUnm
        | TOk (t, sg) =>
          if root_integrity mh_digest root data then
            match to_outcome t with Some o => ROk (mkRc o sg) | None => RNoResult end
          else RIntegrity
        end
      end
    end.

  (* the receipt the client obtains for an invocation: message.Get, then the reader *)
  Definition client_receipt (d : decoded) (inv : bstr) : option rres :=
    match get_bytes (d_msg d) inv with
    | Ret (Some rl) => Some (read_receipt (d_store d) rl)
    | _ => None
    end.
End Read.

(* ------------------------------------------------------------------ *)
(* what a successful read says, for EVERY store and link                *)

Section ReadFacts.
  Variable mh_digest : N -> N -> bstr -> option bstr.

  Theorem read_receipt_ok_inv s root r :
    read_receipt mh_digest s root = ROk r ->
    exists data v t,
      tbl_get s root = Some data /\ cbor_decode_all_t data = Some v /\
      receipt_typed v = TOk (t, r_sig r) /\ to_outcome t = Some (r_ocm r) /\
      root_integrity mh_digest root data = true.
  Proof.
    unfold read_receipt. destruct (tbl_get s root) as [data|] eqn:G; [|discriminate].
    destruct (cbor_decode_all_t data) as [v|] eqn:D; [|discriminate].
    destruct (receipt_typed v) as [[t sg]| |] eqn:RT; try discriminate.
    destruct (root_integrity mh_digest root data) eqn:I; [|discriminate].
    destruct (to_outcome t) as [o|] eqn:T; [|discriminate].
    intros E. inversion E. subst r. cbn [r_sig r_ocm]. exists data, v, t.
    split; [reflexivity|]. split; [exact D|]. split; [exact RT|]. split; [exact T|exact I].
  Qed.

  (* the bytes under the link decide the reading: two stores that bind the link to the same bytes
     read the same receipt, whatever else they hold *)
  Theorem read_receipt_bytes_decide s s' root :
    tbl_get s root = tbl_get s' root -> read_receipt mh_digest s root = read_receipt mh_digest s' root.
  Proof. unfold read_receipt. intros ->. reflexivity. Qed.

  Theorem read_receipt_missing s root : tbl_get s root = None -> read_receipt mh_digest s root = RMissing.
  Proof. unfold read_receipt. intros ->. reflexivity. Qed.

  (* a block whose bytes are not the sha2-256 / dag-cbor preimage of the link never reads as a receipt *)
  Theorem read_receipt_relabelled s root data :
    tbl_get s root = Some data -> root_integrity mh_digest root data = false ->
    forall r, read_receipt mh_digest s root <> ROk r.
  Proof.
    intros G I r H. destruct (read_receipt_ok_inv _ _ _ H) as [d [v [t [G' [_ [_ [_ I']]]]]]].
    rewrite G in G'. inversion G'. subst d. congruence.
  Qed.

  (* a receipt that was read has a result: exactly one side is reported, ok first *)
  Theorem read_receipt_has_result s root r :
    read_receipt mh_digest s root = ROk r ->
    exists t, to_outcome t = Some (r_ocm r) /\
      (if o_ok (r_ocm r) then t_okv t = Some (o_val (r_ocm r))
       else t_okv t = None /\ t_errv t = Some (o_val (r_ocm r))).
  Proof.
    intros H. destruct (read_receipt_ok_inv _ _ _ H) as [_ [_ [t [_ [_ [_ [T _]]]]]]].
    exists t. split; [exact T|]. unfold to_outcome in T.
    destruct (t_okv t) as [x|]; [inversion T; reflexivity|].
    destruct (t_errv t) as [x|]; [inversion T; cbn; auto | discriminate].
  Qed.

  (* the client's path: a receipt obtained for an invocation comes from the report and from the
     bytes the response binds to the reported link *)
  Theorem client_receipt_inv d inv r :
    client_receipt mh_digest d inv = Some (ROk r) ->
    exists rl data, get_bytes (d_msg d) inv = Ret (Some rl) /\ tbl_get (d_store d) rl = Some data /\
                    root_integrity mh_digest rl data = true.
  Proof.
    unfold client_receipt. destruct (get_bytes (d_msg d) inv) as [[rl|]| |] eqn:G; try discriminate.
    intros E. inversion E as [H]. destruct (read_receipt_ok_inv _ _ _ H) as [data [_ [_ [G' [_ [_ [_ I]]]]]]].
    exists rl, data. auto.
  Qed.

  Theorem client_receipt_total d inv :
    client_receipt mh_digest d inv = None \/ exists x, client_receipt mh_digest d inv = Some x.
  Proof. destruct (client_receipt mh_digest d inv); eauto. Qed.
End ReadFacts.
