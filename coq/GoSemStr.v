(* GoSemStr.v — meaning of the additional Go forms translated by
   harness/cmd/harness/extract_accept.go (generator "Accept2"):

     strings.Split(s, "c")             splitM s c        (one-byte separator literal)
     x, _, _ := strings.Cut(s, "c")    cutM s c          (one-byte separator literal)
     strings.Trim(s, "cutset")         trimM s cutset    (ASCII cutset literal)
     for _, x := range L { B }; REST   rangeM L (fun x => B') REST
        where the body B consists of assignments and `if c { return e }` only;
        B' evaluates to  Some v  when the body returns v and to  None  when
        control reaches the end of the body (next iteration).

   Like GoSem.v everything lives in the outcome monad. *)
From Ucanto Require Import Base GoSem Strs.
Open Scope N_scope.

Definition splitM (s : outcome bstr) (c : N) : outcome (list bstr) :=
  fmap (split_byte c) s.
Definition cutM (s : outcome bstr) (c : N) : outcome bstr :=
  fmap (cut_byte c) s.
Definition trimM (s : outcome bstr) (cs : bstr) : outcome bstr :=
  fmap (trim_set cs) s.

Fixpoint range_loop {A B} (l : list A) (body : A -> outcome (option B)) (rest : outcome B) : outcome B :=
  match l with
  | [] => rest
  | x :: l' => bind (body x) (fun r => match r with Some v => Ret v | None => range_loop l' body rest end)
  end.

Definition rangeM {A B} (l : outcome (list A)) (body : A -> outcome (option B)) (rest : outcome B) : outcome B :=
  bind l (fun l' => range_loop l' body rest).

(* inside a loop body: `return e` and falling off the end *)
Definition returnM {B} (e : outcome B) : outcome (option B) := fmap Some e.
Definition continueM {B} : outcome (option B) := Ret None.

(* the search-loop shape: return true at the first element satisfying f, else false *)
Lemma range_loop_existsb {A} (f : A -> bool) (l : list A) :
  range_loop l (fun x => if f x then Ret (Some true) else Ret None) (Ret false) = Ret (existsb f l).
Proof.
  induction l as [|x l IH]; [reflexivity|].
  cbn [range_loop existsb]. destruct (f x); cbn [bind orb]; [reflexivity | exact IH].
Qed.

Lemma range_loop_ext {A B} (l : list A) (b1 b2 : A -> outcome (option B)) rest :
  (forall x, b1 x = b2 x) -> range_loop l b1 rest = range_loop l b2 rest.
Proof.
  intros H. induction l as [|x l IH]; [reflexivity|].
  cbn [range_loop]. rewrite H, IH. reflexivity.
Qed.
