(* LinkId.v — links are numbered by an injective function of the CID bytes (MessageBytes.bstr_code),
   so nothing about the numbering is assumed.  (Split out of ServerBytes.v so that LinkIntegrity.v —
   the dag-cbor / sha2-256 binding of a token's fields to its link — can come before it.) *)
From Ucanto Require Import Base MessageBytes Validator.
Open Scope N_scope.

Definition lid : bstr -> link := bstr_code.

Lemma lid_inj a b : lid a = lid b -> a = b.
Proof. apply bstr_code_inj. Qed.
