(* C09 — One receipt per invocation, under any schedule. *)
From Ucanto Require Import Base Pattern Time Validator ValidatorSpec Conc Server.
From Coq Require Import Permutation.

(* For every batch (any execute list, duplicates included), every outcome mix and EVERY order
   sigma in which the per-invocation goroutines append their receipts (any permutation):
   the report maps each distinct invocation link of the request to the receipt of exactly
   that invocation (ran = that link), issued by the server and produced by Run of that
   invocation; links not in the request have no entry; keys are distinct; there are as many
   entries as distinct invocations. *)
Theorem C09_one_each : forall U fuel srv vis exec sigma rep calls,
  (forall rs, Permutation rs (sigma rs)) ->
  execute_sched U fuel srv vis exec sigma = ExecOk rep calls ->
  (forall l, In l exec ->
     exists r cs, rget l rep = Some r /\ rc_ran r = l /\ rc_iss r = s_id srv /\
                  Server.run U fuel srv (mkDlg l vis) = Some (r, cs)) /\
  (forall l, ~ In l exec -> rget l rep = None) /\
  NoDup (map fst rep) /\ length rep = length (dedupe [] exec).
Proof. exact execute_one_receipt_each. Qed.
Print Assumptions C09_one_each.

(* the response, as a map, does not depend on the interleaving *)
Theorem C09_schedule_independent : forall U fuel srv vis exec sigma1 sigma2 rep1 rep2 c1 c2,
  (forall rs, Permutation rs (sigma1 rs)) -> (forall rs, Permutation rs (sigma2 rs)) ->
  execute_sched U fuel srv vis exec sigma1 = ExecOk rep1 c1 ->
  execute_sched U fuel srv vis exec sigma2 = ExecOk rep2 c2 ->
  forall l, rget l rep1 = rget l rep2.
Proof. exact execute_schedule_independent. Qed.
Print Assumptions C09_schedule_independent.

(* in particular the class and the EFFECTS (fork links in order, join) of the receipt filed under
   each invocation do not depend on the interleaving *)
Theorem C09_effects_schedule_independent : forall U fuel srv vis exec sigma1 sigma2 rep1 rep2 c1 c2,
  (forall rs, Permutation rs (sigma1 rs)) -> (forall rs, Permutation rs (sigma2 rs)) ->
  execute_sched U fuel srv vis exec sigma1 = ExecOk rep1 c1 ->
  execute_sched U fuel srv vis exec sigma2 = ExecOk rep2 c2 ->
  forall l, option_map rc_fx (rget l rep1) = option_map rc_fx (rget l rep2) /\
            option_map rc_out (rget l rep1) = option_map rc_out (rget l rep2).
Proof. exact execute_effects_schedule_independent. Qed.
Print Assumptions C09_effects_schedule_independent.

(* race freedom of the worker goroutines of server.Execute: ANY access table that obeys the
   lockset discipline has no reachable race, for any number of workers, programs and
   schedules.  coqgen/Tie_LocksExec.v (re-checked on every run against the table extracted
   from the goroutine literal of server.Execute) instantiates it:
     execute_race_free := lockset_sound execute_table eq_refl.
   PARTIAL: interleaving semantics, not the Go memory model. *)
Theorem C09_race_free_of_discipline : forall (tbl : op_table),
  discipline_ok tbl = true ->
  forall (progs : nat -> list N) (sched : list label) (s : threads),
    Conc.run (init_of tbl progs) sched s -> ~ race s.
Proof. exact lockset_sound. Qed.
Print Assumptions C09_race_free_of_discipline.
