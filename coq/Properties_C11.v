(* C11 — No request can crash the server.  PARTIAL: the theorems start at decoded blocks
   (third-party byte parsers are exercised by the raw-byte stream, not modelled). *)
From Ucanto Require Import Base Pattern Time Validator ValidatorSpec ValidatorTerm Server ServerTotal.
From Ucanto Require Sig Did.
From Coq Require Import Permutation.

(* No stack overflow: on a content-addressed (acyclic) store whose tokens cite at most K
   proofs, the mutual recursion Claim/Validate/VerifySession/Claim and Authorize/Authorize is
   bounded — with fuel need K (rank inv) + 1 the model of validator.Access never answers
   'out of fuel', for EVERY token content (any issuer, audience, signature, capability list,
   caveats, times), every descriptor and every context. *)
Theorem C11_terminates :
  forall (U : link -> option token) (C : ctx),
    (forall l p, resolve_proof C l = Some p -> d_link p = l) ->
  forall (rank : link -> nat),
    (forall l t p, U l = Some t -> In p (t_prf t) -> (rank p < rank l)%nat) ->
  forall (K : nat),
    (forall l t, U l = Some t -> (length (t_prf t) <= K)%nat) ->
  forall ds inv n,
    (0 < K)%nat -> (need K (rank (d_link inv)) + 1 <= n)%nat -> fst (access U C n ds inv) <> AFuel.
Proof. exact access_terminates. Qed.
Print Assumptions C11_terminates.

(* every invocation gets a receipt: Run never diverges *)
Theorem C11_run_total :
  forall U srv, (forall l p, resolve_proof (s_ctx srv) l = Some p -> d_link p = l) ->
  forall rank, (forall l t p, U l = Some t -> In p (t_prf t) -> (rank p < rank l)%nat) ->
  forall K, (forall l t, U l = Some t -> (length (t_prf t) <= K)%nat) -> (0 < K)%nat ->
  forall fuel inv, (need K (rank (d_link inv)) + 1 <= fuel)%nat -> run U fuel srv inv <> None.
Proof. exact run_total. Qed.
Print Assumptions C11_run_total.

(* handling a batch returns a report or an error value, never diverges *)
Theorem C11_execute_total :
  forall U srv, (forall l p, resolve_proof (s_ctx srv) l = Some p -> d_link p = l) ->
  forall rank, (forall l t p, U l = Some t -> In p (t_prf t) -> (rank p < rank l)%nat) ->
  forall K, (forall l t, U l = Some t -> (length (t_prf t) <= K)%nat) -> (0 < K)%nat ->
  forall fuel vis exec sigma,
    (forall l, In l exec -> (need K (rank l) + 1 <= fuel)%nat) ->
    execute_sched U fuel srv vis exec sigma <> ExecFuel.
Proof. exact execute_total. Qed.
Print Assumptions C11_execute_total.

(* whenever a response is produced it contains the receipt of every invocation of the
   request, each computed by Run of that invocation alone — malformed neighbours do not
   remove it (for any order of completion) *)
Theorem C11_receipts_kept : forall U fuel srv vis exec sigma rep calls,
  (forall rs, Permutation rs (sigma rs)) ->
  execute_sched U fuel srv vis exec sigma = ExecOk rep calls ->
  (forall l, In l exec ->
     exists r cs, rget l rep = Some r /\ rc_ran r = l /\ rc_iss r = s_id srv /\
                  run U fuel srv (mkDlg l vis) = Some (r, cs)) /\
  (forall l, ~ In l exec -> rget l rep = None) /\
  NoDup (map fst rep) /\ length rep = length (dedupe [] exec).
Proof. exact execute_one_receipt_each. Qed.
Print Assumptions C11_receipts_kept.

(* the partial byte-level operations on attacker-controlled data are total (after the fixes):
   signature.Size / Raw on every byte string ... *)
Theorem C11_signature_total : forall s : bstr,
  exists n r, Sig.sig_size s = Ret n /\ Sig.sig_raw s = Ret r.
Proof. exact Sig.sig_total. Qed.
Print Assumptions C11_signature_total.

(* ... and DID.String on every DID value, including the undefined one *)
Theorem C11_did_string_total : forall (b58enc : bstr -> bstr) (d : Did.did),
  Did.did_to_string b58enc d = Ret (Did.did_to_string_v b58enc d).
Proof. exact Did.did_to_string_total. Qed.
Print Assumptions C11_did_string_total.

(* ------------------------------------------------------------------ *)
(* From the request BODY (ServerBytes.v): request.Decode (MessageBytes.decode_message), every block
   read as the accessors read it (LinkIntegrity.token_at: TokenView.view_block over the typed decoding
   of TokenBytes.v when the block's CID is the dag-cbor / sha2-256 CID of its bytes, no field otherwise),
   server.Execute (Server.execute) — composed.  Links are numbered by an injective function of
   the CID bytes (bstr_code).  Still PARTIAL in the sense of this property: Go runtime panics
   below the modelled layer are observed (child process), not modelled. *)
From Ucanto Require Import Ipld Cbor Formats MessageFormat Car MessageBytes TokenBytes TokenView LinkIntegrity ServerBytes.

(* Every body, whatever its bytes, is answered: request.Decode refuses it (400, nothing runs), or
   Execute returns an error value, or a report — the model does not run out of fuel when the block
   table is content addressed (acyclic: a rank exists) and the fuel covers the rank of the
   execute-list entries for the largest proof list of the request.  `view` is how a block is read
   as a token: TokenView.view_block, or any function equal to it on every block; extb are the blocks
   the proof resolver can supply beyond those of the request. *)
Theorem C11_bytes_total :
  forall (mh_digest : N -> N -> bstr -> option bstr) (hdr_oracle : bstr -> option (list bstr * N))
         (keys : list N) (valid : N -> bstr -> bstr -> bool) (alg_of : N -> bstr) (fuel : nat) (srv : server)
         (extb : list (bstr * bstr)) (view : bstr -> token),
    (forall b, view b = view_block lid keys valid alg_of b) ->
  forall body : bstr,
    (forall l p, resolve_proof (s_ctx srv) l = Some p -> d_link p = l) ->
  forall rank : link -> nat,
    (forall d, decode_message mh_digest hdr_oracle body = Some d ->
       forall l t p, U_of mh_digest extb view (blocks_of d) l = Some t -> In p (t_prf t) -> (rank p < rank l)%nat) ->
    (forall d, decode_message mh_digest hdr_oracle body = Some d ->
       forall l, In l (exec_of (d_msg d)) ->
         (need (prf_bound mh_digest extb view (blocks_of d)) (rank l) + 1 <= fuel)%nat) ->
    serve_bytes mh_digest hdr_oracle fuel srv extb view body = SBad \/
    serve_bytes mh_digest hdr_oracle fuel srv extb view body = SDone ExecErr \/
    exists rep calls, serve_bytes mh_digest hdr_oracle fuel srv extb view body = SDone (ExecOk rep calls).
Proof. exact serve_bytes_total. Qed.
Print Assumptions C11_bytes_total.

(* the 400 class is exactly "request.Decode fails", and nothing runs then *)
Theorem C11_bytes_bad :
  forall mh_digest hdr_oracle fuel srv extb view (body : bstr),
    decode_message mh_digest hdr_oracle body = None <->
    serve_bytes mh_digest hdr_oracle fuel srv extb view body = SBad.
Proof. exact serve_bytes_bad. Qed.
Print Assumptions C11_bytes_bad.

Theorem C11_bytes_bad_no_calls :
  forall mh_digest hdr_oracle fuel srv extb view (body : bstr),
    decode_message mh_digest hdr_oracle body = None ->
    calls_of (serve_bytes mh_digest hdr_oracle fuel srv extb view body) = [].
Proof. exact serve_bytes_bad_no_calls. Qed.
Print Assumptions C11_bytes_bad_no_calls.

(* a block of the request that is not a UCAN (the message's own root block, any other shape, any
   byte string the typed decoder refuses) is the empty token for the server: no capability, no
   proof, undefined principals — it cannot be authorized and cannot be a usable proof *)
Theorem C11_bytes_undecodable_block :
  forall (num : bstr -> link) keys valid alg_of (b : bstr),
    token_decode_typed b = None -> view_block num keys valid alg_of b = empty_token.
Proof. exact view_block_undecodable. Qed.
Print Assumptions C11_bytes_undecodable_block.

(* A request in which a token travels under a CID c other than the dag-cbor / sha2-256 CIDv1 of its
   bytes b (raw codec, CIDv0, dag-json, another hash function: the CAR reader accepts them all) is
   served exactly as if that block carried bytes b' that are no UCAN at all — a token without
   fields: what the accessors report for the block is the empty token, the server's token store
   holds the empty token under that link (when the block is the first under c), and the answer is
   Server.execute over the block table with b' in the place of b: same execute list, same visible
   blocks, hence the same receipts and the same handler calls. *)
Theorem C11_bytes_relabelled_no_fields :
  forall (mh_digest : N -> N -> bstr -> option bstr) (hdr_oracle : bstr -> option (list bstr * N))
         (keys : list N) (valid : N -> bstr -> bstr -> bool) (alg_of : N -> bstr) (fuel : nat) (srv : server)
         (extb : list (bstr * bstr)) (view : bstr -> token),
    (forall b, view b = view_block lid keys valid alg_of b) ->
  forall (body : bstr) (d : decoded) (pre : list (bstr * bstr)) (c b : bstr) (post : list (bstr * bstr)),
    decode_message mh_digest hdr_oracle body = Some d ->
    blocks_of d = pre ++ (c, b) :: post ->
    cid_of mh_digest b <> Some c ->
    token_at mh_digest view c b = empty_token /\
    (~ In c (map fst pre) -> U_of mh_digest extb view (blocks_of d) (lid c) = Some empty_token) /\
    forall b', token_decode_typed b' = None ->
      serve_bytes mh_digest hdr_oracle fuel srv extb view body =
      SDone (execute (U_of mh_digest extb view (pre ++ (c, b') :: post)) fuel srv
                     (vis_of (blocks_of d)) (exec_of (d_msg d))).
Proof. exact serve_bytes_relabelled_no_fields. Qed.
Print Assumptions C11_bytes_relabelled_no_fields.
