(* C04 — Non-key issuers are accepted only with an authority-backed session. *)
From Ucanto Require Import Base Pattern Time Validator ValidatorSpec ValidatorProps.

(* A token whose issuer is neither a did:key nor the authority passes Validate only if
   (a) the search for `ucan/attest` on the authority's DID with proof = link of exactly this
       token, among its sibling proofs other than itself whose first capability is
       ucan/attest, produced an authorization satisfying the chain specification P, or
   (b) that search failed without any failed proof chain (no attestation applied) and the
       key resolver maps the issuer to a did:key whose verifier accepts the signature. *)
Theorem C04_nonkey :
  forall (U : link -> option token) (C : ctx),
    (forall l p, resolve_proof C l = Some p -> d_link p = l) ->
  forall n d sibs t,
    fst (validate U C (claim U C n) d sibs) = VOk -> tok U d = Some t ->
    is_key_str (t_iss t) = false -> t_iss t <> v_did (authority C) ->
    (exists a, P U C n (attest_desc (v_did (authority C)) (d_link d)) (session_candidates U d sibs) a) \/
    ((exists e, fst (claim U C n (attest_desc (v_did (authority C)) (d_link d)) (session_candidates U d sibs)) = AErr e
                /\ has_failed e = false) /\
     exists kd v, resolve_did_key C (t_iss t) = Some kd /\ parse_principal C (did_str kd) = Some v /\
       is_key_str (v_did v) = true /\ sig_ok t (mkVf (v_key v) (v_sigcode v) (t_iss t))).
Proof. exact nonkey_validate. Qed.
Print Assumptions C04_nonkey.

(* what counts as an attestation for token l: ability ucan/attest, resource the authority's
   DID, caveats exactly {proof: l} *)
Theorem C04_attestation_shape : forall auth l c0 c,
  parse_cap (attest_desc auth l) c0 = Some c ->
  r_can c0 = attest_can /\ r_with c0 = did_str auth /\
  r_nb c0 = NbMap [(proof_key, VLink l)] /\ nb c = [(proof_key, VLink l)].
Proof. exact attest_parse_inv. Qed.
Print Assumptions C04_attestation_shape.

(* an attestation for a different token, on a different resource or of another ability
   is never a candidate *)
Theorem C04_other_rejected : forall auth l c0,
  (r_can c0 <> attest_can \/ r_with c0 <> did_str auth \/ r_nb c0 <> NbMap [(proof_key, VLink l)]) ->
  parse_cap (attest_desc auth l) c0 = None.
Proof. exact attest_other_rejected. Qed.
Print Assumptions C04_other_rejected.

(* a re-delegated attestation is bound by its parent's proof caveat *)
Theorem C04_redelegated_bound : forall auth l c c0 c',
  resolve_cap (attest_desc auth l) c c0 = Some c' ->
  nb c' = [(proof_key, VLink l)] /\ wth c' = did_str auth /\
  (forall l', r_nb c0 = NbMap [(proof_key, VLink l')] -> l' = l).
Proof. exact attest_resolve_inv. Qed.
Print Assumptions C04_redelegated_bound.

(* an attestation that applies but whose own chain fails makes the token unacceptable,
   even when the key resolver could verify it (SessionEscalation) *)
Theorem C04_escalation : forall U C claim_prev d sibs t e ev,
  tok U d = Some t -> is_expired (t_exp t) (now C) = false -> is_too_early (t_nbf t) (now C) = false ->
  is_key_str (t_iss t) = false -> did_eqb (t_iss t) (v_did (authority C)) = false ->
  claim_prev (attest_desc (v_did (authority C)) (d_link d)) (session_candidates U d sibs) = (AErr e, ev) ->
  has_failed e = true ->
  fst (validate U C claim_prev d sibs) = VEscalation.
Proof. exact session_escalation. Qed.
Print Assumptions C04_escalation.

(* the attestation's own chain satisfies the chain specification (C01) and its token is in
   its window (C03): P at the attest descriptor is top_ok *)
Theorem C04_session_is_chain : forall U C n ds prfs a,
  P U C (S n) ds prfs a -> exists d c ps t, a = Authz d c ps /\ tok U d = Some t /\ window_ok C t.
Proof. exact top_window. Qed.
Print Assumptions C04_session_is_chain.

(* ------------------------------------------------------------------ *)
(* Link integrity (LinkIntegrity.v): the store U is no longer assumed to map a link to "the token
   whose bytes hash to it" — it is DEFINED from the blocks that were supplied.  ustore_of gives a
   block (c, b) the fields view_block b only when c is exactly the CIDv1 / dag-cbor / sha2-256 CID
   of b (cid_of: what block.Decode re-computes in delegation.Data()), the empty token otherwise. *)
From Ucanto Require Import Varint Cid MessageBytes TokenBytes TokenView ServerBytes LinkIntegrity.

(* the fields of a link come from bytes that hash to it; bytes under any other CID have none *)
Theorem C04_store_binds_bytes :
  forall (mh_digest : N -> N -> bstr -> option bstr) keys valid alg_of blocks c t,
    let view := view_block lid keys valid alg_of in
    store_of mh_digest view blocks c = Some t ->
    exists b, In (c, b) blocks /\ block_at blocks c = Some b /\ cid_of mh_digest b = Some c /\ view b = t.
Proof. exact (fun mh_digest keys valid alg_of => store_binds_bytes mh_digest (view_block lid keys valid alg_of)). Qed.
Print Assumptions C04_store_binds_bytes.

Theorem C04_relabelled_contributes_nothing :
  forall (mh_digest : N -> N -> bstr -> option bstr) keys valid alg_of blocks c' b,
    let view := view_block lid keys valid alg_of in
    cid_of mh_digest b <> Some c' ->
    fields mh_digest view c' b = None /\ token_at mh_digest view c' b = empty_token /\
    (forall c, store_of mh_digest view (blocks ++ [(c', b)]) c = store_of mh_digest view blocks c) /\
    (forall c, c <> c' -> store_of mh_digest view ((c', b) :: blocks) c = store_of mh_digest view blocks c) /\
    store_of mh_digest view ((c', b) :: blocks) c' = None.
Proof. exact (fun mh_digest keys valid alg_of => relabelled_contributes_nothing mh_digest (view_block lid keys valid alg_of)). Qed.
Print Assumptions C04_relabelled_contributes_nothing.

(* the CIDs under which the same bytes pass a CAR reader — another codec (raw, dag-json), CIDv0,
   another hash function — are not cid_of b *)
Theorem C04_other_cids_unbound :
  forall (mh_digest : N -> N -> bstr -> option bstr) b d,
    mh_digest mh_sha2_256 32 b = Some d ->
    (forall codec, codec < 2 ^ 63 -> codec <> dag_cbor_code ->
       cid_of mh_digest b <> Some (cidv1 codec (mh_encode mh_sha2_256 d))) /\
    cid_of mh_digest b <> Some (mh_encode mh_sha2_256 d) /\
    (forall code d', code < 2 ^ 63 -> code <> mh_sha2_256 ->
       cid_of mh_digest b <> Some (cidv1 dag_cbor_code (mh_encode code d'))).
Proof. exact other_cids_unbound. Qed.
Print Assumptions C04_other_cids_unbound.

(* a link names ONE token, for a digest of 32 bytes without collisions (hypotheses of this
   theorem only): two stores agree on every link both bind; bytes under another token's link
   have no fields *)
Theorem C04_store_deterministic :
  forall (mh_digest : N -> N -> bstr -> option bstr) keys valid alg_of,
    let view := view_block lid keys valid alg_of in
    (forall a d, mh_digest mh_sha2_256 32 a = Some d -> length d = 32%nat) ->
    (forall a b d, mh_digest mh_sha2_256 32 a = Some d -> mh_digest mh_sha2_256 32 b = Some d -> a = b) ->
    (forall blocks1 blocks2 c t1 t2,
       store_of mh_digest view blocks1 c = Some t1 -> store_of mh_digest view blocks2 c = Some t2 ->
       t1 = t2 /\ exists b, block_at blocks1 c = Some b /\ block_at blocks2 c = Some b /\ cid_of mh_digest b = Some c) /\
    (forall b b' c', cid_of mh_digest b' = Some c' -> b <> b' ->
       fields mh_digest view c' b = None /\ token_at mh_digest view c' b = empty_token).
Proof.
  exact (fun mh_digest keys valid alg_of L CF =>
           conj (store_deterministic mh_digest (view_block lid keys valid alg_of) L CF)
                (foreign_link_no_fields mh_digest (view_block lid keys valid alg_of) L CF)).
Qed.
Print Assumptions C04_store_deterministic.

(* C04 over the store of a set of blocks: an accepted non-key-issued token that contributes a
   capability has its fields from bytes that hash to its link, and the attestation it was
   accepted on is ucan/attest on the authority's DID with caveats exactly {proof: THAT link},
   carried by a sibling other than the token itself whose fields again come from bytes hashing
   to the sibling's link.  No other block of the list takes part. *)
Theorem C04_attestation_names_bytes :
  forall (mh_digest : N -> N -> bstr -> option bstr) keys valid alg_of blocks C,
    let view := view_block lid keys valid alg_of in
    (forall l p, resolve_proof C l = Some p -> d_link p = l) ->
    forall n d sibs t c0,
    let U := ustore_of mh_digest view blocks in
    fst (validate U C (claim U C n) d sibs) = VOk -> tok U d = Some t ->
    is_key_str (t_iss t) = false -> t_iss t <> v_did (authority C) ->
    In c0 (t_caps t) ->
    names_bytes mh_digest view blocks d t /\
    ((exists da ca psa ta ca0,
        P U C n (attest_desc (v_did (authority C)) (d_link d)) (session_candidates U d sibs) (Authz da ca psa) /\
        In da sibs /\ d_link da <> d_link d /\
        tok U da = Some ta /\ In ca0 (t_caps ta) /\
        r_can ca0 = attest_can /\ r_with ca0 = did_str (v_did (authority C)) /\
        r_nb ca0 = NbMap [(proof_key, VLink (d_link d))] /\
        names_bytes mh_digest view blocks da ta)
     \/
     ((exists e, fst (claim U C n (attest_desc (v_did (authority C)) (d_link d)) (session_candidates U d sibs)) = AErr e
                 /\ has_failed e = false) /\
      exists kd v, resolve_did_key C (t_iss t) = Some kd /\ parse_principal C (did_str kd) = Some v /\
        is_key_str (v_did v) = true /\ sig_ok t (mkVf (v_key v) (v_sigcode v) (t_iss t)))).
Proof. exact (fun mh_digest keys valid alg_of => attestation_names_bytes mh_digest (view_block lid keys valid alg_of)). Qed.
Print Assumptions C04_attestation_names_bytes.

(* ... and no other bytes can stand for that link, in any block list (digest of 32 bytes without
   collisions) *)
Theorem C04_link_names_one_token :
  forall (mh_digest : N -> N -> bstr -> option bstr) keys valid alg_of,
    let view := view_block lid keys valid alg_of in
    (forall a d, mh_digest mh_sha2_256 32 a = Some d -> length d = 32%nat) ->
    (forall a b d, mh_digest mh_sha2_256 32 a = Some d -> mh_digest mh_sha2_256 32 b = Some d -> a = b) ->
    forall blocks1 blocks2 d1 d2 t1 t2,
      names_bytes mh_digest view blocks1 d1 t1 -> names_bytes mh_digest view blocks2 d2 t2 ->
      d_link d1 = d_link d2 ->
      t1 = t2 /\ exists c b, d_link d1 = lid c /\ block_at blocks1 c = Some b /\ block_at blocks2 c = Some b.
Proof. exact (fun mh_digest keys valid alg_of => link_names_one_token mh_digest (view_block lid keys valid alg_of)). Qed.
Print Assumptions C04_link_names_one_token.
