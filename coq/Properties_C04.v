(* C04 — Non-key issuers are accepted only with an authority-backed session. *)
From Ucanto Require Import Base Pattern Time Validator ValidatorSpec ValidatorProps.

(* A token whose issuer is neither a did:key nor the authority passes Validate only if
   (a) the search for `ucan/attest` on the authority's DID with proof = link of exactly this
       token, among its sibling proofs other than itself whose first capability is
       ucan/attest, produced an authorization satisfying the chain specification P, or
   (b) that search failed without any failed proof chain (no attestation applied) and the
       key resolver maps the issuer to a did:key whose verifier accepts the signature. *)
Theorem C04_nonkey :
  forall (U : link -> option token) (C : ctx),
    (forall l p, resolve_proof C l = Some p -> d_link p = l) ->
  forall n d sibs t,
    fst (validate U C (claim U C n) d sibs) = VOk -> tok U d = Some t ->
    is_key_str (t_iss t) = false -> t_iss t <> v_did (authority C) ->
    (exists a, P U C n (attest_desc (v_did (authority C)) (d_link d)) (session_candidates U d sibs) a) \/
    ((exists e, fst (claim U C n (attest_desc (v_did (authority C)) (d_link d)) (session_candidates U d sibs)) = AErr e
                /\ has_failed e = false) /\
     exists kd v, resolve_did_key C (t_iss t) = Some kd /\ parse_principal C (did_str kd) = Some v /\
       is_key_str (v_did v) = true /\ sig_ok t (mkVf (v_key v) (v_sigcode v) (t_iss t))).
Proof. exact nonkey_validate. Qed.
Print Assumptions C04_nonkey.

(* what counts as an attestation for token l: ability ucan/attest, resource the authority's
   DID, caveats exactly {proof: l} *)
Theorem C04_attestation_shape : forall auth l c0 c,
  parse_cap (attest_desc auth l) c0 = Some c ->
  r_can c0 = attest_can /\ r_with c0 = did_str auth /\
  r_nb c0 = NbMap [(proof_key, VLink l)] /\ nb c = [(proof_key, VLink l)].
Proof. exact attest_parse_inv. Qed.
Print Assumptions C04_attestation_shape.

(* an attestation for a different token, on a different resource or of another ability
   is never a candidate *)
Theorem C04_other_rejected : forall auth l c0,
  (r_can c0 <> attest_can \/ r_with c0 <> did_str auth \/ r_nb c0 <> NbMap [(proof_key, VLink l)]) ->
  parse_cap (attest_desc auth l) c0 = None.
Proof. exact attest_other_rejected. Qed.
Print Assumptions C04_other_rejected.

(* a re-delegated attestation is bound by its parent's proof caveat *)
Theorem C04_redelegated_bound : forall auth l c c0 c',
  resolve_cap (attest_desc auth l) c c0 = Some c' ->
  nb c' = [(proof_key, VLink l)] /\ wth c' = did_str auth /\
  (forall l', r_nb c0 = NbMap [(proof_key, VLink l')] -> l' = l).
Proof. exact attest_resolve_inv. Qed.
Print Assumptions C04_redelegated_bound.

(* an attestation that applies but whose own chain fails makes the token unacceptable,
   even when the key resolver could verify it (SessionEscalation) *)
Theorem C04_escalation : forall U C claim_prev d sibs t e ev,
  tok U d = Some t -> is_expired (t_exp t) (now C) = false -> is_too_early (t_nbf t) (now C) = false ->
  is_key_str (t_iss t) = false -> did_eqb (t_iss t) (v_did (authority C)) = false ->
  claim_prev (attest_desc (v_did (authority C)) (d_link d)) (session_candidates U d sibs) = (AErr e, ev) ->
  has_failed e = true ->
  fst (validate U C claim_prev d sibs) = VEscalation.
Proof. exact session_escalation. Qed.
Print Assumptions C04_escalation.

(* the attestation's own chain satisfies the chain specification (C01) and its token is in
   its window (C03): P at the attest descriptor is top_ok *)
Theorem C04_session_is_chain : forall U C n ds prfs a,
  P U C (S n) ds prfs a -> exists d c ps t, a = Authz d c ps /\ tok U d = Some t /\ window_ok C t.
Proof. exact top_window. Qed.
Print Assumptions C04_session_is_chain.
