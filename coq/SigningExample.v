(* SigningExample.v — a concrete instance of the Section hypotheses of Signing.v
   (non-vacuity), and the refutation of the PINNED verification payload. *)
From Ucanto Require Import Base Ipld Cbor Formats Signing.
Open Scope N_scope.

Definition t_sign (k : N) (m : bstr) : bstr := k :: m.
Definition t_valid (k : N) (m s : bstr) : bool := beq s (k :: m).
Definition t_join (p : bstr * bstr) : bstr := N.of_nat (length (fst p)) :: fst p ++ snd p.
Definition t_alg (k : N) : bstr := bs "EdDSA".
Definition t_did (k : N) : bstr := [237; 1; k].
Definition t_id (b : bstr) : bstr := b.

Lemma t_valid_sign k m : t_valid k m (t_sign k m) = true.
Proof. apply beq_refl. Qed.
Lemma t_valid_unique k m m' s : t_valid k m s = true -> t_valid k m' s = true -> m = m'.
Proof. unfold t_valid. rewrite !beq_eq. intros -> H. inversion H. reflexivity. Qed.
Lemma app_inv_len {A} (a1 b1 a2 b2 : list A) : length a1 = length b1 -> a1 ++ a2 = b1 ++ b2 -> a1 = b1 /\ a2 = b2.
Proof.
  revert b1. induction a1 as [|x a1 IH]; destruct b1 as [|y b1]; cbn; intros L E; try discriminate; auto.
  inversion E. inversion L. destruct (IH b1) as [-> ->]; auto.
Qed.
Lemma t_join_inj a b : t_join a = t_join b -> a = b.
Proof.
  destruct a as [a1 a2], b as [b1 b2]. unfold t_join. cbn [fst snd]. intros H. injection H as L E.
  apply Nat2N.inj in L. destruct (app_inv_len _ _ _ _ L E) as [-> ->]. reflexivity.
Qed.

Definition ex_issue := issue t_id t_id cbor_encode t_sign t_alg t_did t_join.
Definition ex_verify := verify t_id t_id cbor_encode t_valid t_alg t_did t_join.
Definition ex_verify_pinned := verify_pinned t_id t_id cbor_encode t_valid t_alg t_did t_join.

Definition ex_cap : capm := mkCapm (bs "did:key:zAlice") (bs "store/add") (IMap [(bs "size", IInt 5%Z); (bs "a", IList [INull])]).
Definition ex_tok_nonce := ex_issue 7 (bs "0.9.1") [237; 1; 9] [ex_cap] (Some []) (Some 100%Z) None (Some (bs "n1")) None.
Definition ex_tok_nbf := ex_issue 7 (bs "0.9.1") [237; 1; 9] [ex_cap] None None None None (Some 42%Z).
Definition ex_tok_plain := ex_issue 7 (bs "0.9.1") [237; 1; 9] [ex_cap] None (Some 100%Z) None None None.

(* the fixed verification accepts them; the pinned one rejected every token with nonce or nbf *)
Example fixed_accepts : ex_verify ex_tok_nonce 7 = true /\ ex_verify ex_tok_nbf 7 = true /\ ex_verify ex_tok_plain 7 = true.
Proof. vm_compute. auto. Qed.
Example pinned_rejects_nonce : ex_verify_pinned ex_tok_nonce 7 = false.
Proof. vm_compute. reflexivity. Qed.
Example pinned_rejects_nbf : ex_verify_pinned ex_tok_nbf 7 = false.
Proof. vm_compute. reflexivity. Qed.
Example pinned_accepts_plain : ex_verify_pinned ex_tok_plain 7 = true.
Proof. vm_compute. reflexivity. Qed.

(* the full statement "every issued token verifies" is false for the pinned payload *)
Theorem pinned_issue_verifies_refuted :
  ~ (forall k ver aud att prf exp fct nnc nbf,
       ex_verify_pinned (ex_issue k ver aud att prf exp fct nnc nbf) k = true).
Proof. intros H. specialize (H 7 (bs "0.9.1") [237; 1; 9] [ex_cap] (Some []) (Some 100%Z) None (Some (bs "n1")) None).
  pose proof pinned_rejects_nonce as P. unfold ex_tok_nonce in P. congruence. Qed.

(* transport of a concrete token through the byte codec *)
Example transport_example :
  token_decode (token_bytes ex_tok_nonce) = Some (canon_token ex_tok_nonce) /\
  ex_verify (canon_token ex_tok_nonce) 7 = true.
Proof. vm_compute. auto. Qed.
