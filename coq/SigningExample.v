(* SigningExample.v — a concrete instance of the Section hypotheses of Signing.v
   (non-vacuity), the refutation of the PINNED verification payload, and the witnesses that
   tamper detection fails outside the json_safe domain (the dag-json collisions). *)
From Ucanto Require Import Base Ipld Cbor Formats BaseEnc JsonText Did DagJson Signing.
Open Scope N_scope.

Definition t_sign (k : N) (m : bstr) : bstr := k :: m.
Definition t_valid (k : N) (m s : bstr) : bool := beq s (k :: m).
Definition t_alg (k : N) : bstr := bs "EdDSA".
Definition t_did (k : N) : bstr := [237; 1; k].

Lemma t_valid_sign k m : t_valid k m (t_sign k m) = true.
Proof. apply beq_refl. Qed.
Lemma t_valid_unique k m m' s : t_valid k m s = true -> t_valid k m' s = true -> m = m'.
Proof. unfold t_valid. rewrite !beq_eq. intros -> H. inversion H. reflexivity. Qed.

(* ex_issue builds the token without asking the guard (Issue as it was at 5d39523, and for signable
   payloads what Issue returns now: ex_issue_opt_example) *)
Definition ex_issue := issue_unguarded t_sign t_alg t_did.
Definition ex_issue_opt := issue t_sign t_alg t_did.
Definition ex_verify := verify t_valid t_alg t_did.
Definition ex_verify_unguarded := verify_unguarded t_valid t_alg t_did.
Definition ex_verify_pinned := verify_pinned t_valid t_alg t_did.

Definition ex_cap : capm := mkCapm (bs "did:key:zAlice") (bs "store/add") (IMap [(bs "size", IInt 5%Z); (bs "a", IList [INull])]).
Definition ex_tok_nonce := ex_issue 7 (bs "0.9.1") [237; 1; 9] [ex_cap] (Some []) (Some 100%Z) None (Some (bs "n1")) None.
Definition ex_tok_nbf := ex_issue 7 (bs "0.9.1") [237; 1; 9] [ex_cap] None None None None (Some 42%Z).
Definition ex_tok_plain := ex_issue 7 (bs "0.9.1") [237; 1; 9] [ex_cap] None (Some 100%Z) None None None.

Example ex_issue_opt_example :
  ex_issue_opt 7 (bs "0.9.1") [237; 1; 9] [ex_cap] (Some []) (Some 100%Z) None (Some (bs "n1")) None = Some ex_tok_nonce.
Proof. vm_compute. reflexivity. Qed.

(* the fixed verification accepts them; the pinned one rejected every token with nonce or nbf *)
Example fixed_accepts : ex_verify ex_tok_nonce 7 = true /\ ex_verify ex_tok_nbf 7 = true /\ ex_verify ex_tok_plain 7 = true.
Proof. vm_compute. auto. Qed.
Example pinned_rejects_nonce : ex_verify_pinned ex_tok_nonce 7 = false.
Proof. vm_compute. reflexivity. Qed.
Example pinned_rejects_nbf : ex_verify_pinned ex_tok_nbf 7 = false.
Proof. vm_compute. reflexivity. Qed.
Example pinned_accepts_plain : ex_verify_pinned ex_tok_plain 7 = true.
Proof. vm_compute. reflexivity. Qed.

(* the full statement "every issued token verifies" is false for the pinned payload *)
Theorem pinned_issue_verifies_refuted :
  ~ (forall k ver aud att prf exp fct nnc nbf,
       ex_verify_pinned (ex_issue k ver aud att prf exp fct nnc nbf) k = true).
Proof. intros H. specialize (H 7 (bs "0.9.1") [237; 1; 9] [ex_cap] (Some []) (Some 100%Z) None (Some (bs "n1")) None).
  pose proof pinned_rejects_nonce as P. unfold ex_tok_nonce in P. congruence. Qed.

(* transport of a concrete token through the byte codec *)
Example transport_example :
  token_decode (token_bytes ex_tok_nonce) = Some (canon_token ex_tok_nonce) /\
  ex_verify (canon_token ex_tok_nonce) 7 = true.
Proof. vm_compute. auto. Qed.

(* the bytes that are signed for a concrete token *)
Example sign_payload_example :
  sign_payload (bs "EdDSA") ex_tok_plain =
  b64url (bs "{""alg"":""EdDSA"",""typ"":""JWT"",""ucv"":""0.9.1""}") ++ 46 ::
  b64url (bs "{""att"":[{""can"":""store/add"",""nb"":{""a"":[null],""size"":5},""with"":""did:key:zAlice""}],""aud"":""did:key:z2NcDE"",""exp"":100,""iss"":""did:key:z2NcDC"",""prf"":[]}").
Proof. vm_compute. reflexivity. Qed.

(* the hypotheses of tamper detection are satisfiable *)
Example tamper_hyps_example :
  json_safe (header_ipld (t_alg 7) (u_v ex_tok_nonce)) = true /\ wf_ipld (header_ipld (t_alg 7) (u_v ex_tok_nonce)) = true /\
  json_safe (payload_ipld ex_tok_nonce true) = true /\ wf_ipld (payload_ipld ex_tok_nonce true) = true /\
  token_ids_ok ex_tok_nonce = true /\ token_json_safe ex_tok_nonce = true /\ sign_payload_ok ex_tok_nonce = true.
Proof. vm_compute. repeat split. Qed.

(* ---------------------------------------------------------------- *)
(* outside json_safe: before the guard (5d39523) a different token with the same signature
   verified; with the guard it is rejected, and such payloads are not issued *)

Definition cap_of (nb : ipld) : capm := mkCapm (bs "did:key:zAlice") (bs "store/add") nb.
Definition tok_of (nb : ipld) : utoken := ex_issue 7 (bs "0.9.1") [237; 1; 9] [cap_of nb] None (Some 100%Z) None None None.
Definition retag (t : utoken) (nb : ipld) : utoken :=
  mkU (u_v t) (u_iss t) (u_aud t) (u_s t) [cap_of nb] (u_prf t) (u_exp t) (u_fct t) (u_nnc t) (u_nbf t).

(* caveat {"k": bytes 01 02 03} replaced by {"k": {"/": {"bytes": "AQID"}}} *)
Definition nb_bytes : ipld := IMap [(bs "k", IBytes [1; 2; 3])].
Definition nb_bytes' : ipld := IMap [(bs "k", IMap [(k_slash, IMap [(k_bytes, IString (bs "AQID"))])])].
(* caveat link replaced by {"/": "<cid string>"} *)
Definition nb_link : ipld := IMap [(bs "k", ILink ex_cid)].
Definition nb_link' : ipld := IMap [(bs "k", IMap [(k_slash, IString (cid_string ex_cid))])].
(* a string with an invalid UTF-8 byte replaced by another invalid byte *)
Definition nb_str : ipld := IMap [(bs "k", IString [97; 255])].
Definition nb_str' : ipld := IMap [(bs "k", IString [97; 254])].

Definition tamper_witness (nb nb' : ipld) : Prop :=
  let t := tok_of nb in let t' := retag t nb' in
  wf_ipld (token_ipld t) = true /\ wf_ipld (token_ipld t') = true /\
  wf_ipld (payload_ipld t true) = true /\ wf_ipld (payload_ipld t' true) = true /\
  ex_verify_unguarded t 7 = true /\ ex_verify_unguarded t' 7 = true /\ u_s t' = u_s t /\
  map canon_cap (u_att t') <> map canon_cap (u_att t) /\ token_bytes t' <> token_bytes t /\
  (* with the guard the altered token is rejected *)
  ex_verify t' 7 = false.

Example tamper_bytes_slash_map : tamper_witness nb_bytes nb_bytes'.
Proof. unfold tamper_witness. repeat split; try (vm_compute; reflexivity); vm_compute; discriminate. Qed.
Example tamper_link_slash_map : tamper_witness nb_link nb_link'.
Proof. unfold tamper_witness. repeat split; try (vm_compute; reflexivity); vm_compute; discriminate. Qed.
Example tamper_invalid_utf8 : tamper_witness nb_str nb_str'.
Proof. unfold tamper_witness. repeat split; try (vm_compute; reflexivity); vm_compute; discriminate. Qed.

(* the originals with bytes / a link are still issued and verify; a caveat string that is not UTF-8 is refused *)
Example guard_examples :
  ex_issue_opt 7 (bs "0.9.1") [237; 1; 9] [cap_of nb_bytes] None (Some 100%Z) None None None = Some (tok_of nb_bytes) /\
  ex_verify (tok_of nb_bytes) 7 = true /\ ex_verify (tok_of nb_link) 7 = true /\
  ex_issue_opt 7 (bs "0.9.1") [237; 1; 9] [cap_of nb_str] None (Some 100%Z) None None None = None /\
  ex_issue_opt 7 (bs "0.9.1") [237; 1; 9] [cap_of nb_bytes'] None (Some 100%Z) None None None = None /\
  ex_verify (tok_of nb_str) 7 = false.
Proof. vm_compute. repeat split. Qed.

(* the audience: two non-key DIDs that differ in an invalid UTF-8 byte print the same JSON string *)
Definition aud_a : bstr := core_tag ++ bs "web:" ++ [255].
Definition aud_b : bstr := core_tag ++ bs "web:" ++ [254].
Example tamper_audience_invalid_utf8 :
  let t := ex_issue 7 (bs "0.9.1") aud_a [ex_cap] None (Some 100%Z) None None None in
  let t' := mkU (u_v t) (u_iss t) aud_b (u_s t) (u_att t) (u_prf t) (u_exp t) (u_fct t) (u_nnc t) (u_nbf t) in
  token_ids_ok t = true /\ token_ids_ok t' = true /\ ex_verify_unguarded t 7 = true /\ ex_verify_unguarded t' 7 = true /\ u_aud t' <> u_aud t /\
  ex_verify t 7 = false /\ ex_verify t' 7 = false /\
  ex_issue_opt 7 (bs "0.9.1") aud_a [ex_cap] None (Some 100%Z) None None None = None.
Proof. cbv zeta. repeat split; try (vm_compute; reflexivity); vm_compute; discriminate. Qed.

(* undecodable audience bytes all print as the empty DID string *)
Example tamper_audience_undecodable :
  let t := ex_issue 7 (bs "0.9.1") [] [ex_cap] None (Some 100%Z) None None None in
  let t' := mkU (u_v t) (u_iss t) [0; 1] (u_s t) (u_att t) (u_prf t) (u_exp t) (u_fct t) (u_nnc t) (u_nbf t) in
  json_safe (payload_ipld t true) = true /\ json_safe (payload_ipld t' true) = true /\
  token_ids_ok t = false /\ ex_verify_unguarded t 7 = true /\ ex_verify_unguarded t' 7 = true /\ u_aud t' <> u_aud t /\
  ex_verify t 7 = false /\ ex_verify t' 7 = false /\
  ex_issue_opt 7 (bs "0.9.1") [] [ex_cap] None (Some 100%Z) None None None = None.
Proof. cbv zeta. repeat split; try (vm_compute; reflexivity); vm_compute; discriminate. Qed.

(* tamper detection for the verification WITHOUT the guard (5d39523) is false (for this signature instance) *)
Definition tamper_unguarded : Prop :=
  forall t t' k,
    wf_ipld (header_ipld (t_alg k) (u_v t)) = true -> wf_ipld (header_ipld (t_alg k) (u_v t')) = true ->
    wf_ipld (payload_ipld t true) = true -> wf_ipld (payload_ipld t' true) = true ->
    token_bytes_ok t = true -> token_bytes_ok t' = true ->
    ex_verify_unguarded t k = true -> ex_verify_unguarded t' k = true -> u_s t' = u_s t ->
    u_v t' = u_v t /\ u_iss t' = u_iss t /\ u_aud t' = u_aud t /\
    map canon_cap (u_att t') = map canon_cap (u_att t) /\ prf_list t' = prf_list t /\
    u_exp t' = u_exp t /\ option_map (map canon_fact) (u_fct t') = option_map (map canon_fact) (u_fct t) /\
    u_nnc t' = u_nnc t /\ u_nbf t' = u_nbf t.

Theorem tamper_unguarded_refuted : ~ tamper_unguarded.
Proof.
  intros H. specialize (H (tok_of nb_bytes) (retag (tok_of nb_bytes) nb_bytes') 7).
  destruct H as [_ [_ [_ [C _]]]]; try (vm_compute; reflexivity).
  revert C. vm_compute. discriminate.
Qed.

(* the hypotheses of the guarded tamper theorem are satisfiable *)
Example tamper_hyps_guarded :
  wf_ipld (header_ipld (t_alg 7) (u_v ex_tok_nonce)) = true /\ wf_ipld (payload_ipld ex_tok_nonce true) = true /\
  token_bytes_ok ex_tok_nonce = true /\ ex_verify ex_tok_nonce 7 = true /\ signable (t_alg 7) ex_tok_nonce = true.
Proof. vm_compute. repeat split. Qed.
