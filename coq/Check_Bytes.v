(* Check_Bytes.v — evaluation of MessageBytes.decode_message / client_execute_bytes on the
   bodies the harness ran through client.Execute (response.Decode) and request.Decode
   (correspondence check of C15 / C20 / C11 at byte level).

   A case is a base body and a mutation of it; the harness supplies, per case,
   * the answers of go-multihash Sum for the sections of the body (as in Check_C12.v: keyed by
     code, length and an (offset, length) window of the body) — including sha2-256 of EVERY
     section payload, which is what block.Decode re-computes for the root block,
   * go-ipld-cbor's verdict on the header bytes when they are not canonical,
   * what the implementation returned: an error, or a message with its root link, Invocations(),
     Receipts(), Get(l) for the lookup links and the blocks of Blocks() in order.
   The model has to predict all of it. *)
From Ucanto Require Import Base Varint Ipld Cbor Formats Blockstore MessageFormat Cid Car BaseEnc DagJson.
From Ucanto Require Import Check_CBOR Check_C12 MessageBytes ReceiptFormat ReceiptBytes.
Open Scope N_scope.

Inductive bmut :=
| BNone
| BTrunc (n : N)
| BFlips (l : list (N * N))          (* (position, xor mask) *)
| BOver (off : N) (s : bstr)         (* bytes overwritten from off on *)
| BAppend (off : N)                  (* base ++ base[off:] *)
| BRaw (s : bstr).

Definition flip_at (b : bstr) (px : N * N) : bstr :=
  firstn (N.to_nat (fst px)) b ++
  match skipn (N.to_nat (fst px)) b with x :: r => N.lxor x (snd px) :: r | [] => [] end.

Definition apply_bmut (base : bstr) (m : bmut) : bstr :=
  match m with
  | BNone => base
  | BTrunc n => firstn (N.to_nat n) base
  | BFlips l => fold_left flip_at l base
  | BOver off s =>
    firstn (N.to_nat off) base ++ firstn (length base - N.to_nat off) s
    ++ skipn (N.to_nat off + length s) base
  | BAppend off => base ++ skipn (N.to_nat off) base
  | BRaw s => s
  end.

(* what was observed: an error, or the accessors of the message ([] = "not found" for a Get) *)
(* what receipt.NewReceipt made of the root a Get returned: an error, or the accessors *)
Inductive robs :=
| RRErr
| RROk (ran : bstr) (ok : bool) (sg : bstr) (iss : option bstr) (fork : list bstr) (join : option bstr) (prf : list bstr).

Inductive bobs :=
| BOErr
| BOMsg (root : bstr) (exec rcpts gets : list bstr) (reads : list robs) (blocks : list eitem)
| BONone.                             (* this side was not exercised *)

Record bcase := BC {
  bc_base : N; bc_mut : bmut; bc_tbl : list hentry; bc_orc : horacle;
  bc_status : Z; bc_lookups : list bstr;
  bc_resp : bobs;                     (* client.Execute over a scripted channel (response.Decode) *)
  bc_req : bobs;                      (* request.Decode *)
  bc_handle : N }.                    (* server.Request with acceptable headers: 0 not exercised;
                                         1 = answered 400 and ran no handler; 2 = anything else *)

Definition block_eq (b : block) (e : eitem) : bool :=
  match e with
  | EOk c n k => beq (fst b) c && (N.of_nat (length (snd b)) =? n) && (cksum (snd b) =? k)
  | EErr => false
  end.

Fixpoint blocks_eq (a : list block) (b : list eitem) : bool :=
  match a, b with
  | [], [] => true
  | x :: a', y :: b' => block_eq x y && blocks_eq a' b'
  | _, _ => false
  end.

Definition get_of (m : amsg) (l : bstr) : bstr :=
  match get_bytes m l with Ret (Some r) => r | _ => [] end.

Definition oeq (a b : option bstr) : bool :=
  match a, b with Some x, Some y => beq x y | None, None => true | _, _ => false end.

(* the model's reading against the observed one; a case outside the modelled domain (RUnm) is skipped;
   the issuer is compared when the implementation's DID parser accepted it *)
Definition read_agrees (r : rres) (o : robs) : bool :=
  match r, o with
  | RUnm, _ => true
  | ROk rc, RROk ran okk sg iss fork join prf =>
    let oc := r_ocm rc in
    beq (o_ran oc) ran && Bool.eqb (o_ok oc) okk && beq (r_sig rc) sg
    && (match iss with Some _ => oeq (o_iss oc) iss | None => true end)
    && list_eqb beq (o_fork oc) fork && oeq (o_join oc) join && list_eqb beq (o_prf oc) prf
  | ROk _, RRErr => false
  | _, RRErr => true
  | _, RROk _ _ _ _ _ _ _ => false
  end.

Fixpoint reads_agree (rs : list rres) (os : list robs) : bool :=
  match rs, os with
  | [], [] => true
  | r :: rs', o :: os' => read_agrees r o && reads_agree rs' os'
  | _, _ => false
  end.

(* the receipts behind the lookups that Get found, in order *)
Definition model_reads (mh : N -> N -> bstr -> option bstr) (d : decoded) (lookups : list bstr) : list rres :=
  filter_map (fun l => match get_bytes (d_msg d) l with
                       | Ret (Some rl) => Some (read_receipt mh (d_store d) rl)
                       | _ => None end) lookups.

(* 0 agree; 1 the implementation answered and the model says error; 2 the converse;
   3 root link; 4 Invocations; 5 Receipts; 6 Get; 7 Blocks; 8 a receipt named by the report reads differently *)
Definition cmp_obs (mh : N -> N -> bstr -> option bstr) (lookups : list bstr) (r : option decoded) (o : bobs) : N :=
  match o, r with
  | BONone, _ => 0
  | BOErr, None => 0
  | BOErr, Some _ => 2
  | BOMsg _ _ _ _ _ _, None => 1
  | BOMsg root ex rc gets reads blks, Some d =>
    if negb (beq (d_root d) root) then 3
    else if negb (list_eqb beq (invocations_bytes (d_msg d)) ex) then 4
    else if negb (list_eqb beq (match receipts_bytes (d_msg d) with Ret l => l | _ => [] end) rc) then 5
    else if negb (list_eqb beq (map (get_of (d_msg d)) lookups) gets) then 6
    else if negb (blocks_eq (tbl_blocks (d_store d)) blks) then 7
    else if negb (reads_agree (model_reads mh d lookups) reads) then 8
    else 0
  end.

(* class of the model's verdict: 0 message; 1..6 the failure; 7 non-200 status *)
Definition class_of (status : Z) (r : decoded + failure) : N :=
  if negb (status =? 200)%Z then 7 else
  match r with
  | inl _ => 0 | inr FHeader => 1 | inr FBlock => 2 | inr FNoRoots => 3
  | inr FRootMissing => 4 | inr FNotMessage => 5 | inr FIntegrity => 6
  end.

(* server.Handle answers 400 exactly when request.Decode fails *)
Definition cmp_handle (r : option decoded) (h : N) : N :=
  match h, r with
  | 0, _ => 0
  | 1, None => 0
  | 1, Some _ => 2          (* refused although the body is a decodable message *)
  | _, Some _ => 0
  | _, None => 1            (* not refused although the body is undecodable *)
  end.

(* (100 * Handle code + 10 * request code + response code, class) *)
Definition run_bcase (bases : list bstr) (c : bcase) : N * N :=
  let body := apply_bmut (nth (N.to_nat (bc_base c)) bases []) (bc_mut c) in
  let orc := fun _ : bstr => match bc_orc c with OOk r v _ => Some (r, v) | _ => None end in
  let mh := tbl_lookup body (bc_tbl c) in
  let r := decode_message_r mh orc body in
  let d := match r with inl d => Some d | inr _ => None end in
  let resp := match client_execute_bytes mh orc (bc_status c) body with BResponse d' => Some d' | BError => None end in
  (100 * cmp_handle d (bc_handle c) + 10 * cmp_obs mh (bc_lookups c) d (bc_req c) + cmp_obs mh (bc_lookups c) resp (bc_resp c),
   class_of (bc_status c) r).

Definition run_all (bases : list bstr) (cases : list bcase) : list (N * N) := map (run_bcase bases) cases.

(* disagreeing cases: (index, code) *)
Fixpoint bad_of (rs : list (N * N)) (i : N) : list (N * N) :=
  match rs with
  | [] => []
  | (a, _) :: t => if a =? 0 then bad_of t (i + 1) else (i, a) :: bad_of t (i + 1)
  end.

(* how many cases fall in each class 0..7 *)
Definition hist_of (rs : list (N * N)) : list N :=
  map (fun k => N.of_nat (length (filter (fun r => snd r =? k) rs))) [0; 1; 2; 3; 4; 5; 6; 7].

(* how the receipts named by the reports read in the model (response side):
   [ok; missing; bad; integrity; no-result; unmodelled] *)
Definition rclass (r : rres) : N :=
  match r with ROk _ => 0 | RMissing => 1 | RBad => 2 | RIntegrity => 3 | RNoResult => 4 | RUnm => 5 end.
Definition reads_of_bcase (bases : list bstr) (c : bcase) : list N :=
  let body := apply_bmut (nth (N.to_nat (bc_base c)) bases []) (bc_mut c) in
  let orc := fun _ : bstr => match bc_orc c with OOk r v _ => Some (r, v) | _ => None end in
  let mh := tbl_lookup body (bc_tbl c) in
  match decode_message_r mh orc body with
  | inl d => map rclass (model_reads mh d (bc_lookups c))
  | inr _ => []
  end.
Definition rhist_of (bases : list bstr) (cases : list bcase) : list N :=
  let all := flat_map (reads_of_bcase bases) cases in
  map (fun k => N.of_nat (length (filter (fun r => r =? k) all))) [0; 1; 2; 3; 4; 5].
