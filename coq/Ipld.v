(* Ipld.v — the IPLD data model used by go-ucanto (no floats: ucanto never
   emits them), nested induction, boolean equality, well-formedness,
   DAG-CBOR map-key order (RFC 7049 canonical: shorter key first, then
   bytewise), sorting of maps, canonical form, CID syntax (go-cid Cast),
   and schema-level helpers.  Stdlib only. *)
From Ucanto Require Import Base Varint.
From Coq Require Import ZifyBool ZifyN ZifyNat.
From Coq Require Import Sorting.Permutation Sorting.Sorted.
Open Scope N_scope.

Inductive ipld :=
| INull
| IBool (b : bool)
| IInt (z : Z)
| IString (s : bstr)
| IBytes (b : bstr)
| IList (l : list ipld)
| IMap (m : list (bstr * ipld))
| ILink (cid : bstr).

(* ------------------------------------------------------------------ *)
(* nested induction principle                                          *)

Section ipld_ind'.
  Variable P : ipld -> Prop.
  Hypothesis HNull : P INull.
  Hypothesis HBool : forall b, P (IBool b).
  Hypothesis HInt : forall z, P (IInt z).
  Hypothesis HString : forall s, P (IString s).
  Hypothesis HBytes : forall b, P (IBytes b).
  Hypothesis HList : forall l, Forall P l -> P (IList l).
  Hypothesis HMap : forall m, Forall (fun kv => P (snd kv)) m -> P (IMap m).
  Hypothesis HLink : forall c, P (ILink c).

  Fixpoint ipld_ind' (v : ipld) : P v :=
    match v with
    | INull => HNull
    | IBool b => HBool b
    | IInt z => HInt z
    | IString s => HString s
    | IBytes b => HBytes b
    | IList l =>
      HList l ((fix go (l : list ipld) : Forall P l :=
                  match l with
                  | [] => Forall_nil _
                  | x :: l' => Forall_cons x (ipld_ind' x) (go l')
                  end) l)
    | IMap m =>
      HMap m ((fix go (m : list (bstr * ipld)) : Forall (fun kv => P (snd kv)) m :=
                 match m with
                 | [] => Forall_nil _
                 | kv :: m' => Forall_cons kv (ipld_ind' (snd kv)) (go m')
                 end) m)
    | ILink c => HLink c
    end.
End ipld_ind'.

(* ------------------------------------------------------------------ *)
(* boolean equality                                                    *)

Fixpoint ipld_eqb (a b : ipld) : bool :=
  match a, b with
  | INull, INull => true
  | IBool x, IBool y => Bool.eqb x y
  | IInt x, IInt y => Z.eqb x y
  | IString x, IString y => beq x y
  | IBytes x, IBytes y => beq x y
  | ILink x, ILink y => beq x y
  | IList x, IList y =>
    (fix go (x y : list ipld) : bool :=
       match x, y with
       | [], [] => true
       | a :: x', b :: y' => ipld_eqb a b && go x' y'
       | _, _ => false
       end) x y
  | IMap x, IMap y =>
    (fix go (x y : list (bstr * ipld)) : bool :=
       match x, y with
       | [], [] => true
       | (k, a) :: x', (k', b) :: y' => beq k k' && ipld_eqb a b && go x' y'
       | _, _ => false
       end) x y
  | _, _ => false
  end.

Lemma ipld_eqb_eq a b : ipld_eqb a b = true <-> a = b.
Proof.
  revert b. induction a as [| x | x | x | x | l IH | m IH | x] using ipld_ind';
    intros b; destruct b as [| y | y | y | y | l2 | m2 | y]; cbn [ipld_eqb];
    try (split; [discriminate | intros E; discriminate E]); try (split; reflexivity).
  - rewrite Bool.eqb_true_iff. split; congruence.
  - rewrite Z.eqb_eq. split; congruence.
  - rewrite beq_eq. split; congruence.
  - rewrite beq_eq. split; congruence.
  - revert l2. induction IH as [|a l Ha _ IHl]; intros [|b l2];
      try (split; [discriminate | intros E; discriminate E]); [split; reflexivity|].
    rewrite andb_true_iff, Ha, IHl. split.
    + intros [-> E]. inversion E. reflexivity.
    + intros E. inversion E. auto.
  - revert m2. induction IH as [|[k a] m Ha _ IHm]; intros [|[k' b] m2];
      try (split; [discriminate | intros E; discriminate E]); [split; reflexivity|].
    cbn [snd] in Ha. rewrite !andb_true_iff, beq_eq, Ha, IHm. split.
    + intros [[-> ->] E]. inversion E. reflexivity.
    + intros E. inversion E. auto.
  - rewrite beq_eq. split; congruence.
Qed.

Lemma ipld_eqb_refl a : ipld_eqb a a = true.
Proof. apply ipld_eqb_eq. reflexivity. Qed.

Definition ipld_eq_dec (a b : ipld) : {a = b} + {a <> b}.
Proof.
  destruct (ipld_eqb a b) eqn:E.
  - left. apply ipld_eqb_eq. exact E.
  - right. intros H. apply ipld_eqb_eq in H. congruence.
Defined.

(* ------------------------------------------------------------------ *)
(* measures                                                            *)

Fixpoint ipld_size (v : ipld) : nat :=
  match v with
  | IList l => S (fold_right (fun x acc => ipld_size x + acc)%nat O l)
  | IMap m => S (fold_right (fun kv acc => ipld_size (snd kv) + acc)%nat O m)
  | _ => 1%nat
  end.

Fixpoint ipld_depth (v : ipld) : nat :=
  match v with
  | IList l => S (fold_right (fun x acc => Nat.max (ipld_depth x) acc) O l)
  | IMap m => S (fold_right (fun kv acc => Nat.max (ipld_depth (snd kv)) acc) O m)
  | _ => 1%nat
  end.

(* ------------------------------------------------------------------ *)
(* DAG-CBOR key order                                                  *)

Fixpoint lex_cmp (a b : bstr) : comparison :=
  match a, b with
  | [], [] => Eq
  | [], _ :: _ => Lt
  | _ :: _, [] => Gt
  | x :: a', y :: b' => match x ?= y with Eq => lex_cmp a' b' | c => c end
  end.

(* marshal.go, MapSortMode_RFC7049: li == lj ? key_i < key_j : li < lj *)
Definition key_cmp (a b : bstr) : comparison :=
  match Nat.compare (length a) (length b) with
  | Eq => lex_cmp a b
  | c => c
  end.

Definition key_ltb (a b : bstr) : bool :=
  match key_cmp a b with Lt => true | _ => false end.

Lemma lex_cmp_eq a b : lex_cmp a b = Eq <-> a = b.
Proof.
  revert b. induction a as [|x a IH]; intros [|y b]; cbn [lex_cmp];
    try (split; [discriminate | intros E; discriminate E]); [split; reflexivity|].
  destruct (x ?= y) eqn:C.
  - apply N.compare_eq_iff in C. subst. rewrite IH. split; [intros ->; reflexivity | intros E; inversion E; reflexivity].
  - split; [discriminate|]. intros E. inversion E; subst. rewrite N.compare_refl in C. discriminate.
  - split; [discriminate|]. intros E. inversion E; subst. rewrite N.compare_refl in C. discriminate.
Qed.

Lemma lex_cmp_opp a b : lex_cmp b a = CompOpp (lex_cmp a b).
Proof.
  revert b. induction a as [|x a IH]; intros [|y b]; cbn [lex_cmp]; try reflexivity.
  rewrite (N.compare_antisym x y). destruct (x ?= y); cbn [CompOpp]; auto.
Qed.

Lemma lex_cmp_trans a b c : lex_cmp a b = Lt -> lex_cmp b c = Lt -> lex_cmp a c = Lt.
Proof.
  revert b c. induction a as [|x a IH]; intros [|y b] [|z c]; cbn [lex_cmp]; try congruence.
  destruct (x ?= y) eqn:C1; try discriminate; destruct (y ?= z) eqn:C2; try discriminate; intros H1 H2.
  - apply N.compare_eq_iff in C1, C2. subst. rewrite N.compare_refl. eauto.
  - apply N.compare_eq_iff in C1. subst. rewrite C2. reflexivity.
  - apply N.compare_eq_iff in C2. subst. rewrite C1. reflexivity.
  - assert (L1 : x < y) by (apply N.compare_lt_iff; exact C1).
    assert (L2 : y < z) by (apply N.compare_lt_iff; exact C2).
    assert (L : x < z) by lia.
    apply N.compare_lt_iff in L. rewrite L. reflexivity.
Qed.

Lemma key_cmp_eq a b : key_cmp a b = Eq <-> a = b.
Proof.
  unfold key_cmp. destruct (Nat.compare (length a) (length b)) eqn:C.
  - apply lex_cmp_eq.
  - split; [discriminate|]. intros ->. rewrite Nat.compare_refl in C. discriminate.
  - split; [discriminate|]. intros ->. rewrite Nat.compare_refl in C. discriminate.
Qed.

Lemma key_cmp_opp a b : key_cmp b a = CompOpp (key_cmp a b).
Proof.
  unfold key_cmp. rewrite (Nat.compare_antisym (length a) (length b)).
  destruct (Nat.compare (length a) (length b)); cbn [CompOpp]; auto using lex_cmp_opp.
Qed.

Lemma key_cmp_trans a b c : key_cmp a b = Lt -> key_cmp b c = Lt -> key_cmp a c = Lt.
Proof.
  unfold key_cmp.
  destruct (Nat.compare (length a) (length b)) eqn:C1; try discriminate;
    destruct (Nat.compare (length b) (length c)) eqn:C2; try discriminate; intros H1 H2.
  - apply Nat.compare_eq_iff in C1, C2. rewrite C1, C2, Nat.compare_refl. eauto using lex_cmp_trans.
  - apply Nat.compare_eq_iff in C1. rewrite C1, C2. reflexivity.
  - apply Nat.compare_eq_iff in C2. rewrite <- C2, C1. reflexivity.
  - apply Nat.compare_lt_iff in C1, C2. assert (L : (length a < length c)%nat) by lia.
    apply Nat.compare_lt_iff in L. rewrite L. reflexivity.
Qed.

Lemma key_ltb_irrefl a : key_ltb a a = false.
Proof. unfold key_ltb. replace (key_cmp a a) with Eq by (symmetry; apply key_cmp_eq; reflexivity). reflexivity. Qed.

Lemma key_ltb_asym a b : key_ltb a b = true -> key_ltb b a = false.
Proof. unfold key_ltb. rewrite (key_cmp_opp a b). destruct (key_cmp a b); cbn; congruence. Qed.

Lemma key_ltb_trans a b c : key_ltb a b = true -> key_ltb b c = true -> key_ltb a c = true.
Proof.
  unfold key_ltb. destruct (key_cmp a b) eqn:C1; try discriminate.
  destruct (key_cmp b c) eqn:C2; try discriminate. intros _ _.
  rewrite (key_cmp_trans _ _ _ C1 C2). reflexivity.
Qed.

Lemma key_ltb_total a b : key_ltb a b = false -> a <> b -> key_ltb b a = true.
Proof.
  unfold key_ltb. rewrite (key_cmp_opp a b). destruct (key_cmp a b) eqn:C; cbn; try congruence.
  apply key_cmp_eq in C. contradiction.
Qed.

(* "not greater" is transitive *)
Lemma key_le_trans a b c : key_ltb b a = false -> key_ltb c b = false -> key_ltb c a = false.
Proof.
  intros H1 H2. destruct (key_ltb c a) eqn:H3; [|reflexivity].
  destruct (beq a b) eqn:E.
  - apply beq_eq in E. subst. congruence.
  - apply beq_neq in E. pose proof (key_ltb_total _ _ H1 (not_eq_sym E)) as L.
    rewrite (key_ltb_trans _ _ _ H3 L) in H2. discriminate.
Qed.

(* ------------------------------------------------------------------ *)
(* sorting association lists by key (insertion sort, stable)           *)

Section Sort.
  Context {A : Type}.
  Notation entry := (bstr * A)%type.

  Fixpoint insert_kv (kv : entry) (m : list entry) : list entry :=
    match m with
    | [] => [kv]
    | kv' :: m' => if key_ltb (fst kv') (fst kv) then kv' :: insert_kv kv m' else kv :: m
    end.

  Definition sort_map (m : list entry) : list entry := fold_right insert_kv [] m.

  Definition klt (x y : entry) : Prop := key_ltb (fst x) (fst y) = true.
  Definition kle (x y : entry) : Prop := key_ltb (fst y) (fst x) = false.

  Lemma insert_kv_perm kv m : Permutation (insert_kv kv m) (kv :: m).
  Proof.
    induction m as [|kv' m IH]; cbn [insert_kv]; [reflexivity|].
    destruct (key_ltb (fst kv') (fst kv)); [|reflexivity].
    rewrite IH. apply perm_swap.
  Qed.

  Lemma sort_map_perm m : Permutation (sort_map m) m.
  Proof.
    induction m as [|kv m IH]; cbn [sort_map fold_right]; [reflexivity|].
    fold (sort_map m). rewrite insert_kv_perm. constructor. exact IH.
  Qed.

  Lemma sort_map_length m : length (sort_map m) = length m.
  Proof. apply Permutation_length, sort_map_perm. Qed.

  Lemma insert_kv_sorted kv m : StronglySorted kle m -> StronglySorted kle (insert_kv kv m).
  Proof.
    induction 1 as [|kv' m S IH F]; cbn [insert_kv].
    - constructor; constructor.
    - destruct (key_ltb (fst kv') (fst kv)) eqn:E.
      + constructor; [exact IH|].
        eapply Permutation_Forall; [symmetry; apply insert_kv_perm|].
        constructor; [|exact F]. unfold kle. apply key_ltb_asym. exact E.
      + constructor; [constructor; assumption|].
        constructor; [exact E|].
        eapply Forall_impl; [|exact F]. intros y Hy. unfold kle in *.
        eapply key_le_trans; eassumption.
  Qed.

  Lemma sort_map_sorted m : StronglySorted kle (sort_map m).
  Proof.
    induction m as [|kv m IH]; cbn [sort_map fold_right]; [constructor|].
    apply insert_kv_sorted. exact IH.
  Qed.

  Lemma sort_map_id m : StronglySorted kle m -> sort_map m = m.
  Proof.
    induction 1 as [|kv m S IH F]; [reflexivity|].
    cbn [sort_map fold_right]. fold (sort_map m). rewrite IH.
    destruct m as [|kv' m']; [reflexivity|]. cbn [insert_kv].
    inversion F as [|? ? K _]; subst. unfold kle in K. rewrite K. reflexivity.
  Qed.

  Lemma sort_map_idem m : sort_map (sort_map m) = sort_map m.
  Proof. apply sort_map_id, sort_map_sorted. Qed.

  Lemma kle_strict m : StronglySorted kle m -> NoDup (map fst m) -> StronglySorted klt m.
  Proof.
    induction 1 as [|kv m S IH F]; intros ND; [constructor|].
    cbn [map] in ND. inversion ND as [|? ? NI ND']; subst.
    constructor; [auto|].
    rewrite Forall_forall in *. intros y Hy. unfold klt. apply key_ltb_total.
    - apply F. exact Hy.
    - intros E. apply NI. rewrite <- E. apply in_map. exact Hy.
  Qed.

  Lemma klt_le m : StronglySorted klt m -> StronglySorted kle m.
  Proof.
    induction 1 as [|kv m S IH F]; constructor; [exact IH|].
    eapply Forall_impl; [|exact F]. intros y Hy. apply key_ltb_asym. exact Hy.
  Qed.

  Lemma klt_nodup m : StronglySorted klt m -> NoDup (map fst m).
  Proof.
    induction 1 as [|kv m S IH F]; cbn [map]; constructor; [|exact IH].
    intros I. apply in_map_iff in I. destruct I as [y [E Hy]].
    rewrite Forall_forall in F. specialize (F y Hy). unfold klt in F.
    rewrite E, key_ltb_irrefl in F. discriminate.
  Qed.

  (* a strictly sorted list is determined by its set of entries *)
  Lemma sorted_perm_eq l1 : forall l2,
    StronglySorted klt l1 -> StronglySorted klt l2 -> Permutation l1 l2 -> l1 = l2.
  Proof.
    induction l1 as [|a l1 IH]; intros l2 S1 S2 P.
    - apply Permutation_nil in P. congruence.
    - destruct l2 as [|b l2]; [apply Permutation_sym, Permutation_nil in P; discriminate|].
      inversion S1 as [|? ? S1' F1]; inversion S2 as [|? ? S2' F2]; subst.
      assert (E : a = b).
      { assert (Ia : In a (b :: l2)) by (eapply Permutation_in; [exact P | left; reflexivity]).
        assert (Ib : In b (a :: l1)) by (eapply Permutation_in; [symmetry; exact P | left; reflexivity]).
        destruct Ia as [Ia|Ia]; [congruence|]. destruct Ib as [Ib|Ib]; [congruence|].
        rewrite Forall_forall in F1, F2. specialize (F1 b Ib). specialize (F2 a Ia).
        unfold klt in *. apply key_ltb_asym in F1. congruence. }
      subst. f_equal. apply IH; auto. eapply Permutation_cons_inv. exact P.
  Qed.

  Lemma sort_map_strict m : NoDup (map fst m) -> StronglySorted klt (sort_map m).
  Proof.
    intros ND. apply kle_strict; [apply sort_map_sorted|].
    eapply Permutation_NoDup; [|exact ND]. apply Permutation_map. symmetry. apply sort_map_perm.
  Qed.

  (* insertion order of a map does not influence the sorted result *)
  Theorem sort_map_permutation m m' :
    NoDup (map fst m) -> Permutation m m' -> sort_map m = sort_map m'.
  Proof.
    intros ND P. apply sorted_perm_eq.
    - apply sort_map_strict. exact ND.
    - apply sort_map_strict. eapply Permutation_NoDup; [|exact ND]. apply Permutation_map. exact P.
    - rewrite !sort_map_perm. exact P.
  Qed.

  Theorem sort_map_sorted_id m : StronglySorted klt m -> sort_map m = m.
  Proof. intros S. apply sort_map_id, klt_le, S. Qed.
End Sort.

Definition on_snd {A B} (f : A -> B) (kv : bstr * A) : bstr * B := (fst kv, f (snd kv)).

Lemma map_fst_on_snd {A B} (f : A -> B) m : map fst (map (on_snd f) m) = map fst m.
Proof. rewrite map_map. apply map_ext. reflexivity. Qed.

Lemma insert_kv_map {A B} (f : A -> B) kv m :
  insert_kv (on_snd f kv) (map (on_snd f) m) = map (on_snd f) (insert_kv kv m).
Proof.
  induction m as [|kv' m IH]; cbn [insert_kv map]; [reflexivity|].
  cbn [on_snd fst]. destruct (key_ltb (fst kv') (fst kv)); cbn [map]; [|reflexivity].
  f_equal. exact IH.
Qed.

Lemma sort_map_map {A B} (f : A -> B) m :
  sort_map (map (on_snd f) m) = map (on_snd f) (sort_map m).
Proof.
  induction m as [|kv m IH]; [reflexivity|].
  cbn [map sort_map fold_right]. fold (sort_map m). fold (sort_map (map (on_snd f) m)).
  rewrite IH. apply insert_kv_map.
Qed.

(* ------------------------------------------------------------------ *)
(* canonical form: maps sorted recursively                             *)

Fixpoint canon (v : ipld) : ipld :=
  match v with
  | IList l => IList (map canon l)
  | IMap m => IMap (sort_map (map (fun kv => (fst kv, canon (snd kv))) m))
  | _ => v
  end.

Lemma canon_map_eq m : canon (IMap m) = IMap (sort_map (map (on_snd canon) m)).
Proof. reflexivity. Qed.

Theorem canon_idem v : canon (canon v) = canon v.
Proof.
  induction v as [| | | | | l IH | m IH |] using ipld_ind'; try reflexivity.
  - cbn [canon]. f_equal. rewrite map_map. apply map_ext_Forall. exact IH.
  - rewrite !canon_map_eq. f_equal.
    rewrite <- sort_map_map, sort_map_idem. f_equal.
    rewrite map_map. apply map_ext_Forall.
    eapply Forall_impl; [|exact IH]. intros kv H. unfold on_snd. cbn [fst snd]. rewrite H. reflexivity.
Qed.

(* canonical values: every map strictly sorted *)
Definition is_canon (v : ipld) : Prop := canon v = v.

(* ------------------------------------------------------------------ *)
(* CID syntax: go-cid v0.4.1 Cast / CidFromBytes, go-multihash MHFromBytes *)

Definition mh_len (bs : bstr) : option nat :=
  if (length bs <? 2)%nat then None else
  match from_uvarint bs with
  | inr (_, c1) =>
    let r1 := skipn c1 bs in
    match from_uvarint r1 with
    | inr (len, c2) =>
      let r2 := skipn c2 r1 in
      if 2147483647 <? len then None
      else if N.of_nat (length r2) <? len then None
      else Some (c1 + c2 + N.to_nat len)%nat
    | inl _ => None
    end
  | inl _ => None
  end.

Definition cid_valid (data : bstr) : bool :=
  match data with
  | 18 :: 32 :: _ :: _ => (length data =? 34)%nat       (* CIDv0: sha2-256 multihash *)
  | _ =>
    match from_uvarint data with
    | inr (1, n) =>
      match from_uvarint (skipn n data) with
      | inr (_, cn) =>
        match mh_len (skipn (n + cn) data) with
        | Some k => (n + cn + k =? length data)%nat
        | None => false
        end
      | inl _ => false
      end
    | _ => false
    end
  end.

(* CIDv1 constructor and its validity *)
Definition mk_multihash (code : N) (digest : bstr) : bstr :=
  uvarint code ++ uvarint (N.of_nat (length digest)) ++ digest.
Definition mk_cidv1 (codec code : N) (digest : bstr) : bstr :=
  1 :: uvarint codec ++ mk_multihash code digest.

Lemma from_uvarint_app n rest : n < 2 ^ 63 ->
  from_uvarint (uvarint n ++ rest) = inr (n, length (uvarint n)).
Proof. intros H. apply from_uvarint_uvarint. exact H. Qed.

Lemma skipn_app_exact {A} (a b : list A) : skipn (length a) (a ++ b) = b.
Proof. rewrite skipn_app, skipn_all, Nat.sub_diag. reflexivity. Qed.

Lemma mh_len_mk code digest rest :
  code < 2 ^ 63 -> N.of_nat (length digest) <= 2147483647 ->
  mh_len (mk_multihash code digest ++ rest) = Some (length (mk_multihash code digest)).
Proof.
  intros Hc Hd. unfold mh_len, mk_multihash.
  assert (L1 : (1 <= length (uvarint code))%nat).
  { pose proof (uvarint_nonempty code). destruct (uvarint code); [congruence | cbn; lia]. }
  assert (L2 : (1 <= length (uvarint (N.of_nat (length digest))))%nat).
  { pose proof (uvarint_nonempty (N.of_nat (length digest))).
    destruct (uvarint (N.of_nat (length digest))); [congruence | cbn; lia]. }
  rewrite <- !app_assoc.
  replace (length (uvarint code ++ uvarint (N.of_nat (length digest)) ++ digest ++ rest) <? 2)%nat with false
    by (rewrite !app_length; lia).
  rewrite from_uvarint_app by exact Hc. rewrite skipn_app_exact.
  rewrite from_uvarint_app by lia. rewrite skipn_app_exact.
  replace (2147483647 <? N.of_nat (length digest)) with false by lia.
  replace (N.of_nat (length (digest ++ rest)) <? N.of_nat (length digest)) with false
    by (rewrite app_length; lia).
  rewrite !app_length. f_equal. lia.
Qed.

Lemma cid_valid_mk codec code digest :
  codec < 2 ^ 63 -> code < 2 ^ 63 -> N.of_nat (length digest) <= 2147483647 ->
  cid_valid (mk_cidv1 codec code digest) = true.
Proof.
  intros Hk Hc Hd. unfold cid_valid, mk_cidv1.
  change (from_uvarint (1 :: uvarint codec ++ mk_multihash code digest))
    with (from_uvarint (uvarint 1 ++ uvarint codec ++ mk_multihash code digest)).
  rewrite from_uvarint_app by lia. change (length (uvarint 1)) with 1%nat.
  cbn [skipn]. rewrite from_uvarint_app by exact Hk.
  change (1 + length (uvarint codec))%nat with (length (1 :: uvarint codec)).
  change (1 :: uvarint codec ++ mk_multihash code digest)
    with ((1 :: uvarint codec) ++ mk_multihash code digest).
  rewrite skipn_app_exact.
  rewrite <- (app_nil_r (mk_multihash code digest)) at 1.
  rewrite (mh_len_mk code digest [] Hc Hd). rewrite app_length. apply Nat.eqb_refl.
Qed.

(* ------------------------------------------------------------------ *)
(* well-formedness: what a go-ipld-prime node can hold / dag-cbor emits *)

Definition bytes_ok (s : bstr) : bool :=
  forallb (fun b => b <? 256) s && (N.of_nat (length s) <? 2 ^ 64).

Fixpoint nodupb (l : list bstr) : bool :=
  match l with
  | [] => true
  | x :: l' => negb (existsb (beq x) l') && nodupb l'
  end.

Lemma existsb_beq_In x l : existsb (beq x) l = true <-> In x l.
Proof.
  rewrite existsb_exists. split.
  - intros [y [I E]]. apply beq_eq in E. subst. exact I.
  - intros I. exists x. split; [exact I | apply beq_refl].
Qed.

Lemma nodupb_NoDup l : nodupb l = true <-> NoDup l.
Proof.
  induction l as [|x l IH]; cbn [nodupb].
  - split; [constructor | reflexivity].
  - rewrite andb_true_iff, negb_true_iff, IH. split.
    + intros [E ND]. constructor; [|exact ND]. intros I. apply existsb_beq_In in I. congruence.
    + intros ND. inversion ND as [|? ? NI ND']; subst. split; [|exact ND'].
      destruct (existsb (beq x) l) eqn:E; [|reflexivity]. apply existsb_beq_In in E. contradiction.
Qed.

(* ints: int64 or (basicnode.NewUint) uint64 *)
Fixpoint wf_ipld (v : ipld) : bool :=
  match v with
  | INull | IBool _ => true
  | IInt z => ((- 2 ^ 63 <=? z) && (z <? 2 ^ 64))%Z
  | IString s => bytes_ok s
  | IBytes b => bytes_ok b
  | ILink c => bytes_ok (0 :: c) && cid_valid c     (* the byte string under tag 42 is 0x00 ++ cid *)
  | IList l => (N.of_nat (length l) <? 2 ^ 64) && forallb wf_ipld l
  | IMap m =>
    (N.of_nat (length m) <? 2 ^ 64)
    && forallb (fun kv => bytes_ok (fst kv) && wf_ipld (snd kv)) m
    && nodupb (map fst m)
  end.

Lemma wf_map_nodup m : wf_ipld (IMap m) = true -> NoDup (map fst m).
Proof. cbn [wf_ipld]. rewrite !andb_true_iff. intros [_ H]. apply nodupb_NoDup. exact H. Qed.

Lemma forallb_perm {A} (f : A -> bool) l l' : Permutation l l' -> forallb f l = forallb f l'.
Proof.
  induction 1 as [| x l l' _ IH | x y l | l l' l'' _ IH1 _ IH2]; cbn [forallb].
  - reflexivity.
  - rewrite IH. reflexivity.
  - destruct (f x), (f y); reflexivity.
  - congruence.
Qed.

Lemma wf_canon v : wf_ipld v = true -> wf_ipld (canon v) = true.
Proof.
  induction v as [| | | | | l IH | m IH |] using ipld_ind'; try (intros H; exact H).
  - cbn [canon wf_ipld]. rewrite !andb_true_iff, map_length. intros [L F]. split; [exact L|].
    rewrite forallb_forall in *. intros y Hy. apply in_map_iff in Hy. destruct Hy as [x [<- Hx]].
    rewrite Forall_forall in IH. auto.
  - rewrite canon_map_eq. cbn [wf_ipld]. rewrite !andb_true_iff. intros [[L F] ND].
    rewrite sort_map_length, map_length.
    rewrite (forallb_perm _ _ _ (sort_map_perm _)).
    split; [split; [exact L|]|].
    + rewrite forallb_forall in *. intros y Hy. apply in_map_iff in Hy. destruct Hy as [x [<- Hx]].
      unfold on_snd. cbn [fst snd]. specialize (F x Hx). rewrite andb_true_iff in *.
      rewrite Forall_forall in IH. split; [tauto | apply IH; tauto].
    + apply nodupb_NoDup. apply nodupb_NoDup in ND.
      eapply Permutation_NoDup; [apply Permutation_map; symmetry; apply sort_map_perm|].
      rewrite map_fst_on_snd. exact ND.
Qed.

(* ------------------------------------------------------------------ *)
(* schema-level helpers (bindnode emits struct fields as a map in schema
   order; the dag-cbor encoder then sorts them)                         *)

Definition field (k : bstr) (v : ipld) : list (bstr * ipld) := [(k, v)].
Definition opt_field (k : bstr) (v : option ipld) : list (bstr * ipld) :=
  match v with Some x => [(k, x)] | None => [] end.
Definition nullable (v : option ipld) : ipld :=
  match v with Some x => x | None => INull end.
Definition struct_map (fields : list (list (bstr * ipld))) : ipld := IMap (concat fields).

Definition map_get (k : bstr) (v : ipld) : option ipld :=
  match v with IMap m => slookup k m | _ => None end.
Definition as_string (v : ipld) : option bstr := match v with IString s => Some s | _ => None end.
Definition as_bytes (v : ipld) : option bstr := match v with IBytes s => Some s | _ => None end.
Definition as_int (v : ipld) : option Z := match v with IInt z => Some z | _ => None end.
Definition as_bool (v : ipld) : option bool := match v with IBool b => Some b | _ => None end.
Definition as_list (v : ipld) : option (list ipld) := match v with IList l => Some l | _ => None end.
Definition as_map (v : ipld) : option (list (bstr * ipld)) := match v with IMap m => Some m | _ => None end.
Definition as_link (v : ipld) : option bstr := match v with ILink c => Some c | _ => None end.
Definition is_null (v : ipld) : bool := match v with INull => true | _ => false end.

(* lookup is insensitive to the order of a map with distinct keys *)
Lemma slookup_in {V} k (v : V) m : NoDup (map fst m) -> In (k, v) m -> slookup k m = Some v.
Proof.
  induction m as [|[k' v'] m IH]; cbn [map fst slookup]; intros ND I; [contradiction|].
  inversion ND as [|? ? NI ND']; subst. destruct I as [E|I].
  - inversion E; subst. rewrite beq_refl. reflexivity.
  - destruct (beq k k') eqn:B.
    + apply beq_eq in B. subst. exfalso. apply NI. change k' with (fst (k', v)). apply in_map. exact I.
    + auto.
Qed.

Lemma slookup_some_in {V} k (v : V) m : slookup k m = Some v -> In (k, v) m.
Proof.
  induction m as [|[k' v'] m IH]; cbn [slookup]; [discriminate|].
  destruct (beq k k') eqn:B.
  - apply beq_eq in B. intros E. inversion E; subst. left. reflexivity.
  - intros E. right. auto.
Qed.

Lemma slookup_perm {V} k (m m' : list (bstr * V)) :
  NoDup (map fst m) -> Permutation m m' -> slookup k m = slookup k m'.
Proof.
  intros ND P.
  assert (ND' : NoDup (map fst m')) by (eapply Permutation_NoDup; [apply Permutation_map; exact P | exact ND]).
  destruct (slookup k m) as [v|] eqn:E.
  - symmetry. apply slookup_in; [exact ND'|]. eapply Permutation_in; [exact P|]. apply slookup_some_in. exact E.
  - destruct (slookup k m') as [v|] eqn:E'; [|reflexivity].
    apply slookup_some_in in E'. eapply Permutation_in in E'; [|symmetry; exact P].
    rewrite (slookup_in _ _ _ ND E') in E. discriminate.
Qed.

(* reading a field from the decoded (canonical) map = reading it from the map as built *)
Lemma map_get_canon_top k m :
  NoDup (map fst m) ->
  map_get k (canon (IMap m)) = option_map canon (slookup k m).
Proof.
  intros ND. rewrite canon_map_eq. cbn [map_get].
  rewrite (slookup_perm k (sort_map (map (on_snd canon) m)) (map (on_snd canon) m)).
  - clear ND. induction m as [|[k' v'] m IH]; cbn [map slookup on_snd fst snd]; [reflexivity|].
    destruct (beq k k'); [reflexivity | exact IH].
  - eapply Permutation_NoDup; [apply Permutation_map; symmetry; apply sort_map_perm|].
    rewrite map_fst_on_snd. exact ND.
  - apply sort_map_perm.
Qed.

(* ------------------------------------------------------------------ *)
(* non-vacuity                                                         *)

Example key_order_example :
  sort_map [(bs "bb", 1); (bs "a", 2); (bs "ab", 3); (bs "", 4); (bs "B", 5)]
  = [(bs "", 4); (bs "B", 5); (bs "a", 2); (bs "ab", 3); (bs "bb", 1)].
Proof. reflexivity. Qed.

Example cid_valid_v1 :
  cid_valid (mk_cidv1 113 18 (repeat 7 32)) = true /\ cid_valid (18 :: 32 :: repeat 7 32) = true
  /\ cid_valid [1; 85; 0; 0] = true /\ cid_valid [1; 113; 18; 32; 0] = false /\ cid_valid [] = false.
Proof. vm_compute. repeat split. Qed.
