(* EndToEnd.v — compositions across the per-property models: what a handler call implies. *)
From Ucanto Require Import Base Pattern Time Validator ValidatorSpec ValidatorProps Server.

(* server.Run + validator.Access: a handler is called only for an invocation that carries a
   complete valid delegation chain (ValidatorSpec.P: every token on the path inside its time
   window and signed / session-backed, every citation aligned, every capability derived through
   the handler's own descriptor, the chain rooted where can_issue holds, the revocation checker
   having accepted exactly that authorization), and it is called with that chain's capability. *)
Theorem handler_call_has_valid_chain U fuel srv :
  (forall l p, resolve_proof (s_ctx srv) l = Some p -> d_link p = l) ->
  forall inv rc calls, run U fuel srv inv = Some (rc, calls) -> calls <> [] ->
  exists h a t c, calls = [(h_can h, node_cap a)] /\
    tok U inv = Some t /\ t_caps t = [c] /\ find_handler (r_can c) (s_service srv) = Some h /\
    fst (access U (s_ctx srv) fuel (h_desc h) inv) = AOk a /\
    P U (s_ctx srv) fuel (h_desc h) [inv] a.
Proof.
  intros Hres inv rc calls Hrun Hne.
  destruct (run_calls U fuel srv inv rc calls Hrun) as [[E | (h & a & t & c & Ec & Ht & Hc & Hf & Ha)] _].
  - contradiction.
  - exists h, a, t, c. repeat split; try assumption.
    apply (access_sound U (s_ctx srv) Hres fuel (h_desc h) inv a Ha).
Qed.

(* the same for a whole request (server.Execute): EVERY entry of the handler call log belongs to
   an invocation named in the execute list whose blocks travelled, and that invocation carries a
   complete valid chain for the handler that was called *)
Lemma run_all_calls U fuel srv invs : forall rcs calls,
  run_all U fuel srv invs = Some (rcs, calls) ->
  forall k, In k calls -> exists i rc cs, In i invs /\ run U fuel srv i = Some (rc, cs) /\ In k cs.
Proof.
  induction invs as [|i r IH]; cbn [run_all]; intros rcs calls H k Hk.
  - inversion H; subst. destruct Hk.
  - destruct (run U fuel srv i) as [[rc cs]|] eqn:R; [|discriminate].
    destruct (run_all U fuel srv r) as [[rcs' css]|]; [|discriminate].
    inversion H; subst. apply in_app_or in Hk. destruct Hk as [Hk | Hk].
    + exists i, rc, cs. split; [left; reflexivity|]. split; [exact R | exact Hk].
    + destruct (IH _ _ eq_refl k Hk) as (i' & rc' & cs' & Hi & Hr & Hin).
      exists i', rc', cs'. split; [right; exact Hi|]. split; assumption.
Qed.

Lemma dedupe_incl : forall exec seen l, In l (dedupe seen exec) -> In l exec.
Proof.
  induction exec as [|x r IH]; intros seen l H; cbn [dedupe] in H; [destruct H|].
  destruct (existsb (N.eqb x) seen).
  - right. exact (IH _ _ H).
  - destruct H as [H | H]; [left; exact H | right; exact (IH _ _ H)].
Qed.

Theorem request_calls_have_valid_chains U fuel srv :
  (forall l p, resolve_proof (s_ctx srv) l = Some p -> d_link p = l) ->
  forall vis exec rep calls, execute U fuel srv vis exec = ExecOk rep calls ->
  forall k, In k calls ->
  exists l h a t c, In l exec /\ In l vis /\ k = (h_can h, node_cap a) /\
    tok U (mkDlg l vis) = Some t /\ t_caps t = [c] /\ find_handler (r_can c) (s_service srv) = Some h /\
    P U (s_ctx srv) fuel (h_desc h) [mkDlg l vis] a.
Proof.
  intros Hres vis exec rep calls H k Hk.
  unfold execute, execute_sched in H.
  destruct (forallb (fun l => existsb (N.eqb l) vis) (dedupe [] exec)) eqn:V; [|discriminate].
  destruct (run_all U fuel srv (map (fun l => mkDlg l vis) (dedupe [] exec))) as [[rcs cs]|] eqn:RA; [|discriminate].
  inversion H; subst.
  destruct (run_all_calls _ _ _ _ _ _ RA k Hk) as (i & rc & cs' & Hi & Hr & Hin).
  apply in_map_iff in Hi. destruct Hi as (l & El & Hl). subst i.
  assert (Hne : cs' <> []) by (intro E; subst; destruct Hin).
  destruct (handler_call_has_valid_chain U fuel srv Hres _ _ _ Hr Hne) as (h & a & t & c & Ec & Ht & Hc & Hf & _ & HP).
  subst cs'. destruct Hin as [Hin | []]. subst k.
  exists l, h, a, t, c. split; [exact (dedupe_incl _ _ _ Hl)|].
  split.
  - rewrite forallb_forall in V. specialize (V l Hl). apply existsb_exists in V.
    destruct V as (x & Hx & E). apply N.eqb_eq in E. subst. exact Hx.
  - repeat split; assumption.
Qed.
