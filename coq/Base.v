(* Base.v — byte strings, Go string primitives with their partiality,
   the outcome monad, association maps.  Stdlib only. *)
From Coq Require Export Ascii String.
From Coq Require Export List NArith ZArith Lia Bool.
From Coq Require Import ZifyBool ZifyN ZifyNat.
Export ListNotations.
Open Scope N_scope.

(* ------------------------------------------------------------------ *)
(* byte strings: Go strings and []byte are sequences of bytes          *)

Definition bstr := list N.

Fixpoint beq (a b : bstr) : bool :=
  match a, b with
  | [], [] => true
  | x :: a', y :: b' => (x =? y) && beq a' b'
  | _, _ => false
  end.

Lemma beq_eq a b : beq a b = true <-> a = b.
Proof.
  revert b; induction a as [|x a IH]; destruct b as [|y b]; simpl;
    try (split; congruence).
  rewrite andb_true_iff, N.eqb_eq, IH.
  split; [intros [-> ->]; reflexivity | intros H; inversion H; auto].
Qed.

Lemma beq_refl a : beq a a = true.
Proof. apply beq_eq; reflexivity. Qed.

Lemma beq_neq a b : beq a b = false <-> a <> b.
Proof.
  split.
  - intros H E. apply beq_eq in E. congruence.
  - intros H. destruct (beq a b) eqn:E; [apply beq_eq in E; contradiction | reflexivity].
Qed.

Lemma beq_sym a b : beq a b = beq b a.
Proof.
  destruct (beq a b) eqn:E.
  - apply beq_eq in E. subst. symmetry. apply beq_refl.
  - symmetry. apply beq_neq. apply beq_neq in E. congruence.
Qed.

(* strings.HasPrefix s p *)
Fixpoint prefixb (p s : bstr) : bool :=
  match p, s with
  | [], _ => true
  | x :: p', y :: s' => (x =? y) && prefixb p' s'
  | _ :: _, [] => false
  end.

Lemma prefixb_spec p s : prefixb p s = true <-> exists r, s = p ++ r.
Proof.
  revert s; induction p as [|x p IH]; intros s; simpl.
  - split; [intros _; exists s; reflexivity | reflexivity].
  - destruct s as [|y s].
    + split; [discriminate | intros [r H]; discriminate].
    + rewrite andb_true_iff, N.eqb_eq, IH. split.
      * intros [-> [r ->]]. exists r. reflexivity.
      * intros [r H]. inversion H; subst. split; [reflexivity | exists r; reflexivity].
Qed.

(* strings.HasSuffix s p *)
Definition suffixb (p s : bstr) : bool := prefixb (rev p) (rev s).

Lemma suffixb_spec p s : suffixb p s = true <-> exists r, s = r ++ p.
Proof.
  unfold suffixb. rewrite prefixb_spec. split.
  - intros [r H]. exists (rev r).
    rewrite <- (rev_involutive s), H, rev_app_distr, rev_involutive. reflexivity.
  - intros [r ->]. exists (rev r). apply rev_app_distr.
Qed.

(* strings.Contains s sub *)
Fixpoint containsb (sub s : bstr) : bool :=
  prefixb sub s || match s with [] => false | _ :: s' => containsb sub s' end.

Lemma containsb_spec sub s : containsb sub s = true <-> exists a b, s = a ++ sub ++ b.
Proof.
  induction s as [|y s IH].
  - simpl. rewrite orb_false_r, prefixb_spec. split.
    + intros [r H]. exists [], r. exact H.
    + intros [a [b H]]. destruct a; simpl in H; [exists b; exact H|discriminate].
  - cbn [containsb]. rewrite orb_true_iff, prefixb_spec, IH. split.
    + intros [[r H]|[a [b H]]].
      * exists [], r. exact H.
      * exists (y :: a), b. rewrite H. reflexivity.
    + intros [a [b H]]. destruct a as [|x a]; simpl in H.
      * left. exists b. exact H.
      * right. inversion H; subst. exists a, b. reflexivity.
Qed.

(* ------------------------------------------------------------------ *)
(* outcomes of partial Go operations                                   *)

Inductive outcome (A : Type) : Type :=
| Ret (a : A)
| Panic (site : nat)      (* run-time panic; the site number names the Go expression *)
| Diverge.                (* unbounded recursion (stack overflow in Go) *)
Arguments Ret {A} a.
Arguments Panic {A} site.
Arguments Diverge {A}.

Definition bind {A B} (o : outcome A) (f : A -> outcome B) : outcome B :=
  match o with Ret a => f a | Panic s => Panic s | Diverge => Diverge end.
Definition fmap {A B} (f : A -> B) (o : outcome A) : outcome B :=
  bind o (fun a => Ret (f a)).

Definition is_ret {A} (o : outcome A) : bool :=
  match o with Ret _ => true | _ => false end.

(* panic sites (shared numbering with the harness) *)
Definition site_slice : nat := 1.        (* slice bounds out of range *)
Definition site_index : nat := 2.        (* index out of range *)
Definition site_nil : nat := 3.          (* nil pointer dereference *)
Definition site_explicit : nat := 4.     (* explicit panic(...) *)

(* s[lo:hi] with Go's bounds check 0 <= lo <= hi <= len(s) *)
Definition slice (s : bstr) (lo hi : Z) : outcome bstr :=
  if ((0 <=? lo) && (lo <=? hi) && (hi <=? Z.of_nat (length s)))%Z
  then Ret (firstn (Z.to_nat (hi - lo)) (skipn (Z.to_nat lo) s))
  else Panic site_slice.

Lemma slice_prefix s n :
  (0 <= n <= Z.of_nat (length s))%Z -> slice s 0 n = Ret (firstn (Z.to_nat n) s).
Proof.
  intros H. unfold slice.
  replace ((0 <=? 0)%Z && (0 <=? n)%Z && (n <=? Z.of_nat (length s))%Z) with true by lia.
  simpl. rewrite Z.sub_0_r. reflexivity.
Qed.

Lemma firstn_removelast {A} (l : list A) : firstn (length l - 1) l = removelast l.
Proof.
  induction l as [|x l IH]; [reflexivity|].
  destruct l as [|y l]; [reflexivity|].
  cbn [length] in *. replace (S (S (length l)) - 1)%nat with (S (length l)) by lia.
  cbn [firstn]. f_equal. cbn [removelast] in *. rewrite <- IH.
  replace (S (length l) - 1)%nat with (length l) by lia. reflexivity.
Qed.

Lemma removelast_app_one {A} (l : list A) x : removelast (l ++ [x]) = l.
Proof. rewrite removelast_app by discriminate. simpl. apply app_nil_r. Qed.

(* ------------------------------------------------------------------ *)
(* hex literals: the harness writes byte strings as hex text           *)

Definition hexval (c : ascii) : N :=
  let n := N_of_ascii c in
  if (48 <=? n) && (n <=? 57) then n - 48
  else if (97 <=? n) && (n <=? 102) then n - 87
  else if (65 <=? n) && (n <=? 70) then n - 55
  else 0.

Fixpoint hx (s : string) : bstr :=
  match s with
  | String a (String b r) => (16 * hexval a + hexval b) :: hx r
  | _ => []
  end.

(* plain ASCII literal (for hand-written constants) *)
Fixpoint bs (s : string) : bstr :=
  match s with
  | EmptyString => []
  | String a r => N_of_ascii a :: bs r
  end.

(* ------------------------------------------------------------------ *)
(* association lists                                                   *)

Fixpoint alookup {V} (k : N) (m : list (N * V)) : option V :=
  match m with
  | [] => None
  | (k', v) :: m' => if k =? k' then Some v else alookup k m'
  end.

Fixpoint slookup {V} (k : bstr) (m : list (bstr * V)) : option V :=
  match m with
  | [] => None
  | (k', v) :: m' => if beq k k' then Some v else slookup k m'
  end.

Fixpoint filter_map {A B} (f : A -> option B) (l : list A) : list B :=
  match l with
  | [] => []
  | x :: l' => match f x with Some y => y :: filter_map f l' | None => filter_map f l' end
  end.

Lemma filter_map_in {A B} (f : A -> option B) l y :
  In y (filter_map f l) <-> exists x, In x l /\ f x = Some y.
Proof.
  induction l as [|x l IH]; simpl.
  - split; [intros [] | intros [x [[] _]]].
  - destruct (f x) eqn:F; simpl; rewrite IH; split.
    + intros [<-|[x' [? ?]]]; [exists x; auto | exists x'; auto].
    + intros [x' [[<-|?] E]]; [left; congruence | right; exists x'; auto].
    + intros [x' [? ?]]; exists x'; auto.
    + intros [x' [[<-|?] E]]; [congruence | exists x'; auto].
Qed.

Fixpoint list_eqb {A} (eqb : A -> A -> bool) (a b : list A) : bool :=
  match a, b with
  | [], [] => true
  | x :: a', y :: b' => eqb x y && list_eqb eqb a' b'
  | _, _ => false
  end.

Lemma list_eqb_eq {A} (eqb : A -> A -> bool) :
  (forall x y, eqb x y = true <-> x = y) ->
  forall a b, list_eqb eqb a b = true <-> a = b.
Proof.
  intros H a. induction a as [|x a IH]; destruct b as [|y b]; simpl;
    try (split; congruence).
  rewrite andb_true_iff, H, IH.
  split; [intros [-> ->]; reflexivity | intros E; inversion E; auto].
Qed.

Definition option_eqb {A} (eqb : A -> A -> bool) (a b : option A) : bool :=
  match a, b with
  | None, None => true
  | Some x, Some y => eqb x y
  | _, _ => false
  end.

(* indices (0-based, as N) of the elements for which f is false *)
Fixpoint bad_ids {A} (f : A -> bool) (l : list A) (i : N) : list N :=
  match l with
  | [] => []
  | x :: l' => if f x then bad_ids f l' (i + 1) else i :: bad_ids f l' (i + 1)
  end.
