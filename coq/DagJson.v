(* DagJson.v — go-ipld-prime's dagjson.Encode (EncodeLinks, EncodeBytes, MapSortMode_Lexical)
   over polydawn/refmt's JSON encoder, byte for byte, for the IPLD values of Ipld.v (no floats:
   the model has no float constructor; floats are outside this file and are handled by the
   dynamic check only), the CID and DID string forms, and the PROOF that the encoder is
   injective (up to the canonical map order) exactly on the values that
     - contain no map of the reserved shapes {"/": string} / {"/": {"bytes": string}}, and
     - hold only valid UTF-8 in strings and map keys,
   together with the witnesses that it is NOT injective outside that domain.  Stdlib only. *)
From Ucanto Require Import Base Varint VarintMore Ipld BaseEnc JsonText Sig Did.
From Coq Require Import ZifyBool ZifyN ZifyNat.
From Coq Require Import Sorting.Permutation Sorting.Sorted.
Open Scope N_scope.

(* ------------------------------------------------------------------ *)
(* byte-wise lexical key order: sort.Slice(entries, key_i < key_j)      *)

Definition lex_ltb (a b : bstr) : bool := match lex_cmp a b with Lt => true | _ => false end.

Lemma lex_ltb_irrefl a : lex_ltb a a = false.
Proof. unfold lex_ltb. replace (lex_cmp a a) with Eq by (symmetry; apply lex_cmp_eq; reflexivity). reflexivity. Qed.

Lemma lex_ltb_asym a b : lex_ltb a b = true -> lex_ltb b a = false.
Proof. unfold lex_ltb. rewrite (lex_cmp_opp a b). destruct (lex_cmp a b); cbn; congruence. Qed.

Lemma lex_ltb_total a b : lex_ltb a b = false -> a <> b -> lex_ltb b a = true.
Proof.
  unfold lex_ltb. rewrite (lex_cmp_opp a b). destruct (lex_cmp a b) eqn:C; cbn; try congruence.
  apply lex_cmp_eq in C. contradiction.
Qed.

Lemma lex_ltb_trans a b c : lex_ltb a b = true -> lex_ltb b c = true -> lex_ltb a c = true.
Proof.
  unfold lex_ltb. destruct (lex_cmp a b) eqn:C1; try discriminate. destruct (lex_cmp b c) eqn:C2; try discriminate.
  intros _ _. rewrite (lex_cmp_trans _ _ _ C1 C2). reflexivity.
Qed.

(* not (h < x) and h < y give x < y *)
Lemma lex_le_lt h x y : lex_ltb h x = false -> lex_ltb h y = true -> lex_ltb x y = true.
Proof.
  intros H1 H2. destruct (beq h x) eqn:E.
  - apply beq_eq in E. subst. exact H2.
  - apply beq_neq in E. eapply lex_ltb_trans; [apply lex_ltb_total; eassumption | exact H2].
Qed.

Section LSort.
  Context {A : Type}.
  Notation entry := (bstr * A)%type.

  Fixpoint linsert (kv : entry) (m : list entry) : list entry :=
    match m with
    | [] => [kv]
    | kv' :: m' => if lex_ltb (fst kv') (fst kv) then kv' :: linsert kv m' else kv :: m
    end.

  Definition lsort (m : list entry) : list entry := fold_right linsert [] m.

  Definition lle (x y : entry) : Prop := lex_ltb (fst y) (fst x) = false.

  Lemma linsert_perm kv m : Permutation (linsert kv m) (kv :: m).
  Proof.
    induction m as [|kv' m IH]; cbn [linsert]; [reflexivity|].
    destruct (lex_ltb (fst kv') (fst kv)); [|reflexivity]. rewrite IH. apply perm_swap.
  Qed.

  Lemma lsort_perm m : Permutation (lsort m) m.
  Proof.
    induction m as [|kv m IH]; cbn [lsort fold_right]; [reflexivity|].
    fold (lsort m). rewrite linsert_perm. constructor. exact IH.
  Qed.

  Lemma lle_trans (a b c : entry) : lex_ltb (fst b) (fst a) = false -> lex_ltb (fst c) (fst b) = false -> lex_ltb (fst c) (fst a) = false.
  Proof.
    intros H1 H2. destruct (lex_ltb (fst c) (fst a)) eqn:H3; [|reflexivity].
    rewrite (lex_le_lt _ _ _ H2 H3) in H1. discriminate.
  Qed.

  Lemma linsert_sorted kv m : StronglySorted lle m -> StronglySorted lle (linsert kv m).
  Proof.
    induction 1 as [|kv' m S IH F]; cbn [linsert]; [repeat constructor|].
    destruct (lex_ltb (fst kv') (fst kv)) eqn:E.
    - constructor; [exact IH|]. eapply Permutation_Forall; [symmetry; apply linsert_perm|].
      constructor; [|exact F]. unfold lle. apply lex_ltb_asym. exact E.
    - constructor; [constructor; assumption|]. constructor; [exact E|].
      eapply Forall_impl; [|exact F]. intros y Hy. unfold lle in *. eapply lle_trans; eassumption.
  Qed.

  (* the result is sorted: with distinct keys it is THE sorted arrangement *)
  Lemma lsort_sorted m : StronglySorted lle (lsort m).
  Proof. induction m as [|kv m IH]; cbn [lsort fold_right]; [constructor | apply linsert_sorted; exact IH]. Qed.

  (* insertions of entries with different keys commute *)
  Lemma linsert_comm x y t : fst x <> fst y -> linsert x (linsert y t) = linsert y (linsert x t).
  Proof.
    intros NE. induction t as [|h t IH].
    - cbn [linsert]. destruct (lex_ltb (fst y) (fst x)) eqn:E1.
      + rewrite (lex_ltb_asym _ _ E1). reflexivity.
      + rewrite (lex_ltb_total _ _ E1 (not_eq_sym NE)). reflexivity.
    - cbn [linsert]. destruct (lex_ltb (fst h) (fst y)) eqn:Hy; destruct (lex_ltb (fst h) (fst x)) eqn:Hx; cbn [linsert]; rewrite ?Hx, ?Hy.
      + rewrite IH. reflexivity.
      + rewrite (lex_le_lt _ _ _ Hx Hy). reflexivity.
      + rewrite (lex_le_lt _ _ _ Hy Hx). reflexivity.
      + destruct (lex_ltb (fst y) (fst x)) eqn:E1.
        * rewrite (lex_ltb_asym _ _ E1). reflexivity.
        * rewrite (lex_ltb_total _ _ E1 (not_eq_sym NE)). reflexivity.
  Qed.

  (* sorting first by the DAG-CBOR order does not change the lexical sort *)
  Lemma lsort_insert_kv x s : lsort (insert_kv x s) = linsert x (lsort s).
  Proof.
    induction s as [|h s IH]; [reflexivity|].
    cbn [insert_kv]. destruct (key_ltb (fst h) (fst x)) eqn:E; [|reflexivity].
    cbn [lsort fold_right]. fold (lsort (insert_kv x s)). fold (lsort s). rewrite IH.
    apply linsert_comm. intros EQ. rewrite EQ, key_ltb_irrefl in E. discriminate.
  Qed.

  Lemma lsort_sort_map m : lsort (sort_map m) = lsort m.
  Proof.
    induction m as [|x m IH]; [reflexivity|].
    cbn [sort_map fold_right]. fold (sort_map m). rewrite lsort_insert_kv, IH. reflexivity.
  Qed.

  Lemma lsort_singleton m e : lsort m = [e] -> m = [e].
  Proof.
    intros H. pose proof (lsort_perm m) as P. rewrite H in P. apply Permutation_length_1_inv in P. exact P.
  Qed.
End LSort.

(* ------------------------------------------------------------------ *)
(* CID and DID strings                                                 *)

Lemma bytes_ok_lt s : Ipld.bytes_ok s = true -> bytes_lt s.
Proof.
  unfold Ipld.bytes_ok. rewrite andb_true_iff, forallb_forall. intros [H _].
  apply Forall_forall. intros x Hx. specialize (H x Hx). lia.
Qed.

(* go-cid Cid.Version(): a 34-byte 0x12 0x20 .. string is a CIDv0 *)
Definition is_cidv0 (c : bstr) : bool :=
  match c with a :: b :: r => (a =? 18) && (b =? 32) && (length r =? 32)%nat | _ => false end.

(* Cid.String(): CIDv0 -> base58btc of the multihash, otherwise multibase base32 lower case *)
Definition cid_string (c : bstr) : bstr := if is_cidv0 c then b58enc c else 98 :: b32lower c.

Lemma is_cidv0_shape c : is_cidv0 c = true -> exists r, c = 18 :: 32 :: r /\ length r = 32%nat.
Proof.
  unfold is_cidv0. destruct c as [|a [|b r]]; try discriminate.
  rewrite !andb_true_iff. intros [[Ea Eb] H]. apply N.eqb_eq in Ea, Eb. apply Nat.eqb_eq in H. subst. eauto.
Qed.

Theorem cid_string_inj a b : bytes_lt a -> bytes_lt b -> cid_string a = cid_string b -> a = b.
Proof.
  intros Ha Hb. unfold cid_string.
  destruct (is_cidv0 a) eqn:Va; destruct (is_cidv0 b) eqn:Vb; intros E.
  - apply b58enc_inj; assumption.
  - exfalso. destruct (is_cidv0_shape _ Va) as [r [-> Lr]].
    inversion Ha as [|? ? _ Ha']; subst. inversion Ha' as [|? ? _ Hr]; subst.
    destruct (b58enc_cidv0_head r Hr Lr) as [t Et]. rewrite Et in E. discriminate.
  - exfalso. destruct (is_cidv0_shape _ Vb) as [r [-> Lr]].
    inversion Hb as [|? ? _ Hb']; subst. inversion Hb' as [|? ? _ Hr]; subst.
    destruct (b58enc_cidv0_head r Hr Lr) as [t Et]. rewrite Et in E. discriminate.
  - inversion E. apply b32lower_inj; assumption.
Qed.

(* did.Decode(bytes).String(), "" for undecodable bytes (ucan view: Issuer() / Audience()) *)
Definition did_string_of (d : did) : bstr := did_to_string_v b58enc d.
Definition did_string (b : bstr) : bstr :=
  did_string_of (match did_decode b with Some d => d | None => did_undef end).
Definition did_okb (b : bstr) : bool := match did_decode b with Some _ => true | None => false end.

(* concrete base58: distinct well-formed DIDs print differently *)
Theorem did_string_of_inj d1 d2 :
  did_wf d1 = true -> did_wf d2 = true -> bytes_lt (dstr d1) -> bytes_lt (dstr d2) ->
  did_string_of d1 = did_string_of d2 -> d1 = d2.
Proof.
  intros W1 W2 B1 B2 E. unfold did_string_of in E.
  destruct d1 as [k1 s1], d2 as [k2 s2]. cbn [dstr] in *.
  destruct k1, k2.
  - unfold did_to_string_v in E. cbn [dkey dstr] in E. apply app_inv_head in E. inversion E as [E'].
    apply b58enc_inj in E'; [subst; reflexivity | assumption | assumption].
  - exfalso. pose proof (did_key_string b58enc (mkdid true s1) eq_refl) as K1.
    pose proof (did_nonkey_string b58enc (mkdid false s2) W2 eq_refl) as K2. rewrite E in K1. congruence.
  - exfalso. pose proof (did_key_string b58enc (mkdid true s2) eq_refl) as K2.
    pose proof (did_nonkey_string b58enc (mkdid false s1) W1 eq_refl) as K1. rewrite E in K1. congruence.
  - unfold did_wf in W1, W2. cbn [dkey dstr] in W1, W2.
    apply andb_true_iff in W1, W2. destruct W1 as [P1 _], W2 as [P2 _].
    apply prefixb_spec in P1, P2. destruct P1 as [r1 ->], P2 as [r2 ->].
    unfold did_to_string_v in E. cbn [dkey dstr] in E. rewrite !core_tag_len in E.
    change (skipn method_offset (core_tag ++ r1)) with r1 in E.
    change (skipn method_offset (core_tag ++ r2)) with r2 in E.
    apply app_inv_head in E. subst. reflexivity.
Qed.

Theorem did_string_inj a b :
  bytes_lt a -> bytes_lt b -> did_okb a = true -> did_okb b = true -> did_string a = did_string b -> a = b.
Proof.
  unfold did_okb, did_string. intros Ba Bb Oa Ob E.
  destruct (did_decode a) as [da|] eqn:Da; [|discriminate]. destruct (did_decode b) as [db|] eqn:Db; [|discriminate].
  destruct (did_decode_some a da Ba Da) as [Wa Sa]. destruct (did_decode_some b db Bb Db) as [Wb Sb].
  assert (da = db) by (apply did_string_of_inj; auto; congruence). congruence.
Qed.

(* ------------------------------------------------------------------ *)
(* dag-json                                                            *)

Definition k_slash : bstr := [47].                                (* "/" *)
Definition k_bytes : bstr := [98; 121; 116; 101; 115].            (* "bytes" *)

Fixpoint to_json (v : ipld) : jv :=
  match v with
  | INull => JNull
  | IBool b => JBool b
  | IInt z => JNum z
  | IString s => JStr s
  | IBytes b => JObj [(k_slash, JObj [(k_bytes, JStr (b64std b))])]
  | ILink c => JObj [(k_slash, JStr (cid_string c))]
  | IList l => JArr (map to_json l)
  | IMap m => JObj (lsort (map (fun kv => (fst kv, to_json (snd kv))) m))
  end.

Lemma to_json_map_eq m : to_json (IMap m) = JObj (lsort (map (on_snd to_json) m)).
Proof. reflexivity. Qed.

(* the bytes dagjson.Encode writes (when it succeeds) *)
Definition json_encode (v : ipld) : bstr := jprint (to_json v).

(* Encode fails on integers outside int64 (AsInt of a uint64 node above MaxInt64) *)
Fixpoint json_encodable (v : ipld) : bool :=
  match v with
  | IInt z => ((- 2 ^ 63 <=? z) && (z <? 2 ^ 63))%Z
  | IList l => forallb json_encodable l
  | IMap m => forallb (fun kv => json_encodable (snd kv)) m
  | _ => true
  end.

Definition json_encode_opt (v : ipld) : option bstr := if json_encodable v then Some (json_encode v) else None.

(* the domain of injectivity *)
Definition slash_shape (m : list (bstr * ipld)) : bool :=
  match m with
  | [(k, v)] =>
    beq k k_slash &&
    match v with
    | IString _ => true
    | IMap [(k2, IString _)] => beq k2 k_bytes
    | _ => false
    end
  | _ => false
  end.

Fixpoint json_safe (v : ipld) : bool :=
  match v with
  | IString s => utf8_valid s
  | IList l => forallb json_safe l
  | IMap m => negb (slash_shape m) && forallb (fun kv => utf8_valid (fst kv) && json_safe (snd kv)) m
  | _ => true
  end.

(* a simpler sufficient condition: no map has the key "/" at all *)
Fixpoint no_slash_key (v : ipld) : bool :=
  match v with
  | IString s => utf8_valid s
  | IList l => forallb no_slash_key l
  | IMap m => forallb (fun kv => negb (beq (fst kv) k_slash) && utf8_valid (fst kv) && no_slash_key (snd kv)) m
  | _ => true
  end.

Lemma no_slash_key_safe v : no_slash_key v = true -> json_safe v = true.
Proof.
  induction v as [| | | | | l IH | m IH |] using ipld_ind'; cbn [no_slash_key json_safe]; auto.
  - rewrite !forallb_forall. rewrite Forall_forall in IH. auto.
  - intros H. apply andb_true_iff. split.
    + destruct m as [|[k v] [|? ?]]; try reflexivity. cbn [forallb fst] in H. cbn [slash_shape].
      destruct (beq k k_slash); [discriminate H | reflexivity].
    + rewrite forallb_forall in *. rewrite Forall_forall in IH. intros kv Hkv. specialize (H kv Hkv).
      rewrite !andb_true_iff in *. split; [tauto | apply IH; tauto].
Qed.

(* ---------------- the domain and encodability do not depend on the order of map entries ---------------- *)

Definition shape_val (v : ipld) : bool :=
  match v with
  | IString _ => true
  | IMap [(k2, IString _)] => beq k2 k_bytes
  | _ => false
  end.

Lemma slash_shape_eq m : slash_shape m = match m with [(k, v)] => beq k k_slash && shape_val v | _ => false end.
Proof. destruct m as [|[k v] [|? ?]]; reflexivity. Qed.

Lemma sort_map_one {A} (x : bstr * A) : sort_map [x] = [x].
Proof. reflexivity. Qed.

Lemma shape_val_canon v : shape_val (canon v) = shape_val v.
Proof.
  destruct v as [| | | | | l | m |]; try reflexivity.
  rewrite canon_map_eq. destruct m as [|[k2 v2] [|kv3 m]]; try reflexivity.
  - cbn [map on_snd fst snd]. rewrite sort_map_one. cbn [shape_val]. destruct v2; reflexivity.
  - pose proof (sort_map_length (map (on_snd canon) ((k2, v2) :: kv3 :: m))) as L.
    destruct (sort_map (map (on_snd canon) ((k2, v2) :: kv3 :: m))) as [|a [|b r]]; cbn in L; try discriminate.
    destruct a as [ka va]. cbn [shape_val]. destruct va, v2; reflexivity.
Qed.

Lemma slash_shape_canon m : slash_shape (sort_map (map (on_snd canon) m)) = slash_shape m.
Proof.
  destruct m as [|[k v] [|kv2 m]]; try reflexivity.
  - cbn [map on_snd fst snd]. rewrite sort_map_one, !slash_shape_eq. unfold on_snd. cbn [fst snd]. rewrite shape_val_canon. reflexivity.
  - pose proof (sort_map_length (map (on_snd canon) ((k, v) :: kv2 :: m))) as L.
    destruct (sort_map (map (on_snd canon) ((k, v) :: kv2 :: m))) as [|a [|b r]]; cbn in L; try discriminate.
    destruct a. reflexivity.
Qed.

Lemma forallb_map_ext {A B} (f : B -> bool) (g : A -> bool) (h : A -> B) l :
  Forall (fun x => f (h x) = g x) l -> forallb f (map h l) = forallb g l.
Proof. induction 1 as [|x l Hx _ IH]; [reflexivity|]. cbn [map forallb]. rewrite Hx, IH. reflexivity. Qed.

Theorem json_safe_canon v : json_safe (canon v) = json_safe v.
Proof.
  induction v as [| | | | | l IH | m IH |] using ipld_ind'; try reflexivity.
  - cbn [canon json_safe]. apply forallb_map_ext. exact IH.
  - rewrite canon_map_eq. cbn [json_safe]. rewrite slash_shape_canon. f_equal.
    rewrite (forallb_perm _ _ _ (sort_map_perm _)). apply forallb_map_ext.
    eapply Forall_impl; [|exact IH]. intros kv H. unfold on_snd. cbn [fst snd]. rewrite H. reflexivity.
Qed.

Theorem json_encodable_canon v : json_encodable (canon v) = json_encodable v.
Proof.
  induction v as [| | | | | l IH | m IH |] using ipld_ind'; try reflexivity.
  - cbn [canon json_encodable]. apply forallb_map_ext. exact IH.
  - rewrite canon_map_eq. cbn [json_encodable].
    rewrite (forallb_perm _ _ _ (sort_map_perm _)). apply forallb_map_ext.
    eapply Forall_impl; [|exact IH]. intros kv H. unfold on_snd. cbn [fst snd]. exact H.
Qed.

(* ---------------- strings of the printed value are valid UTF-8 ---------------- *)

Lemma table_ascii tbl s : forallb (fun c => c <? 128) tbl = true -> Forall (fun c => In c tbl) s -> Forall (fun c => c < 128) s.
Proof.
  intros T H. rewrite forallb_forall in T. eapply Forall_impl; [|exact H]. intros c Hc. specialize (T c Hc). lia.
Qed.

Lemma b64std_valid b : utf8_valid (b64std b) = true.
Proof. apply ascii_valid. eapply table_ascii; [|apply b64std_chars]. reflexivity. Qed.

Lemma cid_string_valid c : utf8_valid (cid_string c) = true.
Proof.
  apply ascii_valid. unfold cid_string. destruct (is_cidv0 c).
  - eapply table_ascii; [|apply b58enc_chars]. reflexivity.
  - constructor; [lia|]. eapply table_ascii; [|apply b32lower_chars]. reflexivity.
Qed.

Lemma jok_to_json v : json_safe v = true -> jok (to_json v) = true.
Proof.
  induction v as [| | | | b | l IH | m IH | c] using ipld_ind'; cbn [json_safe to_json jok]; auto.
  - intros _. cbn [forallb fst snd jok]. rewrite b64std_valid. reflexivity.
  - rewrite !forallb_forall. rewrite Forall_forall in IH. intros H j Hj.
    apply in_map_iff in Hj. destruct Hj as [x [<- Hx]]. auto.
  - rewrite andb_true_iff. intros [_ H].
    rewrite (forallb_perm _ _ _ (lsort_perm _)).
    rewrite forallb_forall in *. rewrite Forall_forall in IH. intros kj Hkj.
    apply in_map_iff in Hkj. destruct Hkj as [kv [<- Hkv]]. cbn [fst snd].
    specialize (H kv Hkv). rewrite andb_true_iff in *. split; [tauto | apply IH; tauto].
  - intros _. cbn [forallb fst snd jok]. rewrite cid_string_valid. reflexivity.
Qed.

(* ---------------- the encoder does not see the order of map entries ---------------- *)

Theorem to_json_canon v : to_json (canon v) = to_json v.
Proof.
  induction v as [| | | | | l IH | m IH |] using ipld_ind'; try reflexivity.
  - cbn [canon to_json]. f_equal. rewrite map_map. apply map_ext_Forall. exact IH.
  - rewrite canon_map_eq, !to_json_map_eq. f_equal.
    rewrite <- sort_map_map, lsort_sort_map. f_equal.
    rewrite map_map. apply map_ext_Forall. eapply Forall_impl; [|exact IH].
    intros kv H. unfold on_snd. cbn [fst snd]. rewrite H. reflexivity.
Qed.

Theorem json_encode_canon v : json_encode (canon v) = json_encode v.
Proof. unfold json_encode. rewrite to_json_canon. reflexivity. Qed.

(* ---------------- injectivity of the translation to JSON values ---------------- *)

Lemma map_pair_inv {A B} (f : A -> B) l e : map f l = [e] -> exists x, l = [x] /\ f x = e.
Proof. destruct l as [|x [|y l]]; cbn; intros H; inversion H. eauto. Qed.

(* a map that prints like a link or like bytes has one of the reserved shapes *)
Lemma slash_collision m j :
  to_json (IMap m) = JObj [(k_slash, j)] ->
  (exists s, j = JStr s) \/ (exists s, j = JObj [(k_bytes, JStr s)]) ->
  slash_shape m = true.
Proof.
  rewrite to_json_map_eq. intros H S. inversion H as [H']. apply lsort_singleton in H'.
  apply map_pair_inv in H'. destruct H' as [[k v] [-> E]]. unfold on_snd in E. cbn [fst snd] in E.
  inversion E; subst k. cbn [slash_shape]. rewrite beq_refl. cbn [andb].
  destruct S as [[s ->]|[s ->]].
  - destruct v; cbn [to_json] in *; try discriminate. reflexivity.
  - destruct v as [| | | | b | l | m' | c]; cbn [to_json] in *; try discriminate.
    match goal with X : JObj (lsort _) = JObj _ |- _ => inversion X as [X'] end.
    apply lsort_singleton in X'. apply map_pair_inv in X'. destruct X' as [[k2 v2] [-> E2]].
    cbn [fst snd] in E2. inversion E2; subst k2.
    destruct v2; cbn [to_json] in *; try discriminate. apply beq_refl.
Qed.

Lemma wf_map_parts m : wf_ipld (IMap m) = true ->
  Forall (fun kv => wf_ipld (snd kv) = true) m /\ NoDup (map fst m).
Proof.
  intros W. split; [|apply wf_map_nodup; exact W].
  cbn [wf_ipld] in W. rewrite !andb_true_iff in W. destruct W as [[_ F] _].
  rewrite forallb_forall in F. apply Forall_forall. intros kv Hkv. specialize (F kv Hkv).
  rewrite andb_true_iff in F. tauto.
Qed.

Lemma safe_map_parts m : json_safe (IMap m) = true ->
  slash_shape m = false /\ Forall (fun kv => json_safe (snd kv) = true) m.
Proof.
  cbn [json_safe]. rewrite andb_true_iff, negb_true_iff. intros [S F]. split; [exact S|].
  rewrite forallb_forall in F. apply Forall_forall. intros kv Hkv. specialize (F kv Hkv).
  rewrite andb_true_iff in F. tauto.
Qed.

Theorem to_json_inj a : forall b,
  json_safe a = true -> json_safe b = true -> wf_ipld a = true -> wf_ipld b = true ->
  to_json a = to_json b -> canon a = canon b.
Proof.
  induction a as [| x | x | x | x | l IH | m IH | x] using ipld_ind';
    intros b Sa Sb Wa Wb E; destruct b as [| y | y | y | y | l2 | m2 | y];
    cbn [to_json] in E; try discriminate E; try (inversion E; subst; reflexivity).
  - (* bytes / bytes *)
    inversion E as [E']. apply b64std_inj in E'; [subst; reflexivity | |]; apply bytes_ok_lt; assumption.
  - (* bytes / map *)
    exfalso. destruct (safe_map_parts _ Sb) as [Sh _].
    rewrite (slash_collision m2 (JObj [(k_bytes, JStr (b64std x))])) in Sh; [discriminate | symmetry; exact E | right; eauto].
  - (* list / list *)
    inversion E as [E']. cbn [canon]. f_equal.
    cbn [json_safe] in Sa, Sb. cbn [wf_ipld] in Wa, Wb. rewrite andb_true_iff in Wa, Wb.
    destruct Wa as [_ Wa], Wb as [_ Wb]. rewrite forallb_forall in Sa, Sb, Wa, Wb.
    clear E. revert l2 Sb Wb E'. induction IH as [|a l Ha _ IHl]; intros [|b2 l2] Sb Wb E'; try discriminate; [reflexivity|].
    cbn [map] in *. inversion E'. f_equal.
    + apply Ha; [apply Sa | apply Sb | apply Wa | apply Wb | assumption]; left; reflexivity.
    + apply IHl; auto; intros z Hz; [apply Sa | apply Wa | apply Sb | apply Wb]; right; exact Hz.
  - (* map / bytes *)
    exfalso. destruct (safe_map_parts _ Sa) as [Sh _].
    rewrite (slash_collision m (JObj [(k_bytes, JStr (b64std y))])) in Sh; [discriminate | exact E | right; eauto].
  - (* map / map *)
    change (to_json (IMap m) = to_json (IMap m2)) in E. rewrite !to_json_map_eq in E. inversion E as [E'].
    destruct (safe_map_parts _ Sa) as [_ Fa]. destruct (safe_map_parts _ Sb) as [_ Fb].
    destruct (wf_map_parts _ Wa) as [Ga Na]. destruct (wf_map_parts _ Wb) as [Gb Nb].
    assert (P : Permutation (map (on_snd to_json) m) (map (on_snd to_json) m2)).
    { rewrite <- (lsort_perm (map (on_snd to_json) m)), E'. apply lsort_perm. }
    apply Permutation_map_inv in P. destruct P as [m3 [E3 P3]].
    assert (F3 : Forall (fun kv => json_safe (snd kv) = true) m3) by (eapply Permutation_Forall; eassumption).
    assert (G3 : Forall (fun kv => wf_ipld (snd kv) = true) m3) by (eapply Permutation_Forall; eassumption).
    assert (C : map (on_snd canon) m = map (on_snd canon) m3).
    { clear - IH Fa Ga F3 G3 E3. revert m3 F3 G3 E3.
      induction IH as [|[k v] m Hv _ IHm]; intros [|[k3 v3] m3] F3 G3 E3; try discriminate; [reflexivity|].
      cbn [map on_snd fst snd] in *. inversion E3. inversion Fa; inversion Ga; inversion F3; inversion G3; subst.
      unfold on_snd at 1 3. cbn [fst snd] in *. f_equal; [f_equal; apply Hv; assumption | apply IHm; assumption]. }
    rewrite !canon_map_eq, C. f_equal. apply sort_map_permutation.
    + rewrite map_fst_on_snd. eapply Permutation_NoDup; [apply Permutation_map; exact P3 | exact Nb].
    + apply Permutation_map. symmetry. exact P3.
  - (* map / link *)
    exfalso. destruct (safe_map_parts _ Sa) as [Sh _].
    rewrite (slash_collision m (JStr (cid_string y))) in Sh; [discriminate | exact E | left; eauto].
  - (* link / map *)
    exfalso. destruct (safe_map_parts _ Sb) as [Sh _].
    rewrite (slash_collision m2 (JStr (cid_string x))) in Sh; [discriminate | symmetry; exact E | left; eauto].
  - (* link / link *)
    inversion E as [E']. cbn [wf_ipld] in Wa, Wb. rewrite andb_true_iff in Wa, Wb.
    apply cid_string_inj in E'; [subst; reflexivity | |].
    + destruct Wa as [Wa _]. apply bytes_ok_lt in Wa. inversion Wa; assumption.
    + destruct Wb as [Wb _]. apply bytes_ok_lt in Wb. inversion Wb; assumption.
Qed.

(* THE THEOREM: equal dag-json bytes, equal values (up to the order of map entries) *)
Theorem json_encode_inj a b :
  json_safe a = true -> json_safe b = true -> wf_ipld a = true -> wf_ipld b = true ->
  json_encode a = json_encode b -> canon a = canon b.
Proof.
  intros Sa Sb Wa Wb E. apply to_json_inj; auto.
  apply jprint_inj; auto using jok_to_json.
Qed.

(* also as a prefix code *)
Theorem json_encode_prefix_free a b r1 r2 :
  json_safe a = true -> json_safe b = true -> wf_ipld a = true -> wf_ipld b = true ->
  nondigit_head r1 = true -> nondigit_head r2 = true ->
  json_encode a ++ r1 = json_encode b ++ r2 -> canon a = canon b /\ r1 = r2.
Proof.
  intros Sa Sb Wa Wb R1 R2 E.
  destruct (jprint_prefix_free (to_json a) (to_json b) r1 r2) as [Ej Er]; auto using jok_to_json.
  split; [apply to_json_inj; auto | exact Er].
Qed.

(* ------------------------------------------------------------------ *)
(* outside the domain the encoder is NOT injective                      *)

Definition ex_cid : bstr := mk_cidv1 113 18 (repeat 7 32).

Definition collision (a b : ipld) : Prop :=
  wf_ipld a = true /\ wf_ipld b = true /\ canon a <> canon b /\ json_encode a = json_encode b.

Theorem json_inj_refuted_bytes : exists a b, collision a b.
Proof.
  exists (IBytes [1; 2; 3]), (IMap [(k_slash, IMap [(k_bytes, IString (bs "AQID"))])]).
  repeat split; try (vm_compute; reflexivity). vm_compute. discriminate.
Qed.

Theorem json_inj_refuted_link : exists a b, collision a b.
Proof.
  exists (ILink ex_cid), (IMap [(k_slash, IString (cid_string ex_cid))]).
  repeat split; try (vm_compute; reflexivity). vm_compute. discriminate.
Qed.

Theorem json_inj_refuted_utf8 : exists a b, collision a b.
Proof.
  exists (IString [97; 255]), (IString [97; 254]).
  repeat split; try (vm_compute; reflexivity). vm_compute. discriminate.
Qed.

(* the same inside a map key *)
Theorem json_inj_refuted_utf8_key : exists a b, collision a b.
Proof.
  exists (IMap [([192], INull)]), (IMap [([193], INull)]).
  repeat split; try (vm_compute; reflexivity). vm_compute. discriminate.
Qed.

(* the full statement (the former hypothesis json_inj of Signing.v) is false *)
Theorem json_inj_refuted :
  ~ (forall a b, wf_ipld a = true -> wf_ipld b = true -> json_encode a = json_encode b -> canon a = canon b).
Proof.
  intros H. destruct json_inj_refuted_bytes as [a [b [Wa [Wb [NE E]]]]]. apply NE. apply H; assumption.
Qed.

(* non-vacuity of the domain and a worked example *)
Example json_safe_example :
  let v := IMap [(bs "zz", IBytes [1; 2; 3]); (bs "b", ILink ex_cid); (bs "aaa", IInt 1); (bs "/", IInt 1);
                 (bs "l", IList [INull; IBool true; IInt (-5); IString [195; 169; 10]]);
                 (bs "m", IMap [(bs "/", IString (bs "x")); (bs "y", INull)])] in
  json_safe v = true /\ wf_ipld v = true /\ json_encodable v = true /\
  json_encode v = bs "{""/"":1,""aaa"":1,""b"":{""/"":""bafyreiaha4dqobyha4dqobyha4dqobyha4dqobyha4dqobyha4dqobyha4""},""l"":[null,true,-5,""" ++ [195; 169] ++ bs "\n""],""m"":{""/"":""x"",""y"":null},""zz"":{""/"":{""bytes"":""AQID""}}}".
Proof. vm_compute. repeat split. Qed.
