(* Sig.v — signature framing of ucan/crypto/signature/signature.go
   (NewSignature / Code / Size / Raw), as the code is at /repo HEAD
   (after "fix: signature.Size and Raw check bounds before slicing").

     sig = uvarint(code) ++ uvarint(len raw) ++ raw

   Code  : `c, _ := varint.ReadUvarint(s)`            -> 0 on any read error
   Size  : cl := UvarintSize(Code()); if cl > len(s) {return 0}; `n, _ := ReadUvarint(s[cl:])`
   Raw   : rl := UvarintSize(Size()); if cl+rl > len(s) {return nil}; s[cl+rl:]

   The slicing is modelled with Base.slice (which panics out of range), the
   guards are modelled as written; that the guards are sufficient is a theorem
   (sig_size_total / sig_raw_total), not a property of the definitions. *)
From Ucanto Require Import Base Varint VarintMore.
From Coq Require Import ZifyBool ZifyN ZifyNat.
Open Scope N_scope.

(* s[n:] *)
Definition slice_from (s : bstr) (n : nat) : outcome bstr :=
  slice s (Z.of_nat n) (Z.of_nat (length s)).

Lemma slice_from_ok s n : (n <= length s)%nat -> slice_from s n = Ret (skipn n s).
Proof.
  intros H. unfold slice_from, slice.
  replace ((0 <=? Z.of_nat n)%Z && (Z.of_nat n <=? Z.of_nat (length s))%Z
           && (Z.of_nat (length s) <=? Z.of_nat (length s))%Z) with true by lia.
  rewrite Nat2Z.id. f_equal. apply firstn_all2. rewrite skipn_length. lia.
Qed.

Lemma slice_from_panic s n : (length s < n)%nat -> slice_from s n = Panic site_slice.
Proof.
  intros H. unfold slice_from, slice.
  replace ((0 <=? Z.of_nat n)%Z && (Z.of_nat n <=? Z.of_nat (length s))%Z
           && (Z.of_nat (length s) <=? Z.of_nat (length s))%Z) with false by lia.
  reflexivity.
Qed.

(* NewSignature(code, raw) *)
Definition new_signature (code : N) (raw : bstr) : bstr :=
  uvarint code ++ uvarint (N.of_nat (length raw)) ++ raw.

(* NewNonStandard(name, raw): the algorithm name follows the raw bytes *)
Definition non_standard : N := 53248.  (* 0xd000 *)
Definition new_non_standard (name raw : bstr) : bstr :=
  uvarint non_standard ++ uvarint (N.of_nat (length raw)) ++ raw ++ name.

(* signature.Code() *)
Definition sig_code (s : bstr) : N := read_or0 s.

(* signature.Size() *)
Definition sig_size (s : bstr) : outcome N :=
  let cl := uvarint_size (sig_code s) in
  if (length s <? cl)%nat then Ret 0
  else bind (slice_from s cl) (fun t => Ret (read_or0 t)).

(* signature.Raw() *)
Definition sig_raw (s : bstr) : outcome bstr :=
  let cl := uvarint_size (sig_code s) in
  bind (sig_size s) (fun n =>
    let rl := uvarint_size n in
    if (length s <? cl + rl)%nat then Ret [] else slice_from s (cl + rl)).

(* the values they return (shown equal below; convenient in other models) *)
Definition sig_size_v (s : bstr) : N :=
  let cl := uvarint_size (sig_code s) in
  if (length s <? cl)%nat then 0 else read_or0 (skipn cl s).
Definition sig_raw_v (s : bstr) : bstr :=
  let cl := uvarint_size (sig_code s) in
  let rl := uvarint_size (sig_size_v s) in
  if (length s <? cl + rl)%nat then [] else skipn (cl + rl) s.

(* ------------------------------------------------------------------ *)
(* totality: for EVERY byte string (no well-formedness needed) the guarded
   slices are in range *)

Theorem sig_size_total s : sig_size s = Ret (sig_size_v s).
Proof.
  unfold sig_size, sig_size_v. cbv zeta.
  destruct (length s <? uvarint_size (sig_code s))%nat eqn:E; [reflexivity|].
  rewrite slice_from_ok by lia. reflexivity.
Qed.

Theorem sig_raw_total s : sig_raw s = Ret (sig_raw_v s).
Proof.
  unfold sig_raw, sig_raw_v. cbv zeta. rewrite sig_size_total. cbn [bind].
  destruct (length s <? uvarint_size (sig_code s) + uvarint_size (sig_size_v s))%nat eqn:E;
    [reflexivity|].
  rewrite slice_from_ok by lia. reflexivity.
Qed.

Corollary sig_size_no_panic s : forall site, sig_size s <> Panic site.
Proof. intros site. rewrite sig_size_total. discriminate. Qed.
Corollary sig_raw_no_panic s : forall site, sig_raw s <> Panic site.
Proof. intros site. rewrite sig_raw_total. discriminate. Qed.
Corollary sig_size_no_diverge s : sig_size s <> Diverge.
Proof. rewrite sig_size_total. discriminate. Qed.
Corollary sig_raw_no_diverge s : sig_raw s <> Diverge.
Proof. rewrite sig_raw_total. discriminate. Qed.

(* when the guards fire: exactly the truncated framings *)
Lemma sig_raw_v_short s :
  (length s < uvarint_size (sig_code s) + uvarint_size (sig_size_v s))%nat -> sig_raw_v s = [].
Proof. intros H. unfold sig_raw_v. cbv zeta. replace (_ <? _)%nat with true by lia. reflexivity. Qed.

(* without the guards (the pinned tree) the same inputs panic: kept as the
   record of what the fix repaired *)
Definition sig_size_unguarded (s : bstr) : outcome N :=
  bind (slice_from s (uvarint_size (sig_code s))) (fun t => Ret (read_or0 t)).
Example sig_size_unguarded_panics : sig_size_unguarded [] = Panic site_slice.
Proof. reflexivity. Qed.

(* ------------------------------------------------------------------ *)
(* round trip on framed signatures *)

Section Framing.
  Variables (c : N) (r : bstr).
  Hypothesis Hc : c < 2 ^ 63.
  Hypothesis Hr : N.of_nat (length r) < 2 ^ 63.

  Lemma sig_code_new : sig_code (new_signature c r) = c.
  Proof. unfold sig_code, new_signature. apply read_or0_uvarint. exact Hc. Qed.

  Lemma new_signature_length :
    length (new_signature c r) = (uvarint_size c + uvarint_size (N.of_nat (length r)) + length r)%nat.
  Proof. unfold new_signature, uvarint_size. rewrite !app_length. lia. Qed.

  Lemma sig_size_v_new : sig_size_v (new_signature c r) = N.of_nat (length r).
  Proof.
    unfold sig_size_v. cbv zeta. rewrite sig_code_new, new_signature_length.
    replace (_ <? _)%nat with false by lia.
    unfold new_signature, uvarint_size.
    rewrite skipn_app, skipn_all, Nat.sub_diag. cbn [skipn app].
    apply read_or0_uvarint. exact Hr.
  Qed.

  Lemma sig_raw_v_new : sig_raw_v (new_signature c r) = r.
  Proof.
    unfold sig_raw_v. cbv zeta. rewrite sig_size_v_new, sig_code_new, new_signature_length.
    replace (_ <? _)%nat with false by lia.
    unfold new_signature, uvarint_size. rewrite app_assoc.
    rewrite skipn_app, <- app_length, skipn_all, Nat.sub_diag. reflexivity.
  Qed.

  Theorem sig_size_new : sig_size (new_signature c r) = Ret (N.of_nat (length r)).
  Proof. rewrite sig_size_total, sig_size_v_new. reflexivity. Qed.

  Theorem sig_raw_new : sig_raw (new_signature c r) = Ret r.
  Proof. rewrite sig_raw_total, sig_raw_v_new. reflexivity. Qed.
End Framing.

Theorem sig_framing c r :
  c < 2 ^ 63 -> N.of_nat (length r) < 2 ^ 63 ->
  sig_code (new_signature c r) = c /\
  sig_size (new_signature c r) = Ret (N.of_nat (length r)) /\
  sig_raw (new_signature c r) = Ret r.
Proof.
  intros Hc Hr. split; [apply sig_code_new; exact Hc|].
  split; [apply sig_size_new|apply sig_raw_new]; assumption.
Qed.

(* Code / Size / Raw are total on arbitrary bytes *)
Theorem sig_total s : exists n r, sig_size s = Ret n /\ sig_raw s = Ret r.
Proof. exists (sig_size_v s), (sig_raw_v s). split; [apply sig_size_total|apply sig_raw_total]. Qed.

(* NewSignature is injective (below the varint limit) *)
Theorem new_signature_inj c r c' r' :
  c < 2 ^ 63 -> c' < 2 ^ 63 ->
  N.of_nat (length r) < 2 ^ 63 -> N.of_nat (length r') < 2 ^ 63 ->
  new_signature c r = new_signature c' r' -> c = c' /\ r = r'.
Proof.
  intros Hc Hc' Hr Hr' E.
  pose proof (sig_code_new c r Hc) as A. pose proof (sig_code_new c' r' Hc') as A'.
  pose proof (sig_raw_v_new c r Hc Hr) as B. pose proof (sig_raw_v_new c' r' Hc' Hr') as B'.
  rewrite E in A, B. split; congruence.
Qed.

(* the framing is NOT canonical on the reading side: Raw() never looks at the
   size it skipped, so trailing or re-sized frames carry the same raw bytes
   (NewNonStandard relies on this: the name follows the raw bytes) *)
Example sig_raw_ignores_size :
  sig_raw_v (uvarint 53485 ++ [5] ++ [1; 2; 3]) = [1; 2; 3] /\
  sig_raw_v (new_signature 53485 [1; 2; 3]) = [1; 2; 3].
Proof. split; vm_compute; reflexivity. Qed.

(* the hypotheses of the section are satisfiable / the definitions compute *)
Example sig_example :
  new_signature 53485 [7; 8] = [237; 161; 3; 2; 7; 8] /\
  sig_code [237; 161; 3; 2; 7; 8] = 53485 /\
  sig_size [237; 161; 3; 2; 7; 8] = Ret 2 /\ sig_raw [237; 161; 3; 2; 7; 8] = Ret [7; 8] /\
  sig_code [] = 0 /\ sig_size [] = Ret 0 /\ sig_raw [] = Ret [] /\
  sig_raw [237; 161; 3] = Ret [] /\ sig_raw [128] = Ret [].
Proof. vm_compute. repeat split; reflexivity. Qed.
