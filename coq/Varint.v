(* Varint.v — unsigned LEB128 as used by go-varint v0.0.7
   (ToUvarint / PutUvarint / UvarintSize / FromUvarint / ReadUvarint):
   at most 9 bytes (values < 2^63), minimal encoding required on decode. *)
From Ucanto Require Import Base.
From Coq Require Import ZifyBool ZifyN ZifyNat.
Open Scope N_scope.

Fixpoint enc_fuel (f : nat) (n : N) : bstr :=
  match f with
  | O => [n mod 128]
  | S f' => if n <? 128 then [n] else (n mod 128 + 128) :: enc_fuel f' (n / 128)
  end.

(* binary.PutUvarint on a uint64 writes at most 10 bytes *)
Definition uvarint (n : N) : bstr := enc_fuel 10 n.

(* UvarintSize *)
Definition uvarint_size (n : N) : nat := length (uvarint n).

Inductive verr := VOverflow | VUnderflow | VNotMinimal.

(* FromUvarint: i = index of the byte, m = 2^(7 i), x = accumulated value *)
Fixpoint dec (buf : bstr) (i : nat) (x m : N) : verr + (N * nat) :=
  match buf with
  | [] => inl VUnderflow
  | b :: r =>
    if ((i =? 8)%nat && (128 <=? b)) || (9 <=? i)%nat then inl VOverflow
    else if b <? 128 then
      (if (b =? 0) && (0 <? i)%nat then inl VNotMinimal else inr (x + b * m, S i))
    else dec r (S i) (x + (b - 128) * m) (m * 128)
  end.

Definition from_uvarint (buf : bstr) : verr + (N * nat) := dec buf 0 0 1.

(* value and remaining bytes *)
Definition read_uvarint (buf : bstr) : option (N * bstr) :=
  match from_uvarint buf with
  | inr (v, k) => Some (v, skipn k buf)
  | inl _ => None
  end.

(* ------------------------------------------------------------------ *)

Lemma enc_fuel_bytes f n : n < 128 ^ N.of_nat (S f) -> Forall (fun b => b < 256) (enc_fuel f n).
Proof.
  revert n; induction f as [|f IH]; intros n H; cbn [enc_fuel].
  - constructor; [|constructor]. assert (n mod 128 < 128) by (apply N.mod_lt; lia). lia.
  - destruct (n <? 128) eqn:E.
    + constructor; [lia | constructor].
    + constructor.
      * assert (n mod 128 < 128) by (apply N.mod_lt; lia). lia.
      * apply IH. rewrite Nat2N.inj_succ, N.pow_succ_r' in H. apply N.div_lt_upper_bound; lia.
Qed.

Lemma pow128_S k : 128 ^ N.of_nat (S k) = 128 * 128 ^ N.of_nat k.
Proof. rewrite Nat2N.inj_succ, N.pow_succ_r'. reflexivity. Qed.

(* decoding what was encoded, at any position inside a longer buffer *)
Lemma dec_enc f : forall n i x m rest,
  n < 128 ^ N.of_nat (S f) -> (i + S f <= 9)%nat -> (0 < n \/ i = 0%nat) ->
  dec (enc_fuel f n ++ rest) i x m = inr (x + n * m, (i + length (enc_fuel f n))%nat).
Proof.
  induction f as [|f IH]; intros n i x m rest Hn Hi Hmin; cbn [enc_fuel].
  - change (128 ^ N.of_nat 1) with 128 in Hn. rewrite N.mod_small by lia.
    cbn [app dec length].
    replace (((i =? 8)%nat && (128 <=? n)) || (9 <=? i)%nat) with false by lia.
    replace (n <? 128) with true by lia.
    replace ((n =? 0) && (0 <? i)%nat) with false by lia.
    f_equal. f_equal. lia.
  - destruct (n <? 128) eqn:E.
    + cbn [app dec length].
      replace (((i =? 8)%nat && (128 <=? n)) || (9 <=? i)%nat) with false by lia.
      rewrite E.
      replace ((n =? 0) && (0 <? i)%nat) with false by lia.
      f_equal. f_equal. lia.
    + cbn [app dec length].
      assert (Hm : n mod 128 < 128) by (apply N.mod_lt; lia).
      replace (((i =? 8)%nat && (128 <=? n mod 128 + 128)) || (9 <=? i)%nat) with false by lia.
      replace (n mod 128 + 128 <? 128) with false by lia.
      rewrite IH.
      * f_equal. f_equal; [|lia].
        replace (n mod 128 + 128 - 128) with (n mod 128) by lia.
        pose proof (N.div_mod n 128). nia.
      * rewrite pow128_S in Hn. apply N.div_lt_upper_bound; lia.
      * lia.
      * left. apply N.div_str_pos. lia.
Qed.

Theorem from_uvarint_uvarint n rest :
  n < 2 ^ 63 -> from_uvarint (uvarint n ++ rest) = inr (n, uvarint_size n).
Proof.
  intros H. unfold from_uvarint, uvarint_size, uvarint.
  (* 9 bytes suffice below 2^63: the tenth fuel step is never taken *)
  assert (E : enc_fuel 10 n = enc_fuel 8 n).
  { assert (G : forall f g k, k < 128 ^ N.of_nat (S f) -> (f <= g)%nat -> enc_fuel g k = enc_fuel f k).
    { induction f as [|f IH]; intros g k Hk Hg.
      - change (128 ^ N.of_nat 1) with 128 in Hk. destruct g; cbn [enc_fuel].
        + reflexivity.
        + replace (k <? 128) with true by lia. rewrite N.mod_small by lia. reflexivity.
      - destruct g as [|g]; [lia|]. cbn [enc_fuel]. destruct (k <? 128); [reflexivity|].
        f_equal. apply IH; [|lia]. rewrite pow128_S in Hk. apply N.div_lt_upper_bound; lia. }
    apply G; [|lia]. change (128 ^ N.of_nat 9) with (2 ^ 63). exact H. }
  rewrite E, dec_enc.
  - rewrite N.mul_1_r, N.add_0_l, Nat.add_0_l. reflexivity.
  - change (128 ^ N.of_nat 9) with (2 ^ 63). exact H.
  - lia.
  - right. reflexivity.
Qed.

Corollary read_uvarint_uvarint n rest :
  n < 2 ^ 63 -> read_uvarint (uvarint n ++ rest) = Some (n, rest).
Proof.
  intros H. unfold read_uvarint. rewrite from_uvarint_uvarint by exact H.
  unfold uvarint_size. rewrite skipn_app, skipn_all, Nat.sub_diag. reflexivity.
Qed.

Lemma uvarint_nonempty n : uvarint n <> [].
Proof. unfold uvarint. cbn [enc_fuel]. destruct (n <? 128); discriminate. Qed.

(* injectivity of the encoding below 2^63 (consequence of the round trip) *)
Corollary uvarint_inj a b : a < 2 ^ 63 -> b < 2 ^ 63 -> uvarint a = uvarint b -> a = b.
Proof.
  intros Ha Hb E.
  pose proof (from_uvarint_uvarint a [] Ha) as Xa.
  pose proof (from_uvarint_uvarint b [] Hb) as Xb.
  rewrite E in Xa. rewrite Xa in Xb. congruence.
Qed.

(* prefix-freeness: a framed value is followed by arbitrary bytes unambiguously *)
Corollary uvarint_prefix_free a b ra rb :
  a < 2 ^ 63 -> b < 2 ^ 63 -> uvarint a ++ ra = uvarint b ++ rb -> a = b /\ ra = rb.
Proof.
  intros Ha Hb E.
  pose proof (read_uvarint_uvarint a ra Ha) as Xa.
  pose proof (read_uvarint_uvarint b rb Hb) as Xb.
  rewrite E in Xa. rewrite Xa in Xb. inversion Xb. auto.
Qed.

Example uvarint_0xed : uvarint 237 = [237; 1]. Proof. reflexivity. Qed.
Example uvarint_0x1205 : uvarint 4613 = [133; 36]. Proof. reflexivity. Qed.
Example uvarint_0x0d1d : uvarint 3357 = [157; 26]. Proof. reflexivity. Qed.
