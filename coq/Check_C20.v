(* Check_C20.v — evaluation of the Http model on the requests the harness sent
   through server.Request / the HTTP channel (correspondence check for C20). *)
From Ucanto Require Import Base Strs Http.
Open Scope N_scope.

(* harness instance: a decoded message is (number of invocations, all blocks present);
   every invocation names a registered service method, so Execute calls one method
   per invocation and reports one receipt per invocation; with a missing invocation
   block Execute fails before running anything *)
Definition msgT : Type := (N * bool)%type.

Definition exec (m : msgT) : list N * option msgT :=
  let (n, complete) := m in
  if complete then (map N.of_nat (seq 0 (N.to_nat n)), Some (n, true)) else ([], None).

(* body class given by the harness: 0 undecodable, 1 message, 2 message with a missing invocation block *)
Definition body_of (cls n : N) : body msgT :=
  match cls with
  | 1 => Decodes (n, true)
  | 2 => Decodes (n, false)
  | _ => Undecodable
  end.

(* (failure, status, content-type code, body decodes, receipts, calls, request.Decode succeeds) *)
Definition obs : Type := (N * Z * N * N * N * N * N)%type.

Definition expected (cts accs : list bstr) (cls n : N) : obs :=
  let direct := match cls with 1 | 2 => 1 | _ => 0 end in
  match handle msgT N exec cts accs (body_of cls n) with
  | (Response st ct p, calls) =>
      (0, st,
       match ct with None => 0 | Some c => if beq c car_type then 1 else 2 end,
       match p with Some _ => 1 | None => 0 end,
       match p with Some (r, _) => r | None => 0 end,
       N.of_nat (length calls), direct)
  | (Failure, calls) => (1, 0%Z, 0, 0, 0, N.of_nat (length calls), direct)
  end.

Definition obs_eqb (a b : obs) : bool :=
  match a, b with
  | (f1, s1, c1, d1, r1, k1, q1), (f2, s2, c2, d2, r2, k2, q2) =>
      (f1 =? f2) && (s1 =? s2)%Z && (c1 =? c2) && (d1 =? d2) && (r1 =? r2) && (k1 =? k2) && (q1 =? q2)
  end.

Definition c20case : Type := (list bstr * list bstr * N * N * obs)%type.

Definition case_ok (c : c20case) : bool :=
  match c with (cts, accs, cls, n, o) => obs_eqb (expected cts accs cls n) o end.

(* indices of the cases where model and implementation disagree *)
Definition check_cases (cases : list c20case) : list N := bad_ids case_ok cases 0.

(* the same with the model's expectation, for the report *)
Fixpoint check_cases_detail_from (cases : list c20case) (i : N) : list (N * obs) :=
  match cases with
  | [] => []
  | (cts, accs, cls, n, o) :: r =>
      let e := expected cts accs cls n in
      if obs_eqb e o then check_cases_detail_from r (i + 1)
      else (i, e) :: check_cases_detail_from r (i + 1)
  end.
Definition check_cases_detail (cases : list c20case) := check_cases_detail_from cases 0.

(* client: (status, reply had a CAR body, channel observation, client.Execute observation or -1) *)
Definition chan_code (status : Z) : N :=
  match channel_request status with
  | ChanResponse s => if (s =? status)%Z then 0 else 4
  | ChanHTTPError s => if (s =? status)%Z then 1 else 2
  end.

Definition exec_code (status : Z) (car_body : bool) : Z :=
  match client_execute status car_body with ExecOk => 0%Z | ExecError => 1%Z end.

Definition client_ok (c : Z * bool * N * Z) : bool :=
  match c with
  | (status, car_body, ch, ex) =>
      (chan_code status =? ch) && ((ex =? -1)%Z || (exec_code status car_body =? ex)%Z)
  end.

Definition check_client (cases : list (Z * bool * N * Z)) : list N := bad_ids client_ok cases 0.
