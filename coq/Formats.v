(* Formats.v — the wire / storage layouts of go-ucanto as IPLD values
   (ucan/datamodel/ucan/ucan.ipldsch, core/receipt/datamodel/receipt.ipldsch,
   core/message/datamodel/agentmessage.ipldsch, core/delegation/datamodel/archive.ipldsch)
   with their readers, and round trips through the DAG-CBOR codec of Cbor.v. *)
From Ucanto Require Import Base Ipld Cbor.
From Coq Require Import Permutation.
Open Scope N_scope.

Definition obind {A B} (o : option A) (f : A -> option B) : option B :=
  match o with Some a => f a | None => None end.
Notation "x <- e ;; k" := (obind e (fun x => k)) (at level 60, e at next level, right associativity).

Fixpoint omap {A B} (f : A -> option B) (l : list A) : option (list B) :=
  match l with
  | [] => Some []
  | x :: r => y <- f x ;; ys <- omap f r ;; Some (y :: ys)
  end.

Lemma omap_map {A B C} (g : A -> B) (f : B -> option C) l : omap f (map g l) = omap (fun x => f (g x)) l.
Proof. induction l as [|x r IH]; cbn [map omap]; [reflexivity|]. rewrite IH. reflexivity. Qed.

Lemma omap_some {A B} (f : A -> option B) (g : A -> B) l :
  (forall x, In x l -> f x = Some (g x)) -> omap f l = Some (map g l).
Proof.
  induction l as [|x r IH]; intros H; cbn [omap map]; [reflexivity|].
  rewrite (H x (or_introl eq_refl)). cbn [obind]. rewrite IH; [reflexivity|].
  intros y Hy. apply H. right. exact Hy.
Qed.

(* ------------------------------------------------------------------ *)
(* UCAN 0.9.1 token block                                              *)

Record capm := mkCapm { cm_with : bstr; cm_can : bstr; cm_nb : ipld }.

Record utoken := mkU {
  u_v : bstr;                          (* version string *)
  u_iss : bstr; u_aud : bstr;          (* DID bytes *)
  u_s : bstr;                          (* signature bytes *)
  u_att : list capm;
  u_prf : option (list bstr);          (* CIDs *)
  u_exp : option Z;                    (* nullable *)
  u_fct : option (list (list (bstr * ipld)));
  u_nnc : option bstr;
  u_nbf : option Z }.

Definition k_v := bs "v".     Definition k_iss := bs "iss". Definition k_aud := bs "aud".
Definition k_s := bs "s".     Definition k_att := bs "att". Definition k_prf := bs "prf".
Definition k_exp := bs "exp". Definition k_fct := bs "fct". Definition k_nnc := bs "nnc".
Definition k_nbf := bs "nbf". Definition k_with := bs "with". Definition k_can := bs "can".
Definition k_nb := bs "nb".

Definition cap_ipld (c : capm) : ipld :=
  struct_map [field k_with (IString (cm_with c)); field k_can (IString (cm_can c)); field k_nb (cm_nb c)].

Definition token_ipld (t : utoken) : ipld :=
  struct_map [
    field k_v (IString (u_v t));
    field k_iss (IBytes (u_iss t)); field k_aud (IBytes (u_aud t)); field k_s (IBytes (u_s t));
    field k_att (IList (map cap_ipld (u_att t)));
    opt_field k_prf (option_map (fun l => IList (map ILink l)) (u_prf t));
    field k_exp (nullable (option_map IInt (u_exp t)));
    opt_field k_fct (option_map (fun l => IList (map IMap l)) (u_fct t));
    opt_field k_nnc (option_map IString (u_nnc t));
    opt_field k_nbf (option_map IInt (u_nbf t)) ].

Definition cap_of_ipld (v : ipld) : option capm :=
  w <- (x <- map_get k_with v ;; as_string x) ;;
  c <- (x <- map_get k_can v ;; as_string x) ;;
  n <- map_get k_nb v ;;
  Some (mkCapm w c n).

Definition opt_get {A} (k : bstr) (v : ipld) (rd : ipld -> option A) : option (option A) :=
  match map_get k v with
  | None => Some None
  | Some x => y <- rd x ;; Some (Some y)
  end.

Definition token_of_ipld (v : ipld) : option utoken :=
  ver <- (x <- map_get k_v v ;; as_string x) ;;
  iss <- (x <- map_get k_iss v ;; as_bytes x) ;;
  aud <- (x <- map_get k_aud v ;; as_bytes x) ;;
  s <- (x <- map_get k_s v ;; as_bytes x) ;;
  att <- (x <- map_get k_att v ;; l <- as_list x ;; omap cap_of_ipld l) ;;
  prf <- opt_get k_prf v (fun x => l <- as_list x ;; omap as_link l) ;;
  exp <- (x <- map_get k_exp v ;; if is_null x then Some None else (z <- as_int x ;; Some (Some z))) ;;
  fct <- opt_get k_fct v (fun x => l <- as_list x ;; omap as_map l) ;;
  nnc <- opt_get k_nnc v as_string ;;
  nbf <- opt_get k_nbf v as_int ;;
  Some (mkU ver iss aud s att prf exp fct nnc nbf).

(* what survives a round trip: caveats and facts in canonical form *)
Definition canon_cap (c : capm) : capm := mkCapm (cm_with c) (cm_can c) (canon (cm_nb c)).
Definition canon_fact (f : list (bstr * ipld)) : list (bstr * ipld) :=
  match canon (IMap f) with IMap m => m | _ => f end.
Definition canon_token (t : utoken) : utoken :=
  mkU (u_v t) (u_iss t) (u_aud t) (u_s t) (map canon_cap (u_att t)) (u_prf t) (u_exp t)
      (option_map (map canon_fact) (u_fct t)) (u_nnc t) (u_nbf t).

Definition token_bytes (t : utoken) : bstr := cbor_encode (token_ipld t).
Definition token_decode (b : bstr) : option utoken := v <- cbor_decode_all b ;; token_of_ipld v.

Lemma cap_roundtrip c : cap_of_ipld (canon (cap_ipld c)) = Some (canon_cap c).
Proof.
  unfold cap_of_ipld, cap_ipld, struct_map. cbn [concat field app].
  assert (ND : NoDup (map fst [(k_with, IString (cm_with c)); (k_can, IString (cm_can c)); (k_nb, cm_nb c)])).
  { cbn. repeat constructor; cbn; intuition discriminate. }
  rewrite !(map_get_canon_top _ _ ND). cbn. reflexivity.
Qed.

Lemma token_fields_nodup t : match token_ipld t with IMap m => NoDup (map fst m) | _ => False end.
Proof.
  unfold token_ipld, struct_map.
  destruct (u_prf t), (u_fct t), (u_nnc t), (u_nbf t); cbn;
    repeat constructor; cbn; intuition discriminate.
Qed.

Theorem token_roundtrip_ipld t : token_of_ipld (canon (token_ipld t)) = Some (canon_token t).
Proof.
  pose proof (token_fields_nodup t) as ND.
  unfold token_of_ipld. unfold token_ipld, struct_map in *.
  set (m := concat _) in *.
  unfold opt_get. rewrite !(map_get_canon_top _ _ ND).
  assert (ATT : omap cap_of_ipld (map canon (map cap_ipld (u_att t))) = Some (map canon_cap (u_att t))).
  { rewrite map_map. rewrite omap_map. apply omap_some. intros c _. apply cap_roundtrip. }
  assert (FCT : forall l, omap as_map (map canon (map IMap l)) = Some (map canon_fact l)).
  { intros l. rewrite map_map, omap_map. apply omap_some. intros f _. unfold canon_fact.
    rewrite canon_map_eq. reflexivity. }
  assert (PRF : forall l, omap as_link (map canon (map ILink l)) = Some l).
  { intros l. rewrite map_map, omap_map. rewrite (omap_some _ (fun x => x)); [rewrite map_id; reflexivity|].
    intros; reflexivity. }
  subst m. unfold canon_token.
  destruct t as [ver iss aud s att prf exp fct nnc nbf]. cbn [u_v u_iss u_aud u_s u_att u_prf u_exp u_fct u_nnc u_nbf] in *.
  destruct prf as [prf|], exp as [exp|], fct as [fct|], nnc as [nnc|], nbf as [nbf|];
    cbn [option_map opt_field field concat app slookup beq N.eqb Pos.eqb andb k_v k_iss k_aud k_s k_att k_prf k_exp k_fct k_nnc k_nbf bs N_of_ascii N_of_digits nullable];
    cbn; rewrite ?ATT, ?FCT, ?PRF; cbn; reflexivity.
Qed.

(* transport: bytes -> token gives back the token (caveats and facts canonical) *)
Theorem token_transport t :
  wf_ipld (token_ipld t) = true -> in_budget (token_ipld t) = true ->
  token_decode (token_bytes t) = Some (canon_token t).
Proof.
  intros W B. unfold token_decode, token_bytes.
  rewrite (cbor_roundtrip _ W B). cbn [obind]. apply token_roundtrip_ipld.
Qed.

(* the encoding determines the token (up to the canonical form of caveats / facts) *)
Theorem token_bytes_inj a b :
  wf_ipld (token_ipld a) = true -> wf_ipld (token_ipld b) = true ->
  token_bytes a = token_bytes b -> canon_token a = canon_token b.
Proof.
  intros Wa Wb E. unfold token_bytes in E.
  pose proof (cbor_encode_inj _ _ Wa Wb E) as C.
  pose proof (token_roundtrip_ipld a) as Ra. pose proof (token_roundtrip_ipld b) as Rb.
  rewrite C in Ra. congruence.
Qed.

