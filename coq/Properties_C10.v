(* C10 — Receipts are authentic and intact after transport. *)
From Ucanto Require Import Base Ipld Cbor Formats ReceiptFormat.

Section C10.
  Variable sign : N -> bstr -> bstr.
  Variable valid : N -> bstr -> bstr -> bool.
  Hypothesis valid_sign : forall k m, valid k m (sign k m) = true.
  Hypothesis valid_unique : forall k m m' s, valid k m s = true -> valid k m' s = true -> m = m'.

  (* every issued receipt carries its issuer's signature over the DAG-CBOR encoding of its outcome *)
  Theorem C10_sig : forall k o, verify_receipt valid k (issue_receipt sign k o) = true.
  Proof. exact (receipt_issue_verifies sign valid valid_sign). Qed.

  (* which still verifies on the receipt read back from the transported root block: the decoded
     outcome re-encodes to the signed bytes *)
  Theorem C10_verifies_after_transport : forall k r,
    verify_receipt valid k r = true -> verify_receipt valid k (canon_rcpt r) = true.
  Proof. exact (receipt_verifies_after_transport valid). Qed.

  (* altering the result, ran, effects, metadata, issuer or proofs invalidates it: a receipt with
     the same signature that verifies has the same outcome (all fields, canonical map order) *)
  Theorem C10_tamper : forall k r r',
    wf_ipld (outcome_ipld (r_ocm r)) = true -> wf_ipld (outcome_ipld (r_ocm r')) = true ->
    NoDup (map fst (o_meta (r_ocm r))) -> NoDup (map fst (o_meta (r_ocm r'))) ->
    verify_receipt valid k r = true -> verify_receipt valid k r' = true -> r_sig r' = r_sig r ->
    canon_outcome (r_ocm r') = canon_outcome (r_ocm r).
  Proof. exact (receipt_tamper valid valid_unique). Qed.
End C10.

(* transport: bytes of the root block -> the receipt, every field (result value, ran, fork,
   join, metadata, issuer, proofs, signature) as issued, maps in canonical order *)
Theorem C10_transport : forall r,
  wf_ipld (receipt_ipld r) = true -> in_budget (receipt_ipld r) = true ->
  NoDup (map fst (o_meta (r_ocm r))) ->
  receipt_decode (receipt_bytes r) = Some (canon_rcpt r).
Proof. exact receipt_transport. Qed.

Theorem C10_readback : forall o,
  NoDup (map fst (o_meta o)) -> outcome_of_ipld (canon (outcome_ipld o)) = Some (canon_outcome o).
Proof. exact outcome_roundtrip_ipld. Qed.

(* canonical DAG-CBOR: re-encoding the decoded outcome reproduces the signed bytes, whatever
   the insertion order of metadata / result maps was *)
Theorem C10_reencode : forall o, outcome_bytes (canon_outcome o) = outcome_bytes o.
Proof. exact outcome_reencode. Qed.

(* the signed bytes determine the outcome *)
Theorem C10_outcome_bytes_inj : forall a b,
  wf_ipld (outcome_ipld a) = true -> wf_ipld (outcome_ipld b) = true ->
  NoDup (map fst (o_meta a)) -> NoDup (map fst (o_meta b)) ->
  outcome_bytes a = outcome_bytes b -> canon_outcome a = canon_outcome b.
Proof. exact outcome_bytes_inj. Qed.

Print Assumptions C10_sig.
Print Assumptions C10_verifies_after_transport.
Print Assumptions C10_tamper.
Print Assumptions C10_transport.
Print Assumptions C10_readback.
Print Assumptions C10_reencode.
Print Assumptions C10_outcome_bytes_inj.

(* ------------------------------------------------------------------ *)
(* through the READER (coq/ReceiptBytes.v, the byte-level model of receipt.NewReceipt): a receipt that
   verifies, filed under the link of its bytes, is read back as a receipt with the same signature that
   verifies over the outcome that was read *)
From Ucanto Require Import MessageBytes ReceiptBytes.
Theorem C10_read_back_verifies : forall mh_digest (valid : N -> bstr -> bstr -> bool) k s root r,
  wf_ipld (receipt_ipld r) = true -> in_budget (receipt_ipld r) = true -> rcpt_typed_ok r = true ->
  tbl_get s root = Some (receipt_bytes r) -> root_integrity mh_digest root (receipt_bytes r) = true ->
  verify_receipt valid k r = true ->
  exists r', read_receipt mh_digest s root = ROk r' /\ verify_receipt valid k r' = true /\ r_sig r' = r_sig r.
Proof. exact read_back_verifies. Qed.
Print Assumptions C10_read_back_verifies.

(* the typed reader (bindnode's acceptance of the Receipt schema) on the encoder's output is the reader above *)
Theorem C10_typed_reader_roundtrip : forall r, rcpt_typed_ok r = true ->
  receipt_typed (canon (receipt_ipld r)) = TOk (tout_of (canon_outcome (r_ocm r)), r_sig r).
Proof. exact receipt_typed_canon. Qed.
Print Assumptions C10_typed_reader_roundtrip.
