(* TokenViewExample.v — non-vacuity of the byte-level theorems: a concrete block table with a toy
   instance of the symbolic signature, on which Access authorizes; the hypotheses of
   C01_sound_bytes / C01_bytes_tamper hold and the conclusion yields Signing.verify. *)
From Ucanto Require Import Base Varint Ipld Cbor Formats BaseEnc JsonText Sig Did DagJson Signing TokenBytes.
From Ucanto Require Import Pattern Time Validator ValidatorSpec Check_Validator TokenView.
Open Scope N_scope.

(* framed toy signatures: EdDSA code, then the key and the message itself *)
Definition x_sig (k : N) (m : bstr) : bstr := [237; 161; 3] ++ k :: m.
Definition x_valid (k : N) (m s : bstr) : bool := beq s (x_sig k m).
Definition x_alg (k : N) : bstr := bs "EdDSA".
Definition x_did (k : N) : bstr := [237; 1; k].

Lemma x_valid_sign k m : x_valid k m (x_sig k m) = true.
Proof. apply beq_refl. Qed.
Lemma x_valid_unique k m m' s : x_valid k m s = true -> x_valid k m' s = true -> m = m'.
Proof.
  unfold x_valid, x_sig. rewrite !beq_eq. intros -> H. apply app_inv_head in H. inversion H. reflexivity.
Qed.

Definition x_owner : bstr := did_string (x_did 7).                  (* "did:key:z…" of key 7 *)
Definition x_cap : capm := mkCapm x_owner (bs "store/add") (IMap []).
(* the invocation: issued by key 7 for its own resource, no proofs *)
Definition x_inv : utoken := issued x_sig x_alg x_did 7 (bs "0.9.1") (x_did 9) [x_cap] None (Some 2000000000%Z) None None None.
Definition x_bytes : bstr := token_bytes x_inv.

Definition x_B (l : link) : option bstr := if l =? 1 then Some x_bytes else None.
Definition x_num (c : bstr) : link := 0.
Definition x_keys : list N := [7; 9].
Definition x_U := store_of x_B x_num x_keys x_valid x_alg.

Definition x_ctx : ctx :=
  mkCtx (mkVf 9 53485 (Did true (did_string (x_did 9))))
        (fun c d => beq (wth c) (did_str d))                              (* self-issued *)
        (fun _ => false) (fun _ => None)
        (fun s => if beq s x_owner then Some (mkVf 7 53485 (Did true x_owner)) else None)
        (fun _ => None) 1700000000%Z.

Definition x_dlg : dlg := mkDlg 1 [1].

Example x_token_ok :
  wf_ipld (token_ipld x_inv) = true /\ in_budget (token_ipld x_inv) = true /\ token_typed_ok x_inv = true
  /\ u_fct x_inv <> Some [] /\ token_decode_typed x_bytes = Some x_inv
  /\ t_signer (view_block x_num x_keys x_valid x_alg x_bytes) = Some 7.
Proof. repeat split; try (vm_compute; reflexivity). discriminate. Qed.

(* Access authorizes the invocation read from its bytes *)
Example x_access :
  exists a, fst (access x_U x_ctx 5 (std_desc (bs "store/add")) x_dlg) = AOk a /\ path_of a = [(1, mkCap (bs "store/add") x_owner [])].
Proof. eexists. split; vm_compute; reflexivity. Qed.

(* so C01_sound_bytes applies (the resolver hypothesis holds) and its conclusion is inhabited *)
Example x_sound_bytes :
  exists a, P_sg x_U x_ctx (sig_ok_bytes x_B x_num x_keys x_valid x_alg) 5 (std_desc (bs "store/add")) [x_dlg] a.
Proof.
  destruct x_access as [a [H _]]. exists a.
  apply (access_sound_bytes x_B x_num x_keys x_valid x_alg x_ctx); [intros l p E; discriminate E | exact H].
Qed.

(* the byte-level signature clause of that invocation, spelled out: ucan.VerifySignature holds *)
Example x_verify : verify x_valid x_alg x_did x_inv 7 = true /\ verify x_valid x_alg x_did x_inv 9 = false.
Proof. vm_compute. split; reflexivity. Qed.

(* a copy whose capability was altered after signing has no signer: for the validator it is not
   a signed token (C01_bytes_tamper's hypotheses hold of the pair) *)
Definition x_tampered : utoken :=
  mkU (u_v x_inv) (u_iss x_inv) (u_aud x_inv) (u_s x_inv) [mkCapm x_owner (bs "store/remove") (IMap [])]
      (u_prf x_inv) (u_exp x_inv) (u_fct x_inv) (u_nnc x_inv) (u_nbf x_inv).
Example x_tamper :
  t_signer (view_token x_num x_keys x_valid x_alg x_tampered) = None /\
  wf_ipld (header_ipld (x_alg 7) (u_v x_inv)) = true /\ wf_ipld (payload_ipld x_inv true) = true /\
  wf_ipld (payload_ipld x_tampered true) = true /\ token_bytes_ok x_inv = true /\ token_bytes_ok x_tampered = true.
Proof. vm_compute. repeat split; reflexivity. Qed.
