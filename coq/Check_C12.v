(* Check_C12.v — evaluation of the CAR model on the cases the harness ran through
   car.Encode / car.Decode (correspondence check for C12).

   A case is a base archive (as car.Encode produced it) and a mutation; the harness
   supplies, per case,
   * the answers of go-multihash Sum for the sections the decoder will re-hash
     (keyed by multihash code, requested length and the data, given as an
     (offset, length) window of the mutated archive — the model compares the bytes),
   * go-ipld-cbor's verdict on the header bytes when they are not in canonical form,
   * what car.Decode returned: header ok/error, roots, the sequence Ok(cid, data) | Err.
   The model has to predict the observation exactly. *)
From Ucanto Require Import Base Varint Cid Car.
Open Scope N_scope.

Inductive mut :=
| MNone
| MTrunc (n : N)
| MFlip (pos x : N)
| MRaw (s : bstr).

Definition apply_mut (base : bstr) (m : mut) : bstr :=
  match m with
  | MNone => base
  | MTrunc n => firstn (N.to_nat n) base
  | MFlip pos x =>
    firstn (N.to_nat pos) base ++
    match skipn (N.to_nat pos) base with b :: r => N.lxor b x :: r | [] => [] end
  | MRaw s => s
  end.

Record hentry := HE { he_code : N; he_len : N; he_off : N; he_dlen : N; he_digest : option bstr }.

Definition slice_at (a : bstr) (off len : N) : bstr :=
  firstn (N.to_nat len) (skipn (N.to_nat off) a).

Fixpoint tbl_lookup (arch : bstr) (tbl : list hentry) (code len : N) (data : bstr) : option bstr :=
  match tbl with
  | [] => None
  | e :: t =>
    if (he_code e =? code) && (he_len e =? len) && (he_dlen e =? N.of_nat (length data))
       && beq (slice_at arch (he_off e) (he_dlen e)) data
    then he_digest e else tbl_lookup arch t code len data
  end.

Inductive eitem := EOk (c : bstr) (dlen ck : N) | EErr.
Inductive ehdr := EHdrErr | EHdrOk (roots : list bstr).
(* go-ipld-cbor's verdict on the header bytes: error, or (roots, version) and whether dumping
   them again gives the same bytes *)
Inductive horacle := OErr | OOk (roots : list bstr) (v : N) (redump_equal : bool).

(* checksum of the delivered data (the harness computes the same) *)
(* position-sensitive, no modular reduction (cheap in the VM): s1 = sum of (byte + 1),
   s2 = sum of the running s1; the checksum is s1 + 2^32 * s2 *)
Definition cksum (d : bstr) : N :=
  let '(s1, s2) := fold_left (fun a b => let s1 := fst a + b + 1 in (s1, snd a + s1)) d (0, 0) in
  s1 + 4294967296 * s2.

Record case := C { c_base : N; c_mut : mut; c_tbl : list hentry; c_orc : horacle;
                   c_hdr : ehdr; c_items : list eitem;
                   c_msg : N  (* 0: not exercised; 1: request/response.Decode returned a message; 2: an error *) }.

Definition item_eq (i : item) (e : eitem) : bool :=
  match i, e with
  | IErr, EErr => true
  | IOk c d, EOk c' n k => beq c c' && (N.of_nat (length d) =? n) && (cksum d =? k)
  | _, _ => false
  end.

Fixpoint items_eq (a : list item) (b : list eitem) : bool :=
  match a, b with
  | [], [] => true
  | x :: a', y :: b' => item_eq x y && items_eq a' b'
  | _, _ => false
  end.

Definition hdr_eq (h : hdr) (e : ehdr) : bool :=
  match h, e with
  | HdrErr, EHdrErr => true
  | HdrOk r, EHdrOk r' => list_eqb beq r r'
  | _, _ => false
  end.

(* does the model take the header bytes for canonical (and so not ask the oracle)? *)
Definition model_canon (arch : bstr) : bool :=
  match ld_read arch with
  | LdOk hb _ => match canon_header hb with Some (r, _) => forallb cid_cast r | None => false end
  | _ => false
  end.

(* transport/car request.Decode / response.Decode: the block reader aborts on the first
   error, and message.NewMessage needs the first root among the delivered blocks *)
Definition msg_ok (h : hdr) (items : list item) : bool :=
  match h with
  | HdrOk (r0 :: _) =>
    forallb (fun i => match i with IOk _ _ => true | IErr => false end) items
    && existsb (fun i => match i with IOk c _ => beq c r0 | IErr => false end) items
  | _ => false
  end.

(* 0: model and implementation agree; 1: car.Decode's result differs; 2: car.Decode agrees but
   request/response.Decode's verdict (message or error) differs *)
Definition run_case (fixed : bool) (bases : list bstr) (c : case) : N :=
  let arch := apply_mut (nth (N.to_nat (c_base c)) bases []) (c_mut c) in
  let orc := fun _ : bstr => match c_orc c with OOk r v _ => Some (r, v) | _ => None end in
  let res := car_decode (tbl_lookup arch (c_tbl c)) fixed orc arch in
  if negb (hdr_eq (fst res) (c_hdr c) && items_eq (snd res) (c_items c)
           (* what the model takes for canonical, go-ipld-cbor accepts and dumps to the same bytes *)
           && implb (model_canon arch) (match c_orc c with OOk _ _ true => true | _ => false end))
  then 1
  else if match c_msg c with
          | 0 => true
          | 1 => msg_ok (fst res) (snd res)
          | _ => negb (msg_ok (fst res) (snd res))
          end then 0 else 2.

(* (roots, blocks, bytes car.Encode produced) *)
Definition enc_case := (list bstr * list block * bstr)%type.

Definition run_enc (e : enc_case) : bool :=
  match e with (roots, blocks, bytes) => beq (car_encode roots blocks) bytes end.

Fixpoint bad_codes {A} (f : A -> N) (l : list A) (i : N) : list N :=
  match l with
  | [] => []
  | x :: l' => match f x with 0 => bad_codes f l' (i + 1) | k => (k * 1000000 + i) :: bad_codes f l' (i + 1) end
  end.

(* disagreeing cases: 1000000 + i = car.Decode on case i, 2000000 + i = message decoding on case i,
   3000000 + i = car.Encode of archive i *)
Definition check_all (fixed : bool) (encs : list enc_case) (cases : list case) : list N :=
  bad_ids run_enc encs 3000000 ++ bad_codes (run_case fixed (map snd encs)) cases 0.
