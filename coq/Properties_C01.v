(* C01 — Authorization requires a complete, valid delegation chain.
   Only the property theorems; definitions in Validator.v, ValidatorSpec.v. *)
From Ucanto Require Import Base Pattern Time Validator ValidatorSpec.

(* For every token store U, every validation context C whose proof resolver
   returns what it is asked for, every capability descriptor ds (any readers and
   any derivation rule), every fuel n and invocation inv:
   if Access returns an authorization a, then (P = top_ok at each level)
     - a is rooted at the invocation itself, whose token is acceptable
       (inside its time window and signed by its stated issuer, or
       authority / session backed),
     - its capability is one of the invocation's capabilities read by ds,
     - chain_ok ds a: every further step cites the proof (link in prf), the proof
       was delegated to the citing issuer (aud = iss), the proof token is
       acceptable, the capability at that step resolves from a capability of the
       proof (ability pattern, resource, inherited caveats) and Derives accepts it,
       and the chain ends at a principal for which can_issue holds,
     - the revocation checker accepted a. *)
Theorem C01_sound :
  forall (U : link -> option token) (C : ctx),
    (forall l p, resolve_proof C l = Some p -> d_link p = l) ->
  forall n ds inv a,
    fst (access U C n ds inv) = AOk a -> P U C n ds [inv] a.
Proof. exact access_sound. Qed.
Print Assumptions C01_sound.

(* Access answers with an authorization or with an error (Unauthorized); the model's
   third outcome is only fuel exhaustion, which the correspondence runs never meet. *)
Theorem C01_total :
  forall U C n ds inv,
    (exists a, fst (access U C n ds inv) = AOk a) \/
    (exists e, fst (access U C n ds inv) = AErr e) \/
    fst (access U C n ds inv) = AFuel.
Proof. exact access_total. Qed.
Print Assumptions C01_total.

(* contrapositive of soundness: when no authorization satisfies the specification,
   the outcome is never an authorization *)
Theorem C01_no_chain :
  forall (U : link -> option token) (C : ctx),
    (forall l p, resolve_proof C l = Some p -> d_link p = l) ->
  forall n ds inv,
    (forall a, ~ P U C n ds [inv] a) -> forall a, fst (access U C n ds inv) <> AOk a.
Proof. exact access_no_chain. Qed.
Print Assumptions C01_no_chain.
