(* C01 — Authorization requires a complete, valid delegation chain.
   Only the property theorems; definitions in Validator.v, ValidatorSpec.v. *)
From Ucanto Require Import Base Pattern Time Validator ValidatorSpec.

(* For every token store U, every validation context C whose proof resolver
   returns what it is asked for, every capability descriptor ds (any readers and
   any derivation rule), every fuel n and invocation inv:
   if Access returns an authorization a, then (P = top_ok at each level)
     - a is rooted at the invocation itself, whose token is acceptable
       (inside its time window and signed by its stated issuer, or
       authority / session backed),
     - its capability is one of the invocation's capabilities read by ds,
     - chain_ok ds a: every further step cites the proof (link in prf), the proof
       was delegated to the citing issuer (aud = iss), the proof token is
       acceptable, the capability at that step resolves from a capability of the
       proof (ability pattern, resource, inherited caveats) and Derives accepts it,
       and the chain ends at a principal for which can_issue holds,
     - the revocation checker accepted a. *)
Theorem C01_sound :
  forall (U : link -> option token) (C : ctx),
    (forall l p, resolve_proof C l = Some p -> d_link p = l) ->
  forall n ds inv a,
    fst (access U C n ds inv) = AOk a -> P U C n ds [inv] a.
Proof. exact access_sound. Qed.
Print Assumptions C01_sound.

(* Access answers with an authorization or with an error (Unauthorized); the model's
   third outcome is only fuel exhaustion, which the correspondence runs never meet. *)
Theorem C01_total :
  forall U C n ds inv,
    (exists a, fst (access U C n ds inv) = AOk a) \/
    (exists e, fst (access U C n ds inv) = AErr e) \/
    fst (access U C n ds inv) = AFuel.
Proof. exact access_total. Qed.
Print Assumptions C01_total.

(* contrapositive of soundness: when no authorization satisfies the specification,
   the outcome is never an authorization *)
Theorem C01_no_chain :
  forall (U : link -> option token) (C : ctx),
    (forall l p, resolve_proof C l = Some p -> d_link p = l) ->
  forall n ds inv,
    (forall a, ~ P U C n ds [inv] a) -> forall a, fst (access U C n ds inv) <> AOk a.
Proof. exact access_no_chain. Qed.
Print Assumptions C01_no_chain.

(* ------------------------------------------------------------------ *)
(* From token BYTES (TokenView.v).  The theorems above speak about abstract tokens; the ones below
   state that the token the validator reasons about is a function of the stored block — the
   decoding of its bytes, read exactly as ucan.View reads them — and that `signed by its stated
   issuer` means: the signature bytes verify, symbolically, over the byte-exact DAG-JSON signing
   input of Signing.v / DagJson.v.  Check_TokenView.v compares view_block with the Go accessors on
   the root block of every token of every generated world. *)
From Ucanto Require Import Ipld Cbor Formats Sig Did DagJson Signing TokenBytes TokenView.

(* the typed decoding of a root block (TokenBytes.token_decode_typed: dag-cbor driving bindnode's
   assemblers for the UCAN schema — unknown keys, missing required fields, null outside `exp`,
   repeated keys inside `nb` refused; repeated fields last-wins, `att` concatenated; Go ints) reads
   back every token the library can issue (Go ints, a present nb), where it agrees with the
   generic reader of Formats.v up to norm_token: an optional list that is present but empty
   (`prf: []`, which the library writes for a token without proofs) is absent in the Go model *)
Theorem C01_bytes_typed_transport :
  forall t : utoken,
    wf_ipld (token_ipld t) = true -> in_budget (token_ipld t) = true -> token_typed_ok t = true ->
    token_decode_typed (token_bytes t) = Some (norm_token (canon_token t))
    /\ token_decode_typed (token_bytes t) = option_map norm_token (token_decode (token_bytes t)).
Proof. exact token_typed_transport_both. Qed.
Print Assumptions C01_bytes_typed_transport.

(* the validator's token of an encoded block is the view of the token that was encoded, in the
   canonical form the decoder returns (caveat maps sorted) ... *)
Theorem C01_bytes_view_decode :
  forall (num : bstr -> link) (keys : list N) (valid : N -> bstr -> bstr -> bool) (alg_of : N -> bstr) (t : utoken),
    wf_ipld (token_ipld t) = true -> in_budget (token_ipld t) = true ->
    option_map (view_token num keys valid alg_of) (token_decode (token_bytes t))
      = Some (view_token num keys valid alg_of (canon_token t))
    /\ (token_typed_ok t = true -> u_fct t <> Some [] ->
        view_block num keys valid alg_of (token_bytes t) = view_token num keys valid alg_of (canon_token t)).
Proof. exact view_decode_both. Qed.
Print Assumptions C01_bytes_view_decode.

(* ... which differs from the token only in the order of caveat-map entries: every other field of
   the view is that of the token itself, and nothing differs for canonical caveats *)
Theorem C01_bytes_view_canon :
  forall num keys valid alg_of (t : utoken),
    let v := view_token num keys valid alg_of in
    v (canon_token t) =
      mkTok (t_iss (v t)) (t_aud (v t)) (map (view_cap num) (map canon_cap (u_att t)))
            (t_prf (v t)) (t_exp (v t)) (t_nbf (v t)) (t_sigcode (v t)) (t_signer (v t))
    /\ (map canon_cap (u_att t) = u_att t -> v (canon_token t) = v t).
Proof. exact view_canon_both. Qed.
Print Assumptions C01_bytes_view_canon.

(* the bytes determine the validator's token *)
Theorem C01_bytes_determine_view :
  forall num keys valid alg_of (a b : utoken),
    wf_ipld (token_ipld a) = true -> wf_ipld (token_ipld b) = true ->
    token_bytes a = token_bytes b ->
    view_token num keys valid alg_of (canon_token a) = view_token num keys valid alg_of (canon_token b).
Proof. exact view_bytes_determine. Qed.
Print Assumptions C01_bytes_determine_view.

(* t_signer = Some k means: k is a key of the world, the payload is signable, and the signature
   bytes validate under k over sign_payload — the exact string base64url(dag-json(header)) "."
   base64url(dag-json(payload)) rebuilt from the token's fields; hence ucan.VerifySignature
   (Signing.verify) holds for every verifier that holds k and reports the token's stated issuer *)
Theorem C01_bytes_signer_sound :
  forall num keys valid alg_of (t : utoken) (k : N),
    t_signer (view_token num keys valid alg_of t) = Some k ->
    In k keys /\
    signable (alg_of k) t = true /\ sign_payload_ok t = true /\
    valid k (sign_payload (alg_of k) t) (u_s t) = true /\
    forall did_of, did_of k = u_iss t -> verify valid alg_of did_of t k = true.
Proof. exact view_signer_sound_full. Qed.
Print Assumptions C01_bytes_signer_sound.

(* t_signer = None means: no key of the world verifies the token, under any DID *)
Theorem C01_bytes_signer_none :
  forall num keys valid alg_of (t : utoken),
    t_signer (view_token num keys valid alg_of t) = None ->
    forall k, In k keys -> forall did_of, verify valid alg_of did_of t k = false.
Proof. exact view_signer_none. Qed.
Print Assumptions C01_bytes_signer_none.

(* C07_tamper lifted to the validator's view: two tokens with the same signature bytes that both
   have signer k are one token for the validator (same issuer, audience, capabilities up to the
   order of caveat entries, proofs, window, signature code): a block altered after signing has no
   signer.  Hypothesis: a signature validates at most one message under a key. *)
Theorem C01_bytes_tamper :
  forall num keys (valid : N -> bstr -> bstr -> bool) (alg_of : N -> bstr),
    (forall k m m' s, valid k m s = true -> valid k m' s = true -> m = m') ->
  forall (t t' : utoken) (k : N),
    wf_ipld (header_ipld (alg_of k) (u_v t)) = true -> wf_ipld (header_ipld (alg_of k) (u_v t')) = true ->
    wf_ipld (payload_ipld t true) = true -> wf_ipld (payload_ipld t' true) = true ->
    token_bytes_ok t = true -> token_bytes_ok t' = true ->
    u_s t' = u_s t ->
    t_signer (view_token num keys valid alg_of t) = Some k ->
    t_signer (view_token num keys valid alg_of t') = Some k ->
    view_token num keys valid alg_of (canon_token t') = view_token num keys valid alg_of (canon_token t).
Proof. exact view_tamper. Qed.
Print Assumptions C01_bytes_tamper.

(* C01_sound from block bytes.  B maps a link to the bytes of its block; the token store is
   store_of B = the view of every block that is present.  If Access authorizes, the authorization
   satisfies the specification P of C01_sound in which every signature clause `sig_ok t v` reads
   (sig_ok_bytes): the delegation's block decodes (token_decode_typed) to a token ut whose view is t,
   whose issuer bytes decode to the verifier's DID, whose signature code is the verifier's, and
   whose signature bytes validate under the verifier's key over sign_payload ut — so that
   Signing.verify holds for a verifier of that key reporting the stated issuer.  Every token on
   the proof path is thus verified against its stated issuer on the signed bytes, or is backed by
   the authority's session attestation (whose own chain satisfies the same specification). *)
Theorem C01_sound_bytes :
  forall (B : link -> option bstr) (num : bstr -> link) (keys : list N)
         (valid : N -> bstr -> bstr -> bool) (alg_of : N -> bstr) (C : ctx),
    (forall l p, resolve_proof C l = Some p -> d_link p = l) ->
  forall n ds inv a,
    fst (access (store_of B num keys valid alg_of) C n ds inv) = AOk a ->
    P_sg (store_of B num keys valid alg_of) C (sig_ok_bytes B num keys valid alg_of) n ds [inv] a.
Proof. exact access_sound_bytes. Qed.
Print Assumptions C01_sound_bytes.

(* the specification with the byte-level clause implies nothing less than the abstract one states:
   both are instances of one definition, P_sg with the clause `fun _ => sig_ok` is P *)
Theorem C01_spec_sg_is_spec :
  forall U C n ds ps a, P U C n ds ps a -> P_sg U C (fun _ t v => sig_ok t v) n ds ps a.
Proof. exact P_sg_of_P. Qed.
Print Assumptions C01_spec_sg_is_spec.
