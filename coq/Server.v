(* Server.v — model of server.Run / Provide / Execute and of message.Build / Get
   (server/server.go, server/handler.go, core/message/message.go), on top of
   the validator model.  Receipts are described by what the properties speak
   about: the invocation they ran, their issuer and the class of their result. *)
From Ucanto Require Import Base Pattern Time Validator ValidatorSpec.
From Coq Require Import Permutation.
Open Scope N_scope.

(* result class of a receipt: out.ok, or out.error with its name *)
Inductive rclass := ROk | RErr (name : bstr).
Definition e_unauthorized := bs "Unauthorized".
Definition e_capability := bs "InvocationCapabilityError".
Definition e_not_found := bs "HandlerNotFoundError".
Definition e_execution := bs "HandlerExecutionError".

(* the effects of a receipt (core/receipt/fx): the fork links in order and the optional join
   (an effect given as an embedded invocation is named by that invocation's link) *)
Definition effects := (list link * option link)%type.
Definition no_fx : effects := ([], None).

(* the handler returns a value together with effects / an error *)
Inductive hres := HOk (fx : effects) | HFail.

(* a handler registered with Provide(capability, handler) under an ability *)
Record handler := mkHandler {
  h_can : bstr;                 (* key in the service map *)
  h_desc : desc;                (* the capability parser given to Provide *)
  h_result : cap -> hres }.

Record server := mkServer {
  s_id : did;                   (* the DID receipts are issued with *)
  s_ctx : ctx;                  (* can-issue, checker, resolvers, parser, authority = s_id's verifier *)
  s_service : list handler }.

Record receipt := mkRcpt { rc_ran : link; rc_iss : did; rc_out : rclass; rc_fx : effects }.
(* what a handler was called with: the service key and the capability *)
Definition call := (bstr * cap)%type.

Fixpoint find_handler (k : bstr) (hs : list handler) : option handler :=
  match hs with
  | [] => None
  | h :: r => if beq (h_can h) k then Some h else find_handler k r
  end.

Definition node_cap (a : authz) : cap := match a with Authz _ c _ => c end.

Section Srv.
  Variable U : link -> option token.
  Variable fuel : nat.
  Variable srv : server.

  (* server.Run; None = the validator ran out of fuel (never a Go outcome).
     Effects: only the receipt issued from the transaction of a handler that returned a value
     is given receipt.WithJoin(fx.Join()) / receipt.WithFork(fx.Fork()...); every other receipt
     (capability count, no handler, Unauthorized — a transaction without effects —, handler
     error, a value that cannot be issued) is receipt.Issue(id, failure, ran) with no option. *)
  Definition run (inv : dlg) : option (receipt * list call) :=
    let mk := fun o => mkRcpt (d_link inv) (s_id srv) o no_fx in
    let caps := match tok U inv with Some t => t_caps t | None => [] end in
    match caps with
    | [c] =>
      match find_handler (r_can c) (s_service srv) with
      | None => Some (mk (RErr e_not_found), [])
      | Some h =>
        match fst (access U (s_ctx srv) fuel (h_desc h) inv) with
        | AOk a =>
          let cp := node_cap a in
          Some (match h_result h cp with
                | HOk fx => mkRcpt (d_link inv) (s_id srv) ROk fx
                | HFail => mk (RErr e_execution)
                end, [(h_can h, cp)])
        | AErr _ => Some (mk (RErr e_unauthorized), [])
        | AFuel => None
        end
      end
    | _ => Some (mk (RErr e_capability), [])
    end.

  (* ---- message.Build (report) and Get ---- *)
  Definition report := list (link * receipt).     (* keys in insertion order *)

  Fixpoint rget (l : link) (r : report) : option receipt :=
    match r with
    | [] => None
    | (k, v) :: r' => if k =? l then Some v else rget l r'
    end.

  Definition build (rs : list receipt) : report := map (fun r => (rc_ran r, r)) rs.

  (* ---- server.Execute ---- *)
  Fixpoint dedupe (seen : list link) (ls : list link) : list link :=
    match ls with
    | [] => []
    | l :: r => if existsb (N.eqb l) seen then dedupe seen r else l :: dedupe (l :: seen) r
    end.

  Inductive exec_result :=
  | ExecOk (rep : report) (calls : list call)
  | ExecErr                     (* an invocation block is missing / Run failed: the request errors *)
  | ExecFuel.

  Fixpoint run_all (invs : list dlg) : option (list receipt * list call) :=
    match invs with
    | [] => Some ([], [])
    | i :: r =>
      match run i, run_all r with
      | Some (rc, cs), Some (rcs, css) => Some (rc :: rcs, cs ++ css)
      | _, _ => None
      end
    end.

  (* vis: links of the blocks that travelled in the message; sigma: the order in which the
     per-invocation goroutines appended their receipts (any permutation) *)
  Definition execute_sched (vis : list link) (exec : list link)
             (sigma : list receipt -> list receipt) : exec_result :=
    let ls := dedupe [] exec in
    if forallb (fun l => existsb (N.eqb l) vis) ls then
      match run_all (map (fun l => mkDlg l vis) ls) with
      | Some (rcs, calls) => ExecOk (build (sigma rcs)) calls
      | None => ExecFuel
      end
    else ExecErr.

  Definition execute (vis exec : list link) : exec_result := execute_sched vis exec (fun x => x).
End Srv.

(* ------------------------------------------------------------------ *)
(* C08                                                                  *)

Section C08.
  Variable U : link -> option token.
  Variable fuel : nat.
  Variable srv : server.

  Lemma find_handler_some k hs h : find_handler k hs = Some h -> In h hs /\ h_can h = k.
  Proof.
    induction hs as [|x r IH]; cbn [find_handler]; [discriminate|].
    destruct (beq (h_can x) k) eqn:E.
    - intros H. inversion H; subst. apply beq_eq in E. split; [left; reflexivity | exact E].
    - intros H. destruct (IH H). split; [right; assumption | assumption].
  Qed.

  (* a handler runs exactly when the validator authorizes; at most once; with the invocation's capability *)
  Theorem run_calls inv rc calls :
    run U fuel srv inv = Some (rc, calls) ->
    (calls = [] \/ exists h a t c, calls = [(h_can h, node_cap a)] /\
        tok U inv = Some t /\ t_caps t = [c] /\ find_handler (r_can c) (s_service srv) = Some h /\
        fst (access U (s_ctx srv) fuel (h_desc h) inv) = AOk a) /\
    (forall h t c, tok U inv = Some t -> t_caps t = [c] ->
        find_handler (r_can c) (s_service srv) = Some h ->
        (calls <> [] <-> exists a, fst (access U (s_ctx srv) fuel (h_desc h) inv) = AOk a)).
  Proof.
    unfold run. intros H. split.
    - destruct (tok U inv) as [t|] eqn:T; [|inversion H; auto].
      destruct (t_caps t) as [|c [|c2 r]] eqn:CP; try (inversion H; auto; fail).
      destruct (find_handler (r_can c) (s_service srv)) as [h|] eqn:FH; [|inversion H; auto].
      destruct (fst (access U (s_ctx srv) fuel (h_desc h) inv)) as [a|e|] eqn:A; try (inversion H; auto; fail).
      inversion H; subst. right. exists h, a, t, c. auto.
    - intros h t c T CP FH. rewrite T, CP, FH in H.
      destruct (fst (access U (s_ctx srv) fuel (h_desc h) inv)) as [a|e|] eqn:A; inversion H; subst.
      + split; [intros _; exists a; reflexivity | intros _; discriminate].
      + split; [intros X; contradiction | intros [a X]; discriminate].
  Qed.

  Theorem run_at_most_once inv rc calls :
    run U fuel srv inv = Some (rc, calls) -> (length calls <= 1)%nat.
  Proof.
    intros H. destruct (run_calls _ _ _ H) as [[->|[h [a [t [c [-> _]]]]]] _]; cbn; auto.
  Qed.

  (* the capability handed to the handler is the invocation's own capability read by the
     handler's descriptor: same ability, same resource, caveats = the reader's output *)
  Theorem run_args (Hres : forall l p, resolve_proof (s_ctx srv) l = Some p -> d_link p = l)
          inv rc k cp t c :
    run U fuel srv inv = Some (rc, [(k, cp)]) -> tok U inv = Some t -> t_caps t = [c] ->
    exists h, find_handler (r_can c) (s_service srv) = Some h /\ k = h_can h /\
      parse_cap (h_desc h) c = Some cp /\
      can cp = r_can c /\ wth cp = r_with c /\ ds_nb (h_desc h) (r_nb c) = Some (nb cp).
  Proof.
    intros H T CP. unfold run in H. rewrite T, CP in H.
    destruct (find_handler (r_can c) (s_service srv)) as [h|] eqn:FH; [|discriminate].
    destruct (fst (access U (s_ctx srv) fuel (h_desc h) inv)) as [a|e|] eqn:A; try discriminate.
    inversion H; subst.
    pose proof (access_sound U (s_ctx srv) Hres fuel (h_desc h) inv a A) as PS.
    destruct fuel as [|n]; [discriminate|]. cbn [P] in PS.
    destruct PS as [d [c1 [ps [t1 [c0 [E [Hin [TO [T1 [Hc [PC _]]]]]]]]]]].
    destruct Hin as [<-|[]]. rewrite T in T1. inversion T1; subst t1.
    rewrite CP in Hc. destruct Hc as [Ec|[]]. subst c0 a. cbn [node_cap].
    exists h. split; [reflexivity|]. split; [reflexivity|]. split; [exact PC|].
    unfold parse_cap in PC. destruct (beq (ds_can (h_desc h)) (r_can c)); [|discriminate].
    destruct (ds_with (h_desc h) (r_with c)); [|discriminate].
    destruct (ds_nb (h_desc h) (r_nb c)) eqn:NB; [|discriminate]. inversion PC. auto.
  Qed.

  (* unauthorized: nothing runs, the receipt carries Unauthorized *)
  Theorem run_unauthorized inv t c h e :
    tok U inv = Some t -> t_caps t = [c] -> find_handler (r_can c) (s_service srv) = Some h ->
    fst (access U (s_ctx srv) fuel (h_desc h) inv) = AErr e ->
    run U fuel srv inv = Some (mkRcpt (d_link inv) (s_id srv) (RErr e_unauthorized) no_fx, []).
  Proof. intros T CP FH A. unfold run. rewrite T, CP, FH, A. reflexivity. Qed.

  (* zero or several capabilities: InvocationCapabilityError, nothing runs *)
  Theorem run_cap_count inv t :
    tok U inv = Some t -> length (t_caps t) <> 1%nat ->
    run U fuel srv inv = Some (mkRcpt (d_link inv) (s_id srv) (RErr e_capability) no_fx, []).
  Proof.
    intros T L. unfold run. rewrite T. destruct (t_caps t) as [|c [|c2 r]]; cbn in L; try reflexivity.
    contradiction.
  Qed.

  (* an ability nobody handles: HandlerNotFoundError, nothing runs *)
  Theorem run_not_found inv t c :
    tok U inv = Some t -> t_caps t = [c] -> find_handler (r_can c) (s_service srv) = None ->
    run U fuel srv inv = Some (mkRcpt (d_link inv) (s_id srv) (RErr e_not_found) no_fx, []).
  Proof. intros T CP FH. unfold run. rewrite T, CP, FH. reflexivity. Qed.

  (* every receipt is issued by the server for the invocation it ran *)
  Theorem run_receipt inv rc calls :
    run U fuel srv inv = Some (rc, calls) -> rc_ran rc = d_link inv /\ rc_iss rc = s_id srv.
  Proof.
    unfold run. intros H.
    destruct (match tok U inv with Some t => t_caps t | None => [] end) as [|c [|c2 r]];
      try (inversion H; subst; auto; fail).
    destruct (find_handler (r_can c) (s_service srv)) as [h|]; [|inversion H; subst; auto].
    destruct (fst (access U (s_ctx srv) fuel (h_desc h) inv)) as [a|e|]; [| inversion H; subst; auto | discriminate].
    inversion H; subst. destruct (h_result h (node_cap a)); auto.
  Qed.

  (* ---- effects ---- *)

  (* the receipt of an authorized invocation whose handler returned a value with effects fx
     is the ok receipt carrying exactly fx: the same forks in the same order, the same join *)
  Theorem run_receipt_effects inv rc calls t c h a fx :
    run U fuel srv inv = Some (rc, calls) ->
    tok U inv = Some t -> t_caps t = [c] -> find_handler (r_can c) (s_service srv) = Some h ->
    fst (access U (s_ctx srv) fuel (h_desc h) inv) = AOk a ->
    h_result h (node_cap a) = HOk fx ->
    rc_out rc = ROk /\ rc_fx rc = fx /\ calls = [(h_can h, node_cap a)].
  Proof.
    intros H T CP FH A HR. unfold run in H. rewrite T, CP, FH, A, HR in H.
    inversion H; subst. auto.
  Qed.

  (* a receipt that does not carry a value carries no effects *)
  Theorem run_no_effects_without_success inv rc calls :
    run U fuel srv inv = Some (rc, calls) -> rc_out rc <> ROk -> rc_fx rc = no_fx.
  Proof.
    unfold run. intros H.
    destruct (match tok U inv with Some t => t_caps t | None => [] end) as [|c [|c2 r]];
      try (inversion H; subst; auto; fail).
    destruct (find_handler (r_can c) (s_service srv)) as [h|]; [|inversion H; subst; auto].
    destruct (fst (access U (s_ctx srv) fuel (h_desc h) inv)) as [a|e|]; [| inversion H; subst; auto | discriminate].
    inversion H; subst. destruct (h_result h (node_cap a)); cbn [rc_out rc_fx]; [|auto].
    intros X. exfalso. apply X. reflexivity.
  Qed.

  (* whatever a receipt carries as effects is what the handler that ran for it returned:
     no effects, or the effects of the single call made *)
  Theorem run_effects_from_handler inv rc calls :
    run U fuel srv inv = Some (rc, calls) ->
    rc_fx rc = no_fx \/
    exists h a t c, tok U inv = Some t /\ t_caps t = [c] /\
      find_handler (r_can c) (s_service srv) = Some h /\
      fst (access U (s_ctx srv) fuel (h_desc h) inv) = AOk a /\
      calls = [(h_can h, node_cap a)] /\ rc_out rc = ROk /\ h_result h (node_cap a) = HOk (rc_fx rc).
  Proof.
    unfold run. intros H.
    destruct (tok U inv) as [t|] eqn:T; [|inversion H; auto].
    destruct (t_caps t) as [|c [|c2 r]] eqn:CP; try (inversion H; auto; fail).
    destruct (find_handler (r_can c) (s_service srv)) as [h|] eqn:FH; [|inversion H; auto].
    destruct (fst (access U (s_ctx srv) fuel (h_desc h) inv)) as [a|e|] eqn:A; [| inversion H; auto | discriminate].
    destruct (h_result h (node_cap a)) as [fx|] eqn:HR; inversion H; subst; [|auto].
    right. exists h, a, t, c. cbn [rc_out rc_fx]. repeat split; auto.
  Qed.
End C08.

(* ------------------------------------------------------------------ *)
(* C09                                                                  *)

Section C09.
  Variable U : link -> option token.
  Variable fuel : nat.
  Variable srv : server.

  Lemma dedupe_spec seen ls : NoDup (dedupe seen ls) /\
    (forall l, In l (dedupe seen ls) <-> In l ls /\ ~ In l seen).
  Proof.
    revert seen. induction ls as [|x r IH]; intros seen; cbn [dedupe].
    - split; [constructor | intros l; split; [intros [] | intros [[] _]]].
    - destruct (existsb (N.eqb x) seen) eqn:E.
      + destruct (IH seen) as [ND Hin]. split; [exact ND|]. intros l. rewrite Hin.
        apply existsb_exists in E. destruct E as [y [Hy Exy]]. apply N.eqb_eq in Exy. subst y.
        split; [intros [A B]; split; [right; exact A | exact B]|].
        intros [[<-|A] B]; [contradiction | auto].
      + assert (NS : ~ In x seen).
        { intros Hx. assert (existsb (N.eqb x) seen = true) by (apply existsb_exists; exists x; split; [exact Hx | apply N.eqb_refl]). congruence. }
        destruct (IH (x :: seen)) as [ND Hin]. split.
        * constructor; [|exact ND]. rewrite Hin. intros [_ B]. apply B. left. reflexivity.
        * intros l. cbn [In]. rewrite Hin. cbn [In]. split.
          -- intros [<-|[A B]]; [split; [left; reflexivity | exact NS] | split; [right; exact A | intros X; apply B; right; exact X]].
          -- intros [[<-|A] B]; [left; reflexivity|].
             destruct (N.eq_dec x l) as [<-|NE]; [left; reflexivity|].
             right. split; [exact A|]. intros [X|X]; [contradiction | contradiction].
  Qed.

  Lemma run_all_spec invs rcs calls :
    run_all U fuel srv invs = Some (rcs, calls) ->
    map rc_ran rcs = map d_link invs /\ Forall (fun r => rc_iss r = s_id srv) rcs /\
    Forall2 (fun i r => exists cs, run U fuel srv i = Some (r, cs)) invs rcs.
  Proof.
    revert rcs calls. induction invs as [|i r IH]; cbn [run_all]; intros rcs calls H.
    - inversion H; subst. repeat split; constructor.
    - destruct (run U fuel srv i) as [[rc cs]|] eqn:R; [|discriminate].
      destruct (run_all U fuel srv r) as [[rcs' css]|] eqn:RA; [|discriminate].
      inversion H; subst. destruct (IH _ _ eq_refl) as [A [B D]].
      destruct (run_receipt _ _ _ _ _ _ R) as [E1 E2].
      cbn [map]. repeat split.
      + rewrite A, E1. reflexivity.
      + constructor; assumption.
      + constructor; [exists cs; exact R | exact D].
  Qed.

  Lemma forall2_run_find vis : forall ls rcs r,
    Forall2 (fun i r => exists cs, run U fuel srv i = Some (r, cs)) (map (fun l => mkDlg l vis) ls) rcs ->
    map rc_ran rcs = ls -> In r rcs -> exists cs, run U fuel srv (mkDlg (rc_ran r) vis) = Some (r, cs).
  Proof.
    induction ls as [|x ls IH]; intros rcs r F2 RAN Hr.
    - inversion F2; subst. destruct Hr.
    - destruct rcs as [|y rcs]; [destruct Hr|]. cbn [map] in *.
      inversion F2 as [|? ? ? ? Hy F2']; subst. inversion RAN as [[E1 E2]].
      destruct Hr as [<-|Hr].
      + destruct Hy as [cs Hcs]. exists cs. rewrite E1. exact Hcs.
      + eapply IH; eauto.
  Qed.

  Lemma rget_build_nodup rs : NoDup (map rc_ran rs) -> forall r, In r rs -> rget (rc_ran r) (build rs) = Some r.
  Proof.
    induction rs as [|x rs IH]; intros ND r Hin; [destruct Hin|].
    cbn [build map rget fst snd]. inversion ND as [|? ? NI ND']; subst.
    destruct Hin as [<-|Hin].
    - rewrite N.eqb_refl. reflexivity.
    - destruct (rc_ran x =? rc_ran r) eqn:E.
      + apply N.eqb_eq in E. exfalso. apply NI. rewrite E. apply in_map. exact Hin.
      + apply IH; assumption.
  Qed.

  Lemma rget_build_none rs l : ~ In l (map rc_ran rs) -> rget l (build rs) = None.
  Proof.
    induction rs as [|x rs IH]; intros NI; [reflexivity|].
    cbn [build map rget fst snd]. destruct (rc_ran x =? l) eqn:E.
    - apply N.eqb_eq in E. exfalso. apply NI. left. exact E.
    - apply IH. intros X. apply NI. right. exact X.
  Qed.

  (* whatever order the goroutines append in, the report maps every distinct invocation of
     the request to the receipt of exactly that invocation, issued by the server, and
     nothing else *)
  Theorem execute_one_receipt_each vis exec sigma rep calls :
    (forall rs, Permutation rs (sigma rs)) ->
    execute_sched U fuel srv vis exec sigma = ExecOk rep calls ->
    (forall l, In l exec ->
       exists r cs, rget l rep = Some r /\ rc_ran r = l /\ rc_iss r = s_id srv /\
                    run U fuel srv (mkDlg l vis) = Some (r, cs)) /\
    (forall l, ~ In l exec -> rget l rep = None) /\
    NoDup (map fst rep) /\ length rep = length (dedupe [] exec).
  Proof.
    intros Hs. unfold execute_sched.
    destruct (forallb (fun l => existsb (N.eqb l) vis) (dedupe [] exec)); [|discriminate].
    destruct (run_all U fuel srv (map (fun l => mkDlg l vis) (dedupe [] exec))) as [[rcs cs]|] eqn:RA; [|discriminate].
    intros H. inversion H; subst. clear H.
    destruct (run_all_spec _ _ _ RA) as [RAN [ISS F2]].
    rewrite map_map in RAN. cbn [d_link] in RAN. rewrite map_id in RAN.
    destruct (dedupe_spec [] exec) as [ND Hin].
    pose proof (Hs rcs) as PERM.
    assert (NDs : NoDup (map rc_ran (sigma rcs))).
    { eapply Permutation_NoDup; [apply Permutation_map; exact PERM | rewrite RAN; exact ND]. }
    repeat split.
    - intros l Hl.
      assert (Hd : In l (dedupe [] exec)) by (apply Hin; split; [exact Hl | intros []]).
      rewrite <- RAN in Hd. apply in_map_iff in Hd. destruct Hd as [r [Er Hr]].
      assert (Hr' : In r (sigma rcs)) by (eapply Permutation_in; eauto).
      (* the run that produced r *)
      assert (exists cs', run U fuel srv (mkDlg l vis) = Some (r, cs')) as [cs' Hrun].
      { rewrite <- Er. eapply forall2_run_find; eauto. }
      exists r, cs'. repeat split; auto.
      + rewrite <- Er. apply rget_build_nodup; assumption.
      + rewrite Forall_forall in ISS. apply ISS. exact Hr.
    - intros l Hl. apply rget_build_none. intros X.
      assert (In l (map rc_ran rcs)).
      { eapply Permutation_in; [apply Permutation_sym; apply Permutation_map; exact PERM | exact X]. }
      rewrite RAN in H. apply Hin in H. apply Hl. apply H.
    - unfold build. rewrite map_map. cbn [fst]. exact NDs.
    - unfold build. rewrite map_length. rewrite <- (Permutation_length PERM).
      rewrite <- (map_length rc_ran), RAN. reflexivity.
  Qed.

  (* hence the response is independent of the schedule, as a map *)
  Corollary execute_schedule_independent vis exec sigma1 sigma2 rep1 rep2 c1 c2 :
    (forall rs, Permutation rs (sigma1 rs)) -> (forall rs, Permutation rs (sigma2 rs)) ->
    execute_sched U fuel srv vis exec sigma1 = ExecOk rep1 c1 ->
    execute_sched U fuel srv vis exec sigma2 = ExecOk rep2 c2 ->
    forall l, rget l rep1 = rget l rep2.
  Proof.
    intros H1 H2 E1 E2 l.
    destruct (execute_one_receipt_each _ _ _ _ _ H1 E1) as [A1 [B1 _]].
    destruct (execute_one_receipt_each _ _ _ _ _ H2 E2) as [A2 [B2 _]].
    destruct (in_dec N.eq_dec l exec) as [Hin|Hn].
    - destruct (A1 l Hin) as [r1 [cs1 [G1 [_ [_ R1]]]]].
      destruct (A2 l Hin) as [r2 [cs2 [G2 [_ [_ R2]]]]].
      rewrite G1, G2. congruence.
    - rewrite (B1 l Hn), (B2 l Hn). reflexivity.
  Qed.

  (* ---- effects, for a whole request and under any schedule ---- *)

  (* every entry of the report is the receipt Run produced for the invocation it is filed under *)
  Lemma execute_entry_from_run vis exec sigma rep calls :
    (forall rs, Permutation rs (sigma rs)) ->
    execute_sched U fuel srv vis exec sigma = ExecOk rep calls ->
    forall l r, rget l rep = Some r ->
      In l exec /\ exists cs, run U fuel srv (mkDlg l vis) = Some (r, cs).
  Proof.
    intros Hs E l r G.
    destruct (execute_one_receipt_each _ _ _ _ _ Hs E) as [A [B _]].
    destruct (in_dec N.eq_dec l exec) as [Hin|Hn].
    - split; [exact Hin|]. destruct (A l Hin) as [r' [cs [G' [_ [_ R]]]]].
      rewrite G in G'. inversion G'; subst r'. exists cs. exact R.
    - rewrite (B l Hn) in G. discriminate.
  Qed.

  (* an authorized invocation of the request whose handler returned (a value, fx): the receipt
     filed under it in the report is ok and carries exactly fx — forks in order, join *)
  Theorem execute_receipt_effects vis exec sigma rep calls :
    (forall rs, Permutation rs (sigma rs)) ->
    execute_sched U fuel srv vis exec sigma = ExecOk rep calls ->
    forall l t c h a fx, In l exec ->
      tok U (mkDlg l vis) = Some t -> t_caps t = [c] ->
      find_handler (r_can c) (s_service srv) = Some h ->
      fst (access U (s_ctx srv) fuel (h_desc h) (mkDlg l vis)) = AOk a ->
      h_result h (node_cap a) = HOk fx ->
      exists r, rget l rep = Some r /\ rc_ran r = l /\ rc_out r = ROk /\ rc_fx r = fx.
  Proof.
    intros Hs E l t c h a fx Hin T CP FH A HR.
    destruct (execute_one_receipt_each _ _ _ _ _ Hs E) as [X _].
    destruct (X l Hin) as [r [cs [G [RAN [_ R]]]]].
    destruct (run_receipt_effects _ _ _ _ _ _ _ _ _ _ _ R T CP FH A HR) as [O [F _]].
    exists r. auto.
  Qed.

  (* no receipt of the report carries effects unless it carries a value *)
  Theorem execute_no_effects_without_success vis exec sigma rep calls :
    (forall rs, Permutation rs (sigma rs)) ->
    execute_sched U fuel srv vis exec sigma = ExecOk rep calls ->
    forall l r, rget l rep = Some r -> rc_out r <> ROk -> rc_fx r = no_fx.
  Proof.
    intros Hs E l r G NO.
    destruct (execute_entry_from_run _ _ _ _ _ Hs E l r G) as [_ [cs R]].
    eapply run_no_effects_without_success; eauto.
  Qed.

  (* ... and the effects it carries are those its handler returned for the capability it was called with *)
  Theorem execute_effects_from_handler vis exec sigma rep calls :
    (forall rs, Permutation rs (sigma rs)) ->
    execute_sched U fuel srv vis exec sigma = ExecOk rep calls ->
    forall l r, rget l rep = Some r -> rc_fx r <> no_fx ->
    exists h a t c, tok U (mkDlg l vis) = Some t /\ t_caps t = [c] /\
      find_handler (r_can c) (s_service srv) = Some h /\
      fst (access U (s_ctx srv) fuel (h_desc h) (mkDlg l vis)) = AOk a /\
      rc_out r = ROk /\ h_result h (node_cap a) = HOk (rc_fx r).
  Proof.
    intros Hs E l r G NF.
    destruct (execute_entry_from_run _ _ _ _ _ Hs E l r G) as [_ [cs R]].
    destruct (run_effects_from_handler _ _ _ _ _ _ R) as [X|[h [a [t [c [T [CP [FH [A [_ [O HR]]]]]]]]]]]; [contradiction|].
    exists h, a, t, c. repeat split; assumption.
  Qed.

  (* the effects (and the class) of every receipt do not depend on the schedule *)
  Corollary execute_effects_schedule_independent vis exec sigma1 sigma2 rep1 rep2 c1 c2 :
    (forall rs, Permutation rs (sigma1 rs)) -> (forall rs, Permutation rs (sigma2 rs)) ->
    execute_sched U fuel srv vis exec sigma1 = ExecOk rep1 c1 ->
    execute_sched U fuel srv vis exec sigma2 = ExecOk rep2 c2 ->
    forall l, option_map rc_fx (rget l rep1) = option_map rc_fx (rget l rep2) /\
              option_map rc_out (rget l rep1) = option_map rc_out (rget l rep2).
  Proof.
    intros H1 H2 E1 E2 l.
    rewrite (execute_schedule_independent _ _ _ _ _ _ _ _ H1 H2 E1 E2 l). split; reflexivity.
  Qed.

  (* an invocation listed several times is executed once *)
  Theorem execute_calls_once vis exec rep calls :
    execute U fuel srv vis exec = ExecOk rep calls ->
    (length calls <= length (dedupe [] exec))%nat.
  Proof.
    unfold execute, execute_sched.
    destruct (forallb (fun l => existsb (N.eqb l) vis) (dedupe [] exec)); [|discriminate].
    destruct (run_all U fuel srv (map (fun l => mkDlg l vis) (dedupe [] exec))) as [[rcs cs]|] eqn:RA; [|discriminate].
    intros H. inversion H; subst. clear H.
    revert rcs calls RA. generalize (dedupe [] exec) as ls.
    induction ls as [|x ls IH]; cbn [map run_all]; intros rcs calls RA.
    - inversion RA; subst. cbn. lia.
    - destruct (run U fuel srv (mkDlg x vis)) as [[rc cs]|] eqn:R; [|discriminate].
      destruct (run_all U fuel srv (map (fun l => mkDlg l vis) ls)) as [[rcs' css]|] eqn:RA'; [|discriminate].
      inversion RA; subst. rewrite app_length. cbn [length].
      pose proof (run_at_most_once _ _ _ _ _ _ R). specialize (IH _ _ eq_refl). lia.
  Qed.
End C09.
