(* C20 — Unacceptable requests are refused with a 4xx and run nothing.
   This file contains only the property theorems; definitions and proofs are in
   Strs.v (Split / Cut / Trim on bytes) and Http.v (negotiation, Handle, channel).

   Reading guide.  A request is (cts, accs, b): the values of its Content-Type
   lines, the values of its Accept lines, and what the codec's Decode makes of its
   body (Undecodable | Decodes m).  [handle] returns the reply of server.Handle
   and the log of handler calls made while it ran; handler calls can only come
   from [execute] (server.Execute), which is a parameter.
   Satisfiability examples for the hypotheses (C20_*_sat) are at the end of Http.v.
   [hget] is http.Header.Get (first line or ""), [hjoin] joins all lines with ",". *)
From Ucanto Require Import Base Strs Http.

(* The Accept value admits a CAR reply  <->  it is absent/empty, or one of its
   comma separated elements is, optional whitespace and ";parameters" aside,
   exactly the CAR media type or "*/*".  For ALL byte strings. *)
Theorem C20_admits_iff : forall a : bstr,
  admits a = true <->
  (a = [] \/
   exists l e, is_list_of comma a l /\ In e l /\ (denotes e car_type \/ denotes e star_star)).
Proof. exact admits_iff. Qed.
Print Assumptions C20_admits_iff.

(* the notions used above are the unique ones: the list of comma separated elements ... *)
Theorem C20_list_elements_unique : forall (c : N) (s : bstr) (l : list bstr),
  (l <> [] /\ Forall (fun e => ~ In c e) l /\ join_byte c l = s) <-> l = split_byte c s.
Proof. exact split_byte_spec. Qed.
Print Assumptions C20_list_elements_unique.

(* ... and "e is OWS m OWS [;params]" determines m among clean media types *)
Theorem C20_media_range_denotes : forall e m : bstr,
  clean m -> (media_range e = m <-> denotes e m).
Proof. exact media_range_denotes. Qed.
Print Assumptions C20_media_range_denotes.

(* content type is not the CAR media type -> 415, no handler runs *)
Theorem C20_415 : forall (msg call : Type) (execute : msg -> list call * option msg)
    (cts accs : list bstr) (b : body msg),
  hget cts <> car_type ->
  handle msg call execute cts accs b = (Response 415%Z None None, []).
Proof. exact handle_415. Qed.
Print Assumptions C20_415.

(* Accept admits neither the CAR type nor */* -> 406, no handler runs *)
Theorem C20_406 : forall (msg call : Type) (execute : msg -> list call * option msg)
    (cts accs : list bstr) (b : body msg),
  hget cts = car_type -> ~ admits_spec (hjoin accs) ->
  handle msg call execute cts accs b = (Response 406%Z None None, []).
Proof. exact handle_406. Qed.
Print Assumptions C20_406.

(* acceptable headers, body not a decodable agent message -> 400, no handler runs *)
Theorem C20_400 : forall (msg call : Type) (execute : msg -> list call * option msg)
    (cts accs : list bstr),
  hget cts = car_type -> admits_spec (hjoin accs) ->
  handle msg call execute cts accs Undecodable = (Response 400%Z None None, []).
Proof. exact handle_400. Qed.
Print Assumptions C20_400.

(* acceptable and decodable (and Execute succeeds) -> 200 with the CAR content
   type and a CAR body holding Execute's reply; the calls are Execute's *)
Theorem C20_200 : forall (msg call : Type) (execute : msg -> list call * option msg)
    (cts accs : list bstr) (m : msg) (calls : list call) (r : msg),
  hget cts = car_type -> admits_spec (hjoin accs) -> execute m = (calls, Some r) ->
  handle msg call execute cts accs (Decodes m) = (Response 200%Z (Some car_type) (Some r), calls).
Proof. exact handle_200. Qed.
Print Assumptions C20_200.

(* "runs nothing", in one statement: if any handler ran, the request was
   acceptable and decodable and the calls are exactly Execute's *)
Theorem C20_runs_only_acceptable : forall (msg call : Type) (execute : msg -> list call * option msg)
    (cts accs : list bstr) (b : body msg),
  snd (handle msg call execute cts accs b) <> [] ->
  hget cts = car_type /\ admits_spec (hjoin accs) /\
  exists m, b = Decodes m /\ snd (handle msg call execute cts accs b) = fst (execute m).
Proof. exact handle_calls. Qed.
Print Assumptions C20_runs_only_acceptable.

(* Handle answers with no status other than 415, 406, 400, 200 *)
Theorem C20_status_range : forall (msg call : Type) (execute : msg -> list call * option msg)
    (cts accs : list bstr) (b : body msg) st ct p calls,
  handle msg call execute cts accs b = (Response st ct p, calls) ->
  st = 415%Z \/ st = 406%Z \/ st = 400%Z \/ st = 200%Z.
Proof. exact handle_status_range. Qed.
Print Assumptions C20_status_range.

(* client channel: any non-200 reply is an error carrying that status ... *)
Theorem C20_client : forall status : Z,
  status <> 200%Z -> channel_request status = ChanHTTPError status.
Proof. exact channel_non_200. Qed.
Print Assumptions C20_client.

(* ... a response comes out only for status 200 ... *)
Theorem C20_client_response_only_200 : forall status s : Z,
  channel_request status = ChanResponse s -> status = 200%Z /\ s = 200%Z.
Proof. exact channel_response_only_200. Qed.
Print Assumptions C20_client_response_only_200.

Theorem C20_client_200 : channel_request 200%Z = ChanResponse 200%Z.
Proof. exact channel_200. Qed.
Print Assumptions C20_client_200.

(* ... and client.Execute never reports success for a non-200 reply *)
Theorem C20_client_execute : forall (status : Z) (body_decodes : bool),
  status <> 200%Z -> client_execute status body_decodes = ExecError.
Proof. exact client_execute_non_200. Qed.
Print Assumptions C20_client_execute.

(* corollaries named in the plan *)
Theorem C20_admits_list_with_star : admits (bs "text/html, */*;q=0.1") = true.
Proof. exact admits_list_with_star. Qed.
Print Assumptions C20_admits_list_with_star.
Theorem C20_near_miss_not_admitted : admits (bs "application/vnd.ipld.carx") = false.
Proof. exact admits_near_miss_suffix. Qed.
Print Assumptions C20_near_miss_not_admitted.

(* ================================================================================================ *)
(* the 400 decision made concrete: [body] is no longer given, it is what request.Decode — modelled by
   MessageBytes.decode_message on the request's BYTES — makes of them.  [execute] now takes the decoded
   message (root link, execute list / report, block table).  The abstract theorems above are unchanged. *)
From Ucanto Require Import Varint Ipld Cbor Formats Blockstore MessageFormat Cid Car MessageBytes.

(* acceptable headers, bytes that are not a decodable agent message -> 400, no handler runs *)
Theorem C20_bytes_400 : forall mh_digest hdr_oracle (call : Type)
    (execute : decoded -> list call * option decoded) (cts accs : list bstr) (b : bstr),
  hget cts = car_type -> admits_spec (hjoin accs) ->
  decode_message mh_digest hdr_oracle b = None ->
  handle_bytes mh_digest hdr_oracle call execute cts accs b = (Response 400%Z None None, []).
Proof. exact handle_bytes_400. Qed.
Print Assumptions C20_bytes_400.

(* acceptable headers, bytes that decode to d, Execute succeeds on d -> 200 with Execute's reply *)
Theorem C20_bytes_200 : forall mh_digest hdr_oracle (call : Type)
    (execute : decoded -> list call * option decoded) (cts accs : list bstr) (b : bstr) d calls r,
  hget cts = car_type -> admits_spec (hjoin accs) ->
  decode_message mh_digest hdr_oracle b = Some d -> execute d = (calls, Some r) ->
  handle_bytes mh_digest hdr_oracle call execute cts accs b = (Response 200%Z (Some car_type) (Some r), calls).
Proof. exact handle_bytes_200. Qed.
Print Assumptions C20_bytes_200.

(* if any handler ran, the headers were acceptable and the bytes decoded; the calls are Execute's on
   exactly the decoded message *)
Theorem C20_bytes_runs_only_decodable : forall mh_digest hdr_oracle (call : Type)
    (execute : decoded -> list call * option decoded) (cts accs : list bstr) (b : bstr),
  snd (handle_bytes mh_digest hdr_oracle call execute cts accs b) <> [] ->
  hget cts = car_type /\ admits_spec (hjoin accs) /\
  exists d, decode_message mh_digest hdr_oracle b = Some d /\
            snd (handle_bytes mh_digest hdr_oracle call execute cts accs b) = fst (execute d).
Proof. exact handle_bytes_calls. Qed.
Print Assumptions C20_bytes_runs_only_decodable.

(* a request written by the library's encoder for message m is executed as m *)
Theorem C20_bytes_roundtrip : forall mh_digest hdr_oracle (call : Type)
    (execute : decoded -> list call * option decoded) (cts accs : list bstr) m root blocks calls r,
  hget cts = car_type -> admits_spec (hjoin accs) ->
  wf_ipld (message_ipld m) = true -> in_budget (message_ipld m) = true ->
  roots_ok 1 [root] -> Forall (block_ok mh_digest) blocks ->
  tbl_get (tbl_of blocks) root = Some (message_bytes m) ->
  msg_root_ok mh_digest root (message_bytes m) ->
  execute (mkDecoded root (canon_msg m) (run_puts bstr bstr beq blocks)) = (calls, Some r) ->
  handle_bytes mh_digest hdr_oracle call execute cts accs (car_encode [root] blocks)
  = (Response 200%Z (Some car_type) (Some r), calls).
Proof. exact handle_bytes_roundtrip. Qed.
Print Assumptions C20_bytes_roundtrip.

(* one damaged section anywhere in the body: 400, nothing runs *)
Theorem C20_bytes_bad_block : forall mh_digest hdr_oracle (call : Type)
    (execute : decoded -> list call * option decoded) (cts accs : list bstr) roots bs1 c d' bs2,
  hget cts = car_type -> admits_spec (hjoin accs) ->
  roots_ok 1 roots -> Forall (block_ok mh_digest) bs1 -> Forall (block_ok mh_digest) bs2 ->
  cid_wf c -> N.of_nat (length (c ++ d')) <= max_section ->
  cid_sum mh_digest (cid_prefix c) d' <> Some c ->
  handle_bytes mh_digest hdr_oracle call execute cts accs
    (car_encode roots bs1 ++ section (c, d') ++ flat_map section bs2)
  = (Response 400%Z None None, []).
Proof. exact handle_bytes_bad_block. Qed.
Print Assumptions C20_bytes_bad_block.
