(* C16 — Ability and resource patterns grant exactly what they say.
   This file contains only the property theorems; proofs are in Pattern.v. *)
From Ucanto Require Import Base Pattern.

(* an ability pattern grants a (non-empty) claimed ability exactly when it is the
   same string, is "*", or is p ++ "/*" and the claimed ability starts with p ++ "/" *)
Theorem C16_ability : forall pattern can : bstr, can <> [] ->
  (resolve_ability pattern can = can <->
   pattern = can \/ pattern = star \/
   exists p r, pattern = p ++ slash_star /\ can = p ++ slash ++ r).
Proof. exact resolve_ability_grants. Qed.
Print Assumptions C16_ability.

(* the function has no other result than the claimed ability or "" *)
Theorem C16_ability_range : forall pattern can : bstr,
  resolve_ability pattern can = can \/ resolve_ability pattern can = [].
Proof. exact resolve_ability_range. Qed.
Print Assumptions C16_ability_range.

Theorem C16_resource : forall source uri : bstr, uri <> [] ->
  (resolve_resource source uri = uri <-> source = uri \/ source = ucan_star).
Proof. exact resolve_resource_grants. Qed.
Print Assumptions C16_resource.

Theorem C16_resource_range : forall source uri : bstr,
  resolve_resource source uri = uri \/ resolve_resource source uri = [].
Proof. exact resolve_resource_range. Qed.
Print Assumptions C16_resource_range.

(* default derivation: equal, or delegated = p ++ "*" with p a prefix of the claimed *)
Theorem C16_derives : forall cwith dwith : bstr,
  default_derives cwith dwith = true <->
  dwith = cwith \/ exists p, dwith = p ++ star /\ exists r, cwith = p ++ r.
Proof. exact default_derives_grants. Qed.
Print Assumptions C16_derives.
