(* ServerBytesExample.v — non-vacuity of the C11_bytes_* / C08_bytes_* theorems: a concrete request
   body (toy digest, toy signatures) carrying one self-issued invocation; the hypotheses of the
   refinement and of the totality theorem hold, a handler is called, and the composition theorem's
   conclusion is inhabited. *)
From Ucanto Require Import Base Varint Ipld Cbor Formats Blockstore MessageFormat Cid Car BaseEnc DagJson Signing.
From Ucanto Require Import MessageBytes TokenBytes.
From Ucanto Require Import Pattern Time Validator ValidatorSpec ValidatorTerm Check_Validator Server ServerTotal TokenView TokenViewExample LinkIntegrity ServerBytes.
Open Scope N_scope.

(* a toy digest with byte values (any function will do: the theorems quantify over it) *)
Definition y_digest (code len : N) (data : bstr) : option bstr :=
  if code =? 18 then Some (firstn (N.to_nat len) (N.of_nat (length data) mod 256 :: nth 0 data 0 :: nth 9 data 0 :: repeat 7 29)) else None.

Definition y_cid (data : bstr) : bstr :=
  cidv1 113 (mh_encode 18 (match y_digest 18 32 data with Some d => d | None => [] end)).

Definition y_inv_cid : bstr := y_cid x_bytes.
Definition y_msg : amsg := mkMsg (Some [y_inv_cid]) None.
Definition y_root : bstr := y_cid (message_bytes y_msg).
Definition y_toks : list (bstr * utoken) := [(y_inv_cid, x_inv)].
Definition y_blocks : list (bstr * bstr) := request_blocks y_toks y_root y_msg.
Definition y_body : bstr := car_encode [y_root] y_blocks.

Definition y_srv : server :=
  mkServer (Did true (did_string (x_did 9))) x_ctx
           [mkHandler (bs "store/add") (std_desc (bs "store/add")) (fun _ => HOk no_fx)].

Definition y_serve := serve_bytes y_digest (fun _ => None) 8 y_srv [] (view_block lid x_keys x_valid x_alg).


Example y_hyps :
  wf_ipld (message_ipld y_msg) = true /\ in_budget (message_ipld y_msg) = true /\
  roots_ok 1 [y_root] /\ Forall (block_ok y_digest) y_blocks /\ NoDup (map fst y_blocks) /\
  msg_root_ok y_digest y_root (message_bytes y_msg) /\
  (forall c t, In (c, t) y_toks ->
     wf_ipld (token_ipld t) = true /\ in_budget (token_ipld t) = true /\ token_typed_ok t = true /\ u_fct t <> Some []).
Proof.
  assert (W1 : cid_wf y_inv_cid).
  { unfold y_inv_cid, y_cid. apply (wf_v1 113 18); [reflexivity | reflexivity | vm_compute; discriminate]. }
  assert (W2 : cid_wf y_root).
  { unfold y_root, y_cid. apply (wf_v1 113 18); [reflexivity | reflexivity | vm_compute; discriminate]. }
  split; [vm_compute; reflexivity|]. split; [vm_compute; reflexivity|].
  split. { split; [apply Forall_cons; [exact W2 | apply Forall_nil] | vm_compute; discriminate]. }
  split.
  { unfold y_blocks, request_blocks, y_toks. cbn [map app fst snd].
    apply Forall_cons; [|apply Forall_cons; [|apply Forall_nil]].
    - split; [exact W1|]. split; vm_compute; [reflexivity | discriminate].
    - split; [exact W2|]. split; vm_compute; [reflexivity | discriminate]. }
  split.
  { unfold y_blocks, request_blocks, y_toks. cbn [map app fst snd].
    constructor; [|constructor; [intros []|constructor]].
    intros [E|[]]. vm_compute in E. discriminate E. }
  split. { eexists. split; vm_compute; reflexivity. }
  intros c t [E|[]]. inversion E; subst.
  repeat split; try (vm_compute; reflexivity). discriminate.
Qed.

(* the body decodes, the invocation is authorized, the handler is called once with its capability *)
Example y_served :
  exists rep, y_serve y_body = SDone (ExecOk rep [(bs "store/add", mkCap (bs "store/add") x_owner [])]).
Proof. eexists. vm_compute. reflexivity. Qed.

(* a damaged body: 400, nothing runs *)
Example y_bad : y_serve (removelast y_body) = SBad /\ y_serve [] = SBad.
Proof. vm_compute. split; reflexivity. Qed.

Lemma y_res : forall l p, resolve_proof (s_ctx y_srv) l = Some p -> d_link p = l.
Proof. intros l p E. discriminate E. Qed.

(* the composition theorem applies: its conclusion about the one call *)
Example y_chain :
  exists d, decode_message y_digest (fun _ => None) y_body = Some d /\
  exists cid data ut h a,
    In cid (invocations_bytes (d_msg d)) /\ tbl_get (d_store d) cid = Some data /\
    cid_of y_digest data = Some cid /\ token_decode_typed data = Some ut /\
    P (U_of y_digest [] (view_block lid x_keys x_valid x_alg) (blocks_of d)) x_ctx 8 (h_desc h)
      [mkDlg (lid cid) (vis_of (blocks_of d))] a.
Proof.
  destruct y_served as [rep H].
  destruct (serve_bytes_calls_have_valid_chains y_digest (fun _ => None) x_keys x_valid x_alg 8 y_srv [] _ (fun b => eq_refl) y_body rep _
              y_res H) as [d [D K]].
  exists d. split; [exact D|].
  destruct (K _ (or_introl eq_refl)) as (cid & data & ut & h & a & c & H1 & H2 & Hb & H3 & _ & _ & _ & H4 & _).
  exists cid, data, ut, h, a. auto.
Qed.

(* ------------------------------------------------------------------ *)
(* the same invocation — the same signed bytes — travelling under a RAW-codec CID (0x55 over the
   same multihash; the CAR reader accepts it), named by the execute list under that CID: the
   hypotheses of C11_bytes_relabelled_no_fields / C08_bytes_relabelled_runs_nothing hold, the body
   decodes, and the invocation is answered InvocationCapabilityError with no handler call — while
   the well-formed body above (y_served) runs the handler. *)
Definition y_raw_cid : bstr :=
  cidv1 85 (mh_encode 18 (match y_digest 18 32 x_bytes with Some d => d | None => [] end)).
Definition y_msg_raw : amsg := mkMsg (Some [y_raw_cid]) None.
Definition y_root_raw : bstr := y_cid (message_bytes y_msg_raw).
Definition y_blocks_raw : list (bstr * bstr) := request_blocks [(y_raw_cid, x_inv)] y_root_raw y_msg_raw.
Definition y_body_raw : bstr := car_encode [y_root_raw] y_blocks_raw.

Example y_raw_hyps :
  exists d, decode_message y_digest (fun _ => None) y_body_raw = Some d /\
    blocks_of d = [] ++ (y_raw_cid, token_bytes x_inv) :: [(y_root_raw, message_bytes y_msg_raw)] /\
    invocations_bytes (d_msg d) = [y_raw_cid] /\
    cid_of y_digest (token_bytes x_inv) <> Some y_raw_cid /\
    cid_of y_digest (token_bytes x_inv) = Some y_inv_cid /\
    token_decode_typed (message_bytes y_msg_raw) = None.
Proof.
  destruct (decode_message y_digest (fun _ => None) y_body_raw) as [d|] eqn:D; [|vm_compute in D; discriminate D].
  exists d. split; [reflexivity|].
  assert (E : Some d = decode_message y_digest (fun _ => None) y_body_raw) by (symmetry; exact D).
  vm_compute in E. inversion E; subst d. clear E D.
  repeat split; try (vm_compute; reflexivity). vm_compute. discriminate.
Qed.

Example y_raw_served :
  y_serve y_body_raw =
  SDone (ExecOk [(lid y_raw_cid, mkRcpt (lid y_raw_cid) (s_id y_srv) (RErr e_capability) no_fx)] []).
Proof. vm_compute. reflexivity. Qed.

(* the theorems apply to it: the relabelled block is the empty token in the server's store, the
   request is served as if the block carried the (non-UCAN) bytes of the message root, and the
   receipt is the one C08_bytes_relabelled_runs_nothing names *)
Example y_raw_applies :
  exists d, decode_message y_digest (fun _ => None) y_body_raw = Some d /\
    U_of y_digest [] (view_block lid x_keys x_valid x_alg) (blocks_of d) (lid y_raw_cid) = Some empty_token /\
    y_serve y_body_raw =
      SDone (execute (U_of y_digest [] (view_block lid x_keys x_valid x_alg)
                        ((y_raw_cid, message_bytes y_msg_raw) :: [(y_root_raw, message_bytes y_msg_raw)]))
                     8 y_srv (vis_of (blocks_of d)) (exec_of (d_msg d))) /\
    (forall vis, run (U_of y_digest [] (view_block lid x_keys x_valid x_alg) (blocks_of d)) 8 y_srv (mkDlg (lid y_raw_cid) vis)
                 = Some (mkRcpt (lid y_raw_cid) (s_id y_srv) (RErr e_capability) no_fx, [])) /\
    calls_of (y_serve y_body_raw) = [].
Proof.
  destruct y_raw_hyps as (d & D & EB & EI & NE & _ & TD). exists d. split; [exact D|].
  destruct (serve_bytes_relabelled_no_fields y_digest (fun _ => None) x_keys x_valid x_alg 8 y_srv [] _ (fun b => eq_refl)
              y_body_raw d [] y_raw_cid (token_bytes x_inv) _ D EB NE) as [_ [HU HS]].
  split; [apply HU; intros []|]. split; [exact (HS _ TD)|].
  assert (I : In (y_raw_cid, token_bytes x_inv) (blocks_of d)) by (rewrite EB; left; reflexivity).
  destruct (serve_bytes_relabelled_runs_nothing y_digest (fun _ => None) x_keys x_valid x_alg 8 y_srv [] _ (fun b => eq_refl)
              y_body_raw d y_raw_cid (token_bytes x_inv) D I NE) as [R _].
  split; [exact R|]. rewrite y_raw_served. reflexivity.
Qed.

(* the encoder model files the token under the CID the well-formed request uses *)
Example y_enc : enc_toks y_digest [x_inv] = Some y_toks.
Proof. vm_compute. reflexivity. Qed.
