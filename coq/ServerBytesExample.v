(* ServerBytesExample.v — non-vacuity of the C11_bytes_* / C08_bytes_* theorems: a concrete request
   body (toy digest, toy signatures) carrying one self-issued invocation; the hypotheses of the
   refinement and of the totality theorem hold, a handler is called, and the composition theorem's
   conclusion is inhabited. *)
From Ucanto Require Import Base Varint Ipld Cbor Formats Blockstore MessageFormat Cid Car BaseEnc DagJson Signing.
From Ucanto Require Import MessageBytes TokenBytes.
From Ucanto Require Import Pattern Time Validator ValidatorSpec ValidatorTerm Check_Validator Server ServerTotal TokenView TokenViewExample ServerBytes.
Open Scope N_scope.

(* a toy digest with byte values (any function will do: the theorems quantify over it) *)
Definition y_digest (code len : N) (data : bstr) : option bstr :=
  if code =? 18 then Some (firstn (N.to_nat len) (N.of_nat (length data) mod 256 :: nth 0 data 0 :: nth 9 data 0 :: repeat 7 29)) else None.

Definition y_cid (data : bstr) : bstr :=
  cidv1 113 (mh_encode 18 (match y_digest 18 32 data with Some d => d | None => [] end)).

Definition y_inv_cid : bstr := y_cid x_bytes.
Definition y_msg : amsg := mkMsg (Some [y_inv_cid]) None.
Definition y_root : bstr := y_cid (message_bytes y_msg).
Definition y_toks : list (bstr * utoken) := [(y_inv_cid, x_inv)].
Definition y_blocks : list (bstr * bstr) := request_blocks y_toks y_root y_msg.
Definition y_body : bstr := car_encode [y_root] y_blocks.

Definition y_srv : server :=
  mkServer (Did true (did_string (x_did 9))) x_ctx
           [mkHandler (bs "store/add") (std_desc (bs "store/add")) (fun _ => HOk no_fx)].

Definition y_serve := serve_bytes y_digest (fun _ => None) 8 y_srv [] (view_block lid x_keys x_valid x_alg).


Example y_hyps :
  wf_ipld (message_ipld y_msg) = true /\ in_budget (message_ipld y_msg) = true /\
  roots_ok 1 [y_root] /\ Forall (block_ok y_digest) y_blocks /\ NoDup (map fst y_blocks) /\
  msg_root_ok y_digest y_root (message_bytes y_msg) /\
  (forall c t, In (c, t) y_toks ->
     wf_ipld (token_ipld t) = true /\ in_budget (token_ipld t) = true /\ token_typed_ok t = true /\ u_fct t <> Some []).
Proof.
  assert (W1 : cid_wf y_inv_cid).
  { unfold y_inv_cid, y_cid. apply (wf_v1 113 18); [reflexivity | reflexivity | vm_compute; discriminate]. }
  assert (W2 : cid_wf y_root).
  { unfold y_root, y_cid. apply (wf_v1 113 18); [reflexivity | reflexivity | vm_compute; discriminate]. }
  split; [vm_compute; reflexivity|]. split; [vm_compute; reflexivity|].
  split. { split; [apply Forall_cons; [exact W2 | apply Forall_nil] | vm_compute; discriminate]. }
  split.
  { unfold y_blocks, request_blocks, y_toks. cbn [map app fst snd].
    apply Forall_cons; [|apply Forall_cons; [|apply Forall_nil]].
    - split; [exact W1|]. split; vm_compute; [reflexivity | discriminate].
    - split; [exact W2|]. split; vm_compute; [reflexivity | discriminate]. }
  split.
  { unfold y_blocks, request_blocks, y_toks. cbn [map app fst snd].
    constructor; [|constructor; [intros []|constructor]].
    intros [E|[]]. vm_compute in E. discriminate E. }
  split. { eexists. split; vm_compute; reflexivity. }
  intros c t [E|[]]. inversion E; subst.
  repeat split; try (vm_compute; reflexivity). discriminate.
Qed.

(* the body decodes, the invocation is authorized, the handler is called once with its capability *)
Example y_served :
  exists rep, y_serve y_body = SDone (ExecOk rep [(bs "store/add", mkCap (bs "store/add") x_owner [])]).
Proof. eexists. vm_compute. reflexivity. Qed.

(* a damaged body: 400, nothing runs *)
Example y_bad : y_serve (removelast y_body) = SBad /\ y_serve [] = SBad.
Proof. vm_compute. split; reflexivity. Qed.

Lemma y_res : forall l p, resolve_proof (s_ctx y_srv) l = Some p -> d_link p = l.
Proof. intros l p E. discriminate E. Qed.

(* the composition theorem applies: its conclusion about the one call *)
Example y_chain :
  exists d, decode_message y_digest (fun _ => None) y_body = Some d /\
  exists cid data ut h a,
    In cid (invocations_bytes (d_msg d)) /\ tbl_get (d_store d) cid = Some data /\
    token_decode_typed data = Some ut /\
    P (U_of [] (view_block lid x_keys x_valid x_alg) (blocks_of d)) x_ctx 8 (h_desc h)
      [mkDlg (lid cid) (vis_of (blocks_of d))] a.
Proof.
  destruct y_served as [rep H].
  destruct (serve_bytes_calls_have_valid_chains y_digest (fun _ => None) x_keys x_valid x_alg 8 y_srv [] _ (fun b => eq_refl) y_body rep _
              y_res H) as [d [D K]].
  exists d. split; [exact D|].
  destruct (K _ (or_introl eq_refl)) as (cid & data & ut & h & a & c & H1 & H2 & H3 & _ & _ & _ & H4 & _).
  exists cid, data, ut, h, a. auto.
Qed.
