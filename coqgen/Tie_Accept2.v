(* Tie_Accept2.v — carInbound.Accept and its helper `acceptable`, translated from
   transport/car/codec.go (Gen_Accept2.v, regenerated on every run), equal the
   hand-written model of Http.v for all header values; in particular the
   translated code never panics. *)
From Ucanto Require Import Base GoSem Strs GoSemStr Http.
From UcantoGen Require Import Gen_Accept2.
Open Scope N_scope.

Theorem tie_car_content_type : car_content_type = car_type.
Proof. reflexivity. Qed.

Theorem tie_acceptable : forall accept contentType,
  Gen_Accept2.acceptable accept contentType = Ret (Http.acceptable accept contentType).
Proof.
  intros accept ct. unfold Gen_Accept2.acceptable, Http.acceptable, rangeM, splitM.
  cbn [fmap bind ret].
  rewrite <- (range_loop_existsb
    (fun part => beq (media_range part) star_star || beq (media_range part) ct)).
  apply range_loop_ext. intros part.
  unfold cutM, trimM, returnM, continueM, media_range, ows, semicolon, star_star. gosem.
  destruct (beq (trim_set [32; 9] (cut_byte 59 part)) [42; 47; 42]); cbn [orb]; [reflexivity|].
  destruct (beq (trim_set [32; 9] (cut_byte 59 part)) ct); reflexivity.
Qed.

Theorem tie_Accept : forall hct hacc,
  Gen_Accept2.Accept hct hacc = Ret (accept_decision hct hacc).
Proof.
  intros hct hacc. unfold Gen_Accept2.Accept, accept_decision.
  rewrite tie_car_content_type. gosem.
  destruct (beq hct car_type); cbn [negb]; [|reflexivity].
  cbv zeta. unfold star_star.
  destruct (beq hacc []); rewrite tie_acceptable; cbn [bind];
    match goal with |- context [Http.acceptable ?a ?b] => destruct (Http.acceptable a b) end; reflexivity.
Qed.
Print Assumptions tie_acceptable.
Print Assumptions tie_Accept.
