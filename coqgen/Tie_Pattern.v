(* Tie_Pattern.v — the functions translated from validator/capability.go
   (Gen_Pattern.v, regenerated on every run) equal the hand-written model,
   for all inputs; in particular the translated slices never panic.
   The proofs are by a shape-agnostic tactic (case analysis on every string test that
   occurs, slices justified by the suffix tests that guard them), so that a rewrite of the
   source that keeps the function (reordered disjuncts, nested ifs, renamed variables)
   still checks. *)
From Ucanto Require Import Base GoSem Pattern.
From UcantoGen Require Import Gen_Pattern.
From Coq Require Import ZifyBool ZifyNat.
Open Scope N_scope.

Lemma suffix_len p s : suffixb p s = true -> (length p <= length s)%nat.
Proof. intros H. apply suffixb_spec in H. destruct H as [r ->]. rewrite app_length. lia. Qed.

Lemma slice_removelast (s : bstr) : (1 <= length s)%nat ->
  slice s 0 (Z.of_nat (length s) - 1) = Ret (removelast s).
Proof.
  intros H. rewrite slice_prefix by lia.
  replace (Z.to_nat (Z.of_nat (length s) - 1)) with (length s - 1)%nat by lia.
  rewrite firstn_removelast. reflexivity.
Qed.

Ltac slice_fix :=
  match goal with
  | S : suffixb ?p ?s = true |- context [slice ?s 0 (Z.of_nat (length ?s) - 1)] =>
    rewrite (slice_removelast s) by (pose proof (suffix_len _ _ S) as HL; cbn [length] in HL; lia)
  end.

Ltac split_test :=
  match goal with
  | |- context [beq ?a ?b] => let E := fresh "E" in destruct (beq a b) eqn:E
  | |- context [suffixb ?a ?b] => let E := fresh "S" in destruct (suffixb a b) eqn:E
  | |- context [prefixb ?a ?b] => let E := fresh "P" in destruct (prefixb a b) eqn:E
  end.

(* beq is symmetric: a source that writes `x == y` where the model writes `y == x` *)
Lemma beq_sym_eq (a b : bstr) : beq a b = beq b a.
Proof.
  destruct (beq a b) eqn:E1, (beq b a) eqn:E2; try reflexivity.
  - apply beq_eq in E1. subst. rewrite beq_refl in E2. discriminate.
  - apply beq_eq in E2. subst. rewrite beq_refl in E1. discriminate.
Qed.

Ltac sym_fix :=
  repeat match goal with
  | H : beq ?a ?b = ?v |- context [beq ?b ?a] => rewrite (beq_sym_eq b a), H
  end.

Ltac tie_auto :=
  gosem;
  repeat (first [ progress cbn [bind orb andb negb] | progress sym_fix | slice_fix | split_test ]);
  try reflexivity; try congruence.

Theorem tie_ResolveAbility : forall pattern can,
  ResolveAbility pattern can = Ret (resolve_ability pattern can).
Proof. intros pattern can. unfold ResolveAbility, resolve_ability, star, slash_star. tie_auto. Qed.

Theorem tie_ResolveResource : forall source uri,
  ResolveResource source uri = Ret (resolve_resource source uri).
Proof. intros source uri. unfold ResolveResource, resolve_resource, ucan_star. tie_auto. Qed.

Theorem tie_DefaultDerives : forall cwith dwith,
  DefaultDerives cwith dwith = Ret (default_derives cwith dwith).
Proof. intros cwith dwith. unfold DefaultDerives, default_derives, star. tie_auto. Qed.
Print Assumptions tie_ResolveAbility.
Print Assumptions tie_ResolveResource.
Print Assumptions tie_DefaultDerives.
