(* Tie_Pattern.v — the functions translated from validator/capability.go
   (Gen_Pattern.v, regenerated on every run) equal the hand-written model,
   for all inputs; in particular the translated slices never panic. *)
From Ucanto Require Import Base GoSem Pattern.
From UcantoGen Require Import Gen_Pattern.
From Coq Require Import ZifyBool ZifyNat.
Open Scope N_scope.

Lemma suffix_len p s : suffixb p s = true -> (length p <= length s)%nat.
Proof. intros H. apply suffixb_spec in H. destruct H as [r ->]. rewrite app_length. lia. Qed.

Lemma slice_removelast (s : bstr) : (1 <= length s)%nat ->
  slice s 0 (Z.of_nat (length s) - 1) = Ret (removelast s).
Proof.
  intros H. rewrite slice_prefix by lia.
  replace (Z.to_nat (Z.of_nat (length s) - 1)) with (length s - 1)%nat by lia.
  rewrite firstn_removelast. reflexivity.
Qed.

Theorem tie_ResolveAbility : forall pattern can,
  ResolveAbility pattern can = Ret (resolve_ability pattern can).
Proof.
  intros pattern can. unfold ResolveAbility, resolve_ability, star, slash_star. gosem.
  destruct (beq pattern can); cbn [bind orb]; [reflexivity|].
  destruct (beq pattern [42]); cbn [bind orb]; [reflexivity|].
  destruct (suffixb [47; 42] pattern) eqn:S; cbn [bind andb]; [|reflexivity].
  apply suffix_len in S. cbn [length] in S.
  rewrite slice_removelast by lia. cbn [bind].
  destruct (prefixb (removelast pattern) can); reflexivity.
Qed.

Theorem tie_ResolveResource : forall source uri,
  ResolveResource source uri = Ret (resolve_resource source uri).
Proof.
  intros source uri. unfold ResolveResource, resolve_resource, ucan_star. gosem.
  destruct (beq source uri); cbn [bind orb]; [reflexivity|].
  destruct (beq source [117; 99; 97; 110; 58; 42]); reflexivity.
Qed.

Theorem tie_DefaultDerives : forall cwith dwith,
  DefaultDerives cwith dwith = Ret (default_derives cwith dwith).
Proof.
  intros cwith dwith. unfold DefaultDerives, default_derives, star. gosem.
  destruct (suffixb [42] dwith) eqn:S; cbn [bind].
  - apply suffix_len in S. cbn [length] in S.
    rewrite slice_removelast by lia. cbn [bind].
    destruct (prefixb (removelast dwith) cwith); reflexivity.
  - destruct (beq dwith cwith); reflexivity.
Qed.
Print Assumptions tie_ResolveAbility.
Print Assumptions tie_ResolveResource.
Print Assumptions tie_DefaultDerives.
