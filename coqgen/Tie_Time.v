(* Tie_Time.v — IsExpired / IsTooEarly translated from ucan/lib.go equal the model. *)
From Ucanto Require Import Base GoSem Time.
From UcantoGen Require Import Gen_Time.

Theorem tie_IsExpired : forall exp now, IsExpired exp now = Ret (is_expired exp now).
Proof. intros [e|] now; unfold IsExpired, is_expired; gosem; reflexivity. Qed.

Theorem tie_IsTooEarly : forall nbf now, IsTooEarly nbf now = Ret (is_too_early nbf now).
Proof.
  intros nbf now. unfold IsTooEarly, is_too_early. gosem.
  destruct (nbf =? 0)%Z; reflexivity.
Qed.
Print Assumptions tie_IsExpired.
Print Assumptions tie_IsTooEarly.
