(* Tie_Locks.v — the lock / access table extracted from
   core/dag/blockstore/blockstore.go (Gen_Locks.v, regenerated on every run)
   obeys the lockset discipline, hence — by Conc.lockset_sound — no reachable
   state of any number of goroutines calling Put / Get / Iterator (and running
   the returned iterator closures) under any schedule contains a data race.
   A source edit that breaks the discipline (a write under RLock, an access
   outside the lock, the iterator closure touching bs.keys / bs.blks again)
   changes Gen_Locks.v and makes this file fail to compile.
   execute_table (server.Execute) is C09's; it is not referenced here. *)
From Ucanto Require Import Base Conc Blockstore.
From UcantoGen Require Import Gen_Locks.
Open Scope N_scope.

(* the three operations of the property are in the table *)
Theorem blockstore_ops_present :
  forallb (fun o => match alookup o blockstore_table with Some (_ :: _) => true | _ => false end)
          [bs_op_Put; bs_op_Get; bs_op_Iterator] = true.
Proof. vm_compute. reflexivity. Qed.

Theorem blockstore_discipline : discipline_ok blockstore_table = true.
Proof. vm_compute. reflexivity. Qed.

Theorem blockstore_race_free :
  forall (progs : nat -> list N) (sched : list label) (s : threads),
    run (init_of blockstore_table progs) sched s -> ~ race s.
Proof. exact (lockset_sound blockstore_table eq_refl). Qed.

(* a writer excludes everybody else: what the data-level proof (Blockstore.v) relies on *)
Theorem blockstore_put_exclusive :
  forall progs sched s, run (init_of blockstore_table progs) sched s ->
  forall i j, i <> j -> holds (s i) MW -> ~ locked (s j).
Proof. exact (write_lock_exclusive blockstore_table eq_refl). Qed.

(* Put runs entirely under the write lock; Get and Iterator under a lock; whatever
   Iterator leaves to run after the unlock (the returned closure) touches nothing shared *)
Definition all_under (ok : mode -> bool) (o : N) : bool :=
  forallb (fun s : section => ok (fst s) || match snd s with [] => true | _ => false end)
          (sections_of blockstore_table o).
Theorem blockstore_modes :
  all_under (fun m => match m with MW => true | _ => false end) bs_op_Put = true /\
  all_under (fun m => match m with MNone => false | _ => true end) bs_op_Get = true /\
  all_under (fun m => match m with MNone => false | _ => true end) bs_op_Iterator = true.
Proof. vm_compute. repeat split. Qed.

(* the code performs no shared access that the access-by-access model of Blockstore.v
   (Part 2) does not have: Put reads/writes blks and keys, Get reads blks, Iterator
   reads keys and blks; nothing else *)
Definition accesses_within (allowed : list (N * bool)) (o : N) : bool :=
  forallb (fun s : section =>
    forallb (fun a => existsb (fun p => (fst p =? avar a) && Bool.eqb (snd p) (awrite a)) allowed) (snd s))
    (sections_of blockstore_table o).
Theorem blockstore_accesses_within_model :
  accesses_within [(bs_var_blks, false); (bs_var_blks, true); (bs_var_keys, false); (bs_var_keys, true)] bs_op_Put = true /\
  accesses_within [(bs_var_blks, false)] bs_op_Get = true /\
  accesses_within [(bs_var_keys, false); (bs_var_blks, false)] bs_op_Iterator = true.
Proof. vm_compute. repeat split. Qed.

(* the variable numbering used by Blockstore.next_acc is the extractor's *)
Theorem blockstore_var_numbering : bs_var_keys = Blockstore.v_keys /\ bs_var_blks = Blockstore.v_blks.
Proof. split; reflexivity. Qed.

Print Assumptions blockstore_race_free.
