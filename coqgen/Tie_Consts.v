(* Tie_Consts.v — the format constants and schema layouts read from /repo's sources
   (Gen_Consts.v, regenerated on every run) are the ones the Coq model uses. *)
From Ucanto Require Import Base Ipld Formats ReceiptFormat MessageFormat FormatSpec Did Sig Crypto.
From UcantoGen Require Gen_Consts.
Open Scope N_scope.

(* IPLD schemas: names, order, optionality and types of every field *)
Lemma tie_token : spec_token = Gen_Consts.sch_ucan_UCAN. Proof. reflexivity. Qed.
Lemma tie_capability : spec_capability = Gen_Consts.sch_ucan_Capability. Proof. reflexivity. Qed.
Lemma tie_payload : spec_payload = Gen_Consts.sch_payload_Payload. Proof. reflexivity. Qed.
Lemma tie_payload_capability : spec_capability = Gen_Consts.sch_payload_Capability. Proof. reflexivity. Qed.
Lemma tie_header : spec_header = Gen_Consts.sch_header_Header. Proof. reflexivity. Qed.
Lemma tie_archive : spec_archive = Gen_Consts.sch_archive_Archive. Proof. reflexivity. Qed.
Lemma tie_message_keys : message_keys = Gen_Consts.sch_message_AgentMessage_keys. Proof. reflexivity. Qed.
Lemma tie_message_data : spec_message_data = Gen_Consts.sch_message_Data. Proof. reflexivity. Qed.
Lemma tie_receipt : spec_receipt = Gen_Consts.sch_receipt_Receipt. Proof. reflexivity. Qed.
Lemma tie_outcome : spec_outcome = Gen_Consts.sch_receipt_Outcome. Proof. reflexivity. Qed.
Lemma tie_effects : spec_effects = Gen_Consts.sch_receipt_Effects. Proof. reflexivity. Qed.
Lemma tie_result : spec_result = Gen_Consts.sch_anyresult_Result. Proof. reflexivity. Qed.
Lemma tie_fact_map : Gen_Consts.sch_ucan_Fact_map = bs "{String:Any}" /\ Gen_Consts.sch_payload_Fact_map = bs "{String:Any}".
Proof. split; reflexivity. Qed.

(* the keys the encoders / decoders of the model use are those names *)
Lemma tie_keys :
  [k_v; k_iss; k_aud; k_s; k_att; k_prf; k_exp; k_fct; k_nnc; k_nbf] = map (fun e => fst (fst e)) Gen_Consts.sch_ucan_UCAN /\
  [k_with; k_can; k_nb] = map (fun e => fst (fst e)) Gen_Consts.sch_ucan_Capability /\
  [k_ocm; k_sig] = map (fun e => fst (fst e)) Gen_Consts.sch_receipt_Receipt /\
  [k_ran; k_out; k_fx; k_meta; k_iss; k_prf] = map (fun e => fst (fst e)) Gen_Consts.sch_receipt_Outcome /\
  [k_fork; k_join] = map (fun e => fst (fst e)) Gen_Consts.sch_receipt_Effects /\
  [k_ok; k_error] = map (fun e => fst (fst e)) Gen_Consts.sch_anyresult_Result /\
  [k_msg7] = Gen_Consts.sch_message_AgentMessage_keys /\
  [k_execute; k_report] = map (fun e => fst (fst e)) Gen_Consts.sch_message_Data /\
  [k_ucan091] = map (fun e => fst (fst e)) Gen_Consts.sch_archive_Archive.
Proof. repeat split; reflexivity. Qed.

(* Go constants: version string, DID prefixes, multicodec tags *)
Lemma tie_version : ucan_version = Gen_Consts.ucan_version. Proof. reflexivity. Qed.
Lemma tie_did :
  pfx_did = Gen_Consts.did_prefix /\ pfx_did_key = Gen_Consts.did_key_prefix /\
  code_didcore = Gen_Consts.did_core_code /\ code_ed = Gen_Consts.did_ed25519_code /\ code_rsa = Gen_Consts.did_rsa_code.
Proof. repeat split; reflexivity. Qed.
Lemma tie_principal_codes :
  pub_code Ed25519 = Gen_Consts.ed_verifier_code /\ pub_code RSA = Gen_Consts.rsa_verifier_code /\
  priv_code Ed25519 = Gen_Consts.ed_signer_code /\ priv_code RSA = Gen_Consts.rsa_signer_code /\
  sig_alg_code Ed25519 = Gen_Consts.sig_EdDSA /\ sig_alg_code RSA = Gen_Consts.sig_RS256 /\
  non_standard = Gen_Consts.sig_NON_STANDARD /\
  (* the verifier tags are the DID tags *)
  Gen_Consts.ed_verifier_code = Gen_Consts.did_ed25519_code /\ Gen_Consts.rsa_verifier_code = Gen_Consts.did_rsa_code.
Proof. repeat split; reflexivity. Qed.
Lemma tie_alg_names :
  Gen_Consts.ed_signature_alg = bs "EdDSA" /\ Gen_Consts.rsa_signature_alg = bs "RS256" /\
  Gen_Consts.car_content_type = bs "application/vnd.ipld.car".
Proof. repeat split; reflexivity. Qed.
