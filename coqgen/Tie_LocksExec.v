(* Tie_LocksExec.v — for C09 (not used by the C17 check): the access table of the
   goroutine literal in server.Execute (Gen_Locks.execute_table: captured variables
   rcpts, rerr; lock = `lock`) obeys the lockset discipline, hence no two workers
   race, for any batch size and schedule.  The parent's accesses before the fan-out
   and after wg.Wait() are ordered with every worker by go / Wait (checked by the
   extractor: a parent access in between is an extraction error). *)
From Ucanto Require Import Base Conc.
From UcantoGen Require Import Gen_Locks.
Open Scope N_scope.

Theorem execute_discipline : discipline_ok execute_table = true.
Proof. vm_compute. reflexivity. Qed.

Theorem execute_race_free :
  forall (progs : nat -> list N) (sched : list label) (s : threads),
    run (init_of execute_table progs) sched s -> ~ race s.
Proof. exact (lockset_sound execute_table eq_refl). Qed.
Print Assumptions execute_race_free.

(* the snapshot's Execute (rerr written outside the lock), as extracted from it *)
Definition execute_table_snapshot : op_table :=
  [(0, [(MNone, [mkAcc 1 true]); (MW, [mkAcc 0 false; mkAcc 0 true])])].
Theorem execute_snapshot_refuted :
  discipline_ok execute_table_snapshot = false /\ ~ race_free execute_table_snapshot.
Proof.
  split; [reflexivity|].
  apply (race_free_refuted execute_table_snapshot [[0]; [0]]
           [(0%nat, AEnter); (1%nat, AEnter); (0%nat, AAt 0); (1%nat, AAt 0)]).
  vm_compute. reflexivity.
Qed.
