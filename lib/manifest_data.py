"""Per-property manifest entries; bin/mkmanifest writes MANIFEST.json from this."""
CLAIMS = {
 "C01": dict(
   text="Coq theorem C01_sound: for every token store, validation context (any can-issue policy, checker, resolvers, parser), capability "
        "descriptor (any readers and derivation rule), fuel and invocation, an authorization returned by the model of validator.Access "
        "satisfies the declarative chain specification (ValidatorSpec.chain_ok/token_ok: invocation and every proof inside its time window "
        "and signed by its stated issuer or authority/session backed; proof cited by and delegated to the citing issuer; ability/resource/"
        "caveats resolved from a capability of the proof and accepted by Derives; chain ends where can_issue holds; checker accepted it); "
        "C01_total / C01_no_chain give 'otherwise Unauthorized'. The model is tied to the code by differential execution of seeded random "
        "worlds (chains of depth 0..5/7 with 13 defect kinds at every position, decoys, multi-capability tokens, wildcards, Ed25519+RSA, "
        "two can-issue policies) through validator.Access: verdict, returned path, sequence of signature verifications, checker and "
        "Derives argument logs must all equal the model's; ResolveAbility/ResolveResource/DefaultDerives/IsExpired/IsTooEarly are "
        "additionally re-translated from the source and proved equal to the model.",
   note="Symbolic signatures (the harness states which key signed each token's current fields; unforgeability of Ed25519/RSA assumed), "
        "CIDs as identities (SHA-256 collision freedom), hypothesis Hres (the caller's proof resolver returns the delegation asked for), "
        "model starts at decoded tokens (bytes: C07/C12/C13). Requires the fix commits listed in KNOWN_FINDINGS.txt. No axioms.",
   technique="Coq proof (refinement: Access sound w.r.t. inductive chain specification, all worlds) + differential correspondence on seeded random delegation DAGs + translation ties",
   ref="5/C01"),
 "C16": dict(
   text="Coq theorems (all strings, unbounded) characterise ResolveAbility / ResolveResource / DefaultDerives exactly as the property "
        "states (iff, plus range lemmas); the functions are re-translated from validator/capability.go to Gallina on every run and "
        "proved equal to the model (Tie_Pattern.v, including absence of slice panics), and independently compared with the "
        "implementation on every pair of strings over {a,b,A,/,*,:} up to length 3 (quick) / 4 (thorough) plus random realistic pairs.",
   note="Trusted: Coq kernel; Go strings as byte sequences; the translator verif-extract (tiny pure subset) or, when it cannot "
        "translate a rewritten function, the exhaustive correspondence; harness observation. No axioms (Closed under the global context).",
   technique="Coq proof (iff characterisation, all strings) + Go->Gallina translation tie + exhaustive differential correspondence",
   ref="5/C16"),
 "C20": dict(
   text="Coq theorems (all header byte strings, all bodies, any Execute) give the decision table of server.Handle: content type not the "
        "CAR type -> 415, Accept not admitting the CAR type or */* -> 406, undecodable body -> 400, each with an empty handler-call log; "
        "acceptable and decodable -> 200 with the CAR content type; handler calls occur only for acceptable, decodable requests and are "
        "exactly Execute's; 'admits' is characterised for all strings (iff: absent/empty, or some comma separated element is, whitespace "
        "and ;parameters aside, the CAR type or */*), with uniqueness of the list splitting; client channel: non-200 -> HTTPError with that "
        "status, response only for 200. carInbound.Accept and its helper are re-translated to Gallina on every run and proved equal to the "
        "model (Tie_Accept2), and the whole of Handle is compared with the model on a 10 x 22 x 10 header/body product plus a seeded random "
        "header grammar (600 quick / 20 000 thorough) through server.Request with call-counting service methods; the HTTP channel is swept "
        "over statuses 101, 200..599, 600, 700, 999.",
   note="Media types compared byte for byte (no case folding), parameters incl. q ignored, Content-Type with parameters is 415 (as the code). "
        "Requires fix C20_accept (pinned tree: lists with */* answered 406, substring near-misses accepted, first Accept line only). "
        "Trusted: Coq kernel; Go string primitives and http.Header.Get/Values as modelled; body classes as constructed by the harness "
        "(cross-checked with request.Decode); Execute is a parameter; translator verif-extract or, when it cannot translate, the correspondence. "
        "No axioms (Closed under the global context).",
   technique="Coq proof (decision table + iff characterisation, all strings) + Go->Gallina translation tie + differential correspondence (product + random grammar + client status sweep)",
   ref="5/C20"),
 "C17": dict(
   text="Coq: lockset theorem (Conc.v) — any access table in which every write happens under the write lock and every read under "
        "the read or write lock has no reachable data race for any number of goroutines, programs and schedules — instantiated with "
        "the lock/access table of blockstore.Put/Get/Iterator (including the returned iterator closure) that is re-extracted from "
        "blockstore.go on every run (Tie_Locks.v fails to compile when the discipline is broken). Blockstore.v proves, for an "
        "access-by-access model of the code under the RW lock, that every concurrent execution is linearizable: results and final "
        "store are those of one sequential run of a merge of the goroutines' operations, for which NoDup keys / every put block "
        "retrievable / first put wins / iteration order = first-put order are proved. A -race build runs seeded histories "
        "(2/4/8 goroutines x GOMAXPROCS 1/2/4/16; Put incl. duplicates, Get, Iterator during Puts, delegation.Attach + Blocks); "
        "race reports and runtime faults are violations and every finished history is judged in coqc by a checker proved sound "
        "for the linearizability spec. PARTIAL: the theorems are about the lock protocol in a sequentially consistent interleaving "
        "semantics; the Go memory model is not formalised, and the race-detector runs are a search, not a proof.",
   note="Trusted: Coq kernel; sync.RWMutex implements the reader/writer contract; the go/ast lock/access extractor (closed list of "
        "forms, anything else is an error); interleaving semantics instead of the Go memory model; completeness of the greedy "
        "linearization search is argued, not proved (its answers are validated). No axioms. The pinned Put (map write under RLock) "
        "and the iterator closure reading after the unlock are refuted in Coq and reproduced by the race detector; fix: fixes/C17_locks.diff.",
   technique="Coq proof (lockset invariant, linearizability by refinement) + lock-table extraction tie + race-detector history search judged by a verified checker",
   ref="5/C17"),
 "C02": dict(
   text="Coq: C02_inherit_field characterises, field by field, the caveats shown to the derivation rule as 'delegated' (a field the delegation sets keeps its value, an unset field is inherited from the claim); C02_enforced: for every world/context/descriptor (any reader, any rule), at EVERY step of every authorization Access returns the rule accepted the claim against the capability whose caveats are read from inherit(claim, caveats written in the proof); C02_attest_bound: a re-delegated ucan/attest is bound by its parent's proof caveat. Tie: the exhaustive depth x level x field x {omits,matches,contradicts} x restatement product (264 worlds) + malformed caveat kinds + attestation re-delegation variants run through validator.Access with a recording Derives function; verdict, path and the Derives argument log must equal the model's.",
   note="Symbolic signatures (unforgeability of Ed25519/RSA assumed; the harness states which key signed each token's current fields), CIDs as identities (SHA-256 collision freedom), hypothesis Hres (the proof resolver returns the delegation asked for), model starts at decoded tokens, caller-supplied functions are mirrored Go/Gallina pairs. Requires the fix commits listed in KNOWN_FINDINGS.txt. No axioms (Closed under the global context).",
   technique='Coq proof (invariant on every derivation step of every returned chain, all worlds) + exhaustive differential correspondence incl. Derives-argument log',
   ref='5/C02'),
 "C03": dict(
   text='Coq: IsExpired/IsTooEarly characterised (expired iff exp <= now; too early iff nbf set and now <= nbf; no expiration never expires; strictly inside is never rejected) and re-translated from ucan/lib.go on every run (Tie_Time); C03_validate_window: no token passes Validate outside its window; C03_path_window / C03_session_window: the invocation, the proof at every step of every returned authorization and the attestation at the root of every session authorization are inside their windows, for all worlds. Tie: position(8) x expiration(6) x not-before(6) = 288 worlds built relative to the exact wall-clock second at which Access runs (retried if the second changes), compared with the model at now = that second.',
   note="Symbolic signatures (unforgeability of Ed25519/RSA assumed; the harness states which key signed each token's current fields), CIDs as identities (SHA-256 collision freedom), hypothesis Hres (the proof resolver returns the delegation asked for), model starts at decoded tokens, caller-supplied functions are mirrored Go/Gallina pairs. Requires the fix commits listed in KNOWN_FINDINGS.txt. No axioms (Closed under the global context). Wall clock sampled before and after each call; cases that straddle a second are retried.",
   technique='Coq proof (laws + window invariant over all chains) + Go->Gallina translation tie + exhaustive boundary-second correspondence',
   ref='5/C03'),
 "C04": dict(
   text="Coq: C04_nonkey: a token whose issuer is neither did:key nor the authority passes Validate only through (a) a session authorization satisfying the chain specification for ucan/attest on the authority's DID with proof = exactly that token, searched among its sibling proofs other than itself, or (b) a failed session search without failed proofs plus a key resolver result whose did:key verifier accepts the signature; C04_attestation_shape / C04_other_rejected / C04_redelegated_bound / C04_escalation give the negative clauses (other token, other resource, other ability, parent proof caveat, broken chain => SessionEscalation even with a resolvable key). Tie: the full 864-world product named by the property through validator.Access vs the model.",
   note="Symbolic signatures (unforgeability of Ed25519/RSA assumed; the harness states which key signed each token's current fields), CIDs as identities (SHA-256 collision freedom), hypothesis Hres (the proof resolver returns the delegation asked for), model starts at decoded tokens, caller-supplied functions are mirrored Go/Gallina pairs. Requires the fix commits listed in KNOWN_FINDINGS.txt. No axioms (Closed under the global context).",
   technique='Coq proof (refinement of Validate to the (a)/(b) disjunction + negative lemmas, all worlds) + exhaustive 864-case differential correspondence',
   ref='5/C04'),
 "C05": dict(
   text="Coq: C05_checked: Access returns an authorization only after the checker was consulted on that same authorization (trace event) and accepted it — self-issued and delegated branches; C05_exposes: the authorization is a path exposing every delegation from invocation to root; C05_guarantee: a checker rejecting every authorization that contains a revoked delegation guarantees none is returned; C05_reported: a rejected candidate is reported in the Unauthorized error. Tie: depth x revoked position x second chain x caveat shape worlds with a recording checker; the sequence of authorizations handed to the checker (links + capabilities along Proofs(), after ConvertUnknownAuthorization), its verdicts, the final verdict and the revocation report must equal the model's.",
   note="Symbolic signatures (unforgeability of Ed25519/RSA assumed; the harness states which key signed each token's current fields), CIDs as identities (SHA-256 collision freedom), hypothesis Hres (the proof resolver returns the delegation asked for), model starts at decoded tokens, caller-supplied functions are mirrored Go/Gallina pairs. Requires the fix commits listed in KNOWN_FINDINGS.txt. No axioms (Closed under the global context).",
   technique='Coq proof (trace invariant: checker consulted on the returned authorization; guarantee lemma) + differential correspondence incl. checker-argument log',
   ref='5/C05'),
 "C06": dict(
   text="Coq: C06_complete / C06_authorize_complete: when a chain exists among the validated sources (membership-based, order-free inductive 'derivable'/'claimable') and nothing is revoked, Access never answers with an error; C06_authorized_iff_derivable (converse), C06_select_all (every capability of every source is considered), C06_order_irrelevant (permuting candidates does not change failure), C06_returned_chain_valid (= C01). Tie: random worlds with decoys, duplicates, dangling links, multi-capability tokens, each also under random permutations of every proof and capability list and with inline proofs moved to the resolver: every world compared with the model, and all permutations of a base world must get the same verdict from the implementation.",
   note="Symbolic signatures (unforgeability of Ed25519/RSA assumed; the harness states which key signed each token's current fields), CIDs as identities (SHA-256 collision freedom), hypothesis Hres (the proof resolver returns the delegation asked for), model starts at decoded tokens, caller-supplied functions are mirrored Go/Gallina pairs. Requires the fix commits listed in KNOWN_FINDINGS.txt. No axioms (Closed under the global context). Completeness is stated modulo fuel exhaustion (never met in the runs); permutation invariance across sessions is covered by the differential oracle, the theorem covers one search level for arbitrary recursive results.",
   technique='Coq proof (search completeness w.r.t. an order-free inductive spec, permutation lemma) + differential correspondence under permutations + metamorphic verdict oracle',
   ref='5/C06'),
 "C19": dict(
   text="Coq: the full statement (verifications <= n^2+2 for n distinct delegations, every DAG shape) is REFUTED of the faithful model: C19_refuted with the witness layered DAG width 3 depth 5 (16 delegations, 364 verifications, vm_compute), growth table 4,13,40,121,364; C19_chains_linear_partial (finite instances). Tie: chains, trees and layered DAGs with succeeding/failing roots through validator.Access with a counting verifier: the number and order of Verify calls must EQUAL the model's (so the exponential count is the implementation's), and every shape is compared with the bound; layered DAGs with failing roots are the recorded KNOWN-FINDING, any other shape exceeding the bound is a violation.",
   note="Symbolic signatures (unforgeability of Ed25519/RSA assumed; the harness states which key signed each token's current fields), CIDs as identities (SHA-256 collision freedom), hypothesis Hres (the proof resolver returns the delegation asked for), model starts at decoded tokens, caller-supplied functions are mirrored Go/Gallina pairs. Requires the fix commits listed in KNOWN_FINDINGS.txt. No axioms (Closed under the global context). Known finding key layered-dag (KNOWN_FINDINGS.txt): not repaired because memoisation would have to thread a per-Access cache through exported functions.",
   technique='Coq refutation by witness (vm_compute) + exact verification-count correspondence + bound oracle with known-finding key',
   ref='5/C19'),
 "C14": dict(
   text="Coq theorems: signature framing round trip/injectivity/totality; did Decode/Parse/String/Bytes round trips for every "
        "DID the library can return (all strings, any bytes) and injectivity of String; Encode/Decode and Format/Parse round "
        "trips of Ed25519 and RSA signers/verifiers on the exact tag/length checks; signer, verifier and DID-parsed verifier "
        "agree; Wrap changes only the DID; Verify accepts iff the frame carries the verifier's own algorithm code and its own "
        "key's signature of exactly that message (never another key, algorithm or message). Model compared on every run with "
        "real keys: all (verifier, key, message) triples, code substitutions, mutated frames and encodings, a DID grammar, "
        "arbitrary signature bytes.",
   note="Partial: unforgeability/uniqueness of Ed25519 and RSA PKCS#1 v1.5 signatures is a symbolic (Dolev-Yao) Section "
        "hypothesis; base58/multibase/x509 are oracles with round-trip laws checked dynamically. No axioms. Requires "
        "fixes/C14_did_key_alias.diff (did:key alias: a parsed DID whose String() re-parses to an error/another DID).",
   technique="Coq proof (byte-level framings + symbolic crypto) + differential correspondence with real Ed25519/RSA keys",
   ref="5/C14"),
 "C08": dict(
   text="Coq (Server.v on top of the validator model): C08_iff — for every store, server (any context, any handlers) and invocation the handler call log of Run is empty or one call of the handler registered for the invocation's single ability, and non-empty iff the validator authorizes; C08_once (<= 1 call), C08_args (the call carries the invocation's ability, resource and the caveats read by the handler's descriptor), C08_unauthorized (no call, receipt error Unauthorized), C08_cap_count (0 or several capabilities -> InvocationCapabilityError, no call), C08_not_found, C08_batch_once (at most one call per distinct invocation of a request). Tie: seeded random batches (chains with defects, decoys, RSA, revocation, resolver proofs, 0/2-capability invocations, duplicate listings, handlers returning value / value+effects / error / unregistered) through server.NewServer + client.Execute with recording handlers: per-invocation receipt class, ran, issuer, number of receipts and the multiset of handler calls must equal the model's.",
   note='Validator-model assumptions (symbolic signatures, CIDs as identities, Hres, mirrored caller-supplied functions). Receipt classes are read from the transported receipt block by the harness. Requires the fix commits in KNOWN_FINDINGS.txt (struct field order of InvocationCapabilityError; de-duplication of the execute list). No axioms.',
   technique='Coq proof (iff / at-most-once / exact-argument theorems over all servers and invocations) + differential correspondence through the real server with recording handlers',
   ref='5/C08'),
 "C09": dict(
   text="Coq: C09_one_each — for every batch, outcome mix and EVERY order in which the per-invocation goroutines append their receipts (any permutation) the report maps each distinct invocation link to the receipt of exactly that invocation, issued by the server and produced by Run of that invocation, nothing else, distinct keys, as many entries as distinct invocations; C09_schedule_independent (the response as a map does not depend on the interleaving); race freedom: lockset theorem (any table obeying the discipline has no reachable race for any number of workers and schedules) instantiated in coqgen/Tie_LocksExec.v with the access table RE-EXTRACTED from server.Execute's goroutine literal on every run. Search/tie: batches of 0..64 with mixed outcomes, schedule-perturbing handlers, GOMAXPROCS 1/2/4/16, in-process and loopback HTTP, concurrent requests to one server, all under the race detector; per invocation Get(link), ran, issuer, class, counts compared with the model. PARTIAL for 'free of data races': lock discipline in an interleaving semantics; the Go memory model is not formalised and the race-detector runs are a search.",
   note='As C08, plus: sync.RWMutex/WaitGroup as an abstract lock/join; the go/ast lock/access extractor; requests are independent because Handle only reads server state (exercised by concurrent requests, not proved from the source). Requires fix commits (rerr under the lock, de-duplication, struct field order). No axioms.',
   technique='Coq proof (all permutations of receipt order; lockset invariant) + lock-table extraction tie + race-detector batch search compared with the model',
   ref='5/C09'),
 "C12": dict(
   text="Coq theorems over ALL byte strings / archives, with a symbolic (universally quantified) hash: car.Decode delivers a block only "
        "if its CID is Prefix().Sum of the delivered bytes (C12_integrity, every input); decode(encode) returns the roots and exactly "
        "the blocks (C12_roundtrip: any sizes, duplicates, empty data, CIDv0/v1, any multihash); every cut strictly inside a section "
        "yields the earlier blocks and then an error, a cut in the header a header error (C12_truncate*); replaced block data is an "
        "error at that section unless it is a second preimage (C12_corrupt*: identity blocks unconditionally); version <> 1 is refused "
        "(C12_header*). The model (LdRead/ReadNode/CidFromReader/Prefix.Sum/header dag-cbor, iterator continuing after errors) is "
        "compared on every run with car.Encode byte for byte and with car.Decode on every truncation point, single-byte flips, "
        "section splices, zero-length / over-long / non-minimal length prefixes, trailing garbage and header variants of random "
        "archives and real request messages (10k decodes quick, 70-80k thorough), plus request/response.Decode message-vs-error.",
   note="Targets the tree with fixes/C12_eof.diff (pinned tree: io.EOF inside a section ends the iteration silently -- reported as "
        "VIOLATION key=eof-inside-section; C12_truncate_pinned_refuted). Trusted: Coq kernel; go-car/go-cid/go-multihash/encoding-binary "
        "behaviour as modelled from source and validated by the correspondence; refmt on non-canonical header CBOR is an oracle; hash "
        "collision-freedom is NOT assumed except in C12_corrupt_hashed (one pair); harness and reference walk. No axioms.",
   technique="Coq proof (round trip, integrity for all inputs, truncation, corruption, header) + exhaustive-position differential correspondence",
   ref="5/C12"),
 "C11": dict(
   text="Coq: C11_terminates — on a content-addressed (acyclic) token store whose tokens cite at most K proofs, with fuel need K (rank inv) + 1 the model of validator.Access never answers 'out of fuel', for EVERY token content, descriptor and context: the Claim/Validate/VerifySession/Claim and Authorize/Authorize recursion is bounded (the proof uses the exclusion of the token under verification from its own candidate attestations, i.e. the repaired code; the pinned recursion diverged); C11_run_total / C11_execute_total (every invocation gets a receipt, a batch yields a report or an error value), C11_receipts_kept (a produced response contains the receipt of every invocation of the request, for any completion order), C11_signature_total and C11_did_string_total (signature.Size/Raw and DID.String are total on all byte strings / DID values). Tie/search: requests run one at a time in a CHILD PROCESS (a panic in an un-recovered goroutine or a stack overflow is seen as the death of the child for that request): 7 positions x 33 field alterations, random pairs, nested/mutually attesting sessions with non-key issuers, a validly signed token with undefined issuer — the receipt class of every invocation must equal the model's — plus raw mutations of a valid CAR body (crash observation only). PARTIAL: theorems start at decoded blocks; third-party byte parsers and resource exhaustion are outside the model.",
   note='Model starts at decoded tokens; CAR/CBOR/CID parsing by third-party code is only exercised (raw stream). Acyclicity of the proof graph = SHA-256 collision freedom. Validator/server model assumptions as for C01/C08. Requires the C11 fix commits (DID.String guard, signature bounds, empty capability list, self-attestation exclusion, InvocationCapabilityError struct). No axioms.',
   technique='Coq proof (termination measure for the validator recursion; totality of the partial byte operations) + child-process crash observation on field-alteration product and raw mutations, receipt classes compared with the model',
   ref='5/C11'),
 "C15": dict(
   text="Coq (Client.v): C15_execute_total / C15_non_200 (executing through a connection yields an error value or a response; any non-200 status an error), C15_get_total / C15_receipts_total (every lookup on a response returns a value for ANY report — absent, empty, foreign-keyed — and any link), C15_empty (a response without report answers 'not found'), C15_get_some, C15_pinned_refuted (the pinned nil-report dereference, witness the empty-batch reply), C15_signature_total. Tie/search: a scripted channel answers client.Execute with crafted replies (report absent/empty/foreign; every subset of receipt and invocation blocks missing; receipts with boundary fields incl. result with neither ok nor error and dangling ran/proof/fork/join links; non-message roots; statuses 100..999; raw byte mutations): client.Execute, Get, block iteration, NewReceipt, ReceiptReader.Read and ALL receipt accessors run under recover — any panic is a violation — and the error-vs-response outcome and Get results of the structured replies must equal the model's. PARTIAL: the model starts at decoded blocks; receipt reading itself is only exercised, not modelled.",
   note='Model starts at decoded blocks (construction knowledge of the harness); third-party CAR/CBOR parsing of arbitrary bytes only exercised (raw stream). Requires fix commits: nil-report guard in message.Get/Receipts, nil-ran guard in receipt.Blocks, rejection of results with neither ok nor error. No axioms.',
   technique='Coq proof (totality of the response lookups over all reports and links; refutation of the pinned lookup) + recover-instrumented client runs over crafted and raw replies compared with the model',
   ref='5/C15'),
 "C07": dict(
   text='Coq (Formats.v, Signing.v over the DAG-CBOR model Cbor.v): C07_issue_verifies — every token issued with ANY combination of expiration / none, not-before, nonce, facts, proofs, capabilities and caveat values, by any key, verifies against its issuer (the verification payload is rebuilt from the same fields, nonce and not-before included; C07_pinned_refuted shows the pinned payload failed); C07_transport_bytes (decode(encode t) = t with caveats/facts in canonical order, byte-level through the proved CBOR round trip) and C07_transport_verifies (still verifies); C07_tamper (a token carrying the same signature that verifies has the same issuer, signing payload and header), C07_payload_determines_fields (the payload determines issuer, audience, every capability and caveat, proofs, expiration, facts, nonce, not-before), C07_bytes_determine_token, C07_other_principal. Tie: tokens issued through delegation.Delegate with all 64 option subsets x Ed25519/RSA/wrapped issuers x random caveat and fact values over all IPLD kinds: root block bytes must equal Formats.token_bytes and decode back; ucan.VerifySignature must accept fresh and re-decoded tokens and reject each of 18 single-field alterations and every other principal.',
   note="Symbolic signatures (valid_sign, valid_unique: Ed25519 / RSA deterministic and unforgeable); dag-json + base64url payload formatting is an injective oracle (json_inj, json_canon, join_inj are Section hypotheses, exercised through VerifySignature but not modelled byte for byte); DID/CID strings injective (C14); go-ipld-prime dag-cbor as Cbor.v (checked). Top-level null caveats and integers above int64 are outside the generator (cannot be issued / re-read; not in the property's kinds). Requires fix 17420c3. No axioms.",
   technique='Coq proof (issue/verify law, byte-level round trip, payload injectivity => tamper detection; symbolic crypto) + byte-for-byte layout correspondence + behavioural oracle over all option subsets and single-field alterations',
   ref='5/C07'),
 "C10": dict(
   text="Coq (ReceiptFormat.v over Cbor.v): C10_sig — every issued receipt carries its issuer's signature over the DAG-CBOR encoding of its outcome; C10_transport / C10_readback — decoding the transported root block gives back every field (result value, ran, fork, join, metadata, issuer, proofs, signature; maps in canonical order); C10_reencode + C10_verifies_after_transport — the decoded outcome re-encodes to exactly the signed bytes whatever the insertion order of metadata / result maps, so the signature still verifies; C10_tamper / C10_outcome_bytes_inj — a receipt with the same signature that verifies has the same outcome (all fields). Tie: receipts over ok/error results of all IPLD kinds, 0..3 forks (links / embedded invocations), join, 0..4 metadata keys, 0..2 proofs, embedded / bare ran, Ed25519 / RSA / wrapped signers, each passed through message.Build + the response codec: root block and outcome bytes must equal the model's; the harness verifies the signature over cbor(decoded outcome) of the transported block, after 12 alterations and for other principals; readers must return what was issued.",
   note='Symbolic signatures (valid_sign, valid_unique); go-ipld-prime dag-cbor as Cbor.v (checked by bin/check CBOR and here). Requires fix commits d57f1f1 (any-result schema: error results unreadable), 9e7634b (embedded effects dropped in transport), fe311cc / d14015e (bare ran). No axioms.',
   technique='Coq proof (sign/verify law, byte-level round trip and re-encoding identity, injectivity => tamper detection) + byte-for-byte layout correspondence + behavioural oracle through the real codecs',
   ref='5/C10'),
}
