"""Per-property manifest entries; bin/mkmanifest writes MANIFEST.json from this."""
CLAIMS = {
 "C16": dict(
   text="Coq theorems (all strings, unbounded) characterise ResolveAbility / ResolveResource / DefaultDerives exactly as the property "
        "states (iff, plus range lemmas); the functions are re-translated from validator/capability.go to Gallina on every run and "
        "proved equal to the model (Tie_Pattern.v, including absence of slice panics), and independently compared with the "
        "implementation on every pair of strings over {a,b,A,/,*,:} up to length 3 (quick) / 4 (thorough) plus random realistic pairs.",
   note="Trusted: Coq kernel; Go strings as byte sequences; the translator verif-extract (tiny pure subset) or, when it cannot "
        "translate a rewritten function, the exhaustive correspondence; harness observation. No axioms (Closed under the global context).",
   technique="Coq proof (iff characterisation, all strings) + Go->Gallina translation tie + exhaustive differential correspondence",
   ref="5/C16"),
}
