"""Per-property manifest entries; bin/mkmanifest writes MANIFEST.json from this."""
CLAIMS = {
 "C01": dict(
   text="Coq theorem C01_sound: for every token store, validation context (any can-issue policy, checker, resolvers, parser), capability "
        "descriptor (any readers and derivation rule), fuel and invocation, an authorization returned by the model of validator.Access "
        "satisfies the declarative chain specification (ValidatorSpec.chain_ok/token_ok: invocation and every proof inside its time window "
        "and signed by its stated issuer or authority/session backed; proof cited by and delegated to the citing issuer; ability/resource/"
        "caveats resolved from a capability of the proof and accepted by Derives; chain ends where can_issue holds; checker accepted it); "
        "C01_total / C01_no_chain give 'otherwise Unauthorized'. The model is tied to the code by differential execution of seeded random "
        "worlds (chains of depth 0..5/7 with 13 defect kinds at every position, decoys, multi-capability tokens, wildcards, Ed25519+RSA, "
        "two can-issue policies) through validator.Access: verdict, returned path, sequence of signature verifications, checker and "
        "Derives argument logs must all equal the model's; ResolveAbility/ResolveResource/DefaultDerives/IsExpired/IsTooEarly are "
        "additionally re-translated from the source and proved equal to the model.",
   note="Symbolic signatures (the harness states which key signed each token's current fields; unforgeability of Ed25519/RSA assumed), "
        "CIDs as identities (SHA-256 collision freedom), hypothesis Hres (the caller's proof resolver returns the delegation asked for), "
        "model starts at decoded tokens (bytes: C07/C12/C13). Requires the fix commits listed in KNOWN_FINDINGS.txt. No axioms.",
   technique="Coq proof (refinement: Access sound w.r.t. inductive chain specification, all worlds) + differential correspondence on seeded random delegation DAGs + translation ties",
   ref="5/C01"),
 "C16": dict(
   text="Coq theorems (all strings, unbounded) characterise ResolveAbility / ResolveResource / DefaultDerives exactly as the property "
        "states (iff, plus range lemmas); the functions are re-translated from validator/capability.go to Gallina on every run and "
        "proved equal to the model (Tie_Pattern.v, including absence of slice panics), and independently compared with the "
        "implementation on every pair of strings over {a,b,A,/,*,:} up to length 3 (quick) / 4 (thorough) plus random realistic pairs.",
   note="Trusted: Coq kernel; Go strings as byte sequences; the translator verif-extract (tiny pure subset) or, when it cannot "
        "translate a rewritten function, the exhaustive correspondence; harness observation. No axioms (Closed under the global context).",
   technique="Coq proof (iff characterisation, all strings) + Go->Gallina translation tie + exhaustive differential correspondence",
   ref="5/C16"),
 "C20": dict(
   text="Coq theorems (all header byte strings, all bodies, any Execute) give the decision table of server.Handle: content type not the "
        "CAR type -> 415, Accept not admitting the CAR type or */* -> 406, undecodable body -> 400, each with an empty handler-call log; "
        "acceptable and decodable -> 200 with the CAR content type; handler calls occur only for acceptable, decodable requests and are "
        "exactly Execute's; 'admits' is characterised for all strings (iff: absent/empty, or some comma separated element is, whitespace "
        "and ;parameters aside, the CAR type or */*), with uniqueness of the list splitting; client channel: non-200 -> HTTPError with that "
        "status, response only for 200. carInbound.Accept and its helper are re-translated to Gallina on every run and proved equal to the "
        "model (Tie_Accept2), and the whole of Handle is compared with the model on a 10 x 22 x 10 header/body product plus a seeded random "
        "header grammar (600 quick / 20 000 thorough) through server.Request with call-counting service methods; the HTTP channel is swept "
        "over statuses 101, 200..599, 600, 700, 999.",
   note="Media types compared byte for byte (no case folding), parameters incl. q ignored, Content-Type with parameters is 415 (as the code). "
        "Requires fix C20_accept (pinned tree: lists with */* answered 406, substring near-misses accepted, first Accept line only). "
        "Trusted: Coq kernel; Go string primitives and http.Header.Get/Values as modelled; body classes as constructed by the harness "
        "(cross-checked with request.Decode); Execute is a parameter; translator verif-extract or, when it cannot translate, the correspondence. "
        "No axioms (Closed under the global context).",
   technique="Coq proof (decision table + iff characterisation, all strings) + Go->Gallina translation tie + differential correspondence (product + random grammar + client status sweep)",
   ref="5/C20"),
 "C17": dict(
   text="Coq: lockset theorem (Conc.v) — any access table in which every write happens under the write lock and every read under "
        "the read or write lock has no reachable data race for any number of goroutines, programs and schedules — instantiated with "
        "the lock/access table of blockstore.Put/Get/Iterator (including the returned iterator closure) that is re-extracted from "
        "blockstore.go on every run (Tie_Locks.v fails to compile when the discipline is broken). Blockstore.v proves, for an "
        "access-by-access model of the code under the RW lock, that every concurrent execution is linearizable: results and final "
        "store are those of one sequential run of a merge of the goroutines' operations, for which NoDup keys / every put block "
        "retrievable / first put wins / iteration order = first-put order are proved. A -race build runs seeded histories "
        "(2/4/8 goroutines x GOMAXPROCS 1/2/4/16; Put incl. duplicates, Get, Iterator during Puts, delegation.Attach + Blocks); "
        "race reports and runtime faults are violations and every finished history is judged in coqc by a checker proved sound "
        "for the linearizability spec. PARTIAL: the theorems are about the lock protocol in a sequentially consistent interleaving "
        "semantics; the Go memory model is not formalised, and the race-detector runs are a search, not a proof.",
   note="Trusted: Coq kernel; sync.RWMutex implements the reader/writer contract; the go/ast lock/access extractor (closed list of "
        "forms, anything else is an error); interleaving semantics instead of the Go memory model; completeness of the greedy "
        "linearization search is argued, not proved (its answers are validated). No axioms. The pinned Put (map write under RLock) "
        "and the iterator closure reading after the unlock are refuted in Coq and reproduced by the race detector; fix: fixes/C17_locks.diff.",
   technique="Coq proof (lockset invariant, linearizability by refinement) + lock-table extraction tie + race-detector history search judged by a verified checker",
   ref="5/C17"),
}
