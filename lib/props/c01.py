"""C01 — authorization requires a complete valid chain (soundness of validator.Access)."""
import vlib
from props import _worlds


def check(run):
    env = vlib.standard_prelude(run)
    if not env["harness_ok"]:
        run.violation("harness-build", "harness does not build against /repo", dict(), no_input=True)
        return
    stats = _worlds.run(run, env, "C01")
    if stats is None:
        return
    _worlds.fill_cov(run, stats,
        "seeded random worlds: delegation chain of depth 0..5 (7 thorough) from a resource owner to the invoker, Ed25519 and RSA issuers, "
        "exact / ns/* / * abilities, exact / ucan:* resources, multi-capability tokens, 0..2 defects (forged signature, field altered "
        "after signing, misaligned audience, foreign resource, other / near-miss ability, non-owner root, expired, not yet valid, "
        "missing proof block) at random positions, decoy proofs, inline vs resolver-supplied proofs, self-issued vs owner-table "
        "can-issue policies; each run through validator.Access and through the Coq model (verdict, path, verifications, checker and "
        "Derives logs compared)")
    run.assumptions += [
        "symbolic signatures: the harness tells the model which key produced each token's signature over its current fields (construction knowledge, not an observation of the implementation)",
        "links are numbered CIDs: SHA-256 collision freedom",
        "Hres: the proof resolver returns the delegation whose link was asked for",
        "caller-supplied functions (can-issue, checker, resolvers, parser, capability readers and Derives) are the mirrored Go/Gallina pairs of harness/world.go and coq/Check_Validator.v"]


def replay(path):
    return _worlds.replay("C01", path)
