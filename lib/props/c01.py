"""C01 — authorization requires a complete valid chain (soundness of validator.Access)."""
import vlib
from props import _worlds


def check(run):
    env = vlib.standard_prelude(run)
    if not env["harness_ok"]:
        run.violation("harness-build", "harness does not build against /repo", dict(), no_input=True)
        return
    stats = _worlds.run(run, env, "C01")
    if stats is None:
        return
    _worlds.fill_cov(run, stats,
        "seeded random worlds: delegation chain of depth 0..5 (7 thorough) from a resource owner to the invoker, Ed25519 and RSA issuers, "
        "exact / ns/* / * abilities, exact / ucan:* resources, multi-capability tokens, 0..2 defects (forged signature, field altered "
        "after signing, misaligned audience, foreign resource, other / near-miss ability, non-owner root, expired, not yet valid, "
        "missing proof block) at random positions, decoy proofs, inline vs resolver-supplied proofs, self-issued vs owner-table "
        "can-issue policies; each run through validator.Access and through the Coq model (verdict, path, verifications, checker and "
        "Derives logs compared)")
    run.assumptions += [
        "symbolic signatures: which key produced each token's signature over its current fields is rendered by the harness and CHECKED by the token-view obligation against what ucan.VerifySignature was observed to accept for every key of the cast (unforgeability itself is assumed)",
        "every field of every token the model is given (issuer, audience, capabilities, caveats, proofs, exp, nbf, signature code) is checked to be view_block(token_decode_typed(root block bytes)) — TokenBytes.v / TokenView.v; floats are outside the Coq data model",
        "links are numbered CIDs: SHA-256 collision freedom; the numbering of each world is checked to be an injective function of the CID bytes",
        "Hres: the proof resolver returns the delegation whose link was asked for",
        "caller-supplied functions (can-issue, checker, resolvers, parser, capability readers and Derives) are the mirrored Go/Gallina pairs of harness/world.go and coq/Check_Validator.v"]


def replay(path):
    return _worlds.replay("C01", path)
