"""Byte-level model of request.Decode / response.Decode + message.NewMessage (coq/MessageBytes.v,
coq/Check_Bytes.v): evaluation of the case files written by harness/cmd/harness/gen_bytes.go.
Shared by C15 (reply bodies through client.Execute and request.Decode), C20 (bodies through
server.Request: 400 exactly when undecodable) and C11 (statuses of the raw request stream)."""
import glob, json, os
import vlib

CLASSES = ["message", "car-header-error", "section-error (cut / oversized / CID unreadable / bytes do not match the CID)",
           "no-roots", "root-block-missing", "root-block-not-an-agent-message (dag-cbor or schema)",
           "root-link-not-dag-cbor-sha256-of-the-bytes", "non-200-status"]
SHORT = ["message", "header", "section", "no-roots", "root-missing", "not-a-message", "root-integrity", "non-200"]

SIDE = {1: "the implementation returned a message and the model says error",
        2: "the implementation returned an error and the model says message",
        3: "root link differs", 4: "Invocations() differ", 5: "Receipts() differ",
        6: "Get(link) results differ", 7: "Blocks() differ (block table: first occurrence wins, order)",
        8: "a receipt named by the report reads differently through receipt.NewReceipt than ReceiptBytes.read_receipt says "
           "(error vs receipt, ran, ok/error side, signature bytes, issuer, fork, join, proofs)"}
RCLASS = ["receipt", "root-block-missing", "not-a-receipt (dag-cbor or schema)", "link-not-dag-cbor-sha256-of-the-bytes",
          "result-has-neither-side", "repeated-struct-key (outside the modelled domain, skipped)"]
HANDLE = {1: "server.Request did not answer 400 (or ran a handler) although the model says the body is undecodable",
          2: "server.Request answered 400 although the model decodes the body to a message"}


def _what(code):
    """code = 100 * handle + 10 * request side + response side -> (key suffix, description)"""
    h, rq, rs = code // 100, (code // 10) % 10, code % 10
    parts, keys = [], []
    if rs:
        parts.append("client.Execute / response.Decode: " + SIDE.get(rs, str(rs)))
        keys.append("response-" + {1: "accepted", 2: "refused", 3: "root", 4: "invocations", 5: "receipts", 6: "get", 7: "blocks", 8: "receipt-read"}.get(rs, str(rs)))
    if rq:
        parts.append("request.Decode: " + SIDE.get(rq, str(rq)))
        keys.append("request-" + {1: "accepted", 2: "refused", 3: "root", 4: "invocations", 5: "receipts", 6: "get", 7: "blocks", 8: "receipt-read"}.get(rq, str(rq)))
    if h:
        parts.append(HANDLE.get(h, str(h)))
        keys.append("handle-" + {1: "undecodable-not-400", 2: "decodable-400"}.get(h, str(h)))
    return "+".join(keys), "; ".join(parts)


def evaluate(run, wd, prefix, what):
    """Evaluate <wd>/<prefix>_NN.v.  Adds obligations / violations to run, returns the statistics dict
    (or None when there is nothing to evaluate)."""
    idx_path = os.path.join(wd, prefix + ".json")
    if not os.path.exists(idx_path):
        run.obligation("bytes-model: case files of %s were written" % what, False, "missing " + idx_path)
        run.violation("bytes-model:no-cases", "the harness wrote no byte-level case files for " + what, dict(), no_input=True)
        return None
    idx = json.load(open(idx_path))
    cases = idx["cases"]
    for p in idx.get("panics") or []:
        run.violation("bytes-model:panic", "decoding panicked on case %d (%s): %s" % (p["case"], p["label"], p["panic"]),
                      dict(case=p["case"], label=p["label"], panic=p["panic"], body_hex=p["body_hex"]))
    run.obligation("bytes-model: no panic in client.Execute / request.Decode on any body (%s)" % what, not idx.get("panics"))
    files = [os.path.join(wd, m["file"]) for m in idx["files"]]
    res = vlib.run_case_files(files)
    ok, nbad = True, 0
    hist = [0] * 8
    rhist = [0] * 6
    model_class = {}
    for m in idx["files"]:
        f = os.path.join(wd, m["file"])
        r, log = res[f]
        if r is None:
            ok = False
            run.notes.append("case file failed: %s: %s" % (m["file"], log[-500:]))
            continue
        s = vlib.parse_nlist(vlib.parse_print(log, "S")) or []
        for k, n in enumerate(s[:8]):
            hist[k] += n
        for k, n in enumerate((vlib.parse_nlist(vlib.parse_print(log, "RH")) or [])[:6]):
            rhist[k] += n
        v = vlib.parse_nlist(vlib.parse_print(log, "V")) or []
        for k, cls in enumerate(v):
            if k < len(m["cases"]):
                model_class[m["cases"][k]] = cls
        for item in r:
            i, code = item if isinstance(item, tuple) else (item, 0)
            ok = False
            nbad += 1
            cid = m["cases"][i]
            c = cases[cid]
            key, desc = _what(code)
            cls = model_class.get(cid)
            run.violation("bytes-model:" + key,
                          "%s (%d bytes, status %d): %s; model verdict: %s" % (c["label"], len(c["body_hex"]) // 2, c["status"], desc,
                                                                              CLASSES[cls] if cls is not None and cls < 8 else "?"),
                          dict(case=cid, label=c["label"], status=c["status"], body_hex=c["body_hex"], lookups_hex=c.get("lookups_hex", ""),
                               implementation=dict(client_execute=c["client_execute"], request_decode=c["request_decode"],
                                                   server_request=c.get("server_request")),
                               model=CLASSES[cls] if cls is not None and cls < 8 else None, code=code, case_file=f,
                               how="work/bin/harness bytes-one <body_hex> <outdir> %d %d  writes <outdir>/replay_case_00.v; coqc -Q coq Ucanto prints M (disagreement), V (model verdict)" % (c["status"], run.seed)))
    run.obligation("bytes-model: decode_message / client_execute_bytes (coq/MessageBytes.v) = implementation on every body (%s): "
                   "error vs message, root link, Invocations, Receipts, Get of the lookup links, block table, and every receipt the report "
                   "names read through receipt.NewReceipt = ReceiptBytes.read_receipt (%d reads: %s)" % (what, sum(rhist), ", ".join("%s %d" % (RCLASS[k].split(" ")[0], rhist[k]) for k in range(6))), ok,
                   "%d disagreement(s)" % nbad)
    if not ok and not any(k.startswith("bytes-model") for k, _, _, _ in run.violations):
        run.violation("bytes-model:broken", "byte-level case files could not be evaluated", dict(notes=run.notes[-3:]), no_input=True)
    by_kind = idx.get("by_kind") or {}
    stats = dict(bodies=len(cases), model_verdicts={SHORT[k]: hist[k] for k in range(8)}, implementation_verdicts=idx.get("impl_classes"),
                 by_kind={k: by_kind[k] for k in sorted(by_kind)}, disagreements=nbad,
                 receipt_reads_model_verdicts={RCLASS[k]: rhist[k] for k in range(6)})
    return stats


def replay(doc):
    """Replay of a bytes-model violation: the body through the implementation built from the repository now,
    and through the model; prints both verdicts.  Returns 1 when they still disagree."""
    import tempfile
    rp = doc["replay"]
    ok, hbin, log = vlib.harness_build()
    if not ok:
        print("harness does not build:", log[-800:])
        return 2
    d = tempfile.mkdtemp(prefix="bytes_replay_")
    rc, out, _ = vlib.run_harness(hbin, ["bytes-one", rp["body_hex"], d, str(rp.get("status", 200)), str(doc.get("seed", 1)), rp.get("lookups_hex", "")])
    print("body (%d bytes): %s" % (len(rp["body_hex"]) // 2, rp["body_hex"][:200] + ("..." if len(rp["body_hex"]) > 200 else "")))
    print("implementation now:", out.strip())
    print("implementation at the time of the check:", json.dumps(rp.get("implementation")))
    rc, out, _ = vlib.coqc(os.path.join(d, "replay_case_00.v"))
    if rc != 0:
        print("coqc failed:", out[-800:])
        return 2
    m = vlib.parse_nlist(vlib.parse_print(out, "M"))
    v = vlib.parse_nlist(vlib.parse_print(out, "V")) or [None]
    print("model verdict:", CLASSES[v[0]] if v[0] is not None and v[0] < 8 else v)
    if m:
        key, desc = _what(m[0][1] if isinstance(m[0], tuple) else m[0])
        print("DISAGREE:", desc)
        return 1
    print("model and implementation agree on this body now")
    return 0
