"""C06 — a valid chain is always found, whatever surrounds it."""
import vlib
from props import _worlds

RULE = 'seeded random chain worlds (depth 0..4, up to 3 decoy proofs per token: expired, badly signed, other ability, delegated to someone else, dangling links, duplicate citations, multi-capability tokens) each run unchanged and under 4 (8 thorough) random permutations of every proof list and capability list, half of them with some inline proofs moved to the proof resolver; every world compared with the model, and the verdicts of all permutations of one base world compared with each other on the implementation'


def check(run):
    env = vlib.standard_prelude(run)
    if not env["harness_ok"]:
        run.violation("harness-build", "harness does not build against /repo", dict(), no_input=True)
        return
    stats = _worlds.run(run, env, "C06", extra_ties=())
    if stats is None:
        return
    for d in (stats.get("extra", {}) or {}).get("permutation_disagreements", []) or []:
        run.violation("order-dependent-verdict", "worlds %s and %s differ only in the order of proofs/capabilities (or inline vs resolver-supplied proofs) "
                      "but the implementation's verdicts differ: %s vs %s" % (d["world_a"], d["world_b"], d["verdict_a"], d["verdict_b"]), d)
    run.obligation("oracle: all permutations of a base world get the same verdict from the implementation",
                   not (stats.get("extra", {}) or {}).get("permutation_disagreements"))
    _worlds.fill_cov(run, stats, RULE)
    run.cov["exhaustive"] = False
    run.assumptions += _ASSUME


_ASSUME = [
    "symbolic signatures: the harness tells the model which key produced each token's signature over its current fields (construction knowledge)",
    "links are numbered CIDs: SHA-256 collision freedom",
    "Hres: the proof resolver returns the delegation whose link was asked for",
    "caller-supplied functions (can-issue, checker, resolvers, parser, capability readers and Derives) are the mirrored Go/Gallina pairs of harness/world.go and coq/Check_Validator.v"]


def replay(path):
    return _worlds.replay("C06", path)
