"""C19 — validation work is bounded by the size of the proof set (refuted on layered DAGs: known finding)."""
import vlib
from props import _worlds

RULE = "proof-DAG shapes: chains depth 1..8, trees width 2..3, layered DAGs width 2..4 (every token of a layer cites every token of the next) with succeeding and failing roots, sizes capped so the exponential cases stay below a few thousand verifications; the number and order of Verifier.Verify calls seen by a counting verifier must EQUAL the model's, and is compared with the bound n^2+2 (n = distinct delegations)"


def check(run):
    env = vlib.standard_prelude(run)
    if not env["harness_ok"]:
        run.violation("harness-build", "harness does not build against /repo", dict(), no_input=True)
        return
    stats = _worlds.run(run, env, "C19", extra_ties=())
    if stats is None:
        return
    worst = {}
    for s in (stats.get("extra", {}) or {}).get("shapes", []):
        if s["verifications"] > s["bound"]:
            key = "bound-exceeded-" + s["shape"]
            if s["shape"] in ("layered", "layered-multicap") and not s["root_ok"]:
                key = "layered-dag"
            if s["shape"] == "attest-siblings" and s["root_ok"]:
                key = "attest-siblings"
            run.violation(key, "%s proof DAG width %d depth %d (%d delegations): %d signature verifications > %d" % (
                s["shape"], s["width"], s["depth"], s["distinct_delegations"], s["verifications"], s["bound"]), s)
    # work that signature verifications do not account for: a world of a few dozen delegations whose verifications stay
    # within the bound takes milliseconds; ten seconds of wall time for it is work of another kind growing with the paths
    for s in (stats.get("extra", {}) or {}).get("shapes", []):
        if s.get("wall_ms", 0) > 10000 and s["verifications"] <= max(s["bound"], 5000):
            run.violation("time-exceeded-" + s["shape"], "%s proof DAG width %d depth %d (%d delegations): %d signature verifications but %.1f s of wall time "
                          "(work per proof path that is not signature verification)" % (s["shape"], s["width"], s["depth"], s["distinct_delegations"], s["verifications"], s["wall_ms"] / 1000.0), s)
    run.cov["shape_table"] = (stats.get("extra", {}) or {}).get("shapes", [])
    _worlds.fill_cov(run, stats, RULE)
    run.cov["exhaustive"] = True
    run.assumptions += _ASSUME


_ASSUME = [
    "symbolic signatures: the harness tells the model which key produced each token's signature over its current fields (construction knowledge)",
    "links are numbered CIDs: SHA-256 collision freedom",
    "Hres: the proof resolver returns the delegation whose link was asked for",
    "caller-supplied functions (can-issue, checker, resolvers, parser, capability readers and Derives) are the mirrored Go/Gallina pairs of harness/world.go and coq/Check_Validator.v"]


def replay(path):
    return _worlds.replay("C19", path)
