"""C11 — no request can crash the server.  PARTIAL: theorems start at decoded blocks."""
import json, os
import vlib
from props import _batches, _bytes


def check(run):
    env = vlib.standard_prelude(run)
    if not env["harness_ok"]:
        run.violation("harness-build", "harness does not build against /repo", dict(), no_input=True)
        return
    stats = _batches.run(run, env, "C11")
    if stats is None:
        return
    crashes = stats.get("crash_list") or []
    for c in crashes:
        first = ""
        for line in (c.get("log") or "").splitlines():
            if line.startswith("panic:") or line.startswith("fatal error:") or "runtime error" in line:
                first = line.strip(); break
        if c["kind"] == "hang":
            run.violation("hang:" + c["label"].split("@")[0],
                          "the server never answered request item %d (%s): %s" % (c["item"], c["label"], (c.get("log") or "")[:160]),
                          dict(item=c["item"], label=c["label"], kind=c["kind"], stderr=c.get("log", "")[-3000:],
                               how="work/bin/harness c11child -seed %d -tier %s -out <dir> -from %d" % (run.seed, run.tier, c["item"])))
            continue
        run.violation("crash:" + c["label"].split("@")[0],
                      "the server process died while handling request item %d (%s): %s" % (c["item"], c["label"], first or "process exited"),
                      dict(item=c["item"], label=c["label"], kind=c["kind"], stderr=c.get("log", "")[-3000:],
                           raw_request_hex=c.get("raw_request_hex"),
                           how="work/bin/harness c11child -seed %d -tier %s -out <dir> -from %d" % (run.seed, run.tier, c["item"])))
    run.obligation("no request made the server process die or left it unanswered (child-process observation, 45 s watchdog per request)", not crashes)
    _batches.fill_cov(run, stats,
        "requests executed one by one in a child process: a base request (well-formed invocation + delegated chain of depth 3 + "
        "session with account delegation and attestation) in which one token (7 positions) gets one of 33 field alterations "
        "(issuer/audience empty, 1 byte, truncated, undecodable, oversized, generic did:key encoding; signature empty, code only, "
        "short, huge declared size, unknown code, bad varint, flipped; capability list empty, empty strings, nb null / string, "
        "300 capabilities; dangling and 200 extra proof links; expiration/not-before negative, zero, 2^62; version weird/empty; "
        "empty nonce; ...), random pairs of alterations, nested and mutually attesting session structures with non-key issuers, a "
        "validly signed token with the undefined issuer; receipt classes of EVERY invocation compared with the model; plus raw "
        "mutations (truncate, flip, random, overwrite, duplicate chunk) of a valid CAR body through Server.Request (crash observation only)")
    # byte-level model of request.Decode on the raw stream: 400 exactly when the body is undecodable
    bstats = _bytes.evaluate(run, os.path.join(run.wd, "cases"), "bytes_C11", "raw request bodies: request.Decode, and the status Server.Request answered in the child process")
    if bstats:
        run.cov["bytes_model"] = bstats
    run.cov["raw_requests"] = stats.get("raw_requests")
    run.cov["raw_request_outcomes"] = stats.get("raw_request_outcomes")
    run.cov["items"] = stats.get("items")
    run.cov["evaluations"] = stats.get("items", 0)
    run.assumptions += [
        "the model starts at decoded blocks: CAR/CBOR/CID parsing of arbitrary bytes by third-party code and memory/CPU exhaustion are outside the theorems (exercised by the raw stream)",
        "content addressing: the proof graph is acyclic (rank hypothesis of C11_terminates) — SHA-256 collision freedom",
        "validator / server model assumptions as for C08"]


def replay(path):
    doc = json.load(open(path))
    if str(doc.get("key", "")).startswith("bytes-model:") and (doc.get("replay") or {}).get("body_hex") is not None:
        return _bytes.replay(doc)
    return _batches.replay("C11", path)
