"""CBOR — component check (not a numbered property): the Coq DAG-CBOR model (coq/Ipld.v, coq/Cbor.v)
against go-ipld-prime's dagcbor codec as go-ucanto uses it.  Encode stream: bytes equal; decode stream
(mutated encodings): accept/reject and decoded value equal, inside the documented domain (no floats)."""
import glob, json, os, re, shutil
import vlib


def check(run):
    env = vlib.standard_prelude(run)
    if not env["harness_ok"]:
        run.violation("harness-build", "harness does not build against /repo", dict(), no_input=True)
        return
    wd = os.path.join(run.wd, "cases")
    shutil.rmtree(wd, ignore_errors=True); os.makedirs(wd)
    rc, out, dt = vlib.run_harness(env["bin"], ["gen", "CBOR", "-tier", run.tier, "-seed", str(run.seed), "-out", wd])
    if rc != 0:
        run.violation("harness-run", "harness gen CBOR failed: " + out[-500:], dict(log=out[-2000:]), no_input=True)
        return
    stats = json.load(open(os.path.join(wd, "stats.json")))
    files = sorted(glob.glob(os.path.join(wd, "cases_CBOR_*.v")))
    res = vlib.run_case_files(files)
    enc_ok = dec_ok = True
    unsup = 0
    for f, (r, out) in sorted(res.items()):
        is_enc = "_enc_" in os.path.basename(f)
        if r is None:
            if is_enc: enc_ok = False
            else: dec_ok = False
            run.notes.append("case file failed to evaluate: %s: %s" % (os.path.basename(f), out[-400:]))
            continue
        if not is_enc:
            u = vlib.parse_print(out, "U")
            unsup += int(re.sub(r"%[A-Za-z_]+", "", u)) if u else 0
        for item in r:
            if is_enc:
                enc_ok = False
                run.violation("cbor-encode-mismatch",
                              "case #%s: dagcbor.Encode bytes differ from the model's cbor_encode (or the value is not "
                              "well formed / the model does not decode the bytes back to canon v)" % (item,),
                              dict(file=f, case=item, how="coqc the file; case index = position in the whole stream"))
            else:
                dec_ok = False
                run.violation("cbor-decode-mismatch",
                              "case #%s: dagcbor.Decode and the model's cbor_decode_r disagree (accept/reject or value)" % (item,),
                              dict(file=f, case=item))
    run.obligation("encode correspondence: model bytes = dagcbor.Encode bytes, and model decode = canon, on every generated value", enc_ok)
    run.obligation("decode correspondence: model = dagcbor.Decode (accept/reject + value) on every mutated input in the domain", dec_ok)
    gp = stats.get("go_problems") or []
    run.obligation("implementation side: Decode(Encode(v)) re-encodes to the same bytes; no decoder panic; go-ucanto's "
                   "core/ipld/codec/cbor Encode/Decode (bindnode, [Any]) agree with the direct dagcbor path on every case; "
                   "allocation-budget probes at the boundary behave as gas_cost predicts", not gp)
    for p in gp[:6]:
        key = ("cbor-repo-path" if "go-ucanto" in p else "cbor-budget" if p.startswith("budget probe")
               else "cbor-go-panic" if "panics" in p else "cbor-go-roundtrip")
        run.violation(key, p, dict(problem=p, how="harness gen CBOR -tier %s -seed %d" % (run.tier, run.seed)))
    if (not enc_ok or not dec_ok) and not run.violations:
        run.violation("correspondence-broken", "case files could not be evaluated", dict(notes=run.notes), no_input=True)
    if not env["props_ok"] or not env["coq_ok"]:
        run.violation("proof-broken", "Coq development or Properties_CBOR.v no longer checks", dict(log=env["props_log"][-1500:]), no_input=True)
    n = stats["values"] + stats["decode_inputs"]
    run.cov.update(evaluations=n,
                   distinct_nontrivial=stats["maps_inserted_out_of_order"] + stats["decode_outcomes_go"].get("ok", 0),
                   rule="encode stream: seeded random IPLD nodes over all kinds built with basicnode (maps in random insertion "
                        "order), bytes of ipld.Encode(node, dagcbor.Encode) vs cbor_encode; decode stream: hand-written adversarial "
                        "inputs per acceptance rule + byte/structure mutants of valid encodings, ipld.Decode(b, dagcbor.Decode) vs "
                        "cbor_decode_r; non-trivial = maps whose insertion order differs from the sorted order + decode inputs the "
                        "implementation accepts; %d decode inputs were outside the model's domain (floats) and only checked for "
                        "consistency (model Unsup => implementation decoded a float or rejected)" % unsup,
                   samples=stats["samples"], values=stats["values"], decode_inputs=stats["decode_inputs"],
                   decode_inputs_outside_domain=unsup, repo_path_checks=stats.get('repo_path_checks', 0), budget_probes=stats.get('budget_probes', []),
                   kind_histogram=stats["kind_histogram"], depth_histogram=stats["depth_histogram"],
                   encoded_size_histogram=stats["encoded_size_histogram"], int_classes=stats["int_classes"],
                   link_kinds=stats["link_kinds"], maps_total=stats["maps_total"],
                   maps_inserted_out_of_order=stats["maps_inserted_out_of_order"], max_map_len=stats["max_map_len"],
                   max_list_len=stats["max_list_len"], strings_with_invalid_utf8=stats["strings_with_invalid_utf8"],
                   decode_input_classes=stats["decode_input_classes"], decode_outcomes_go=stats["decode_outcomes_go"])
    run.assumptions += ["go-ipld-prime basicnode builders / ipld.Encode / ipld.Decode as the observed implementation "
                        "(go-ucanto calls the same dagcbor.Encode/Decode through bindnode)",
                        "harness rendering of nodes as Gallina terms (ipldToCoq) and of bytes (pk / hx)",
                        "floats are outside the model (ucanto never emits them)",
                        "allocation budget: inputs of 10 MiB cannot be evaluated in Coq; the budget probes compare dagcbor.Decode with a "
                        "Go transcription (goGasCost) of the model's gas_cost, not with the Coq term itself"]


def replay(path):
    print(open(path).read())
    return 0
