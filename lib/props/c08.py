"""C08 — a service handler runs exactly when the invocation is authorized."""
import vlib
from props import _batches

ASSUME = [
    "validator model assumptions (symbolic signatures, CIDs as identities, Hres, mirrored caller-supplied functions)",
    "receipt classes read from the transported receipt root block by the harness (out.ok / out.error.name), independently of the library's receipt reader",
    "handlers, can-issue policy, checker, resolvers and parser are the mirrored Go/Gallina pairs of harness/batch.go, world.go and coq/Check_Server.v"]


def check(run):
    env = vlib.standard_prelude(run)
    if not env["harness_ok"]:
        run.violation("harness-build", "harness does not build against /repo", dict(), no_input=True)
        return
    stats = _batches.run(run, env, "C08")
    if stats is None:
        return
    _batches.fill_cov(run, stats,
        "seeded random batches of 1..7 invocations (delegation chains of depth 0..3 with defects, decoys, RSA issuers, revocation, "
        "resolver-supplied proofs, invocations with 0 or 2 capabilities, the same invocation listed twice) sent through "
        "server.NewServer + client.Execute to services whose handlers (return a value / a value with effects / an error / not "
        "registered) record their calls; per invocation the receipt class, its ran and issuer, the multiset of handler calls "
        "(ability, resource, caveats) and the number of receipts are compared with the model")
    run.assumptions += ASSUME


def replay(path):
    return _batches.replay("C08", path)
