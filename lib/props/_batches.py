"""Shared driver for the properties decided on the server model (C08, C09, C11 well-formed part)."""
import glob, json, os, re, shutil
import vlib

CODES = {1: "whole-request outcome differs", 2: "a receipt is missing or unexpected for an invocation",
         3: "receipt class (ok / error name) differs", 4: "ran or issuer of a receipt differs",
         5: "handler call log differs (as a multiset)", 6: "number of receipts differs",
         7: "effects of a receipt differ (fork links in order, join)", 9: "model ran out of fuel"}


def extract_case(path, wid):
    txt = open(path).read()
    m = re.search(r"\{\| bc_world := \{\| wc_id := %d;.*?ob_nreceipts := \d+ \|\}" % wid, txt, re.S)
    return m.group(0) if m else None


def run(run, env, prop, binpath=None, extra_env=None, key_prefix="model-vs-impl"):
    wd = os.path.join(run.wd, "cases")
    shutil.rmtree(wd, ignore_errors=True); os.makedirs(wd)
    rc, out, dt = vlib.run_harness(binpath or env["bin"], ["gen", prop, "-tier", run.tier, "-seed", str(run.seed), "-out", wd],
                                   timeout=2400, env=extra_env)
    if "DATA RACE" in out or rc == 66:
        m = re.search(r"WARNING: DATA RACE.*?(?:==================|\Z)", out, re.S)
        run.violation("data-race", "the race detector reported a data race while the server executed a batch",
                      dict(report=(m.group(0) if m else out)[-4000:], seed=run.seed, tier=run.tier,
                           how="work/bin/harness-race gen %s -tier %s -seed %d -out <dir> with GORACE=halt_on_error=1" % (prop, run.tier, run.seed)))
        return None
    if rc != 0:
        tail = out[-1500:]
        if "fatal error" in out or "panic:" in out:
            # the panic / fatal line and the first frames of the goroutine that died (the tail is other goroutines' stacks)
            m = re.search(r"^(panic:|fatal error:)", out, re.M)
            head = out[m.start():m.start() + 1800] if m else tail
            frames = [l.strip().split("(")[0].split("go-ucanto/")[-1] for l in head.splitlines() if "go-ucanto/" in l and not l.startswith("\t")][:3]
            first = head.splitlines()[0][:200] if head else ""
            run.violation("crash", "the process running the server died while a batch was executed: %s%s" % (
                first, (" at " + " <- ".join(frames)) if frames else ""), dict(log=head + "\n...\n" + tail[-600:],
                how="work/bin/harness gen %s -tier %s -seed %d -out <dir>" % (prop, run.tier, run.seed)))
        else:
            run.violation("harness-run", "harness gen %s failed: %s" % (prop, tail[-600:]), dict(log=tail), no_input=True)
        return None
    stats = json.load(open(os.path.join(wd, "stats.json")))
    labels = json.load(open(os.path.join(wd, "labels.json"))) if os.path.exists(os.path.join(wd, "labels.json")) else {}
    files = sorted(glob.glob(os.path.join(wd, "cases_*.v")))
    from props import _servebytes
    sbh = _servebytes.start(wd)         # sbytes_*.v (the server from the request body), evaluated alongside the batches
    res = vlib.run_case_files(files)
    ok = True
    for f, (r, out2) in sorted(res.items()):
        if r is None:
            ok = False
            run.notes.append("case file failed to evaluate: %s: %s" % (os.path.basename(f), out2[-600:]))
            continue
        for wid, code in r:
            ok = False
            lab = labels.get(str(wid), "")
            run.violation("%s:%s" % (key_prefix, CODES.get(code, code)),
                          "batch %d (%s): %s between the proved model and the implementation" % (wid, lab, CODES.get(code, code)),
                          dict(batch_id=wid, label=lab, code=code, case_file=f, case=extract_case(f, wid)))
    run.obligation("correspondence: model = implementation on every generated batch", ok)
    if not ok and not run.violations and not run.known_hits:
        run.violation("correspondence-broken", "case files could not be evaluated", dict(notes=run.notes), no_input=True)
    _servebytes.finish(run, sbh, prop, labels)   # obligation "serve_bytes" + violations serve-bytes:<what>
    for p in stats.get("panic_list") or []:
        run.violation("panic", "implementation panicked: " + p, dict(panic=p))
    for d in stats.get("direct_violations") or []:
        run.violation("direct:" + d.get("what", "receipt ran/issuer mismatch")[:60],
                      "%s: %s" % (d.get("what", "a receipt's ran / issuer is not the invocation / the server"), d), d)
    if not env["props_ok"] or not env["coq_ok"]:
        run.violation("proof-broken", "Coq development or Properties_%s.v no longer checks" % prop, dict(log=env["props_log"][-1500:]), no_input=True)
    return stats


def fill_cov(run, stats, rule):
    run.cov.update(evaluations=stats.get("invocations", 0), distinct_nontrivial=len(stats.get("distinct_signatures", {})),
                   rule=rule + "; distinct = distinct (batch size, request outcome, number of handler calls, sequence of receipt classes) signatures",
                   samples=(stats.get("samples") or [])[:5])
    for k in ("batches", "invocations", "receipt_classes", "handler_calls", "requests_failed_as_a_whole", "by_batch_size", "resource_method_capability_runs",
              "batches_with_duplicate_invocation"):
        if k in stats:
            run.cov[k] = stats[k]


def replay(prop, path):
    d = json.load(open(path))
    rp = d.get("replay", {})
    print(json.dumps({k: v for k, v in rp.items() if k != "case"}, indent=1))
    c = rp.get("case")
    if not c:
        return 0
    wd = os.path.join(vlib.WORK, prop, "replay")
    os.makedirs(wd, exist_ok=True)
    src = open(rp["case_file"]).read() if os.path.exists(rp.get("case_file", "")) else ""
    defs = "\n".join(l for l in src.splitlines() if l.startswith("Definition s_"))
    f = os.path.join(wd, "replay.v")
    open(f, "w").write("From Ucanto Require Import Base Pattern Time Validator Check_Validator Server Check_Server.\nOpen Scope N_scope.\n%s\n"
                       "Definition b : bcase := %s.\nEval vm_compute in (check_batch b).\nEval vm_compute in (run_batch b).\n" % (defs, c))
    rc, out, _ = vlib.coqc(f)
    print(out[-6000:])
    return 0
