"""serve_bytes: the server from the request BODY (coq/ServerBytes.v, coq/Check_ServerBytes.v,
harness/cmd/harness/servebytes.go).  The harness sends a sample of the batches once more over a
channel that records the request body; Coq decodes that body, reads every block as a token and runs
Server.execute; the receipts and the handler calls must be the implementation's.
`start` launches the evaluation of sbytes_*.v in the background, `finish` reports."""
import glob, json, os, re, threading
import vlib

CODES = {1: "whole-request outcome differs", 2: "a receipt is missing or unexpected for an invocation",
         3: "receipt class (ok / error name) differs", 4: "ran or issuer of a receipt differs",
         5: "handler call log differs (as a multiset)", 6: "number of receipts differs",
         7: "the model refuses the body (request.Decode) although the server served it",
         8: "effects of a receipt differ (fork links in order, join)", 9: "model ran out of fuel"}


# world ids of the cases in which a token travels under a CID that is not the dag-cbor / sha2-256 CID of its bytes
# (harness/cmd/harness/servebytes_bound.go): variant number * REL_STEP + the batch's id
REL_STEP = 10000000
REL_VARIANTS = {1: "the first invocation under a raw / CIDv0 / dag-json CID, named so by the execute list",
                2: "an invocation re-issued with its first proof cited under a raw / CIDv0 / dag-json CID (the proof's bytes travel under both CIDs)",
                3: "a relabelled copy of the first invocation executed next to the genuine request",
                4: "a proof's block carried only under a raw / CIDv0 / dag-json CID"}


def start(wd):
    files = sorted(glob.glob(os.path.join(wd, "sbytes_*.v")))
    if not files:
        return None
    h = dict(files=files, res=None)

    def work():
        h["res"] = vlib.run_case_files(files)
    h["thread"] = threading.Thread(target=work)
    h["thread"].start()
    return h


def body_of(path, wid):
    """hex of the request body of the case with world id `wid` (constants are packed literals)."""
    from props import _tokenview
    txt = open(path).read()
    m = re.search(r"\{\| sb_body := (\S+?);(?:(?!\{\| sb_body).)*?bc_world := \{\| wc_id := %d;" % wid, txt, re.S)
    if not m:
        return ""
    name = m.group(1)
    d = re.search(r"^Definition %s : bstr := (.*)\.$" % re.escape(name), txt, re.M)
    return _tokenview._unpack(d.group(1) if d else name).hex()


def finish(run, h, prop, labels=None):
    if h is None:
        return
    h["thread"].join()
    ok = True
    counts = {}
    for f, (r, out) in sorted(h["res"].items()):
        if r is None:
            ok = False
            run.notes.append("serve-bytes case file failed to evaluate: %s: %s" % (os.path.basename(f), out[-600:]))
            continue
        for wid, code in r:
            ok = False
            what = CODES.get(code, "code %d" % code)
            counts[what] = counts.get(what, 0) + 1
            lab = (labels or {}).get(str(wid % REL_STEP), "")
            if wid >= REL_STEP:
                lab = (lab + "; " if lab else "") + "RELABELLED BLOCK: " + REL_VARIANTS.get(wid // REL_STEP, "?")
            run.violation("serve-bytes:" + what,
                          "batch %d (%s): %s between serve_bytes (request body -> decode_message -> every block read as delegation.Data() reads it: "
                          "view_block when the CID is the dag-cbor/sha2-256 CID of the bytes, no field otherwise -> Server.execute) "
                          "and the server's answer to that body" % (wid, lab, what),
                          dict(batch_id=wid % REL_STEP, relabelled_variant=wid // REL_STEP, label=lab, code=code, case_file=f, body_hex=body_of(f, wid),
                               how="coqc on the case file re-evaluates serve_bytes on the recorded body; the record carries the body, the digests of its blocks, "
                                   "the observed signature checks, the resolver's blocks, the context and the observed receipts / calls"))
    try:
        st = json.load(open(os.path.join(os.path.dirname(h["files"][0]), "sbytes_stats_%s.json" % prop)))
    except Exception:
        st = {}
    run.obligation("serve_bytes: for the sampled batches, the request BODY decoded, its blocks read as tokens and executed by the model give the "
                   "receipts (found, class, ran, issuer) and the handler calls the server answered to that body", ok, json.dumps(counts))
    run.cov["serve_bytes"] = dict(st, files=len(h["files"]), disagreements=counts)
    if not ok and not counts:
        run.violation("serve-bytes:broken", "serve-bytes case files could not be evaluated", dict(notes=run.notes[-3:]), no_input=True)
