"""C18 — stored tokens, archives and keys stay readable and valid; formats do not drift.
Golden corpus (corpus/golden/corpus.json, captured from the pinned + repaired tree) re-executed and re-read by the
current tree and reproduced by the Coq format model; constants / schema layouts tied by the translator."""
import glob, json, os, shutil
import vlib

KIND = {"tok": "UCAN token root block", "rcpt": "receipt root block / signed outcome bytes", "msg": "agent message root block",
        "arch": "archive variant block", "car": "CAR framing of the recorded archive", "sign": "signing payload (DAG-JSON / JWT form)"}


def check(run):
    env = vlib.standard_prelude(run)
    if not env["harness_ok"]:
        run.violation("harness-build", "harness does not build against /repo", dict(), no_input=True)
        return
    # 1. translator tie: constants and schema layouts
    tie = vlib.regen_and_tie("C18", env["bin"], ["Consts"])["Consts"]
    run.obligation("Tie_Consts: version string, DID prefixes, multicodec tags of keys / DIDs / signatures and every field (name, order, optionality, type) "
                   "of the embedded IPLD schemas read from the current source = the constants and layouts of the model", tie["ok"],
                   tie["mode"] + " " + tie["log"][-400:])
    run.cov["translator_tie"] = tie["mode"]
    # 2. golden corpus
    wd = os.path.join(run.wd, "cases")
    shutil.rmtree(wd, ignore_errors=True); os.makedirs(wd)
    corpus = os.path.join(vlib.ROOT, "corpus", "golden", "corpus.json")
    rc, out, dt = vlib.run_harness(env["bin"], ["gen", "C18", "-tier", run.tier, "-seed", str(run.seed), "-out", wd], timeout=1200,
                                   env=dict(VERIF_C18_CORPUS=corpus, VERIF_KEYS=os.path.join(vlib.ROOT, "corpus", "keys")))
    if rc != 0:
        crashed = "panic" in out or "fatal error" in out
        # a program of the corpus that no longer runs is a concrete failing input
        run.violation("program-fails", "a corpus program no longer runs: " + out[-600:], dict(log=out[-3000:]), no_input=not ("program" in out or crashed))
        return
    stats = json.load(open(os.path.join(wd, "stats.json")))
    diffs = stats.get("differences") or []
    seen = {}
    for d in diffs:
        key = "golden:%s:%s" % (d["id"].split("-")[0], d["field"])
        seen.setdefault(key, []).append(d)
    for key, ds in sorted(seen.items()):
        d = ds[0]
        run.violation(key, "corpus entry %s: %s (%d entries differ this way)" % (d["id"], d["what"], len(ds)),
                      dict(entry=d["id"], field=d["field"], what=d["what"], recorded=d.get("recorded"), now=d.get("now"), all_entries=[x["id"] for x in ds][:50],
                           how="bin/harness gen C18 -out <dir> with VERIF_C18_CORPUS=corpus/golden/corpus.json; see <dir>/stats.json"))
    run.obligation("golden corpus: every program re-executed on the current tree reproduces the recorded signing payload, signature, root block bytes, CID, "
                   "formatted string, signed outcome bytes, key strings, DIDs and DID bytes; every RECORDED archive, formatted delegation, message CAR, "
                   "key string and DID parses to the same link / bytes / signature and still verifies", not diffs)
    # 3. the format model reproduces the recorded bytes
    res = vlib.run_case_files(sorted(glob.glob(os.path.join(wd, "cases_*.v"))))
    ok = True
    for f, (r, o2) in sorted(res.items()):
        kind = os.path.basename(f).split("_")[2]
        if r is None:
            ok = False
            run.notes.append("case file failed: %s: %s" % (os.path.basename(f), o2[-500:]))
            continue
        for item in r:
            ok = False
            cid_, code = item if isinstance(item, (list, tuple)) else (item, 1)
            run.violation("model:" + kind, "corpus case %s: recorded %s is not what the format model writes / reads" % (cid_, KIND.get(kind, kind)),
                          dict(case=cid_, kind=kind, code=code, case_file=f))
    run.obligation("format model: Coq encoders (token, signing payload, receipt, message, archive variant, CAR framing) reproduce the recorded bytes and decode them to the same values", ok)
    if not ok and not run.violations:
        run.violation("correspondence-broken", "case files could not be evaluated", dict(notes=run.notes), no_input=True)
    if not tie["ok"] and not run.violations:
        run.violation("tie-broken", "Tie_Consts no longer checks against the constants / schemas of the current source (%s) and the corpus still reproduces" % tie["mode"],
                      dict(log=tie["log"][-1500:]), no_input=True)
    if not env["props_ok"] or not env["coq_ok"]:
        run.violation("proof-broken", "Coq development or Properties_C18.v no longer checks", dict(log=env["props_log"][-1500:]), no_input=True)
    run.cov.update(evaluations=stats["programs"] * 2 + sum(stats["model_cases"].values()), distinct_nontrivial=stats["programs"],
                   rule="recorded corpus of %d deterministic issuance programs (sha256 %s): tokens over all 64 combinations of expiration / no expiration / not-before / nonce / "
                        "facts / proofs with an Ed25519 key and 6 combinations each with 3 more Ed25519, 2 RSA and a did:web-wrapped key, 1..3 capabilities, 7 caveat shapes "
                        "(empty, link, negative int + unicode, nested maps in non-canonical insertion order, lists, bytes + max int, string map), inline and link-only proofs, chains of "
                        "depth 1..3; 12 receipts (ok / error, forks as link and embedded invocation, join, metadata, proofs, bare and embedded ran; Ed25519, RSA, wrapped); "
                        "5 agent messages (empty, 1 / 3 invocations sharing proofs, receipts only, both); 7 keys (key string, DID, DID bytes, signature of a fixed message); 17 DID strings (web, mailto, dns, dht, ion, indy, iota, plc, pkh, ethr, one-letter and nested methods, Ed25519 and RSA did:key) parsed, encoded and printed, 3 tokens between such principals. "
                        "Each program is re-executed and compared byte for byte; each recorded artefact is parsed / extracted / verified by the current tree; each recorded block and "
                        "CAR is reproduced by the Coq encoders. distinct = programs" % (stats["programs"], stats["corpus_sha256"][:16]),
                   samples=stats["samples"], by_kind=stats["by_kind"], model_cases=stats["model_cases"])
    run.assumptions += ["the corpus was captured from the pinned tree with the fix: commits of KNOWN_FINDINGS.txt (the pinned tree could not verify tokens with nonce / not-before, C07)",
                        "Ed25519 and RSA PKCS#1 v1.5 signing are deterministic (Go standard library)",
                        "SHA-256 is exercised, not modelled (links are compared as recorded); base encodings of CID / DID strings are modelled in BaseEnc.v / DagJson.v"]


def replay(path):
    print(open(path).read())
    return 0
