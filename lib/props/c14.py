"""C14 — principals survive every representation; keys never cross-verify.
Tie: differential correspondence with real Ed25519 / RSA keys (Sig.v, Did.v, Crypto.v
evaluated by vm_compute on the inputs the harness ran through the implementation; the base
encodings are concrete model functions (BaseEnc.v / BaseDec.v) whose results must equal what the Go
base58 / multibase libraries answered on every string of the run and on generated near misses;
x509 and the signature schemes enter the model as observed oracle tables),
plus the property itself checked directly on the implementation's observations."""
import glob, json, os, re, shutil, subprocess, sys
import vlib

KIND_KEYS = {
    "verify": ("verify-mismatch", "Verify result differs from the model's acceptance condition "
                                  "(own algorithm code AND the key's own signature of exactly this message)"),
    "sign": ("sign-frame-mismatch", "Sign(msg).Bytes() is not varint(code) ++ varint(len) ++ raw"),
    "verifier-decode": ("verifier-decode-mismatch", "verifier.Decode accepts/rejects or re-encodes differently from the model"),
    "verifier-parse": ("verifier-parse-mismatch", "verifier.Parse accepts/rejects or re-encodes differently from the model"),
    "signer-decode": ("signer-decode-mismatch", "signer.Decode accepts/rejects or re-encodes differently from the model"),
    "verifier-wrap": ("wrap-mismatch", "verifier.Wrap result (DID, encoding, refusal) differs from the model"),
    "did-parse": ("did-parse-mismatch", "did.Parse class / Bytes() / String() differs from the model, or the parsed DID is one the model proves cannot round-trip"),
    "did-decode": ("did-decode-mismatch", "did.Decode class / Bytes() / String() differs from the model, or the decoded DID is one the model proves cannot round-trip"),
    "sig": ("sig-framing-mismatch", "signature Code()/Size()/Raw() differ from the model on these bytes"),
    "new-signature": ("new-signature-mismatch", "NewSignature bytes differ from varint(code) ++ varint(len raw) ++ raw"),
    "new-non-standard": ("new-signature-mismatch", "NewNonStandard bytes differ from the model"),
    "signer-parse": ("signer-parse-mismatch", "signer.Parse accepts/rejects or re-encodes differently from the model (multibase.Decode of the key string, then Decode)"),
    "signer-format": ("signer-format-mismatch", "signer.Format is not multibase base64pad of Encode()"),
    "base-b58dec": ("base-decode:b58", "go-multibase/mr-tron base58btc Decode differs from BaseDec.b58dec on this string"),
    "base-multibase": ("base-decode:multibase", "multibase.Decode differs from BaseDec.mb_decode on this string"),
    "base-b58enc": ("base-decode:b58-encode", "multibase.Encode(Base58BTC) differs from BaseEnc.b58enc on these bytes"),
    "base-mb64enc": ("base-decode:mb64-encode", "multibase.Encode(Base64pad) differs from BaseDec.mb64enc on these bytes"),
}


ALIAS_PREFIX = "9d1a6b65793a"   # varint(0x0d1d) ++ "key:"  — the generic encoding of the method "key"


def _alias_key(key, rp):
    """All symptoms of the did:key alias (did.Decode accepting the generic encoding of method "key":
    fixes/C14_did_key_alias.diff) share one structural key."""
    if key.startswith("did-") and str(rp.get("bytes", "")).startswith(ALIAS_PREFIX):
        return "did-key-alias"
    return key


def _index_key(fname, kind):
    base = os.path.basename(fname)
    if base.startswith("cases_C14_prin_"):
        base = "cases_C14_prin.v"
    if base.startswith("cases_C14_sig_"):
        base = "cases_C14_sig.v"
    return "%s#%d" % (base, kind)


def check(run):
    env = vlib.standard_prelude(run)
    if not env["harness_ok"]:
        run.violation("harness-build", "harness does not build against the repository", dict(), no_input=True)
        return
    wd = os.path.join(run.wd, "cases")
    shutil.rmtree(wd, ignore_errors=True); os.makedirs(wd)
    rc, out, dt = vlib.run_harness(env["bin"], ["gen", "C14", "-tier", run.tier, "-seed", str(run.seed), "-out", wd])
    if rc != 0:
        run.violation("harness-run", "harness gen C14 failed: " + out[-500:], dict(log=out[-2000:]), no_input=True)
        return
    stats = json.load(open(os.path.join(wd, "stats.json")))
    index = json.load(open(os.path.join(wd, "index.json")))
    direct = json.load(open(os.path.join(wd, "direct.json"))) or []

    # 1. the property on the implementation's own observations (no model involved)
    for d in direct:
        run.violation(_alias_key(d["key"], d["replay"]), d["what"], d["replay"])
    run.obligation("implementation: every representation round trip / Wrap / determinism observed directly holds",
                   not direct, "%d direct violation(s)" % len(direct))

    # 2. correspondence: model = implementation on every case
    files = sorted(glob.glob(os.path.join(wd, "cases_C14_*.v")))
    res = vlib.run_case_files(files)
    corr_ok = True
    nbad = 0
    for f, (r, log_) in sorted(res.items()):
        if r is None:
            corr_ok = False
            run.notes.append("case file failed to evaluate: %s: %s" % (os.path.basename(f), log_[-400:]))
            continue
        for item in r:
            corr_ok = False
            nbad += 1
            kind, idx = item
            entries = index.get(_index_key(f, kind), [])
            ent = entries[idx] if idx < len(entries) else dict(kind="?", replay=dict(file=f, item=list(item)))
            key, what = KIND_KEYS.get(ent["kind"], ("model-mismatch", "model and implementation disagree"))
            rp = dict(ent["replay"]); rp["kind"] = ent["kind"]; rp["file"] = os.path.basename(f); rp["case"] = idx
            key = _alias_key(key, rp)
            run.violation(key, what + " — " + json.dumps({k: v for k, v in rp.items() if k != "coq"})[:300], rp)
    run.obligation("correspondence: Sig/Did/Crypto model = implementation on every generated case", corr_ok,
                   "%d mismatching case(s) in %d files" % (nbad, len(files)))
    if not corr_ok and not run.violations and not run.known_hits:
        run.violation("correspondence-broken", "case files could not be evaluated", dict(notes=run.notes), no_input=True)
    if not env["props_ok"] or not env["coq_ok"]:
        run.violation("proof-broken", "Coq development or Properties_C14.v no longer checks",
                      dict(log=env["props_log"][-1500:]), no_input=True)

    pc = stats["principal_cases"]
    n_prin = (pc["sign"] + sum(pc["verifier_decode"].values()) + pc["verifier_parse"] + sum(pc["signer_decode"].values()) + pc["wrap"]
              + pc["signer_parse"].get("ok", 0) + pc["signer_parse"].get("error", 0) + pc["signer_format"])
    be = stats["base_encodings"]
    sf = stats["sig_frames"]
    n_eval = (stats["verify_cases"] + n_prin + stats["did_strings"] + stats["did_bytes"] + sf["inputs"]
              + sf["new_signature"] + sf["new_non_standard"] + stats["principal_roundtrip_checks"] + be["pairs"])
    accepted = sum(v.get("accepted", 0) for v in stats["verify_histogram"].values())
    did_ok = sum(v.get("key", 0) + v.get("other", 0) for v in stats["did_histogram"].values())
    run.cov.update(
        evaluations=n_eval,
        distinct_nontrivial=accepted + did_ok + pc["verifier_decode"].get("ok", 0) + pc["signer_decode"].get("ok", 0)
                            + pc["signer_parse"].get("ok", 0) + sf["classes"].get("code ok, raw non-empty", 0)
                            + sum(v.get("accepted", 0) for k, v in be["by_function"].items() if k in ("base-b58dec", "base-multibase")),
        rule="%d Ed25519 keys from the seed + %d stored RSA-2048 keys; every (verifier, signing key, message) triple with the "
             "signature of the same and of another message, through 4 ways of obtaining the verifier (signer.Verifier, Decode, "
             "Parse(did), Wrap); signature-code substitutions, truncated/extended/bit-flipped raw, re-sized and truncated frames; "
             "Decode/Parse of every key encoding under 14 byte-level mutations and the other algorithm's decoder; Wrap; "
             "%d DID strings from a grammar (real and random did:key of both kinds, other tags, generic payloads, 13 methods x ids "
             "incl. empty/non-ASCII/arbitrary bytes, %s near-miss strings) and %d DID byte strings; %d arbitrary signature byte "
             "strings (all strings of length <= 3 over 9 boundary bytes + random frames); signer.Parse of every key in 12 multibase "
             "forms, padding/alphabet/line-break/dropped-bit near misses and single edits; %d (input, result) pairs of the Go base58 / "
             "multibase codecs (every string the run touched, fixed near misses: non-alphabet characters, empty, only/leading '1's, "
             "blanks, unicode, missing/extra padding, url alphabet, length 1 mod 4; random byte strings in 12 bases and single edits; "
             "strings of > 800 characters). non-trivial = accepted signatures + accepted DIDs + accepted key encodings + accepted key "
             "strings + frames with a readable code and non-empty raw + strings the Go decoders accepted"
             % (stats["keys"]["ed25519"], stats["keys"]["rsa"], stats["did_strings"], "37", stats["did_bytes"], sf["inputs"], be["pairs"]),
        samples=stats["samples"][:6],
        verify_histogram=stats["verify_histogram"], did_histogram=stats["did_histogram"],
        principal_cases=pc, sig_frames=sf, keys=stats["keys"],
        base58_law_checked=stats["base58_law_checked"], direct_checks=stats["principal_roundtrip_checks"], base_encodings=be)
    run.assumptions += [
        "SYMBOLIC CRYPTO (Section hypotheses sig_unforgeable, raw_sig_inj, sign_correct of Crypto.v): crypto/ed25519 and crypto/rsa "
        "PKCS#1 v1.5 + SHA-256 accept a raw signature under a public key for exactly the message and key that produced it; "
        "signatures are deterministic. The run validates this only on the generated keys/messages (all pairs).",
        "base58btc / multibase codecs (go-multibase, mr-tron/base58, encoding/base64, go-base32): no longer assumed — concrete functions "
        "of BaseEnc.v / BaseDec.v with proved round trips; their agreement with the Go libraries is checked on %d (input, result) pairs this "
        "run (multibase prefixes 0 c C t T k K and the emoji base are not modelled: %d such strings skipped); "
        "x509 PKCS#1 parsing: oracle tables observed by the harness" % (be["pairs"], be["unmodelled_prefix_skipped"]),
        "go-varint ReadUvarint/FromUvarint/UvarintSize behave as Varint.v (minimal encodings below 2^63) — exercised by the framing cases",
        "harness observation of the exported API (did, principal/*, ucan/crypto/signature)",
        "targets the tree WITH fixes/C14_did_key_alias.diff (did.Decode rejects the generic 0x0d1d encoding of method \"key\")",
    ]


def _coq_eval(term, wd):
    os.makedirs(wd, exist_ok=True)
    f = os.path.join(wd, "replay_case.v")
    open(f, "w").write("From Ucanto Require Import Base Sig BaseEnc BaseDec Did Crypto Check_C14.\nOpen Scope N_scope.\n"
                       "Definition R := Eval vm_compute in (%s).\nPrint R.\n" % term)
    rc, out, _ = vlib.coqc(f)
    return vlib.parse_print(out, "R") if rc == 0 else "coqc failed: " + out[-300:]


def replay(path):
    doc = json.load(open(path))
    rp = doc.get("replay", {})
    print("property C14 key=%s\n  %s" % (doc.get("key"), doc.get("what")))
    ok, hbin, hlog = vlib.harness_build()
    if not ok:
        print(hlog[-2000:]); return 2
    kind = rp.get("kind")
    still = None
    out = ""
    if str(kind).startswith("base-"):
        # the Go library now against the concrete Coq function now
        rc, out, _ = vlib.run_harness(hbin, ["c14-replay", "base", str(rp["which"]), rp["input_hex"]])
        print("library now: " + out.strip())
        m = re.search(r"ok=(\w+) result=([0-9a-f]*)", out)
        exp = "None" if not m or m.group(1) != "true" else ('(Some (hx "%s"))' % m.group(2) if m.group(2) else "(Some (@nil N))")
        inp = '(hx "%s")' % rp["input_hex"] if rp["input_hex"] else "(@nil N)"
        vlib.coq_build()
        r = _coq_eval("check_base (%d, %s, %s)" % (rp["which"], inp, exp), os.path.join(vlib.WORK, "C14", "replay"))
        print("Coq function = library answer: %s" % r)
        print(json.dumps({k: v for k, v in rp.items() if k != "coq"}, indent=1)[:1500])
        if r != "true":
            print("=> still reproduces"); return 1
        print("=> does not reproduce on this tree"); return 0
    if kind == "signer-parse":
        rc, out, _ = vlib.run_harness(hbin, ["c14-replay", "signer-parse", str(rp["alg"]), rp["string_hex"]])
        print("implementation now: " + out.strip())
        print("recorded: ok=%s (%s)" % (rp.get("ok"), rp.get("what")))
        now_ok = "Parse: ok" in out
        print(json.dumps({k: v for k, v in rp.items() if k != "coq"}, indent=1)[:1500])
        if now_ok == bool(rp.get("ok")):
            print("=> still reproduces (same answer as recorded)"); return 1
        print("=> does not reproduce on this tree"); return 0
    if "string_hex" in rp:
        rc, out, _ = vlib.run_harness(hbin, ["c14-replay", "did-parse", rp["string_hex"]])
        kind = kind or "did-parse"
    elif "bytes_in" in rp:
        rc, out, _ = vlib.run_harness(hbin, ["c14-replay", "did-decode", rp["bytes_in"]])
        kind = kind or "did-decode"
    elif kind == "sig" or (kind is None and "bytes" in rp and len(rp) <= 2):
        rc, out, _ = vlib.run_harness(hbin, ["c14-replay", "sig", rp["bytes"]])
    elif kind == "verify":
        rc, out, _ = vlib.run_harness(hbin, ["c14-replay", "verify", str(rp["alg"]), rp["verifier"], rp["msg"], rp["sig"]])
    print("implementation now: " + out.strip())
    if out and ("did-parse" in str(kind) or "did-decode" in str(kind) or "string_hex" in rp or "bytes_in" in rp):
        m = re.search(r"class=(\w+)", out)
        if m and m.group(1) != "error":
            still = ("Parse(String())==d: false" in out) or ("Decode(Bytes())==d: false" in out) or ("String() returned=false" in out)
        else:
            still = False
    if "coq" in rp:
        wd = os.path.join(vlib.WORK, "C14", "replay")
        ok_, _ = vlib.coq_build()
        r = _coq_eval(rp["coq"], wd)
        print("model agrees with the RECORDED observation: %s" % r)
        if still is None:
            still = (r != "true")
    print(json.dumps({k: v for k, v in rp.items() if k != "coq"}, indent=1)[:1500])
    if still:
        print("=> still reproduces"); return 1
    print("=> does not reproduce on this tree" if still is False else "=> recorded case printed")
    return 0
