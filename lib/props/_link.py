"""Link integrity (coq/LinkIntegrity.v, coq/Check_LinkIntegrity.v, harness/cmd/harness/gen_link.go): the
block lists of the disguise scenarios as model-evaluated cases.

The harness writes link_<prop>.v next to the world case files: for every scenario the blocks (link bytes,
block bytes) exactly as they were handed to the library, the sha2-256 digests of the block bytes, and what the
accessors of delegation.NewDelegation(block) / delegation.NewDelegationView(link) / delegation.Extract(archive)
reported.  Coq evaluates LinkIntegrity.token_at / block_at (fields only when the link is the CIDv1 / dag-cbor /
sha2-256 CID of the bytes) and compares.  Disagreements are violations `link-integrity:<what>` of the property."""
import json, os
import vlib

CODES = {1: ("unbound-block-has-fields", "the delegation reports fields although its link is not the CIDv1 / dag-cbor / sha2-256 CID of its bytes (the model: no fields)"),
         2: ("bound-block-has-no-fields", "the delegation reports no fields although its link is the CID of its bytes (the model: the fields of the decoded token)"),
         3: ("issuer", "Issuer() differs from the model's reading of the bytes"),
         4: ("audience", "Audience() differs from the model's reading of the bytes"),
         5: ("capabilities", "Capabilities() differ from the model's reading of the bytes"),
         6: ("proofs", "the number of Proofs() differs from the model's reading of the bytes"),
         7: ("expiration", "Expiration() differs from the model's reading of the bytes"),
         8: ("lookup", "NewDelegationView / Extract found a block where the model's block table has none, or the converse"),
         9: ("observations", "the observation list does not match the block list")}


def evaluate(run, wd, prop):
    f = os.path.join(wd, "link_%s.v" % prop)
    jp = os.path.join(wd, "link_%s.json" % prop)
    name = ("link integrity: for every block list of the disguise scenarios, LinkIntegrity.token_at / block_at (fields only when the link is the "
            "CIDv1 / dag-cbor / sha2-256 CID of the bytes; first block under a link) = what the accessors of NewDelegation / NewDelegationView / Extract report")
    if not os.path.exists(f) or not os.path.exists(jp):
        run.obligation(name, False, "missing " + f)
        run.violation("link-integrity:no-cases", "the harness wrote no link-integrity case file", dict(), no_input=True)
        return
    idx = json.load(open(jp))
    cases = {c["id"]: c for c in idx["cases"]}
    for c in idx["cases"]:
        for b in c["blocks"]:
            if (b.get("NewDelegation") or {}).get("panic"):
                run.violation("link-integrity:panic", "case %d (%s): accessor panicked: %s" % (c["id"], c["label"], b["NewDelegation"]["panic"]), dict(case=c))
    res = vlib.run_case_files([f])
    r, log = res[f]
    if r is None:
        run.obligation(name, False, log[-600:])
        run.violation("link-integrity:broken", "the link-integrity case file could not be evaluated", dict(log=log[-1500:], case_file=f), no_input=True)
        return
    seen = set()
    for item in r:
        cid, pos, code = item
        key, desc = CODES.get(code, (str(code), "code %d" % code))
        c = cases.get(cid, {})
        if pos >= 1000:
            lk = (c.get("lookups") or [])[pos - 1000] if pos - 1000 < len(c.get("lookups") or []) else {}
            where = "%s of link %s" % (lk.get("how", "lookup"), lk.get("link_hex"))
            obs = lk.get("observed")
        else:
            b = (c.get("blocks") or [])[pos] if pos < len(c.get("blocks") or []) else {}
            where = "delegation.NewDelegation on block %d (link %s)" % (pos, b.get("link"))
            obs = b.get("NewDelegation")
        k = "link-integrity:" + key
        if k in seen:
            run.violation(k, "", dict())
            continue
        seen.add(k)
        run.violation(k, "case %d (%s), %s: %s" % (cid, c.get("label"), where, desc),
                      dict(case=c, position=pos, code=code, observed=obs, case_file=f,
                           how="coqc -Q coq Ucanto on the case file prints M = (case, block index or 1000 + lookup index, code); "
                               "the blocks of the case are listed here in hex with what the library reported"))
    run.obligation(name, not r, "%d disagreement(s)" % len(r))
    s = vlib.parse_nlist(vlib.parse_print(log, "S")) or [0, 0]
    run.cov["link_integrity"] = dict(cases=len(cases), blocks=idx.get("blocks"), lookups=sum(len(c.get("lookups") or []) for c in idx["cases"]),
                                     delegations_with_fields=s[0], delegations_without_fields=s[1], disagreements=len(r))
