"""C15 — no response can crash the client.  Coq: Client.v (decoded view) and MessageBytes.v (the reply's bytes:
car.Decode + NewBlockReader + NewMessage + typed dag-cbor decoding), tied by C15_bytes_refines.  PARTIAL only for the
reading of the receipts a report names (exercised under recover, not modelled)."""
import glob, json, os, shutil, subprocess, tempfile
import vlib
from props import _bytes


def check(run):
    env = vlib.standard_prelude(run)
    if not env["harness_ok"]:
        run.violation("harness-build", "harness does not build against /repo", dict(), no_input=True)
        return
    wd = os.path.join(run.wd, "cases")
    shutil.rmtree(wd, ignore_errors=True); os.makedirs(wd)
    rc, out, dt = vlib.run_harness(env["bin"], ["gen", "C15", "-tier", run.tier, "-seed", str(run.seed), "-out", wd], timeout=2400)
    if rc != 0:
        tail = out[-1500:]
        if "watchdog:" in out:
            run.violation("hang", "the client never returned: " + [l for l in out.splitlines() if "watchdog:" in l][0][:300], dict(log=tail))
        elif "panic:" in out or "fatal error" in out:
            run.violation("crash", "the client harness process crashed outside recover: " + tail[-500:], dict(log=tail))
        else:
            run.violation("harness-run", "harness gen C15 failed: " + tail[-600:], dict(log=tail), no_input=True)
        return
    stats = json.load(open(os.path.join(wd, "stats.json")))
    labels = json.load(open(os.path.join(wd, "labels.json")))
    for p in stats.get("panic_list") or []:
        site = p["panics"][0].split(":")[0]
        run.violation("panic:" + site, "client-side code panicked on reply %d (%s): %s" % (p["reply"], p["label"], "; ".join(p["panics"][:3])),
                      dict(reply=p["reply"], label=p["label"], panics=p["panics"], body_hex=p.get("body_hex"),
                           how="work/bin/harness gen C15 -seed %d -tier %s -out <dir>; reply index %d" % (run.seed, run.tier, p["reply"])))
    run.obligation("no panic in client.Execute, Get, Blocks, NewReceipt / ReceiptReader.Read or any receipt accessor", not stats.get("panic_list"))
    for d in stats.get("direct_violations") or []:
        run.violation("http:" + d["what"][:40], "reply %d (%s): %s" % (d["reply"], d["label"], d["what"]), d)
    run.obligation("oracle: through a real HTTP server and transport/http's channel (Content-Length, chunked, close-delimited and short bodies), "
                   "every non-200 status gives an error", not stats.get("direct_violations"))
    res = vlib.run_case_files(sorted(glob.glob(os.path.join(wd, "cases_*.v"))))
    ok = True
    for f, (r, o2) in res.items():
        if r is None:
            ok = False
            run.notes.append("case file failed: " + o2[-500:])
            continue
        for cid, code in r:
            ok = False
            what = {1: "error-vs-response outcome of client.Execute differs", 2: "results of Get differ"}.get(code, str(code))
            run.violation("model-vs-impl:" + what, "reply %d (%s): %s between the model and the implementation" % (cid, labels.get(str(cid), ""), what),
                          dict(reply=cid, label=labels.get(str(cid), ""), code=code, case_file=f))
    run.obligation("correspondence: model = implementation on every structured reply", ok)
    if not ok and not run.violations:
        run.violation("correspondence-broken", "case files could not be evaluated", dict(notes=run.notes), no_input=True)
    # byte-level model: every scripted reply body (raw mutations included) and the re-encoded variants
    bstats = _bytes.evaluate(run, wd, "bytes_C15", "reply bodies through client.Execute and request.Decode")
    if bstats:
        run.cov["bytes_model"] = bstats
    if not env["props_ok"] or not env["coq_ok"]:
        run.violation("proof-broken", "Coq development or Properties_C15.v no longer checks", dict(log=env["props_log"][-1500:]), no_input=True)
    run.cov.update(evaluations=stats["replies"], distinct_nontrivial=len(stats["distinct_signatures"]),
                   rule="scripted channel answering client.Execute: report absent (reply to an empty batch) / empty / foreign-keyed; proper reports with every "
                        "subset of receipt and invocation blocks missing; receipts with boundary fields (signature empty / code only, issuer absent / not a DID / "
                        "empty, ran / proof / fork / join links dangling, result with neither or both of ok and error, null metadata), with embedded and "
                        "bare ran; report value that is not a receipt; root that is not a message / missing / no roots / two roots; statuses 100..999; "
                        "1500 (60 000 thorough) raw mutations of a valid reply body; every structured reply, 60 raw ones and error statuses "
                        "201..504 with empty / HTML / CAR / long bodies again through a real HTTP server and transport/http's channel with Content-Length, chunked "
                        "(length unknown), HTTP/1.0 close-delimited and shorter-than-declared bodies. For each: client.Execute, Get for 4 links, block iteration, NewReceipt and "
                        "ReceiptReader.Read of every reported receipt and all accessors (Out, Ran, Fx, Meta, Issuer, Proofs, Signature, Root, Blocks) under recover; "
                        "error-vs-response and Get results of the structured replies compared with coq/Client.v; distinct = distinct (label, class, Get results, read/accessor outcomes)",
                   samples=stats["samples"][:6], classes=stats["classes"], http_framings=stats.get("http_framings"), structured_replies=stats["structured_replies"])
    run.assumptions += ["byte-level model (coq/MessageBytes.v): the multihash digest function and go-ipld-cbor's verdict on a non-canonical CAR header are parameters, "
                        "supplied per body by a reference walk that uses third-party code only; bindnode's acceptance of the AgentMessage schema (duplicate keys, strictness) "
                        "was established by reading and experiment (notes/NOTES_BYTES.md) and is compared with the implementation on every body",
                        "Client.v's structured cases still use the harness's construction knowledge (which roots / blocks / report a reply carries); the same bodies also go through the byte-level model",
                        "reading the receipts a report names (NewReceipt, ReceiptReader.Read, accessors) is exercised under recover, not modelled",
                        "panics are observed with recover in the calling goroutine (the client code path starts no goroutine that could panic elsewhere)"]


def replay(path):
    doc = json.load(open(path))
    if str(doc.get("key", "")).startswith("bytes-model:") and (doc.get("replay") or {}).get("body_hex") is not None:
        return _bytes.replay(doc)
    print(open(path).read())
    return 0
