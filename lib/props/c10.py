"""C10 — receipts are authentic and intact after transport."""
import glob, json, os, shutil
import vlib


def check(run):
    env = vlib.standard_prelude(run)
    if not env["harness_ok"]:
        run.violation("harness-build", "harness does not build against /repo", dict(), no_input=True)
        return
    wd = os.path.join(run.wd, "cases")
    shutil.rmtree(wd, ignore_errors=True); os.makedirs(wd)
    rc, out, dt = vlib.run_harness(env["bin"], ["gen", "C10", "-tier", run.tier, "-seed", str(run.seed), "-out", wd], timeout=2400)
    if rc != 0:
        run.violation("harness-run", "harness gen C10 failed: " + out[-800:], dict(log=out[-3000:]), no_input=("panic" not in out))
        return
    stats = json.load(open(os.path.join(wd, "stats.json")))
    for d in stats.get("direct_violations") or []:
        w = d["what"]
        if "alteration" in d:
            key = "verifies-after-altering:" + d["alteration"]
        elif w.startswith("read-back differs"):
            key = "read-back:" + w.split(": ", 1)[1].split(",")[0]
        elif "does not verify" in w:
            key = "signature-invalid-after-transport"
        elif "another principal" in w:
            key = "verifies-for-other-principal"
        else:
            key = "transport:" + w.split(":")[0][:40]
        run.violation(key, "receipt %s (%s): %s" % (d["receipt"], d["shape"], w), d)
    run.obligation("oracle: signature verifies over the re-encoded outcome of the transported receipt, fails after every alteration and for other "
                   "principals; readers give back result, effects, metadata, proofs, issuer, ran, signature as issued", not stats.get("direct_violations"))
    res = vlib.run_case_files(sorted(glob.glob(os.path.join(wd, "cases_*.v"))))
    ok = True
    for f, (r, o2) in sorted(res.items()):
        if r is None:
            ok = False
            run.notes.append("case file failed: %s: %s" % (os.path.basename(f), o2[-500:]))
            continue
        for rid, code in r:
            ok = False
            what = {1: "receipt root block bytes differ from the model's layout", 2: "the signed outcome bytes differ from the model's outcome_bytes",
                    3: "decoding the root block with the model does not give the receipt back"}.get(code, str(code))
            run.violation("receipt-bytes:" + str(code), "receipt %d: %s" % (rid, what), dict(receipt=rid, code=code, case_file=f))
    run.obligation("correspondence: ReceiptFormat.receipt_bytes / outcome_bytes = implementation bytes, receipt_decode inverts", ok)
    if not ok and not run.violations:
        run.violation("correspondence-broken", "case files could not be evaluated", dict(notes=run.notes), no_input=True)
    if not env["props_ok"] or not env["coq_ok"]:
        run.violation("proof-broken", "Coq development or Properties_C10.v no longer checks", dict(log=env["props_log"][-1500:]), no_input=True)
    run.cov.update(evaluations=stats["receipts"] + stats["verify_calls"], distinct_nontrivial=stats["distinct_shapes"],
                   rule="receipts issued with ok / error results over all IPLD kinds, 0..3 forks (links or embedded invocations), optional join, 0..4 metadata "
                        "keys, 0..2 proofs (links or embedded delegations), embedded or bare ran, Ed25519 / RSA / wrapped signers; each put into an agent message, "
                        "passed through the response codec and read back: Get by invocation link, signature verified by the harness over cbor(decoded outcome) of the "
                        "transported root block, 12 single-field alterations, other principals, read-back through receipt.NewReceipt; root and outcome bytes compared "
                        "with the model. distinct = distinct (ok, forks, join, meta, proofs, embedded) shapes",
                   samples=stats["samples"][:5], alteration_histogram=stats["alteration_histogram"], byte_cases=stats["byte_cases"])
    run.assumptions += ["symbolic signatures (valid_sign / valid_unique)", "go-ipld-prime dag-cbor as Cbor.v (checked)",
                        "receipts are decoded generically by the harness for the byte comparison (independent of bindnode)"]


def replay(path):
    print(open(path).read())
    return 0
