"""C20 — unacceptable requests are refused with a 4xx and run nothing.
Tie: (a) translator: carInbound.Accept + acceptable re-translated to Gallina (Gen_Accept2) and proved equal
to Http.accept_decision (Tie_Accept2); (b) correspondence: Content-Type x Accept x body product and a seeded
random header grammar through server.Request with call-recording service methods, and the HTTP channel
against an httptest server answering every status."""
import glob, json, os, shutil, tempfile
import vlib
from props import _bytes

OBS = ("failure", "status", "ct", "decodes", "receipts", "calls", "direct")
CHAN = {0: "response with that status", 1: "HTTPError carrying that status", 2: "HTTPError carrying another status",
        3: "another error", 4: "response with another status"}


def classify(case, exp, obs):
    """structural key of a disagreement (exp/obs: dicts over OBS)."""
    if obs["failure"] == 2:
        return "handle-panic"
    if exp["status"] in (0, 200, 400) and obs["status"] == 406:
        return "accept-admitting-value-refused-406"
    if exp["status"] == 406 and obs["status"] != 406:
        return "accept-non-admitting-value-accepted"
    if exp["status"] == 415 and obs["status"] != 415:
        return "content-type-not-refused-415"
    if exp["status"] != obs["status"] or exp["failure"] != obs["failure"]:
        return "status-differs-%s-for-%s" % (obs["status"] if not obs["failure"] else "failure", exp["status"] if not exp["failure"] else "failure")
    if obs["calls"] != exp["calls"]:
        return "handler-ran-on-refusal" if exp["calls"] == 0 else "handler-calls-differ"
    if exp["direct"] != obs["direct"]:
        return "request-decode-differs"
    return "reply-shape-differs"


def describe(rec, exp):
    c, o = rec["case"], rec["obs"]
    return ("Content-Type lines %r, Accept lines %r, body %s: implementation %s, model (proved) %s" % (
        c["content_type"], c["accept"], rec["body"],
        json.dumps({k: o[k] for k in OBS}), json.dumps(exp)))


def check(run):
    env = vlib.standard_prelude(run)
    if not env["harness_ok"]:
        run.violation("harness-build", "harness does not build against the repository", dict(), no_input=True)
        return
    # 1. translator tie
    tie = vlib.regen_and_tie("C20", env["bin"], ["Accept2"])["Accept2"]
    run.obligation("Tie_Accept2: translated carInbound.Accept / acceptable = Http.accept_decision / Http.acceptable (forall header values)",
                   tie["ok"], tie["mode"] + " " + tie["log"][-300:])
    run.cov["translator_tie"] = tie["mode"]
    # 2. correspondence
    wd = os.path.join(run.wd, "cases")
    shutil.rmtree(wd, ignore_errors=True); os.makedirs(wd)
    rc, out, dt = vlib.run_harness(env["bin"], ["gen", "C20", "-tier", run.tier, "-seed", str(run.seed), "-out", wd])
    if rc != 0:
        run.violation("harness-run", "harness gen C20 failed: " + out[-500:], dict(log=out[-2000:]), no_input=True)
        return
    stats = json.load(open(os.path.join(wd, "stats.json")))
    recs = [json.loads(l) for l in open(os.path.join(wd, "impl.jsonl"))]
    offsets = {f["file"]: f["offset"] for f in stats["files"]}
    files = sorted(glob.glob(os.path.join(wd, "cases_C20_*.v"))) + [os.path.join(wd, "client_C20.v")]
    res = vlib.run_case_files(files)
    corr_ok = True
    nbad = 0
    for f, (r, out) in sorted(res.items()):
        base = os.path.basename(f)
        if r is None:
            corr_ok = False
            run.notes.append("case file failed to evaluate: %s: %s" % (base, out[-400:]))
            continue
        if base == "client_C20.v":
            for i in r:
                corr_ok = False
                nbad += 1
                c = stats["client"][i]
                what = ("client channel, reply status %d (%s CAR body): channel gave '%s'%s; the property requires a response "
                        "exactly for 200 and an HTTPError carrying the status otherwise" % (
                            c["status"], "with" if c["car_body"] else "without", CHAN.get(c["chan"], c["chan"]),
                            "" if c["exec"] < 0 else ", client.Execute %s" % ("succeeded" if c["exec"] == 0 else "failed")))
                key = "client-non-200-not-an-error" if (c["status"] != 200 and c["chan"] in (0, 4)) or (c["status"] != 200 and c["exec"] == 0) else "client-channel-differs"
                run.violation(key, what, dict(client_status=c["status"], car_body=c["car_body"], observed=c, seed=run.seed))
            continue
        for item in r:
            corr_ok = False
            nbad += 1
            idx = offsets[base] + item[0]
            exp = dict(zip(OBS, item[1:]))
            rec = recs[idx]
            key = classify(rec["case"], exp, rec["obs"])
            run.violation(key, describe(rec, exp),
                          dict(content_type=rec["case"]["content_type"], accept=rec["case"]["accept"], body=rec["body"],
                               seed=run.seed, expected=exp, observed=rec["obs"], case_id=idx))
    run.obligation("correspondence: model = implementation on every request of the product, the random header grammar and the client sweep", corr_ok)
    if nbad:
        run.notes.append("%d disagreeing case(s)" % nbad)
    if not corr_ok and not run.violations and not run.known_hits:
        run.violation("correspondence-broken", "case files could not be evaluated", dict(notes=run.notes), no_input=True)
    if not tie["ok"] and not run.violations:
        run.violation("tie-broken", "Tie_Accept2 no longer checks against the negotiation code translated from the current source (%s); "
                      "the header sweep found no request on which the implementation differs from the model" % tie["mode"],
                      dict(theorem="coqgen/Tie_Accept2.v", mode=tie["mode"], log=tie["log"][-1500:]), no_input=True)
    # byte-level model of request.Decode: the 400 decision on the bytes of the body
    bstats = _bytes.evaluate(run, wd, "bytes_C20", "request bodies through request.Decode and server.Request with acceptable headers")
    if bstats:
        run.cov["bytes_model"] = bstats
    if not env["props_ok"] or not env["coq_ok"]:
        run.violation("proof-broken", "Coq development or Properties_C20.v no longer checks", dict(log=env["props_log"][-1500:]), no_input=True)
    cv = stats.get("configured_codec_violations") or []
    for v in cv[:5]:
        run.violation("configured-codec", "server with its own inbound codec (WithInboundCodec), body %s: %s" % (v.get("body"), v.get("what")), v)
    run.obligation("a server configured with its own inbound codec lets THAT codec decide: a request it refuses is answered with the codec's status and "
                   "runs nothing, a request it lets through is answered as the stock server answers it (%d requests)" % (stats.get("configured_codec_requests") or 0),
                   not cv and (stats.get("configured_codec_requests") or 0) > 0)
    hist = stats["status_histogram"]
    n = stats["product"] + stats["random"]
    run.cov.update(evaluations=n + stats["client_cases"],
                   distinct_nontrivial=sum(v for k, v in hist.items() if k != "415"),
                   rule="product of %d Content-Type x %d Accept header shapes (absent, empty, exact, parameters, lists, q-values, "
                        "near-miss substrings, several header lines, case, whitespace) x %d bodies, every request through "
                        "server.NewServer(...).Request with call-counting service methods, plus %d requests from a seeded random "
                        "header grammar; observables: failure, status, response Content-Type, reply decodes as agent message, "
                        "receipts, service-method calls, request.Decode verdict; client: thttp channel (and client.Execute for %d "
                        "statuses) against an httptest server answering 101, 200..599, 600, 700, 999 with and without a CAR body. "
                        "non-trivial = requests not refused with 415" % (
                            stats["content_types"], stats["accepts"], len(stats["bodies"]), stats["random"], 9),
                   samples=stats["samples"], status_histogram=hist, by_body=stats["by_body"],
                   client_cases=stats["client_cases"], client_histogram=stats["client_histogram"],
                   inner_handler_calls=stats["inner_handler_calls"],
                   bodies=[dict(name=b["name"], cls=b["class"], ninv=b["ninv"], len=b["len"]) for b in stats["bodies"]])
    run.assumptions += [
        "Go strings are byte sequences; strings.Split/Cut with a one-byte separator, strings.Trim with an ASCII cutset, "
        "strings.Join and http.Header.Get/Values behave as modelled in Strs.v / Http.v (exercised by the correspondence, not proved)",
        "the body class (decodable agent message with n invocations / undecodable / invocation block missing) is given to the model "
        "by the harness as constructed, cross-checked against request.Decode on every request",
        "server.Execute is a parameter of the model; in the harness every invocation names a registered call-counting service method",
        "client side: a reply was received (transport failures are outside the property); net/http delivers the status line unchanged",
        "translator verif-extract (harness/cmd/harness/extract.go + extract_accept.go) for the tie by translation",
    ]


def replay(path):
    rp = json.load(open(path))
    r = rp.get("replay", rp)
    if str(rp.get("key", "")).startswith("bytes-model:") and r.get("body_hex") is not None:
        return _bytes.replay(rp)
    print(json.dumps(rp, indent=1))
    if "content_type" not in r and "client_status" not in r:
        return 0
    ok, hbin, hlog = vlib.harness_build()
    if not ok:
        print(hlog[-2000:]); return 2
    cok, cout = vlib.coq_build()
    wd = tempfile.mkdtemp(dir=os.path.join(vlib.WORK, "C20"), prefix="replay_")
    arg = dict(client_status=r["client_status"]) if "client_status" in r else dict(content_type=r["content_type"], accept=r["accept"], body=r["body"])
    rc, out, _ = vlib.run_harness(hbin, ["c20-one", json.dumps(arg), str(r.get("seed", rp.get("seed", 1))), wd])
    print("implementation now:", out.strip())
    if rc != 0:
        return 2
    res = vlib.run_case_files([os.path.join(wd, "cases_C20_replay.v")])
    (m, lg), = res.values()
    if m is None:
        print(lg[-1500:]); return 2
    if m:
        print("model (proved) expects:", [dict(zip(OBS, it[1:])) if isinstance(it, tuple) else it for it in m])
        print("REPRODUCED: implementation and model disagree")
        return 1
    print("not reproduced: implementation agrees with the model on this case")
    return 0
