"""C16 — ability / resource patterns.  Tie: translator (Gen_Pattern + Tie_Pattern)
and exhaustive correspondence over the alphabet {a,b,A,/,*,:}."""
import glob, json, os, shutil
import vlib


def check(run):
    env = vlib.standard_prelude(run)
    if not env["harness_ok"]:
        run.violation("harness-build", "harness does not build against /repo", dict(), no_input=True)
        return
    # 1. translator tie
    tie = vlib.regen_and_tie("C16", env["bin"], ["Pattern"])["Pattern"]
    run.obligation("Tie_Pattern: translated ResolveAbility/ResolveResource/DefaultDerives = model (forall inputs)",
                   tie["ok"], tie["mode"] + " " + tie["log"][-300:])
    run.cov["translator_tie"] = tie["mode"]
    # 1b. chain level: what a pattern grants one or two delegations up (ability and resource patterns at every level of
    #     chains of depth 1..3, resources read by schema.DIDString) through the validator model
    from props import _worlds
    wstats = _worlds.run(run, env, "C16W", key_prefix="chain-model-vs-impl", extra_ties=())
    if wstats is not None:
        run.cov["pattern_chain_worlds"] = wstats.get("worlds")
        run.cov["pattern_chain_worlds_authorized"] = wstats.get("authorized")
    # 2. correspondence
    wd = os.path.join(run.wd, "cases")
    shutil.rmtree(wd, ignore_errors=True); os.makedirs(wd)
    rc, out, dt = vlib.run_harness(env["bin"], ["gen", "C16", "-tier", run.tier, "-seed", str(run.seed), "-out", wd])
    if rc != 0:
        run.violation("harness-run", "harness gen C16 failed: " + out[-500:], dict(log=out[-2000:]), no_input=True)
        return
    stats = json.load(open(os.path.join(wd, "stats.json")))
    strs = stats["strings_list"]
    files = sorted(glob.glob(os.path.join(wd, "cases_C16_*.v")))
    res = vlib.run_case_files(files)
    corr_ok = True
    nbad = 0
    for f, (r, out) in sorted(res.items()):
        if r is None:
            corr_ok = False
            run.notes.append("case file failed to evaluate: %s: %s" % (os.path.basename(f), out[-400:]))
            continue
        for item in r:
            nbad += 1
            corr_ok = False
            if f.endswith("rand.v"):
                run.violation("pattern-mismatch", "model and implementation disagree on random case #%s" % (item,),
                              dict(file=f, case=item))
            else:
                i, j = item
                run.violation("pattern-mismatch",
                              "pattern %r vs claimed %r: implementation's (ResolveAbility, ResolveResource, DefaultDerives) "
                              "differs from the proved characterisation" % (strs[i], strs[j]),
                              dict(pattern=strs[i], claimed=strs[j], file=f))
    run.obligation("correspondence: model = implementation on every enumerated pair", corr_ok)
    if not corr_ok and not run.violations:
        run.violation("correspondence-broken", "case files could not be evaluated", dict(notes=run.notes), no_input=True)
    if not tie["ok"] and not run.violations:
        # the translation of the current source is no longer proved equal to the model and the search (exhaustive short
        # strings, DID-like and realistic pairs) found no input on which they differ: the property is no longer SHOWN
        run.violation("tie-broken", "Tie_Pattern no longer checks against the functions translated from the current source (%s); "
                      "the exhaustive / random correspondence found no pair on which the implementation differs from the model" % tie["mode"],
                      dict(theorem="coqgen/Tie_Pattern.v", mode=tie["mode"], log=tie["log"][-1500:]), no_input=True)
    if not env["props_ok"] or not env["coq_ok"]:
        run.violation("proof-broken", "Coq development or Properties_C16.v no longer checks", dict(log=env["props_log"][-1500:]), no_input=True)
    n = stats["pairs"] + stats["random_pairs"]
    hist = stats["code_histogram_exhaustive"]
    run.cov.update(evaluations=3 * n, distinct_nontrivial=sum(v for k, v in hist.items() if int(k) != 0),
                   exhaustive=True,
                   rule="all ordered pairs of strings over {a,b,A,/,*,:} up to length %d (%d strings), each through "
                        "ResolveAbility, ResolveResource and DefaultDerives, plus %d seeded random realistic pairs; "
                        "non-trivial = at least one of the three functions grants" % (stats["max_len"], stats["strings"], stats["random_pairs"]),
                   samples=stats["samples"], code_histogram=hist, code_histogram_random=stats["code_histogram_random"],
                   code_meaning=stats["code_meaning"])
    run.assumptions += ["Go strings are byte sequences (==, HasPrefix, HasSuffix, slicing are byte-wise)",
                        "translator verif-extract (harness/cmd/harness/extract.go) for the tie by translation",
                        "harness observation of the three exported functions"]


def replay(path):
    print(open(path).read())
    return 0
