"""C04 — non-key issuers are accepted only with an authority-backed session."""
import vlib
from props import _worlds, _link

RULE = 'full product: attested link {this,other,none} x attestation issuer {authority, delegate with valid chain, delegate with broken chain, stranger} x attestation resource {authority DID, other} x window {valid,expired,not yet} x position of the non-key issued token {0..3} x key resolver {absent, correct key, wrong key} = 864 worlds; thorough adds 6000 random ones with decoy attestations, attestation not first capability, parent proof caveats'


def check(run):
    env = vlib.standard_prelude(run)
    if not env["harness_ok"]:
        run.violation("harness-build", "harness does not build against /repo", dict(), no_input=True)
        return
    stats = _worlds.run(run, env, "C04", extra_ties=())
    if stats is None:
        return
    import os
    _link.evaluate(run, os.path.join(run.wd, "cases"), "C04")
    _worlds.fill_cov(run, stats, RULE)
    run.cov["exhaustive"] = True
    run.assumptions += _ASSUME


_ASSUME = [
    "symbolic signatures: the harness tells the model which key produced each token's signature over its current fields (construction knowledge)",
    "links are numbered CIDs (worlds): SHA-256 collision freedom",
    "link integrity: U l is the token whose bytes hash to l — a theorem over the store defined by the supplied blocks (coq/LinkIntegrity.v), tied to delegation.Data() on the disguise block lists with the digest instantiated by observed (bytes, sha2-256) pairs; digest length 32 and collision freedom are explicit hypotheses of C04_store_deterministic / C04_link_names_one_token only",
    "Hres: the proof resolver returns the delegation whose link was asked for",
    "caller-supplied functions (can-issue, checker, resolvers, parser, capability readers and Derives) are the mirrored Go/Gallina pairs of harness/world.go and coq/Check_Validator.v"]


def replay(path):
    return _worlds.replay("C04", path)
