"""C04 — non-key issuers are accepted only with an authority-backed session."""
import vlib
from props import _worlds

RULE = 'full product: attested link {this,other,none} x attestation issuer {authority, delegate with valid chain, delegate with broken chain, stranger} x attestation resource {authority DID, other} x window {valid,expired,not yet} x position of the non-key issued token {0..3} x key resolver {absent, correct key, wrong key} = 864 worlds; thorough adds 6000 random ones with decoy attestations, attestation not first capability, parent proof caveats'


def check(run):
    env = vlib.standard_prelude(run)
    if not env["harness_ok"]:
        run.violation("harness-build", "harness does not build against /repo", dict(), no_input=True)
        return
    stats = _worlds.run(run, env, "C04", extra_ties=())
    if stats is None:
        return
    _worlds.fill_cov(run, stats, RULE)
    run.cov["exhaustive"] = True
    run.assumptions += _ASSUME


_ASSUME = [
    "symbolic signatures: the harness tells the model which key produced each token's signature over its current fields (construction knowledge)",
    "links are numbered CIDs: SHA-256 collision freedom",
    "Hres: the proof resolver returns the delegation whose link was asked for",
    "caller-supplied functions (can-issue, checker, resolvers, parser, capability readers and Derives) are the mirrored Go/Gallina pairs of harness/world.go and coq/Check_Validator.v"]


def replay(path):
    return _worlds.replay("C04", path)
