"""Token views: the tie between token BYTES and the tokens the validator model reasons about
(coq/TokenView.v, coq/Check_TokenView.v, harness/cmd/harness/tokenview.go).

The harness writes tview_*.v next to the world case files: for every token of every world its root
block bytes, the `mkTok …` term rendered from the Go accessors, and the observed results of
ucan.VerifySignature for every key of the cast.  Coq evaluates view_block(token_decode bytes) and
compares field by field.  `start` launches the evaluation in the background (it runs while the
worlds themselves are evaluated), `finish` reports."""
import glob, json, os, re, threading
import vlib

FIELDS = {1: "issuer", 2: "audience", 3: "capability-count", 4: "proofs", 5: "exp", 6: "nbf", 7: "sigcode",
          8: "signer", 9: "verifies", 10: "link-table", 11: "key-table", 12: "link-missing"}
WHAT = {1: "issuer (did.Decode + String of the `iss` bytes) differs from Issuer()",
        2: "audience (did.Decode + String of the `aud` bytes) differs from Audience()",
        3: "number of capabilities differs from Capabilities()",
        4: "proof links differ from Proofs()", 5: "expiration differs from Expiration()",
        6: "not-before (absent = 0) differs from NotBefore()",
        7: "signature code (varint at the head of the `s` bytes) differs from Signature().Code()",
        8: "the key whose symbolic signature check succeeds on the decoded token differs from the key the harness says signed the current fields",
        9: "the did:key verifiers for which Signing.verify holds differ from those ucan.VerifySignature accepted",
        10: "the world's link numbering is not an injective function of the CID bytes",
        11: "the world's key table repeats a key id", 12: "a token's link has no CID bytes in the link table"}


def field_of(code):
    if code >= 100:
        return "caveat" if (code - 100) % 2 else "capability"
    return FIELDS.get(code, "code-%d" % code)


def what_of(code):
    if code >= 100:
        i = (code - 100) // 2
        return ("caveats (nb) of capability %d differ from Capabilities()[%d].Nb()" % (i, i)) if (code - 100) % 2 \
            else ("ability / resource of capability %d differ from Capabilities()[%d]" % (i, i))
    return WHAT.get(code, "code %d" % code)


def start(wd):
    """Begin evaluating the tview files of a case directory; returns a handle for finish (None: no files)."""
    files = sorted(glob.glob(os.path.join(wd, "tview_*.v")))
    if not files:
        return None
    h = dict(files=files, res=None)

    def work():
        h["res"] = vlib.run_case_files(files)
    h["thread"] = threading.Thread(target=work)
    h["thread"].start()
    return h


def _unpack(defn):
    """bytes of a `(pk n [0x..;0x..]%uint63)` or `(hx "..")` constant body."""
    m = re.search(r"\(pk (\d+) \[([^\]]*)\]", defn)
    if m:
        out = bytearray()
        for x in m.group(2).split(";"):
            out += int(x.strip(), 16).to_bytes(7, "big")
        return bytes(out[:int(m.group(1))])
    m = re.search(r'\(hx "([0-9a-f]*)"\)', defn)
    return bytes.fromhex(m.group(1)) if m else b""


def token_record(path, wid, link):
    """(text of the tvtok record, bytes of its root block) for token `link` of world `wid` in a tview file."""
    txt = open(path).read()
    m = re.search(r"\{\| tv_id := %d;.*?tv_calls := \[[^\]]*\] \|\}" % wid, txt, re.S)
    if not m:
        return None, b""
    w = m.group(0)
    t = re.search(r"\{\| tt_link := %d; tt_bytes := (\S+?);.*?tt_verifs := \[[^\]]*\] \|\}" % link, w, re.S)
    if not t:
        return None, b""
    name = t.group(1)
    d = re.search(r"^Definition %s : bstr := (.*)\.$" % re.escape(name), txt, re.M)
    return t.group(0), (_unpack(d.group(1)) if d else _unpack(name))


def render_both(path, wid, link, full):
    """Re-evaluate one token in Coq and print both renderings (model's view of the bytes, harness's term)."""
    src = open(path).read().splitlines()
    body = "\n".join(l for l in src if not l.startswith("Definition M ") and not l.startswith("Print M"))
    body += ("\nEval vm_compute in (flat_map (fun w => if tv_id w =? %d then "
             "map (fun x => (check_tok tbl w %s x, model_token tbl w %s x, tt_tok x, model_verifs tbl w %s x, tt_verifs x)) "
             "(filter (fun x => tt_link x =? %d) (tv_toks w)) else []) worlds).\n" % (wid, full, full, full, link))
    f = os.path.join(os.path.dirname(path), "tview_replay.v")
    open(f, "w").write(body)
    rc, out, _ = vlib.coqc(f, timeout=900)
    return out[-6000:]


def finish(run, h, prop):
    """Join the evaluation and report: one obligation, violations `token-view:<field>`."""
    if h is None:
        return
    h["thread"].join()
    try:
        blocks = json.load(open(os.path.join(os.path.dirname(h["files"][0]), "tview_blocks_%s.json" % prop)))
    except Exception:
        blocks = {}
    ok = True
    seen = set()
    counts = {}
    for f, (r, out) in sorted(h["res"].items()):
        if r is None:
            ok = False
            run.notes.append("token-view case file failed to evaluate: %s: %s" % (os.path.basename(f), out[-600:]))
            continue
        full = "full" in os.path.basename(f)
        for item in r:
            ok = False
            wid, link, code = item
            fld = field_of(code)
            counts[fld] = counts.get(fld, 0) + 1
            key = "token-view:" + fld
            if key in seen:
                run.violation(key, "", dict())      # counted by finish() only once per key
                continue
            seen.add(key)
            rec, raw = token_record(f, wid, link)
            both = render_both(f, wid, link, "true" if full else "false")
            lab = blocks.get("%d/%d" % (wid, link))
            where = ("hand-written root block '%s' (family %d, block %d)" % (lab, wid, link)) if lab else ("world %d, token with link number %d" % (wid, link))
            run.violation(key, "%s: %s — the token the validator model reasons about is not the decoding of "
                          "the stored bytes as the Go accessors read them" % (where, what_of(code)),
                          dict(world_id=wid, token_link=link, code=code, hand_written_block=lab, case_file=f, bytes_hex=raw.hex(), token_record=rec,
                               coq_evaluation="(code, model's view of the bytes, harness rendering from the Go accessors, model verifier set, observed verifier set):\n" + both,
                               mode="observed (key, message, signature) table: the model rebuilds the signed message" if full else "per-token observed key set",
                               how="bin/check %s --replay <this file> prints this record; coqc on tview_replay.v next to the case file re-evaluates the token" % prop))
    try:
        st = json.load(open(os.path.join(os.path.dirname(h["files"][0]), "tview_stats_%s.json" % prop)))
    except Exception:
        st = {}
    run.obligation("token views: for every token of every world, view_block(token_decode(root block bytes)) = the token rendered from the Go "
                   "accessors (issuer, audience, capabilities, caveats, proofs, exp, nbf, signature code), and its signer / verifier set = "
                   "what ucan.VerifySignature was observed to accept", ok, json.dumps(counts))
    run.cov["token_views"] = dict(st, files=len(h["files"]), disagreements=counts)
    if not ok and not seen:
        run.violation("token-view:broken", "token-view case files could not be evaluated", dict(notes=run.notes[-3:]), no_input=True)
