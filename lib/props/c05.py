"""C05 — revocation is honoured over the whole chain."""
import vlib
from props import _worlds, _link

RULE = 'chain depth 0..5 x revoked token {none, invocation, each delegation, root} x second unrevoked chain {no,yes} x 4 caveat shapes, with a recording checker that rejects authorizations containing a revoked link; compared: the sequence of authorizations handed to the checker (links and capabilities along Proofs()), its verdicts, the final verdict and whether the error reports the revocation; thorough adds 8000 random chains'


def check(run):
    env = vlib.standard_prelude(run)
    if not env["harness_ok"]:
        run.violation("harness-build", "harness does not build against /repo", dict(), no_input=True)
        return
    stats = _worlds.run(run, env, "C05", extra_ties=())
    if stats is None:
        return
    import os
    _link.evaluate(run, os.path.join(run.wd, "cases"), "C05")
    _worlds.fill_cov(run, stats, RULE)
    run.cov["exhaustive"] = run.tier == 'quick'
    run.assumptions += _ASSUME


_ASSUME = [
    "symbolic signatures: the harness tells the model which key produced each token's signature over its current fields (construction knowledge)",
    "links are numbered CIDs (worlds): SHA-256 collision freedom",
    "link integrity: U l is the token whose bytes hash to l — a theorem over the store defined by the supplied blocks (coq/LinkIntegrity.v), tied to delegation.Data() on the disguise block lists with the digest instantiated by observed (bytes, sha2-256) pairs; digest length 32 and collision freedom are explicit hypotheses of C04_store_deterministic / C04_link_names_one_token only",
    "Hres: the proof resolver returns the delegation whose link was asked for",
    "caller-supplied functions (can-issue, checker, resolvers, parser, capability readers and Derives) are the mirrored Go/Gallina pairs of harness/world.go and coq/Check_Validator.v"]


def replay(path):
    return _worlds.replay("C05", path)
