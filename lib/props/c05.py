"""C05 — revocation is honoured over the whole chain."""
import vlib
from props import _worlds

RULE = 'chain depth 0..5 x revoked token {none, invocation, each delegation, root} x second unrevoked chain {no,yes} x 4 caveat shapes, with a recording checker that rejects authorizations containing a revoked link; compared: the sequence of authorizations handed to the checker (links and capabilities along Proofs()), its verdicts, the final verdict and whether the error reports the revocation; thorough adds 8000 random chains'


def check(run):
    env = vlib.standard_prelude(run)
    if not env["harness_ok"]:
        run.violation("harness-build", "harness does not build against /repo", dict(), no_input=True)
        return
    stats = _worlds.run(run, env, "C05", extra_ties=())
    if stats is None:
        return
    _worlds.fill_cov(run, stats, RULE)
    run.cov["exhaustive"] = run.tier == 'quick'
    run.assumptions += _ASSUME


_ASSUME = [
    "symbolic signatures: the harness tells the model which key produced each token's signature over its current fields (construction knowledge)",
    "links are numbered CIDs: SHA-256 collision freedom",
    "Hres: the proof resolver returns the delegation whose link was asked for",
    "caller-supplied functions (can-issue, checker, resolvers, parser, capability readers and Derives) are the mirrored Go/Gallina pairs of harness/world.go and coq/Check_Validator.v"]


def replay(path):
    return _worlds.replay("C05", path)
