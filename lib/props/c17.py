"""C17 — a block store can be shared between goroutines.

Static tie: the lock/access table of core/dag/blockstore/blockstore.go is re-extracted
(Gen_Locks.v) and Tie_Locks.v re-checked: discipline_ok = true, hence (Conc.lockset_sound)
no reachable race for any number of goroutines / programs / schedules.
Dynamic tie + search: the -race build of the harness runs seeded concurrent histories
(k in {2,4,8} goroutines x GOMAXPROCS in {1,2,4,16}; Put distinct/duplicate links, Get,
Iterator consumed while others Put, delegation.Attach + Blocks()); a race report or a
runtime fault is a concrete violation; every finished history is judged inside coqc by
Check_C17.check_history (sound for the linearizability spec of Blockstore.v)."""
import glob, json, os, re, shutil
from concurrent.futures import ThreadPoolExecutor
import vlib

KS = (2, 4, 8)
PROCS = (1, 2, 4, 16)
GORACE = "halt_on_error=1 exitcode=66 atexit_sleep_ms=0"


def _run_batch(racebin, wd, seed, first, n, k, procs, tag):
    args = ["c17run", "-seed", str(seed), "-first", str(first), "-n", str(n), "-k", str(k),
            "-procs", str(procs), "-variant", "mixed", "-out", wd, "-tag", tag]
    rc, out, dt = vlib.run_harness(racebin, args, timeout=900, env={"GORACE": GORACE})
    return dict(rc=rc, out=out, dt=dt, first=first, n=n, k=k, procs=procs, tag=tag, args=args)


def _classify(b):
    """None if the batch ran to completion, else (key, what)."""
    out = b["out"]
    if "WARNING: DATA RACE" in out or b["rc"] == 66:
        return "data-race", "the race detector reports a data race in the block store"
    if "fatal error: concurrent map" in out:
        return "concurrent-map-fault", "runtime fault: " + re.search(r"fatal error: [^\n]*", out).group(0)
    if b["rc"] != 0:
        m = re.search(r"(panic: [^\n]*|fatal error: [^\n]*)", out)
        return "harness-crash", "harness process died (rc=%d): %s" % (b["rc"], m.group(1) if m else out[-200:])
    return None


def _last_history(out):
    ids = re.findall(r"C17-HISTORY (\d+)", out)
    return int(ids[-1]) if ids else None


def _race_excerpt(out):
    i = out.find("WARNING: DATA RACE")
    if i < 0:
        i = out.find("fatal error:")
    txt = out[i:] if i >= 0 else out[-1500:]
    keep = [l for l in txt.splitlines() if l.strip()][:40]
    return "\n".join(keep)


def check(run):
    env = vlib.standard_prelude(run, need_race=True)
    if not env["harness_ok"]:
        run.violation("harness-build", "harness does not build against the repository", dict(), no_input=True)
        return
    # 1. static tie: extracted lock table obeys the discipline
    tie = vlib.regen_and_tie("C17", env["bin"], ["Locks"])["Locks"]
    run.obligation("Tie_Locks: table extracted from blockstore.go obeys the lockset discipline "
                   "(discipline_ok = true => race free for all thread counts / programs / schedules)",
                   tie["ok"], tie["mode"] + " " + tie["log"][-400:])
    run.cov["static_tie"] = tie["mode"]
    gen = os.path.join(vlib.WORK, "C17", "gen", "Gen_Locks.v")
    if os.path.exists(gen):
        tbl = re.findall(r"Definition bs_op_(\w+) : N := \d+\.\s+\(\* (.*?) \*\)", open(gen).read())
        run.cov["extracted_table"] = {n: d for n, d in tbl}
    # 2. dynamic: -race histories
    if not env["racebin"]:
        run.violation("race-build", "the -race build of the harness failed", dict(), no_input=True)
        return
    wd = os.path.join(run.wd, "cases")
    shutil.rmtree(wd, ignore_errors=True); os.makedirs(wd)
    per = 5 if run.tier == "quick" else 250
    cells = [(k, p) for k in KS for p in PROCS]
    jobs = []
    for ci, (k, p) in enumerate(cells):
        jobs.append((env["racebin"], wd, run.seed, ci * per, per, k, p, "k%d_p%d" % (k, p)))
    with ThreadPoolExecutor(max_workers=4) as ex:
        batches = list(ex.map(lambda a: _run_batch(*a), jobs))
    finished, dyn_ok = 0, True
    hist_by_id = {}
    stats = dict(ops=dict(put=0, get=0, iter=0), variants={}, by_k={}, by_procs={}, nontrivial=0,
                 dup_key_puts=0, iter_during_puts=0, setup=0)
    samples = []
    for b in batches:
        hp = os.path.join(wd, "hist_%s.jsonl" % b["tag"])
        hs = [json.loads(l) for l in open(hp)] if os.path.exists(hp) else []
        finished += len(hs)
        for h in hs:
            hist_by_id[(b["tag"], h["id"])] = h
            stats["variants"][h["variant"]] = stats["variants"].get(h["variant"], 0) + 1
            stats["by_k"][str(h["k"])] = stats["by_k"].get(str(h["k"]), 0) + 1
            stats["by_procs"][str(h["procs"])] = stats["by_procs"].get(str(h["procs"]), 0) + 1
            putters = {}
            for ti, t in enumerate(h["threads"]):
                for o in t:
                    stats["ops"][o["op"]] += 1
                    if o["op"] == "put":
                        putters.setdefault(o["k"], set()).add(ti)
            dup = any(len(s) > 1 for s in putters.values())
            # an iteration that saw a strict, non-empty prefix of the final order ran while others were putting
            mid = any(o["op"] == "iter" and 0 < len(o["items"]) < len(h["final"]) for t in h["threads"] for o in t)
            stats["dup_key_puts"] += dup
            stats["iter_during_puts"] += mid
            stats["setup"] += bool(h["setup"])
            stats["nontrivial"] += (dup or mid)
            if h["anomalies"]:
                dyn_ok = False
                run.violation("op-error", "Put/Get returned an error: %s" % h["anomalies"][:2],
                              dict(history=h, cmd=b["args"]))
            if len(samples) < 3:
                samples.append(dict(id=h["id"], k=h["k"], procs=h["procs"], variant=h["variant"],
                                    thread0=h["threads"][0][:4], final=h["final"][:6]))
        c = _classify(b)
        if c:
            dyn_ok = False
            key, what = c
            hid = _last_history(b["out"])
            run.violation(key, "%s (k=%d goroutines, GOMAXPROCS=%d, history %s)" % (what, b["k"], b["procs"], hid),
                          dict(seed=run.seed, k=b["k"], procs=b["procs"], history=hid, variant="mixed",
                               cmd="GORACE='%s' work/bin/harness-race c17run -seed %d -first %s -n 1 -k %d -procs %d -variant mixed -out <dir> -tag replay"
                                   % (GORACE, run.seed, hid, b["k"], b["procs"]),
                               report=_race_excerpt(b["out"])))
    run.obligation("-race runs: no race report, no runtime fault in %d batches" % len(batches), dyn_ok)
    # 3. the model judges every finished history
    files = sorted(glob.glob(os.path.join(wd, "cases_C17_*.v")))
    res = vlib.run_case_files(files)
    lin_ok, judged = True, 0
    for f, (r, out) in sorted(res.items()):
        tag = re.search(r"cases_C17_(.*)\.v$", f).group(1)
        if r is None:
            lin_ok = False
            run.notes.append("case file failed to evaluate: %s: %s" % (os.path.basename(f), out[-400:]))
            continue
        judged += open(f).read().count("mkH ")
        for hid in r:
            lin_ok = False
            h = hist_by_id.get((tag, hid), {})
            run.violation("not-linearizable",
                          "observed history %s (k=%s, GOMAXPROCS=%s) is not explained by any sequential execution of a merge "
                          "of the goroutines' operations (lost / duplicated / reordered block, stale Get, or iteration that is "
                          "not a prefix)" % (hid, h.get("k"), h.get("procs")),
                          dict(seed=run.seed, history=h, file=f, k=h.get("k"), procs=h.get("procs")))
    run.obligation("every finished history is linearizable (Check_C17.check_history, vm_compute)", lin_ok)
    if not lin_ok and not any(v[0] == "not-linearizable" for v in run.violations):
        run.violation("correspondence-broken", "case files could not be evaluated", dict(notes=run.notes), no_input=True)
    # 4. decision
    if not tie["ok"] and not run.violations:
        run.violation("lock-discipline", "the lock/access table extracted from blockstore.go no longer satisfies "
                      "Tie_Locks.v (%s); the -race search found no failing schedule" % tie["mode"],
                      dict(tie=tie["mode"], log=tie["log"][-1500:],
                           table=run.cov.get("extracted_table")), no_input=True)
    elif not tie["ok"]:
        run.notes.append("static tie failed as well (%s): %s" % (tie["mode"], tie["log"][-300:]))
    if not env["props_ok"] or not env["coq_ok"]:
        run.violation("proof-broken", "Coq development or Properties_C17.v no longer checks",
                      dict(log=env["props_log"][-1500:]), no_input=True)
    run.cov.update(evaluations=finished, distinct_nontrivial=stats["nontrivial"], judged_by_model=judged,
                   rule="seeded histories: k goroutines (k in 2,4,8) x GOMAXPROCS (1,2,4,16), %d per cell, each goroutine 3-10 ops "
                        "(Put of pool keys incl. duplicates and same-link/other-bytes variants, Get, full Iterator with yields; 25%% "
                        "through delegation.Attach + Blocks()); run under the race detector; non-trivial = some key put by two "
                        "goroutines or an iteration that observed a strict non-empty prefix of the final order" % per,
                   samples=samples, distribution=stats, batches=len(batches),
                   batch_seconds=round(sum(b["dt"] for b in batches), 1))
    run.assumptions += [
        "interleaving (sequentially consistent) semantics with an abstract correct RW lock; the Go memory model is not formalised (label: partial)",
        "sync.RWMutex implements the reader/writer contract (can_enter)",
        "lock/access extractor (harness/cmd/harness/extract_locks.go): closed list of syntactic forms, anything else is an error",
        "Go race detector + scheduler perturbation as the search for a failing schedule (a clean run is not a proof)",
        "greedy search in Check_C17.find_lin is complete (argued in NOTES_C17.md, not proved); its answers are validated, so soundness does not depend on it",
    ]


def replay(path):
    r = json.load(open(path))
    print(json.dumps(r, indent=1)[:6000])
    rp = r.get("replay", {})
    if rp.get("history") is None or isinstance(rp.get("history"), dict) and "k" not in rp:
        return 0
    hid = rp["history"]["id"] if isinstance(rp["history"], dict) else rp["history"]
    ok, rbin, log_ = vlib.harness_build(race=True)
    if not ok:
        print(log_[-2000:]); return 2
    wd = os.path.join(vlib.WORK, "C17", "replay")
    shutil.rmtree(wd, ignore_errors=True); os.makedirs(wd)
    bad = 0
    for attempt in range(20):
        b = _run_batch(rbin, wd, r["seed"], hid, 1, rp["k"], rp["procs"], "replay%d" % attempt)
        c = _classify(b)
        if c:
            print("attempt %d: %s\n%s" % (attempt, c[1], _race_excerpt(b["out"])))
            bad += 1
            break
        f = os.path.join(wd, "cases_C17_replay%d.v" % attempt)
        res = vlib.run_case_files([f])
        m = res[f][0]
        print("attempt %d: no race; model says failing ids = %s" % (attempt, m))
        if m:
            bad += 1
            break
    print("REPRODUCED" if bad else "not reproduced in 20 attempts (schedule dependent)")
    return 1 if bad else 0
