"""C03 — only tokens inside their validity window contribute."""
import vlib
from props import _worlds

RULE = 'position {invocation, proof at depth 1..4, session attestation, parent of a re-delegated attestation, resolver-supplied proof} x expiration {none, far past, now-1, now, now+1, far future} x not-before {unset, far past, now-1, now, now+1, far future} = 288 worlds, each built relative to the wall-clock second t at which validator.Access runs (the case is discarded and retried when the clock read before and after the call differs), model evaluated with now = t; thorough repeats over 6 rounds (distinct seconds)'


def check(run):
    env = vlib.standard_prelude(run)
    if not env["harness_ok"]:
        run.violation("harness-build", "harness does not build against /repo", dict(), no_input=True)
        return
    stats = _worlds.run(run, env, "C03", extra_ties=('Time',))
    if stats is None:
        return
    _worlds.fill_cov(run, stats, RULE)
    run.cov["exhaustive"] = True
    run.assumptions += _ASSUME


_ASSUME = [
    "symbolic signatures: the harness tells the model which key produced each token's signature over its current fields (construction knowledge)",
    "links are numbered CIDs: SHA-256 collision freedom",
    "Hres: the proof resolver returns the delegation whose link was asked for",
    "caller-supplied functions (can-issue, checker, resolvers, parser, capability readers and Derives) are the mirrored Go/Gallina pairs of harness/world.go and coq/Check_Validator.v"]


def replay(path):
    return _worlds.replay("C03", path)
