"""C09 — one receipt per invocation, under any schedule.  PARTIAL for 'free of data races':
lock discipline in an interleaving semantics (Tie_LocksExec) + race-detector search."""
import os
import vlib
from props import _batches


def check(run):
    env = vlib.standard_prelude(run, need_race=True)
    if not env["harness_ok"]:
        run.violation("harness-build", "harness does not build against /repo", dict(), no_input=True)
        return
    # static tie: the access table of the goroutine literal in server.Execute obeys the lockset discipline
    tie = vlib.regen_and_tie("C09", env["bin"], ["Locks/LocksExec"])["Locks/LocksExec"]
    run.obligation("Tie_LocksExec: access table extracted from server.Execute's goroutine obeys the lockset discipline "
                   "(=> no reachable race, Conc.lockset_sound)", tie["ok"], tie["mode"] + " " + tie["log"][-400:])
    run.cov["static_tie"] = tie["mode"]
    binp = env["racebin"]
    if binp is None:
        run.notes.append("race build unavailable; running without the race detector")
        binp = env["bin"]
    stats = _batches.run(run, env, "C09", binpath=binp, extra_env={"GORACE": "halt_on_error=1 exitcode=66"})
    run.cov["race_detector"] = env["racebin"] is not None
    if not tie["ok"] and not run.violations:
        run.violation("lock-discipline", "the access table extracted from server.Execute no longer obeys the lockset discipline "
                      "(Tie_LocksExec.v: %s); the -race search found no failing schedule" % tie["mode"],
                      dict(tie=tie["mode"], log=tie["log"][-1500:], theorem="coqgen/Tie_LocksExec.v execute_race_free"), no_input=True)
    if stats is None:
        return
    _batches.fill_cov(run, stats,
        "batches of 0,1,2,3,5,8,16,32,64 and random sizes with mixed outcomes (ok, handler error, unauthorized, not found, capability "
        "count), duplicate listings, handlers that sleep pseudo-randomly to perturb the schedule, GOMAXPROCS in {1,2,4,16}, in-process "
        "and over loopback HTTP (net/http/httptest + transport/http channel), plus rounds of 2..5 requests sent concurrently to ONE "
        "server; all under the race detector; for every invocation sent: Get(link), the decoded receipt's ran and issuer, class, "
        "number of receipts and handler calls compared with the model")
    run.assumptions += [
        "interleaving semantics with an abstract RW lock; the Go memory model is not formalised (partial)",
        "the go/ast lock/access extractor of harness/cmd/harness/extract_locks.go",
        "validator / server model assumptions as for C08"]


def replay(path):
    return _batches.replay("C09", path)
