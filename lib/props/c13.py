"""C13 — messages and delegation archives read back unchanged."""
import glob, json, os, shutil
import vlib

KIND = {"dblocks": "Delegation.Blocks() sequence differs from the model (d_links)", "mblocks": "message block sequence differs from the model (message_blocks)",
        "msg": "agent message root block differs from the model layout / does not read back", "arch": "archive variant block differs from the model layout"}


def check(run):
    env = vlib.standard_prelude(run)
    if not env["harness_ok"]:
        run.violation("harness-build", "harness does not build against /repo", dict(), no_input=True)
        return
    wd = os.path.join(run.wd, "cases")
    shutil.rmtree(wd, ignore_errors=True); os.makedirs(wd)
    rc, out, dt = vlib.run_harness(env["bin"], ["gen", "C13", "-tier", run.tier, "-seed", str(run.seed), "-out", wd], timeout=2400)
    if rc != 0:
        crashed = "panic" in out or "fatal error" in out
        run.violation("crash" if crashed else "harness-run", "harness gen C13 failed: " + out[-800:], dict(log=out[-3000:]), no_input=not crashed)
        return
    stats = json.load(open(os.path.join(wd, "stats.json")))
    for d in stats.get("direct_violations") or []:
        w = d["what"]
        key = "readback:" + w.split(":")[0][:50]
        run.violation(key, "%s %s: %s" % ("message" if "message" in d else "delegation", d.get("message", d.get("delegation")), w), d)
    run.obligation("oracle: links, invocation->receipt mapping, block sequence, every invocation with its transitive embedded proofs and attachments "
                   "read back unchanged through request/response codecs, Archive/Extract, Format/Parse; link = CID of root bytes", not stats.get("direct_violations"))
    res = vlib.run_case_files(sorted(glob.glob(os.path.join(wd, "cases_*.v"))))
    ok = True
    for f, (r, o2) in sorted(res.items()):
        kind = os.path.basename(f).split("_")[2]
        if r is None:
            ok = False
            run.notes.append("case file failed: %s: %s" % (os.path.basename(f), o2[-500:]))
            continue
        for cid_, code in r:
            ok = False
            run.violation("model:" + kind, "case %d: %s" % (cid_, KIND.get(kind, kind)), dict(case=cid_, kind=kind, code=code, case_file=f))
    run.obligation("correspondence: message / archive root block bytes and the block sequences of delegations and messages equal the model's", ok)
    if not ok and not run.violations:
        run.violation("correspondence-broken", "case files could not be evaluated", dict(notes=run.notes), no_input=True)
    if not env["props_ok"] or not env["coq_ok"]:
        run.violation("proof-broken", "Coq development or Properties_C13.v no longer checks", dict(log=env["props_log"][-1500:]), no_input=True)
    run.cov.update(evaluations=stats["delegations"] * 3 + stats["messages"] * 2, distinct_nontrivial=stats["distinct_shapes"],
                   rule="random delegation DAGs (depth <= 4, 0..2 proofs per token, shared sub-delegations, inline and link-only proofs, attached blocks, "
                        "expiration / no expiration / not-before / nonce): Blocks() sequence vs model, link = CID(root bytes), Extract(Archive(d)) and "
                        "Parse(Format(d)) compared on link, root bytes, signature, principals and transitively on every embedded proof and attachment; messages of "
                        "0..6 invocations sharing proofs and 0..6 receipts (embedded / bare ran, also for foreign links, several receipts for one invocation) "
                        "through request and response codecs: invocation links, invocation->receipt mapping, block sequence and every invocation view with its "
                        "proof chain compared with the originals; message / archive root bytes and block sequences compared with the model. distinct = shapes",
                   samples=stats["samples"], model_cases=stats["model_cases"])
    run.assumptions += ["links are content addresses (SHA-256 collision freedom); CAR framing per C12", "go-ipld-prime dag-cbor as Cbor.v",
                        "multibase / identity-multihash CID of Format/Parse are exercised, not modelled"]


def replay(path):
    print(open(path).read())
    return 0
