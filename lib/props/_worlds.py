"""Shared driver for the properties decided on the validator model (C01–C06, C19, C03, C08):
generate worlds with the harness, run them through the implementation, evaluate the model on the
same worlds inside coqc, report disagreements with the world as replay."""
import glob, json, os, re, shutil
import vlib

CODES = {1: "verdict (authorized vs not) differs", 2: "returned authorization path differs",
         3: "sequence of signature verifications differs", 4: "revocation-checker calls differ",
         5: "Derives argument log differs", 6: "error does not report the revocation as the model does",
         7: "unavailable top-level proofs reported by validator.Claim differ",
         9: "model ran out of fuel"}


def extract_world(path, wid):
    """Text of the wcase record with the given id (for the replay file)."""
    txt = open(path).read()
    m = re.search(r"\{\| wc_id := %d;.*?\|\}" % wid, txt, re.S)
    return m.group(0) if m else None


def run(run, env, prop, gen_args=(), key_prefix="model-vs-impl", extra_ties=("Pattern", "Time")):
    wd = os.path.join(run.wd, "cases")
    shutil.rmtree(wd, ignore_errors=True); os.makedirs(wd)
    rc, out, dt = vlib.run_harness(env["bin"], ["gen", prop, "-tier", run.tier, "-seed", str(run.seed), "-out", wd] + list(gen_args), timeout=2400)
    if rc != 0:
        run.violation("harness-run", "harness gen %s failed: %s" % (prop, out[-800:]), dict(log=out[-3000:]), no_input=True)
        return None
    stats = json.load(open(os.path.join(wd, "stats.json")))
    labels = {}
    lp = os.path.join(wd, "labels.json")
    if os.path.exists(lp):
        labels = json.load(open(lp))
    files = sorted(glob.glob(os.path.join(wd, "cases_*.v")))
    from props import _tokenview
    tvh = _tokenview.start(wd)          # tview_*.v (token bytes vs the model's tokens), evaluated alongside the worlds
    res = vlib.run_case_files(files)
    ok = True
    for f, (r, out) in sorted(res.items()):
        if r is None:
            ok = False
            run.notes.append("case file failed to evaluate: %s: %s" % (os.path.basename(f), out[-600:]))
            continue
        codes = CODES
        if "srv" in os.path.basename(f):
            from props import _batches
            codes = dict((k, "through the server: " + v) for k, v in _batches.CODES.items())
        for wid, code in r:
            ok = False
            lab = labels.get(str(wid), "")
            run.violation("%s:%s" % (key_prefix, codes.get(code, code)),
                          "world %d (%s): %s between the proved model and the implementation" % (wid, lab, codes.get(code, code)),
                          dict(world_id=wid, label=lab, code=code, case_file=f, world=extract_world(f, wid),
                               how="bin/check %s --replay <this file> re-evaluates the world in Coq; the Gallina record lists every token, the context and what the implementation did" % prop))
    run.obligation("correspondence: model = implementation on every generated world", ok)
    if not ok and not run.violations and not run.known_hits:
        run.violation("correspondence-broken", "case files could not be evaluated", dict(notes=run.notes), no_input=True)
    _tokenview.finish(run, tvh, prop)   # obligation "token views" + violations token-view:<field>
    for p in stats.get("panic_list", []) or []:
        run.violation("panic", "implementation panicked: " + p, dict(panic=p))
    for p in stats.get("accessor_mismatches") or []:
        run.violation("accessor:" + p.split(": ", 1)[-1].split(" = ")[0], "an accessor does not report what the token (or authorization) it belongs to says: " + p, dict(mismatch=p))
    ex = stats.get("extra") or {}
    if "direct_violations" in ex:
        for d in ex.get("direct_violations") or []:
            run.violation("direct:" + d.get("what", "")[:70], "%s: %s" % (d.get("what", ""), d), d)
        run.obligation("direct oracle (outside the model): " + str(ex.get("direct_oracle", "no direct violation")), not ex.get("direct_violations"))
        for k, v in ex.items():
            if k.endswith("_runs"):
                run.cov[k] = v
    if extra_ties:
        ties = vlib.regen_and_tie(prop, env["bin"], list(extra_ties))
        for n, t in ties.items():
            run.obligation("Tie_%s: functions translated from the source = model (forall inputs)" % n, t["ok"], t["mode"] + " " + t["log"][-300:])
            run.cov.setdefault("translator_ties", {})[n] = t["mode"]
            if not t["ok"]:
                run.notes.append("translator tie %s did not hold (%s)" % (n, t["mode"]))
                if not run.violations:
                    # part of the model this property's theorems rest on is no longer proved equal to the source and the
                    # worlds found no input on which implementation and model differ
                    run.violation("tie-broken:" + n, "Tie_%s no longer checks against the functions translated from the current source (%s); "
                                  "the generated worlds found no input on which the implementation differs from the model" % (n, t["mode"]),
                                  dict(theorem="coqgen/Tie_%s.v" % n, mode=t["mode"], log=t["log"][-1500:]), no_input=True)
    if not env["props_ok"] or not env["coq_ok"]:
        run.violation("proof-broken", "Coq development or Properties_%s.v no longer checks" % prop, dict(log=env["props_log"][-1500:]), no_input=True)
    return stats


def fill_cov(run, stats, rule, nontrivial_rule="distinct (label, verdict, path length, #verifications, #checker calls, #Derives calls) signatures"):
    sigs = stats.get("distinct_world_signatures", {})
    run.cov.update(evaluations=stats.get("worlds", 0), distinct_nontrivial=len(sigs),
                   rule=rule + "; non-trivial/distinct = " + nontrivial_rule, samples=stats.get("samples", [])[:6])
    for k in ("authorized", "panics", "by_depth", "by_defect_kind", "by_number_of_defects", "decoy_proofs",
              "worlds_with_rsa_issuer", "signature_verifications_observed", "by_generator", "extra"):
        if k in stats:
            run.cov[k] = stats[k]


def replay(prop, path):
    d = json.load(open(path))
    rp = d.get("replay", {})
    print(json.dumps({k: v for k, v in rp.items() if k != "world"}, indent=1))
    w = rp.get("world")
    if not w:
        return 0
    wd = os.path.join(vlib.WORK, prop, "replay")
    os.makedirs(wd, exist_ok=True)
    src = open(rp["case_file"]).read() if os.path.exists(rp.get("case_file", "")) else ""
    defs = "\n".join(l for l in src.splitlines() if l.startswith("Definition s_"))
    f = os.path.join(wd, "replay.v")
    open(f, "w").write("From Ucanto Require Import Base Pattern Time Validator Check_Validator.\nOpen Scope N_scope.\n%s\n"
                       "Definition w : wcase := %s.\nEval vm_compute in (check_world w).\n"
                       "Eval vm_compute in (match run_world w with (r, ev) => (match r with AOk a => Some (path_of a) | _ => None end, ev_verifies ev) end).\n" % (defs, w))
    rc, out, _ = vlib.coqc(f)
    print(out)
    return 0
