"""C02 — caveats written in a delegation bind everything derived from it."""
import vlib
from props import _worlds

RULE = "exhaustive product: chain depth 1..4 x restricting level x field {link,tag,max,tags} x claim {omits,matches,contradicts} x restatement at the level below {none,tighter,looser}; non-map / ill-typed / unknown-field caveats in a delegation; re-delegated ucan/attest with parent proof caveat {none,this,other,null,*,mismatch}; thorough adds 4000 random chains with random restricting caveats. Compared: verdict, path, and the (claimed, delegated, verdict) argument log of the capability's Derives function"


def check(run):
    env = vlib.standard_prelude(run)
    if not env["harness_ok"]:
        run.violation("harness-build", "harness does not build against /repo", dict(), no_input=True)
        return
    stats = _worlds.run(run, env, "C02", extra_ties=('Pattern',))
    if stats is None:
        return
    _worlds.fill_cov(run, stats, RULE)
    run.cov["exhaustive"] = run.tier == 'quick'
    run.assumptions += _ASSUME


_ASSUME = [
    "symbolic signatures: the harness tells the model which key produced each token's signature over its current fields (construction knowledge)",
    "links are numbered CIDs: SHA-256 collision freedom",
    "Hres: the proof resolver returns the delegation whose link was asked for",
    "caller-supplied functions (can-issue, checker, resolvers, parser, capability readers and Derives) are the mirrored Go/Gallina pairs of harness/world.go and coq/Check_Validator.v"]


def replay(path):
    return _worlds.replay("C02", path)
