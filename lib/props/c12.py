"""C12 — CAR decoding delivers only blocks whose bytes match their CID.
Proofs: coq/Cid.v, coq/Car.v (Properties_C12.v).  Tie: differential correspondence of the
model's car_encode / car_decode with car.Encode / car.Decode on mutated archives (every
truncation point, single-byte flips, splices, special headers), plus direct checks of the
property on the implementation's observations."""
import glob, json, os, re, shutil, subprocess, sys, tempfile
import vlib


def _describe(meta, case):
    m = case["mut"]
    if m == "trunc":
        return "archive %d (%d bytes) cut at byte %d [%s]" % (meta["archive_id"], len(meta["base"]) // 2, case["n"], case["tag"])
    if m == "flip":
        return "archive %d (%d bytes) byte %d xor 0x%02x [%s]" % (meta["archive_id"], len(meta["base"]) // 2, case["n"], case["x"], case["tag"])
    if m == "raw":
        return "archive %d variant [%s] (%d bytes)" % (meta["archive_id"], case["tag"], len(case.get("raw", "")) // 2)
    return "archive %d unchanged [%s]" % (meta["archive_id"], case["tag"])


def _archive_hex(meta, case):
    base = bytes.fromhex(meta["base"])
    m = case["mut"]
    if m == "trunc":
        return base[:case["n"]].hex()
    if m == "flip":
        b = bytearray(base); b[case["n"]] ^= case["x"]; return bytes(b).hex()
    if m == "raw":
        return case.get("raw", "")
    return base.hex()


def _key_for(tag, what="decode"):
    if tag.startswith("trunc"):
        return "truncation-mismatch"
    if tag.startswith("flip"):
        return "corruption-mismatch"
    if tag.startswith("header"):
        return "header-mismatch"
    return what + "-mismatch"


def check(run):
    env = vlib.standard_prelude(run)
    if not env["harness_ok"]:
        run.violation("harness-build", "harness does not build against the repository", dict(), no_input=True)
        return
    wd = os.path.join(run.wd, "cases")
    shutil.rmtree(wd, ignore_errors=True); os.makedirs(wd)
    rc, out, dt = vlib.run_harness(env["bin"], ["gen", "C12", "-tier", run.tier, "-seed", str(run.seed), "-out", wd])
    if rc != 0:
        run.violation("harness-run", "harness gen C12 failed: " + out[-500:], dict(log=out[-2000:]), no_input=True)
        return
    stats = json.load(open(os.path.join(wd, "stats.json")))
    files = sorted(glob.glob(os.path.join(wd, "cases_C12_*.v")))
    res = vlib.run_case_files(files)
    # files with disagreements are evaluated once more with the model of the PINNED tree (fixed = false):
    # a case that only the repaired model rejects is exactly finding F-C12 (io.EOF inside a section ends
    # the iteration silently), i.e. fixes/C12_eof.diff is not applied to the tree under check
    pinned_only = {}
    pdir = os.path.join(run.wd, "pinned")
    shutil.rmtree(pdir, ignore_errors=True); os.makedirs(pdir)
    pfiles = []
    for f, (r, log) in sorted(res.items()):
        if r:
            pf = os.path.join(pdir, os.path.basename(f))
            open(pf, "w").write(open(f).read().replace("check_all true", "check_all false"))
            pfiles.append(pf)
    if pfiles:
        for pf, (r, log) in vlib.run_case_files(pfiles).items():
            pinned_only[os.path.basename(pf)] = set(r) if r is not None else None
    corr_ok, enc_ok = True, True
    nmis = 0
    for f, (r, log) in sorted(res.items()):
        if r is None:
            corr_ok = False
            run.notes.append("case file failed to evaluate: %s: %s" % (os.path.basename(f), log[-400:]))
            continue
        meta = json.load(open(f[:-2] + ".json"))
        for code in r:
            nmis += 1
            kind, cid = code // 1000000, code % 1000000
            if kind == 3:
                enc_ok = False
                run.violation("encode-mismatch",
                              "car.Encode output differs from the model's car_encode for archive %d (%d roots, %d blocks)"
                              % (meta["archive_id"], meta["roots"], meta["blocks"]),
                              dict(file=f, archive=meta["base"], kind="encode"))
                continue
            corr_ok = False
            case = meta["cases"][cid]
            if kind == 2:
                run.violation("message-decode-mismatch",
                              "request/response.Decode (car.Decode -> blockstore.NewBlockReader -> message.NewMessage) returned %s "
                              "where the model expects %s, on %s; car.Decode itself returned: %s"
                              % ((("a message", "an error") if case["msg"] == 1 else ("an error", "a message"))
                                 + (_describe(meta, case), case["obs"][:300])),
                              dict(file=f, case=cid, tag=case["tag"], archive=_archive_hex(meta, case),
                                   observed=case["obs"], message_decode=case["msg"]))
                continue
            pm = pinned_only.get(os.path.basename(f))
            is_fc12 = pm is not None and code not in pm
            run.violation("eof-inside-section" if is_fc12 else _key_for(case["tag"]),
                          "car.Decode disagrees with the proved model on %s; implementation returned: %s%s"
                          % (_describe(meta, case), case["obs"][:300],
                             " -- this is the behaviour of the pinned tree (an io.EOF after the first byte of a section ends the "
                             "iteration silently); fixes/C12_eof.diff is not applied" if is_fc12 else ""),
                          dict(file=f, case=cid, tag=case["tag"], archive=_archive_hex(meta, case),
                               observed=case["obs"], message_decode=case["msg"]))
    for d in (stats.get("direct") or []):
        key = {"silent-truncation": "eof-inside-section", "integrity": "integrity-violated",
               "decode-panic": "decode-panic", "iterator-does-not-end": "iterator-does-not-end",
               "message-decode-panic": "decode-panic"}.get(d["kind"], d["kind"])
        run.violation(key, "%s [%s]: %s; implementation returned: %s" % (d["kind"], d["tag"], d["detail"], d["obs"][:300]),
                      dict(archive=d["archive"], tag=d["tag"], kind=d["kind"], observed=d["obs"]))
    run.obligation("correspondence (encode): model car_encode = car.Encode byte for byte on every generated archive", enc_ok)
    run.obligation("correspondence (decode): model car_decode predicts car.Decode on every mutated archive", corr_ok,
                   "%d mismatching case(s)" % nmis)
    run.obligation("direct check: every delivered block hashes to its CID; no cut inside a section goes unreported; no panic",
                   not stats.get("direct"))
    if not corr_ok and not run.violations and not run.known_hits:
        run.violation("correspondence-broken", "case files could not be evaluated", dict(notes=run.notes), no_input=True)
    if not env["props_ok"] or not env["coq_ok"]:
        run.violation("proof-broken", "Coq development or Properties_C12.v no longer checks",
                      dict(log=env["props_log"][-1500:]), no_input=True)
    run.cov.update(
        evaluations=stats["cases"] + stats["encode_checked"],
        distinct_nontrivial=stats["nontrivial"],
        rule="%d archives built with car.Encode (random: 0..6 blocks, data 0..300 bytes, duplicate CIDs, CIDv0/v1, "
             "identity / sha2-256 / sha2-512 / truncated sha2-256 / blake2b / sha1 / sha3, 0..3 roots; plus real "
             "request messages), compared byte for byte with car_encode; each archive decoded after: every truncation "
             "point and every position xor 0x01 / 0x80 (archives up to 420 bytes: all positions; larger: header, length "
             "prefixes, CIDs, data edges and a random sample), section delete / duplicate / swap / foreign data, "
             "zero-length sections, over-long, overflowing and non-minimal length prefixes, trailing garbage, header "
             "versions 0/2/23/24/300/2^40, nil or empty roots, header only, empty input, non-canonical header CBOR; "
             "non-trivial = the observation differs from the unmutated archive's" % stats["archives"],
        samples=stats["samples"][:8], by_mutation=stats["by_tag"], by_outcome=stats["by_outcome"],
        block_kinds=stats["block_kinds"], blocks_per_archive=stats["blocks_per_archive"],
        roots_per_archive=stats["roots_per_archive"], archive_sizes=stats["archive_sizes"],
        archives_with_duplicate_cids=stats["archives_with_duplicate_cids"],
        blocks_with_empty_data=stats["blocks_with_empty_data"],
        header_oracle=stats["header_oracle"], message_decode=stats["message_decode"],
        hash_oracle_entries=stats["hash_entries"], case_files=len(files))
    run.assumptions += [
        "hashing is symbolic: mh_digest (go-multihash Sum for non-identity codes) is a universally quantified function; "
        "theorems need no property of it except C12_corrupt_hashed (no second preimage for the one pair at hand)",
        "go-car util.LdRead / ReadNode, encoding/binary.ReadUvarint, go-cid CidFromReader / CidFromBytes / Prefix / Sum and "
        "go-varint are modelled from their sources and validated by the correspondence run, not verified",
        "go-ipld-cbor (refmt) decoding of header bytes that are not the canonical dag-cbor of {roots, version} is an oracle "
        "(universally quantified in the theorems; supplied by the harness in the correspondence run)",
        "the model targets the tree with fixes/C12_eof.diff applied (io.EOF inside a section is an error)",
        "harness: reference walk with go-car/go-cid/go-multihash supplies the hash answers; observation of car.Decode by a "
        "consumer that never stops; request/response.Decode observed as message vs error",
    ]


def replay(path):
    rp = json.load(open(path))
    print(json.dumps({k: rp[k] for k in ("property", "key", "what")}, indent=1))
    arch = rp.get("replay", {}).get("archive")
    if arch is None:
        print("no archive in this replay file (proof or machinery failure): see 'what'")
        return 1
    ok, hbin, hlog = vlib.harness_build()
    if not ok:
        print(hlog[-2000:]); return 1
    wd = tempfile.mkdtemp(prefix="c12replay", dir=vlib.WORK)
    rc, out, _ = vlib.run_harness(hbin, ["c12one", arch, wd] + (["msg"] if rp["replay"].get("message_decode") else []))
    print("implementation:", out.strip())
    rc2, out2, _ = vlib.coqc(os.path.join(wd, "replay_case.v"))
    mism = vlib.parse_nlist(vlib.parse_print(out2, "M"))
    print("model (repaired tree)  (header ok?, [0 = Err | 1 + data length = Ok ...]):", vlib.parse_print(out2, "model_fixed"))
    print("model (pinned tree)    :", vlib.parse_print(out2, "model_pinned"))
    print("model agrees with implementation:", mism == [],
          "" if mism == [] else "(1000000: car.Decode differs; 2000000: request/response.Decode verdict differs) %s" % (mism,))
    return 0 if mism == [] else 1
