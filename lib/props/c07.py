"""C07 — issued tokens verify; any change to a signed token is detected."""
import glob, json, os, shutil
import vlib


def check(run):
    env = vlib.standard_prelude(run)
    if not env["harness_ok"]:
        run.violation("harness-build", "harness does not build against /repo", dict(), no_input=True)
        return
    wd = os.path.join(run.wd, "cases")
    shutil.rmtree(wd, ignore_errors=True); os.makedirs(wd)
    rc, out, dt = vlib.run_harness(env["bin"], ["gen", "C07", "-tier", run.tier, "-seed", str(run.seed), "-out", wd], timeout=2400)
    if rc != 0:
        run.violation("harness-run", "harness gen C07 failed: " + out[-800:], dict(log=out[-3000:]), no_input=("panic" not in out))
        return
    stats = json.load(open(os.path.join(wd, "stats.json")))
    for d in stats.get("direct_violations") or []:
        key = "verifies-after-altering:" + d["alteration"] if "alteration" in d else "issued-token-does-not-verify"
        if "another principal" in d["what"]:
            key = "verifies-for-other-principal"
        run.violation(key, "token %s (%s): %s" % (d["token"], d["label"], d["what"]), d)
    run.obligation("oracle: every issued token verifies (fresh and after encode/decode), no altered token and no other principal verifies",
                   not stats.get("direct_violations"))
    for u in (stats.get("issued_but_undecodable") or [])[:3]:
        run.violation("issued-token-undecodable", "the library cannot decode the root block of a token it issued (%s, caveat kinds %s)" % (u["label"], u["nb_kinds"]), u)
    res = vlib.run_case_files(sorted(glob.glob(os.path.join(wd, "cases_*.v"))))
    ok = True
    for f, (r, o2) in sorted(res.items()):
        if r is None:
            ok = False
            run.notes.append("case file failed: %s: %s" % (os.path.basename(f), o2[-500:]))
            continue
        for tid, code in r:
            ok = False
            what = {1: "the token root block bytes differ from the model's layout (Formats.token_bytes)",
                    2: "decoding the block with the model does not give the token back"}.get(code, str(code))
            run.violation("token-bytes:" + str(code), "token %d: %s" % (tid, what), dict(token=tid, code=code, case_file=f))
    run.obligation("correspondence: Formats.token_bytes = root block bytes, token_decode inverts it, for every issued token", ok)
    if not ok and not run.violations:
        run.violation("correspondence-broken", "case files could not be evaluated", dict(notes=run.notes), no_input=True)
    if not env["props_ok"] or not env["coq_ok"]:
        run.violation("proof-broken", "Coq development or Properties_C07.v no longer checks", dict(log=env["props_log"][-1500:]), no_input=True)
    run.cov.update(evaluations=stats["tokens"] + stats["verify_calls"] + stats["alterations_checked"],
                   distinct_nontrivial=stats["option_masks_covered"] * 3 + len(stats["alteration_histogram"]),
                   rule="tokens issued through delegation.Delegate with every subset of {explicit expiration, no expiration, not-before, nonce, facts, "
                        "proofs} (all 64 masks, then random ones), 1..3 capabilities whose caveats and fact values are random IPLD values of all kinds "
                        "(nested maps with keys of different lengths, lists, links, bytes, ints, unicode / arbitrary-byte strings), Ed25519, RSA and "
                        "wrapped issuers; for each: VerifySignature fresh and after re-decoding the root block, against every other principal, and after "
                        "each of 18 single-field alterations; the root block bytes compared with the model's layout. distinct = option masks x key kinds + alteration kinds",
                   samples=stats["samples"][:5], alteration_histogram=stats["alteration_histogram"],
                   option_masks_covered=stats["option_masks_covered"], verify_calls=stats["verify_calls"],
                   alterations_checked=stats["alterations_checked"])
    run.assumptions += ["symbolic signatures: valid_sign / valid_unique (Ed25519 and RSA PKCS#1 v1.5 are deterministic and unforgeable)",
                        "dag-json + base64url + '.' joining of header and payload is injective on well-formed values and invariant under map key order (json_inj, json_canon, join_inj): exercised through VerifySignature, not modelled byte for byte",
                        "DID and CID string encodings injective (C14)",
                        "go-ipld-prime's dag-cbor codec behaves as Cbor.v (checked by bin/check CBOR and by the byte comparison here)",
                        "top-level null caveats / fact values and unsigned integers above int64 are outside the generator (the library cannot issue or re-read such tokens; not in the property's list of kinds)"]


def replay(path):
    print(open(path).read())
    return 0
