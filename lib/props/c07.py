"""C07 — issued tokens verify; any change to a signed token is detected."""
import glob, json, os, shutil
import vlib

SIGN_WHAT = ("the message VerifySignature checks (formatter.FormatSignPayload on the payload rebuilt from the token, or the encodeSignaturePayload "
             "error for a payload that is not signable) differs from the model's signing_input (Signing.v / DagJson.v)")
JSON_WHAT = {
    "nodes": {1: "ipld.Encode(node, dagjson.Encode) differs from the model's json_encode (bytes, or success / failure)",
              2: "the harness's verdict 'all strings valid UTF-8 (utf8.ValidString), no reserved slash map' differs from the model's json_safe"},
    "cids": {1: "cid.String() differs from the model's cid_string"},
    "dids": {1: "did.Decode(bytes).String() differs from the model's did_string", 2: "did.Decode accepts / rejects unlike the model's did_okb"},
    "strs": {1: "utf8.ValidString differs from the model's utf8_valid", 2: "base64.RawStdEncoding differs from b64std", 3: "base64.RawURLEncoding differs from b64url",
             4: "multibase base32 differs from b32lower", 5: "multibase base58btc differs from b58enc"},
}


def check(run):
    env = vlib.standard_prelude(run)
    if not env["harness_ok"]:
        run.violation("harness-build", "harness does not build against /repo", dict(), no_input=True)
        return
    wd = os.path.join(run.wd, "cases")
    shutil.rmtree(wd, ignore_errors=True); os.makedirs(wd)
    rc, out, dt = vlib.run_harness(env["bin"], ["gen", "C07", "-tier", run.tier, "-seed", str(run.seed), "-out", wd], timeout=2400)
    if rc != 0:
        run.violation("harness-run", "harness gen C07 failed: " + out[-800:], dict(log=out[-3000:]), no_input=("panic" not in out))
        return
    rc, out, dt = vlib.run_harness(env["bin"], ["gen", "JSON", "-tier", run.tier, "-seed", str(run.seed), "-out", wd], timeout=2400)
    if rc != 0:
        run.violation("harness-run", "harness gen JSON failed: " + out[-800:], dict(log=out[-3000:]), no_input=("panic" not in out))
        return
    stats = json.load(open(os.path.join(wd, "stats.json")))
    jstats = json.load(open(os.path.join(wd, "stats_json.json")))
    plain = True
    for d in stats.get("direct_violations") or []:
        if d.get("key"):
            # a dag-json collision (a different token value with the same signed bytes still verifies), or Issue and VerifySignature
            # disagreeing on whether a payload is signable
            key = d["key"]
            if key != "json-integral-float":
                plain = False
        else:
            plain = False
            key = "verifies-after-altering:" + d["alteration"] if "alteration" in d else "issued-token-does-not-verify"
            if "another principal" in d["what"]:
                key = "verifies-for-other-principal"
        run.violation(key, "token %s (%s): %s" % (d["token"], d["label"], d["what"]), d)
    run.obligation("oracle: every issued token verifies (fresh and after encode/decode); a payload Issue refuses is refused by VerifySignature too; no altered "
                   "token and no other principal verifies (the integral-float alteration is reported under its finding key)", plain)
    for u in (stats.get("issued_but_undecodable") or [])[:3]:
        run.violation("issued-token-undecodable", "the library cannot decode the root block of a token it issued (%s, caveat kinds %s)" % (u["label"], u["nb_kinds"]), u)
    for p in (jstats.get("go_problems") or [])[:3]:
        run.violation("dagjson-go-panic", p, dict(problem=p))
    res = vlib.run_case_files(sorted(glob.glob(os.path.join(wd, "cases_*.v"))))
    ok = sign_ok = json_ok = True
    for f, (r, o2) in sorted(res.items()):
        base = os.path.basename(f)
        parts = base.split("_")
        if r is None:
            if base.startswith("cases_C07_sign"): sign_ok = False
            elif base.startswith("cases_JSON"): json_ok = False
            else: ok = False
            run.notes.append("case file failed: %s: %s" % (base, o2[-500:]))
            continue
        for tid, code in r:
            if base.startswith("cases_C07_sign"):
                sign_ok = False
                run.violation("sign-payload", "token %d%s: %s" % (tid % 1000000, " (after a collision alteration)" if tid >= 1000000 else "", SIGN_WHAT),
                              dict(token=tid, code=code, case_file=f))
            elif base.startswith("cases_JSON"):
                json_ok = False
                kind = parts[2]
                run.violation("dagjson-model:%s:%d" % (kind, code), "%s case %d: %s" % (kind, tid, JSON_WHAT.get(kind, {}).get(code, str(code))),
                              dict(case=tid, kind=kind, code=code, case_file=f))
            else:
                ok = False
                what = {1: "the token root block bytes differ from the model's layout (Formats.token_bytes)",
                        2: "decoding the block with the model does not give the token back"}.get(code, str(code))
                run.violation("token-bytes:" + str(code), "token %d: %s" % (tid, what), dict(token=tid, code=code, case_file=f))
    run.obligation("correspondence: Formats.token_bytes = root block bytes, token_decode inverts it, for every issued token", ok)
    run.obligation("correspondence: Signing.signing_input = the exact string FormatSignPayload returns, or None exactly when encodeSignaturePayload errors "
                   "(observed through Issue and VerifySignature), for every issued / refused token and for the collision-altered ones", sign_ok)
    run.obligation("correspondence: DagJson.json_encode / json_safe / cid_string / did_string / utf8_valid / base64 / base32 / base58 = dagjson.Encode, "
                   "Cid.String, DID.String, utf8.ValidString, encoding/base64, multibase on random and adversarial values", json_ok)
    if not (ok and sign_ok and json_ok) and not run.violations:
        run.violation("correspondence-broken", "case files could not be evaluated", dict(notes=run.notes), no_input=True)
    if not env["props_ok"] or not env["coq_ok"]:
        run.violation("proof-broken", "Coq development or Properties_C07.v no longer checks", dict(log=env["props_log"][-1500:]), no_input=True)
    nj = jstats["nodes"] + jstats["cids"] + jstats["dids"] + jstats["strs"]
    run.cov.update(evaluations=stats["tokens"] + stats["verify_calls"] + stats["alterations_checked"] + stats["sign_cases"] + nj,
                   distinct_nontrivial=stats["option_masks_covered"] * 3 + len(stats["alteration_histogram"]),
                   rule="tokens issued through delegation.Delegate with every subset of {explicit expiration, no expiration, not-before, nonce, facts, "
                        "proofs} (all 64 masks, then random ones), 1..3 capabilities whose caveats and fact values are random IPLD values of all kinds "
                        "(nested maps with keys of different lengths, lists, links, bytes, ints, unicode strings; one token in four keeps arbitrary-byte strings; every third "
                        "has caveats with bytes, a link, an int and sometimes a string holding an invalid UTF-8 byte; every fifth a generic audience DID with an invalid "
                        "UTF-8 byte, one in 16 the undefined audience: payloads Issue refuses are signed without the guard and must be refused by VerifySignature), "
                        "Ed25519, RSA and wrapped issuers; for each: VerifySignature fresh and after re-decoding the root block, against every other principal, and after "
                        "each of 20 single-field alterations plus the 6 dag-json collision alterations; the root block bytes compared with the model's layout; the "
                        "string FormatSignPayload returns compared with sign_payload. JSON stream: random nodes (gen_cbor.randNode) and adversarial ones (keys '/', '', "
                        "control characters, U+2028/9, U+FFFD, every class of invalid UTF-8, int64 bounds, uint64 above int64, empty / 1000-byte bytes, reserved slash "
                        "shapes and near misses, CIDv0/v1 with 6 codecs and 7 hash codes, identity hashes) through dagjson.Encode; DID byte strings (key, generic, "
                        "invalid UTF-8, undecodable); byte strings through utf8 / base64 / base32 / base58. distinct = option masks x key kinds + alteration kinds",
                   samples=stats["samples"][:5], alteration_histogram=stats["alteration_histogram"],
                   collision_histogram=stats.get("collision_histogram"), sign_cases=stats["sign_cases"], issue_refused=stats.get("issue_refused"),
                   option_masks_covered=stats["option_masks_covered"], verify_calls=stats["verify_calls"],
                   alterations_checked=stats["alterations_checked"],
                   json_stream=dict((k, jstats[k]) for k in ("nodes", "cids", "dids", "strs", "nodes_with_floats_skipped", "integral_floats_printing_like_the_int",
                                                             "encode_errors", "nodes_not_json_safe", "safe_nodes_not_read_back_by_dagjson_decode")),
                   json_samples=jstats.get("samples", [])[:3])
    if jstats.get("safe_nodes_not_read_back_by_dagjson_decode"):
        run.notes.append("json_safe nodes that go-ipld-prime's dagjson.Decode does not read back: %s" % jstats.get("decode_samples"))
    run.assumptions += ["symbolic signatures: valid_sign / valid_unique (Ed25519 and RSA PKCS#1 v1.5 are deterministic and unforgeable)",
                        "the signed bytes are modelled byte for byte (dag-json, base64url, '.', DID and CID strings: DagJson.v, BaseEnc.v, JsonText.v) and compared with "
                        "FormatSignPayload / dagjson.Encode / Cid.String / DID.String on every run; injectivity is PROVED on json_safe payloads; Issue / VerifySignature refuse "
                        "the others (checkSignable = Signing.signable, compared through the errors of Issue and VerifySignature)",
                        "floats are outside the Coq model (Ipld.v has no float constructor): the integral-float collision is detected dynamically only",
                        "go-ipld-prime's dag-cbor codec behaves as Cbor.v (checked by bin/check CBOR and by the byte comparison here)",
                        "top-level null caveats / fact values and unsigned integers above int64 are outside the token generator (the library cannot issue or re-read such "
                        "tokens; dagjson.Encode's failure on them is compared in the JSON stream)"]


def replay(path):
    print(open(path).read())
    return 0
