"""Shared machinery of /verif checks: building the Coq development, the Go
harness (always against /repo's working tree), running case files through
coqc, known findings, evidence and the VIOLATION / KNOWN-FINDING lines."""
import fcntl, hashlib, json, os, re, shutil, subprocess, sys, time

ROOT = os.path.dirname(os.path.dirname(os.path.abspath(__file__)))
REPO = os.environ.get("VERIF_REPO", "/repo")
COQ = os.path.join(ROOT, "coq")
COQGEN = os.path.join(ROOT, "coqgen")
WORK = os.environ.get("VERIF_WORK") or os.path.join(ROOT, "work")
HARNESS = os.path.join(ROOT, "harness")
EVID = os.environ.get("VERIF_EVIDENCE_DIR") or os.path.join(ROOT, "evidence")   # bin/mutcheck redirects it: a run on a mutated tree must never overwrite the evidence
NCPU = os.cpu_count() or 4

GOENV = dict(os.environ, GOFLAGS="-mod=mod", GOPROXY="off", GOSUMDB="off",
             GOTOOLCHAIN="local", CGO_ENABLED=os.environ.get("CGO_ENABLED", "1"))

COQ_TRUSTED = [
    "Coq 8.16.1 kernel (coqc; vm_compute used in case files and refutation witnesses; no native_compute)",
    "no Axiom/Parameter/Admitted in /verif/coq (grep gate at every run); Print Assumptions output recorded per theorem",
]


def log(*a):
    print(*a, file=sys.stderr, flush=True)


def sh(cmd, cwd=None, env=None, timeout=1800, input=None):
    t0 = time.time()
    try:
        p = subprocess.run(cmd, cwd=cwd, env=env, timeout=timeout, input=input,
                           stdout=subprocess.PIPE, stderr=subprocess.STDOUT,
                           shell=isinstance(cmd, str), text=True, errors="replace")
        return p.returncode, p.stdout, time.time() - t0
    except subprocess.TimeoutExpired as e:
        out = e.stdout if isinstance(e.stdout, str) else (e.stdout or b"").decode("utf8", "replace")
        return 124, (out or "") + "\n[timeout]", time.time() - t0


class Lock:
    def __init__(self, name):
        os.makedirs(WORK, exist_ok=True)
        self.path = os.path.join(WORK, "." + name + ".lock")

    def __enter__(self):
        self.f = open(self.path, "w")
        fcntl.flock(self.f, fcntl.LOCK_EX)
        return self

    def __exit__(self, *a):
        fcntl.flock(self.f, fcntl.LOCK_UN)
        self.f.close()


# ----------------------------------------------------------------------------
# Coq

FORBIDDEN = re.compile(r"\b(Admitted|admit|Axiom|Axioms|Parameter|Parameters|Conjecture|Conjectures|Admit Obligations)\b"
                       r"|Unset\s+Guard|bypass_check|-type-in-type|Unset\s+Universe\s+Checking|Unset\s+Positivity")


def strip_coq_comments(s):
    out, depth, i = [], 0, 0
    while i < len(s):
        if s.startswith("(*", i):
            depth += 1; i += 2
        elif s.startswith("*)", i) and depth > 0:
            depth -= 1; i += 2
        else:
            if depth == 0:
                out.append(s[i])
            i += 1
    return "".join(out)


def grep_gate():
    """No admitted proofs, declared axioms or disabled kernel checks anywhere."""
    bad = []
    for d in (COQ, COQGEN):
        if not os.path.isdir(d):
            continue
        for fn in sorted(os.listdir(d)):
            if fn.endswith(".v"):
                txt = strip_coq_comments(open(os.path.join(d, fn)).read())
                for m in FORBIDDEN.finditer(txt):
                    bad.append("%s: %s" % (fn, m.group(0)))
    return bad


def coq_build():
    """Full .vo build of the development (no-op when up to date)."""
    with Lock("coq"):
        mk = os.path.join(COQ, "Makefile")
        cp = os.path.join(COQ, "_CoqProject")
        if not os.path.exists(mk) or os.path.getmtime(mk) < os.path.getmtime(cp):
            rc, out, _ = sh(["coq_makefile", "-f", "_CoqProject", "-o", "Makefile"], cwd=COQ)
            if rc != 0:
                return False, out
        rc, out, dt = sh(["make", "-j%d" % NCPU, "-k"], cwd=COQ, timeout=3000)
        return rc == 0, out


def coqc(path, cwd=None, extra=(), timeout=1200):
    cmd = ["coqc", "-Q", COQ, "Ucanto", "-Q", COQGEN, "UcantoGen"] + list(extra) + [path]
    return sh(cmd, cwd=cwd or os.path.dirname(path), timeout=timeout)


def run_case_files(files, name="M", timeout=3000):
    """coqc each case file (in parallel); dict file -> (parsed list printed for `name`, or None if coqc failed; log)."""
    from concurrent.futures import ThreadPoolExecutor

    def one(f):
        rc, out, dt = coqc(f, timeout=timeout)
        if rc != 0:
            return f, None, out
        return f, parse_nlist(parse_print(out, name)), out
    res = {}
    with ThreadPoolExecutor(max_workers=NCPU) as ex:
        for f, r, out in ex.map(one, files):
            res[f] = (r, out)
    return res


def parse_print(out, name):
    """Value printed by `Print name.` for a definition computed with Eval vm_compute."""
    flat = re.sub(r"\s+", " ", out)
    m = re.search(r"\b%s = (.*?) : " % re.escape(name), flat)
    return m.group(1).strip() if m else None


def parse_nlist(txt):
    """'[]' or '[1; 2]%N' or '[(1, 2); ...]' -> list of ints / tuples"""
    if txt is None:
        return None
    txt = txt.strip()
    txt = re.sub(r"%[A-Za-z_]+", "", txt)
    if txt == "[]":
        return []
    inner = txt.strip()[1:-1]
    items = []
    for part in re.split(r";", inner):
        nums = [int(x) for x in re.findall(r"-?\d+", part)]
        items.append(nums[0] if len(nums) == 1 else tuple(nums))
    return items


def assumptions_of(vfile_out):
    """Collect 'Print Assumptions' results from a coqc log: list of (closed?, text)."""
    res = []
    flat = vfile_out
    for m in re.finditer(r"(Closed under the global context|Axioms:\n(?:.+\n?)+?)(?=\n\S|\Z)", flat):
        res.append(m.group(1).strip())
    return res


def check_properties_file(prop):
    """Re-check Properties_<prop>.v (it only `exact`s lemmas of the model files) and
    return (ok, n_theorems, assumptions list, log)."""
    path = os.path.join(COQ, "Properties_%s.v" % prop)
    src = strip_coq_comments(open(path).read())
    thms = re.findall(r"\b(?:Theorem|Lemma|Corollary)\s+([A-Za-z0-9_']+)", src)
    wd = os.path.join(WORK, prop, "props")
    os.makedirs(wd, exist_ok=True)
    dst = os.path.join(wd, "Properties_%s.v" % prop)
    shutil.copy(path, dst)
    rc, out, dt = coqc(dst, cwd=wd)
    closed = out.count("Closed under the global context")
    axioms = re.findall(r"Axioms:\s*\n((?:\s+.*\n?)+)", out)
    return rc == 0, thms, closed, [a.strip() for a in axioms], out


# ----------------------------------------------------------------------------
# Go harness

def harness_build(race=False, tags="verif"):
    """Build the correspondence harness against /repo's current working tree."""
    with Lock("go"):
        os.makedirs(os.path.join(WORK, "bin"), exist_ok=True)
        try:
            shutil.copy(os.path.join(REPO, "go.sum"), os.path.join(HARNESS, "go.sum"))
        except OSError:
            pass
        out = os.path.join(WORK, "bin", "harness-race" if race else "harness")
        cmd = ["go", "build", "-tags", tags]
        if os.path.realpath(REPO) != "/repo":
            # scratch copy of the repository: same module file, other replace target
            mf = os.path.join(WORK, "gomod", "go.mod")
            os.makedirs(os.path.dirname(mf), exist_ok=True)
            txt = open(os.path.join(HARNESS, "go.mod")).read().replace("=> /repo", "=> " + os.path.realpath(REPO))
            open(mf, "w").write(txt)
            shutil.copy(os.path.join(HARNESS, "go.sum"), os.path.join(WORK, "gomod", "go.sum"))
            cmd += ["-modfile", mf]
        if race:
            cmd.append("-race")
        cmd += ["-o", out, "./cmd/harness"]
        rc, log_, dt = sh(cmd, cwd=HARNESS, env=GOENV, timeout=1500)
        return rc == 0, out, log_


def run_harness(binpath, args, cwd=None, timeout=1500, env=None):
    e = dict(os.environ)
    if env:
        e.update(env)
    return sh([binpath] + list(args), cwd=cwd, env=e, timeout=timeout)


def repo_fingerprint():
    rc, out, _ = sh("git -C %s rev-parse HEAD; git -C %s diff HEAD | sha256sum" % (REPO, REPO))
    return out.strip().replace("\n", " ")


# ----------------------------------------------------------------------------
# generated (translated / extracted) Coq files and their Tie proofs

def regen_and_tie(prop, binpath, names):
    """Regenerate Gen_<g>.v from /repo into work/<prop>/gen and re-check Tie_<t>.v against it.
    A name is "G" (generator G, tie file Tie_G.v) or "G/T" (generator G, tie file Tie_T.v).
    Returns dict name -> {ok, mode, log}."""
    wd = os.path.join(WORK, prop, "gen")
    shutil.rmtree(wd, ignore_errors=True)
    os.makedirs(wd)
    gens = sorted(set(n.split("/")[0] for n in names))
    rc, out, _ = run_harness(binpath, ["extract", REPO, wd] + gens)
    res = {}
    for name in names:
        g, t = (name.split("/") + [name])[:2] if "/" in name else (name, name)
        gen = os.path.join(wd, "Gen_%s.v" % g)
        committed = os.path.join(COQGEN, "Gen_%s.v" % g)
        tie = os.path.join(COQGEN, "Tie_%s.v" % t)
        if not os.path.exists(gen):
            res[name] = dict(ok=False, mode="translator-failed", log=out[-2000:])
            continue
        same = os.path.exists(committed) and open(gen).read() == open(committed).read()
        if same and os.path.exists(os.path.join(COQGEN, "Tie_%s.vo" % t)):
            res[name] = dict(ok=True, mode="identical-to-built", log="")
            continue
        # re-check the tie proof against the freshly generated file
        td = os.path.join(wd, "tie_" + t)
        os.makedirs(td, exist_ok=True)
        shutil.copy(gen, os.path.join(td, "Gen_%s.v" % g))
        shutil.copy(tie, os.path.join(td, "Tie_%s.v" % t))
        ok, lg = True, ""
        for f in ("Gen_%s.v" % g, "Tie_%s.v" % t):
            rc2, o2, _ = sh(["coqc", "-Q", COQ, "Ucanto", "-Q", td, "UcantoGen", f], cwd=td, timeout=600)
            lg += o2
            if rc2 != 0:
                ok = False
                break
        res[name] = dict(ok=ok, mode="rechecked" if ok else "tie-proof-failed", log=lg[-3000:])
    return res


# ----------------------------------------------------------------------------
# known findings

def known_findings(prop):
    """finding: property=Cxx key=<key> what="..."   /  fixed: property=Cxx <commit> <what>"""
    res = []
    p = os.path.join(ROOT, "KNOWN_FINDINGS.txt")
    if not os.path.exists(p):
        return res
    for line in open(p):
        line = line.strip()
        if not line.startswith("finding:"):
            continue
        m = re.search(r"property=(\S+)\s+key=(\S+)\s+what=\"(.*)\"", line)
        if m and m.group(1) == prop:
            res.append(dict(key=m.group(2), what=m.group(3)))
    return res


# ----------------------------------------------------------------------------
# result reporting

class Run:
    def __init__(self, prop, tier, level="proof"):
        self.prop, self.tier, self.level = prop, tier, level
        self.seed = int(os.environ.get("VERIF_SEED", "1") or 1)
        self.t0 = time.time()
        self.wd = os.path.join(WORK, prop)
        os.makedirs(self.wd, exist_ok=True)
        self.violations = []      # (key, what, replay dict)
        self.known_hits = {}
        self.cov = dict(obligations=0, discharged=0, checker_cmd="", trusted_base=list(COQ_TRUSTED),
                        evaluations=0, distinct_nontrivial=0, rule="", samples=[])
        self.assumptions = []
        self.notes = []
        self.findings = known_findings(prop)

    def obligation(self, name, ok, detail=""):
        self.cov["obligations"] += 1
        if ok:
            self.cov["discharged"] += 1
        self.cov.setdefault("obligation_list", []).append(dict(name=name, ok=bool(ok), detail=detail[:400]))

    def violation(self, key, what, replay, no_input=False):
        """key: structural signature used to match KNOWN_FINDINGS entries."""
        for f in self.findings:
            if f["key"] == key:
                self.known_hits.setdefault(key, dict(what=f["what"], n=0, first=replay))
                self.known_hits[key]["n"] += 1
                return
        self.violations.append((key, what, replay, no_input))

    def finish(self):
        os.makedirs(EVID, exist_ok=True)
        rc = 0
        lines = []
        for key, h in self.known_hits.items():
            lines.append("KNOWN-FINDING: property=%s %s (key=%s, %d case(s) this run)" % (self.prop, h["what"], key, h["n"]))
        seen = set()
        n = 0
        for key, what, replay, no_input in self.violations:
            if key in seen:
                continue
            seen.add(key)
            n += 1
            rp = os.path.join(self.wd, "replay_%d.json" % n)
            json.dump(dict(property=self.prop, key=key, what=what, seed=self.seed, tier=self.tier,
                           repo=repo_fingerprint(), replay=replay), open(rp, "w"), indent=1, default=str)
            tail = " no-failing-input-found" if no_input else ""
            lines.append("VIOLATION property=%s replay=%s%s" % (self.prop, rp, tail))
            log("  violation [%s]: %s" % (key, what))
            rc = 1
        ev = dict(property_id=self.prop, tier=self.tier, seed=self.seed, level=self.level,
                  coverage=self.cov, assumptions=self.assumptions, wall_s=round(time.time() - self.t0, 2),
                  violations=len(seen), known_findings_hit=sorted(self.known_hits.keys()),
                  notes=self.notes, repo=repo_fingerprint())
        if not self.cov["samples"]:
            self.cov["samples"] = ["(none)"]
        tmp = os.path.join(EVID, ".%s.json.tmp" % self.prop)
        json.dump(ev, open(tmp, "w"), indent=1, default=str)
        os.replace(tmp, os.path.join(EVID, "%s.json" % self.prop))
        for l in lines:
            print(l, flush=True)
        if rc == 0:
            print("OK property=%s tier=%s obligations=%d/%d evaluations=%d wall=%.1fs" % (
                self.prop, self.tier, self.cov["discharged"], self.cov["obligations"],
                self.cov["evaluations"], time.time() - self.t0), flush=True)
        return rc


def standard_prelude(run, need_race=False):
    """Steps shared by every check: grep gate, Coq build, Properties file, harness build."""
    bad = grep_gate()
    run.obligation("grep-gate: no Admitted/Axiom/Parameter/disabled checks", not bad, "; ".join(bad))
    ok, out = coq_build()
    run.obligation("coq development builds (make, full .vo)", ok, out[-1500:])
    build_ok = ok and not bad
    if not ok:
        log(out[-3000:])
    pok, thms, closed, axioms, plog = check_properties_file(run.prop)
    for t in thms:
        run.obligation("theorem %s (Properties_%s.v)" % (t, run.prop), pok)
    run.cov["theorems"] = thms
    run.cov["print_assumptions_closed"] = closed
    run.cov["print_assumptions_axioms"] = axioms
    run.cov["checker_cmd"] = "make -C coq (coq_makefile, full .vo) && coqc -Q coq Ucanto Properties_%s.v" % run.prop
    if not pok:
        log(plog[-3000:])
    hok, hbin, hlog = harness_build()
    if not hok:
        log(hlog[-3000:])
    run.obligation("harness builds against /repo working tree", hok, hlog[-800:])
    rbin = None
    if need_race and hok:
        rok, rbin, rlog = harness_build(race=True)
        if not rok:
            log(rlog[-3000:]); rbin = None
    return dict(coq_ok=build_ok, props_ok=pok, harness_ok=hok, bin=hbin, racebin=rbin, props_log=plog)
