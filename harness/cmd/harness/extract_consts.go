package main

// extract_consts.go — generator "Consts": the format constants and schema layouts that fix the
// wire / storage formats (C18), read from the sources of /repo on every run:
//   * Go constants: UCAN version, DID prefixes, multicodec tags of keys / DIDs / signatures, CAR content type
//   * the embedded IPLD schemas (*.ipldsch): for every struct the representation names of its fields in
//     order with their kind (required / optional / nullable / implied), for every keyed union its keys
// coqgen/Tie_Consts.v proves that these are the constants and layouts of the Coq model.

import (
	"fmt"
	"go/ast"
	"go/token"
	"os"
	"path/filepath"
	"regexp"
	"sort"
	"strconv"
	"strings"
)

// constant of a Go file: name -> literal source ("0x0d1d", "\"did:\"") or qualified identifier
func goConsts(repo, rel string) map[string]ast.Expr {
	fset := token.NewFileSet()
	f := parseFile(fset, filepath.Join(repo, rel))
	res := map[string]ast.Expr{}
	for _, d := range f.Decls {
		gd, ok := d.(*ast.GenDecl)
		if !ok || gd.Tok != token.CONST {
			continue
		}
		for _, sp := range gd.Specs {
			vs := sp.(*ast.ValueSpec)
			for i, n := range vs.Names {
				if i < len(vs.Values) {
					res[n.Name] = vs.Values[i]
				}
			}
		}
	}
	return res
}

func mustIntConst(repo, rel, name string) uint64 {
	e, ok := goConsts(repo, rel)[name]
	if !ok {
		panic(unsupported{fmt.Sprintf("%s: constant %s not found", rel, name)})
	}
	bl, ok := e.(*ast.BasicLit)
	if !ok || bl.Kind != token.INT {
		panic(unsupported{fmt.Sprintf("%s: constant %s is not an integer literal", rel, name)})
	}
	v, err := strconv.ParseUint(bl.Value, 0, 64)
	if err != nil {
		panic(unsupported{fmt.Sprintf("%s: constant %s: %v", rel, name, err)})
	}
	return v
}

func mustStrConst(repo, rel, name string) string {
	e, ok := goConsts(repo, rel)[name]
	if !ok {
		panic(unsupported{fmt.Sprintf("%s: constant %s not found", rel, name)})
	}
	bl, ok := e.(*ast.BasicLit)
	if !ok || bl.Kind != token.STRING {
		panic(unsupported{fmt.Sprintf("%s: constant %s is not a string literal", rel, name)})
	}
	s, err := strconv.Unquote(bl.Value)
	if err != nil {
		panic(unsupported{fmt.Sprintf("%s: constant %s: %v", rel, name, err)})
	}
	return s
}

// a constant that must be the qualified identifier pkg.Name (e.g. SignatureCode = signature.EdDSA)
func mustAlias(repo, rel, name, want string) {
	e, ok := goConsts(repo, rel)[name]
	if !ok {
		panic(unsupported{fmt.Sprintf("%s: constant %s not found", rel, name)})
	}
	got := ""
	switch x := e.(type) {
	case *ast.SelectorExpr:
		if id, ok := x.X.(*ast.Ident); ok {
			got = id.Name + "." + x.Sel.Name
		}
	case *ast.Ident:
		got = x.Name
	}
	if got != want {
		panic(unsupported{fmt.Sprintf("%s: constant %s is %q, expected the alias %s", rel, name, got, want)})
	}
}

type schField struct {
	name string // representation name
	kind int    // 0 required, 1 optional, 2 nullable, 3 implied
	typ  string
}

type schType struct {
	name   string
	form   string // struct | union | map | other
	fields []schField
	keys   []string // keyed union
	repr   string
}

var reField = regexp.MustCompile(`^(\w+)\s+(optional\s+|nullable\s+)?([^()]+?)\s*(\((.*)\))?$`)
var reRename = regexp.MustCompile(`rename\s+"([^"]*)"`)

func parseSchema(path string) []schType {
	b, err := os.ReadFile(path)
	if err != nil {
		panic(unsupported{err.Error()})
	}
	var out []schType
	var cur *schType
	for _, raw := range strings.Split(string(b), "\n") {
		line := raw
		if i := strings.Index(line, "#"); i >= 0 {
			line = line[:i]
		}
		line = strings.TrimSpace(line)
		if line == "" {
			continue
		}
		if strings.HasPrefix(line, "type ") {
			rest := strings.TrimSpace(strings.TrimPrefix(line, "type "))
			parts := strings.Fields(rest)
			t := schType{name: parts[0], form: "other"}
			switch {
			case len(parts) >= 3 && parts[1] == "struct" && parts[2] == "{":
				t.form = "struct"
			case len(parts) >= 3 && parts[1] == "union" && parts[2] == "{":
				t.form = "union"
			case len(parts) >= 2 && strings.HasPrefix(parts[1], "{"):
				t.form = "map"
				t.repr = strings.Join(parts[1:], " ")
				out = append(out, t)
				continue
			default:
				panic(unsupported{fmt.Sprintf("%s: unsupported type declaration %q", path, line)})
			}
			out = append(out, t)
			cur = &out[len(out)-1]
			continue
		}
		if strings.HasPrefix(line, "}") {
			if cur != nil {
				cur.repr = strings.TrimSpace(strings.TrimPrefix(line, "}"))
			}
			cur = nil
			continue
		}
		if cur == nil {
			panic(unsupported{fmt.Sprintf("%s: line outside a type: %q", path, line)})
		}
		switch cur.form {
		case "struct":
			m := reField.FindStringSubmatch(line)
			if m == nil {
				panic(unsupported{fmt.Sprintf("%s: unsupported field line %q", path, line)})
			}
			f := schField{name: m[1], typ: strings.TrimSpace(m[3])}
			switch strings.TrimSpace(m[2]) {
			case "optional":
				f.kind = 1
			case "nullable":
				f.kind = 2
			}
			if m[5] != "" {
				ann := m[5]
				if r := reRename.FindStringSubmatch(ann); r != nil {
					f.name = r[1]
				} else if strings.HasPrefix(strings.TrimSpace(ann), "implied") {
					f.kind = 3
				} else {
					panic(unsupported{fmt.Sprintf("%s: unsupported field annotation %q", path, line)})
				}
			}
			cur.fields = append(cur.fields, f)
		case "union":
			// | Type "key"
			m := regexp.MustCompile(`^\|\s*(\w+)\s+"([^"]*)"$`).FindStringSubmatch(line)
			if m == nil {
				panic(unsupported{fmt.Sprintf("%s: unsupported union member %q", path, line)})
			}
			cur.keys = append(cur.keys, m[2])
		}
	}
	return out
}

func coqBs(s string) string { return "(" + bytesLit(s) + ")" }

func genConsts(repo string) string {
	var sb strings.Builder
	sb.WriteString("(* Generated by `harness extract` from the sources of go-ucanto — do not edit.\n")
	sb.WriteString("   Format constants and the layouts of the embedded IPLD schemas (C18). *)\n")
	sb.WriteString("From Ucanto Require Import Base.\nOpen Scope N_scope.\n\n")
	// Go constants
	fmt.Fprintf(&sb, "(* ucan/lib.go *)\nDefinition ucan_version : bstr := %s.\n", coqBs(mustStrConst(repo, "ucan/lib.go", "version")))
	fmt.Fprintf(&sb, "(* did/did.go *)\nDefinition did_prefix : bstr := %s.\nDefinition did_key_prefix : bstr := %s.\n",
		coqBs(mustStrConst(repo, "did/did.go", "Prefix")), coqBs(mustStrConst(repo, "did/did.go", "KeyPrefix")))
	fmt.Fprintf(&sb, "Definition did_core_code : N := %d.\nDefinition did_ed25519_code : N := %d.\nDefinition did_rsa_code : N := %d.\n",
		mustIntConst(repo, "did/did.go", "DIDCore"), mustIntConst(repo, "did/did.go", "Ed25519"), mustIntConst(repo, "did/did.go", "RSA"))
	sb.WriteString("(* ucan/crypto/signature/signature.go *)\n")
	for _, n := range []string{"NON_STANDARD", "ES256K", "BLS12381G1", "BLS12381G2", "EdDSA", "ES256", "ES384", "ES512", "RS256", "EIP191"} {
		fmt.Fprintf(&sb, "Definition sig_%s : N := %d.\n", n, mustIntConst(repo, "ucan/crypto/signature/signature.go", n))
	}
	sb.WriteString("(* principal/*/verifier, principal/*/signer *)\n")
	fmt.Fprintf(&sb, "Definition ed_verifier_code : N := %d.\nDefinition rsa_verifier_code : N := %d.\n",
		mustIntConst(repo, "principal/ed25519/verifier/verifier.go", "Code"), mustIntConst(repo, "principal/rsa/verifier/verifier.go", "Code"))
	fmt.Fprintf(&sb, "Definition ed_signer_code : N := %d.\nDefinition rsa_signer_code : N := %d.\n",
		mustIntConst(repo, "principal/ed25519/signer/signer.go", "Code"), mustIntConst(repo, "principal/rsa/signer/signer.go", "Code"))
	mustAlias(repo, "principal/ed25519/verifier/verifier.go", "SignatureCode", "signature.EdDSA")
	mustAlias(repo, "principal/rsa/verifier/verifier.go", "SignatureCode", "signature.RS256")
	mustAlias(repo, "principal/ed25519/signer/signer.go", "SignatureCode", "verifier.SignatureCode")
	mustAlias(repo, "principal/rsa/signer/signer.go", "SignatureCode", "verifier.SignatureCode")
	fmt.Fprintf(&sb, "Definition ed_signature_alg : bstr := %s.\nDefinition rsa_signature_alg : bstr := %s.\n",
		coqBs(mustStrConst(repo, "principal/ed25519/verifier/verifier.go", "SignatureAlgorithm")), coqBs(mustStrConst(repo, "principal/rsa/verifier/verifier.go", "SignatureAlgorithm")))
	fmt.Fprintf(&sb, "(* core/car/car.go *)\nDefinition car_content_type : bstr := %s.\n\n", coqBs(mustStrConst(repo, "core/car/car.go", "ContentType")))
	// the algorithm names of signature.CodeName for the two codes the library signs with
	sb.WriteString("(* embedded IPLD schemas: (representation name, kind) per struct field in declaration order;\n   kind 0 required, 1 optional, 2 nullable, 3 implied *)\n")
	files := []struct{ pfx, rel string }{
		{"ucan", "ucan/datamodel/ucan/ucan.ipldsch"},
		{"payload", "ucan/datamodel/payload/payload.ipldsch"},
		{"header", "ucan/datamodel/header/header.ipldsch"},
		{"archive", "core/delegation/datamodel/archive.ipldsch"},
		{"message", "core/message/datamodel/agentmessage.ipldsch"},
		{"receipt", "core/receipt/datamodel/receipt.ipldsch"},
		{"anyresult", "core/receipt/datamodel/anyresult.ipldsch"},
	}
	for _, f := range files {
		ts := parseSchema(filepath.Join(repo, f.rel))
		fmt.Fprintf(&sb, "(* %s *)\n", f.rel)
		var names []string
		for _, t := range ts {
			names = append(names, t.name+":"+t.form)
			switch t.form {
			case "struct":
				var fs []string
				for _, fl := range t.fields {
					fs = append(fs, fmt.Sprintf("(%s, %d, %s) (* %s : %s *)", coqBs(fl.name), fl.kind, coqBs(strings.Join(strings.Fields(fl.typ), "")), fl.name, strings.Join(strings.Fields(fl.typ), "")))
				}
				fmt.Fprintf(&sb, "Definition sch_%s_%s : list (bstr * N * bstr) := [\n  %s ].\n", f.pfx, t.name, strings.Join(fs, ";\n  "))
				if t.repr != "" && t.repr != "representation map" {
					panic(unsupported{fmt.Sprintf("%s: struct %s has representation %q (the model assumes map)", f.rel, t.name, t.repr)})
				}
			case "union":
				var ks []string
				for _, k := range t.keys {
					ks = append(ks, coqBs(k))
				}
				fmt.Fprintf(&sb, "Definition sch_%s_%s_keys : list bstr := [%s].\n", f.pfx, t.name, strings.Join(ks, "; "))
				if t.repr != "representation keyed" {
					panic(unsupported{fmt.Sprintf("%s: union %s has representation %q (the model assumes keyed)", f.rel, t.name, t.repr)})
				}
			case "map":
				fmt.Fprintf(&sb, "Definition sch_%s_%s_map : bstr := %s. (* %s *)\n", f.pfx, t.name, coqBs(strings.Join(strings.Fields(t.repr), "")), strings.Join(strings.Fields(t.repr), ""))
			}
		}
		sort.Strings(names)
	}
	return sb.String()
}

func init() {
	generators["Consts"] = genConsts
}
