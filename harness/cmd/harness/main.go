package main

// harness: correspondence harness and source extractor for /verif.
// Built on every check against /repo's current working tree.

import (
	"flag"
	"fmt"
	"os"
)

type genOpts struct {
	tier string
	seed int64
	out  string
}

var gens = map[string]func(o genOpts) error{}

func main() {
	if len(os.Args) < 2 {
		fmt.Fprintln(os.Stderr, "usage: harness <extract|gen|worker|replay> ...")
		os.Exit(2)
	}
	switch os.Args[1] {
	case "extract":
		os.Exit(cmdExtract(os.Args[2:]))
	case "gen":
		if len(os.Args) < 3 {
			fmt.Fprintln(os.Stderr, "usage: harness gen <Cxx> -tier quick -seed 1 -out dir")
			os.Exit(2)
		}
		prop := os.Args[2]
		fs := flag.NewFlagSet("gen", flag.ExitOnError)
		var o genOpts
		fs.StringVar(&o.tier, "tier", "quick", "quick|thorough")
		fs.Int64Var(&o.seed, "seed", 1, "PRNG seed")
		fs.StringVar(&o.out, "out", ".", "output directory")
		fs.Parse(os.Args[3:])
		g, ok := gens[prop]
		if !ok {
			fmt.Fprintf(os.Stderr, "no generator for %s\n", prop)
			os.Exit(2)
		}
		if err := g(o); err != nil {
			fmt.Fprintf(os.Stderr, "gen %s: %v\n", prop, err)
			os.Exit(1)
		}
	default:
		if f, ok := extraCmds[os.Args[1]]; ok {
			os.Exit(f(os.Args[2:]))
		}
		fmt.Fprintf(os.Stderr, "unknown command %s\n", os.Args[1])
		os.Exit(2)
	}
}

var extraCmds = map[string]func(args []string) int{}
