package main

import (
	"fmt"
	"io"
	"math/rand"
	"net/http"
	"net/http/httptest"
	"net/url"
	"runtime"

	"github.com/storacha/go-ucanto/server"
	"github.com/storacha/go-ucanto/transport"
	thttp "github.com/storacha/go-ucanto/transport/http"
)

// loopback: the server behind a real HTTP listener, the client over transport/http's channel
func loopback(closers *[]func()) func(srv server.ServerView) transport.Channel {
	return func(srv server.ServerView) transport.Channel {
		ts := httptest.NewServer(http.HandlerFunc(func(w http.ResponseWriter, r *http.Request) {
			res, err := srv.Request(thttp.NewHTTPRequest(r.Body, r.Header))
			if err != nil {
				http.Error(w, err.Error(), http.StatusInternalServerError)
				return
			}
			for k, vs := range res.Headers() {
				for _, v := range vs {
					w.Header().Add(k, v)
				}
			}
			w.WriteHeader(res.Status())
			io.Copy(w, res.Body())
		}))
		*closers = append(*closers, ts.Close)
		u, _ := url.Parse(ts.URL)
		return thttp.NewHTTPChannel(u)
	}
}

// bigBatch: n invocations with a mix of outcomes
func bigBatch(r *rand.Rand, id int, seed int64, n int) *Batch {
	cast := newCast(seed*40503 + int64(id))
	var service *Prin
	if id%3 == 2 {
		service = cast.Wrapped("service", "did:web:service.example", cast.Ed("servicekey")) // receipts must name the did:web
	} else {
		service = cast.Ed("service")
	}
	cw := &World{ID: id, Kind: "bigbatch", Cast: cast, Can: "store/add", Ctx: baseCtx(service)}
	b := &Batch{ID: id, W: cw, Handlers: map[string]string{"store/add": "ok", "store/list": "fail", "upload/add": []string{"okfx", "okjoin", "okfxjoin", "okfxinv"}[id%4], "space/blob/add": "badout"}}
	// one unrelated token so that the world is never empty
	far := 4000000000
	cw.Specs = append(cw.Specs, &TokSpec{Name: "anchor", Issuer: cast.Ed("p0"), Audience: service, Exp: &far, Nonce: "anchor",
		Caps: []CapSpec{{Can: "debug/echo", With: cast.Ed("p0").DID.String(), Nb: Cav{}}}})
	for i := 0; i < n; i++ {
		k := chainKnobs{MaxDepth: 2, Defects: []int{0, 0, 1}, Decoys: 0, RSA: false, Resolver: false, Caveats: true}
		if id%4 == 1 {
			k.ForcePolicy = "self" // the library's default policy throughout: such a batch can run on a server built without options
		}
		w, _ := chainWorldIn(r, id*1000+i, seed, k, cast, fmt.Sprintf("i%d_", i))
		inv := w.Specs[len(w.Specs)-1]
		inv.Nonce = fmt.Sprintf("n%d", i) // distinct invocations even when everything else coincides
		if r.Intn(15) == 0 {
			inv.Caps = append(inv.Caps, CapSpec{Can: "store/list", With: inv.Caps[0].With, Nb: Cav{}})
		}
		cw.Specs = append(cw.Specs, w.Specs...)
		for k2, v := range w.Ctx.Owners {
			cw.Ctx.Owners[k2] = v
		}
		b.Invs = append(b.Invs, inv.Name)
	}
	return b
}

// sharedProofBatch: n invocations of one invoker that all cite the SAME delegation by link; the server's proof resolver
// hands every one of them the same delegation object (a cache would), which has many capabilities
func sharedProofBatch(r *rand.Rand, id int, seed int64, n int) *Batch {
	cast := newCast(seed*40503 + int64(id))
	service := cast.Ed("service")
	cw := &World{ID: id, Kind: "shared-proof", Cast: cast, Can: "store/add", Ctx: baseCtx(service)}
	b := &Batch{ID: id, W: cw, Handlers: map[string]string{"store/add": "ok", "store/list": "ok"}}
	far := 4000000000
	owner, invoker := cast.Ed("p0"), cast.Ed("p1")
	with := owner.DID.String()
	shared := &TokSpec{Name: "sharedproof", Issuer: owner, Audience: invoker, Exp: &far, Nonce: "shared"}
	for k := 0; k < 150; k++ {
		shared.Caps = append(shared.Caps, CapSpec{Can: fmt.Sprintf("other/thing%d", k), With: with, Nb: Cav{}})
	}
	shared.Caps = append(shared.Caps, CapSpec{Can: "store/*", With: with, Nb: Cav{}})
	cw.Specs = append(cw.Specs, shared)
	cw.Ctx.Resolvable["sharedproof"] = true
	for i := 0; i < n; i++ {
		name := fmt.Sprintf("i%d_inv", i)
		cw.Specs = append(cw.Specs, &TokSpec{Name: name, Issuer: invoker, Audience: service, Exp: &far, Nonce: fmt.Sprintf("n%d", i),
			Caps:   []CapSpec{{Can: []string{"store/add", "store/list"}[i%2], With: with, Nb: Cav{}}},
			Proofs: []ProofRef{{Tok: "sharedproof", Inline: false}}})
		b.Invs = append(b.Invs, name)
	}
	return b
}

func init() {
	gens["C09"] = func(o genOpts) error {
		nb, nconc := 60, 12
		if o.tier == "thorough" {
			nb, nconc = 1500, 150
		}
		r := rand.New(rand.NewSource(o.seed))
		st := newBatchStats()
		labels := map[int]string{}
		var cases []string
		sizes := []int{0, 1, 2, 3, 5, 8, 16, 32, 64}
		procs := []int{1, 2, 4, 16}
		id := 0
		var closers []func()
		defer func() {
			for _, c := range closers {
				c()
			}
		}()
		old := runtime.GOMAXPROCS(0)
		defer runtime.GOMAXPROCS(old)
		for i := 0; i < nb; i++ {
			n := sizes[i%len(sizes)]
			if i >= 2*len(sizes) {
				n = r.Intn(20)
			}
			b := bigBatch(r, id, o.seed, n)
			if i%10 == 9 {
				b = sharedProofBatch(r, id, o.seed, 8+r.Intn(8))
			}
			if n > 1 && i%10 != 9 && r.Intn(4) == 0 {
				b.Invs = append(b.Invs, b.Invs[r.Intn(len(b.Invs))]) // the same invocation listed twice
			}
			if i%7 == 5 && len(b.Invs) > 0 {
				// an execute-list entry whose block is DAG-CBOR but not a UCAN, among well-formed invocations
				name := fmt.Sprintf("notucan%d", i)
				b.W.Specs = append(b.W.Specs, &TokSpec{Name: name, NotUCAN: true})
				at := r.Intn(len(b.Invs) + 1)
				b.Invs = append(b.Invs[:at], append([]string{name}, b.Invs[at:]...)...)
			}
			if i%4 == 1 && i%10 != 9 {
				// a server built with NO validation options (the library's defaults), and among the invocations one issued by a
				// principal without a key that brings no session: refused with a receipt like the others
				ab := b.W.Cast.Absentee(fmt.Sprintf("acct%d", i), fmt.Sprintf("did:mailto:example.com:user%d", i))
				far := 4000000000
				b.W.Specs = append(b.W.Specs, &TokSpec{Name: "absentee_inv", Issuer: ab, Audience: b.W.Ctx.Authority, Exp: &far,
					Caps: []CapSpec{{Can: "store/add", With: ab.DID.String(), Nb: Cav{}}}})
				at := r.Intn(len(b.Invs) + 1)
				b.Invs = append(b.Invs[:at], append([]string{"absentee_inv"}, b.Invs[at:]...)...)
				if c := b.W.Ctx; c.SelfIssued && len(c.Owners) == 0 && len(c.Revoked) == 0 && len(c.Resolvable) == 0 && len(c.KeyResolver) == 0 && c.ParserKind == "ed" {
					b.DefaultOpts = true
				}
			}
			b.Perturb = r.Int63()
			if err := b.W.Build(); err != nil {
				return err
			}
			p := procs[i%len(procs)]
			runtime.GOMAXPROCS(p)
			var ch func(srv server.ServerView) transport.Channel
			via := "in-process"
			if i%3 == 2 {
				ch = loopback(&closers)
				via = "loopback-http"
			}
			obs := b.Run(ch)
			st.add(b, obs)
			labels[id] = fmt.Sprintf("batch of %d, GOMAXPROCS=%d, %s", len(b.Invs), p, via)
			if len(b.Invs) == 0 {
				cases = append(cases, b.CoqFor([]string{}, obs))
			} else {
				cases = append(cases, b.Coq(obs))
			}
			id++
		}
		// concurrent requests to one server
		for c := 0; c < nconc; c++ {
			nreq := 2 + r.Intn(4)
			total := 0
			var sizesReq []int
			for q := 0; q < nreq; q++ {
				s := 1 + r.Intn(5)
				sizesReq = append(sizesReq, s)
				total += s
			}
			b := bigBatch(r, id, o.seed, total)
			b.Perturb = r.Int63()
			if err := b.W.Build(); err != nil {
				return err
			}
			var groups [][]string
			off := 0
			for _, s := range sizesReq {
				groups = append(groups, b.Invs[off:off+s])
				off += s
			}
			runtime.GOMAXPROCS(procs[c%len(procs)])
			var ch func(srv server.ServerView) transport.Channel
			if c%2 == 1 {
				ch = loopback(&closers)
			}
			res := b.RunConcurrent(groups, ch)
			for gi, g := range groups {
				b.W.ID = id
				gb := &Batch{ID: id, W: b.W, Invs: g, Handlers: b.Handlers}
				st.add(gb, res[gi])
				labels[id] = fmt.Sprintf("request %d of %d sent concurrently to one server (%d invocations)", gi+1, len(groups), len(g))
				cases = append(cases, b.CoqFor(g, res[gi]))
				id++
			}
		}
		if err := writeBatchCases(o.out, "cases_C09", cases, 16); err != nil {
			return err
		}
		if err := writeJSON(o.out, "labels.json", labels); err != nil {
			return err
		}
		return writeJSON(o.out, "stats.json", st)
	}
}
