package main

// CBOR: correspondence of the Coq DAG-CBOR model (coq/Cbor.v) with
// go-ipld-prime's dagcbor codec as go-ucanto uses it
// (core/ipld/codec/cbor: ipld.Marshal(dagcbor.Encode, …) / ipld.Unmarshal(…, dagcbor.Decode, …)).
//
// Stream 1 (encode): seeded random IPLD nodes over all kinds, built with
// basicnode builders (maps assembled in random key order), encoded with
// ipld.Encode(node, dagcbor.Encode); case = (node as Gallina term, bytes).
// Stream 2 (decode): mutated encodings; case = (bytes, what dagcbor.Decode
// into basicnode.Prototype.Any did: value / reject / float / panic).
//
// Reusable by other generators: ipldToCoq, cidBytesToCoq, randNode.

import (
	"bytes"
	"encoding/binary"
	"fmt"
	"math"
	"math/rand"
	"sort"
	"strings"
	"unicode/utf8"

	"github.com/ipfs/go-cid"
	"github.com/ipld/go-ipld-prime"
	"github.com/ipld/go-ipld-prime/codec/dagcbor"
	"github.com/ipld/go-ipld-prime/datamodel"
	cidlink "github.com/ipld/go-ipld-prime/linking/cid"
	"github.com/ipld/go-ipld-prime/node/basicnode"
	"github.com/ipld/go-ipld-prime/schema"
	mh "github.com/multiformats/go-multihash"
	rcbor "github.com/storacha/go-ucanto/core/ipld/codec/cbor"
)

// go-ucanto's own entry points (core/ipld/codec/cbor Encode/Decode go through bindnode and a schema type):
// a value is passed through them inside a one-element list typed [Any]; the bytes must be 0x81 ++ the bytes
// of the direct dagcbor path, and decoding 0x81 ++ b must agree with the direct path on b.
var cborBoxType = func() schema.Type {
	ts := schema.TypeSystem{}
	ts.Init()
	ts.Accumulate(schema.SpawnAny("Any"))
	ts.Accumulate(schema.SpawnList("Box", "Any", false))
	return ts.TypeByName("Box")
}()

func repoEncode(n datamodel.Node) (b []byte, err error) {
	defer func() {
		if p := recover(); p != nil {
			err = fmt.Errorf("panic: %v", p)
		}
	}()
	box := []datamodel.Node{n}
	return rcbor.Encode(&box, cborBoxType)
}

func repoDecode(b []byte) (n datamodel.Node, err error) {
	defer func() {
		if p := recover(); p != nil {
			err = fmt.Errorf("panic: %v", p)
		}
	}()
	var box []datamodel.Node
	if err := rcbor.Decode(append([]byte{0x81}, b...), &box, cborBoxType); err != nil {
		return nil, err
	}
	if len(box) != 1 {
		return nil, fmt.Errorf("box of %d", len(box))
	}
	return box[0], nil
}

// cidBytesToCoq renders the binary form of a CID as a Gallina bstr.
func cidBytesToCoq(c cid.Cid) string { return hx(c.Bytes()) }

// nodeHasFloat reports whether a node contains a float anywhere (floats are outside the Coq model).
func nodeHasFloat(n datamodel.Node) bool {
	switch n.Kind() {
	case datamodel.Kind_Float:
		return true
	case datamodel.Kind_List:
		for it := n.ListIterator(); !it.Done(); {
			_, v, _ := it.Next()
			if nodeHasFloat(v) {
				return true
			}
		}
	case datamodel.Kind_Map:
		for it := n.MapIterator(); !it.Done(); {
			_, v, _ := it.Next()
			if nodeHasFloat(v) {
				return true
			}
		}
	}
	return false
}

// ipldToCoq renders any ipld-prime node as a Gallina term of type Ipld.ipld
// (map entries in the node's iteration order).  Floats have no counterpart in
// the model: they are rendered as the unbound identifier IFLOAT_UNSUPPORTED so
// that Coq rejects the file loudly; check with nodeHasFloat first.
func ipldToCoq(n datamodel.Node) string {
	var sb strings.Builder
	writeIpld(&sb, n, hx)
	return sb.String()
}

// ipldToCoqPacked is ipldToCoq with byte strings rendered by pk (see Check_CBOR.v): Coq 8.16 interprets
// string literals at ~50us per character, primitive-integer literals are five times cheaper per byte.
func ipldToCoqPacked(n datamodel.Node) string {
	var sb strings.Builder
	writeIpld(&sb, n, pk)
	return sb.String()
}

// pk renders a byte string as (pk len [i1; i2; …]%uint63), seven bytes per primitive integer, big endian,
// the last one padded with zeros; short strings stay hx literals.
func pk(b []byte) string {
	if len(b) <= 8 {
		return hx(b)
	}
	var sb strings.Builder
	fmt.Fprintf(&sb, "(pk %d [", len(b))
	for i := 0; i < len(b); i += 7 {
		var v uint64
		for j := 0; j < 7; j++ {
			v <<= 8
			if i+j < len(b) {
				v |= uint64(b[i+j])
			}
		}
		if i > 0 {
			sb.WriteString(";")
		}
		fmt.Fprintf(&sb, "0x%x", v)
	}
	sb.WriteString("]%uint63)")
	return sb.String()
}

func writeIpld(sb *strings.Builder, n datamodel.Node, hx func([]byte) string) {
	hxs := func(s string) string { return hx([]byte(s)) }
	switch n.Kind() {
	case datamodel.Kind_Null:
		sb.WriteString("INull")
	case datamodel.Kind_Bool:
		b, _ := n.AsBool()
		sb.WriteString("(IBool " + coqBool(b) + ")")
	case datamodel.Kind_Int:
		if u, ok := n.(datamodel.UintNode); ok {
			v, _ := u.AsUint()
			fmt.Fprintf(sb, "(IInt %d%%Z)", v)
		} else {
			v, _ := n.AsInt()
			if v < 0 {
				fmt.Fprintf(sb, "(IInt (%d)%%Z)", v)
			} else {
				fmt.Fprintf(sb, "(IInt %d%%Z)", v)
			}
		}
	case datamodel.Kind_String:
		s, _ := n.AsString()
		sb.WriteString("(IString " + hxs(s) + ")")
	case datamodel.Kind_Bytes:
		b, _ := n.AsBytes()
		sb.WriteString("(IBytes " + hx(b) + ")")
	case datamodel.Kind_Link:
		l, _ := n.AsLink()
		if cl, ok := l.(cidlink.Link); ok {
			sb.WriteString("(ILink " + hx(cl.Cid.Bytes()) + ")")
		} else {
			sb.WriteString("(ILink " + hx([]byte(l.Binary())) + ")")
		}
	case datamodel.Kind_List:
		sb.WriteString("(IList [")
		first := true
		for it := n.ListIterator(); !it.Done(); {
			_, v, _ := it.Next()
			if !first {
				sb.WriteString("; ")
			}
			first = false
			writeIpld(sb, v, hx)
		}
		sb.WriteString("])")
	case datamodel.Kind_Map:
		sb.WriteString("(IMap [")
		first := true
		for it := n.MapIterator(); !it.Done(); {
			k, v, _ := it.Next()
			ks, _ := k.AsString()
			if !first {
				sb.WriteString("; ")
			}
			first = false
			sb.WriteString("(" + hxs(ks) + ", ")
			writeIpld(sb, v, hx)
			sb.WriteString(")")
		}
		sb.WriteString("])")
	default:
		sb.WriteString("IFLOAT_UNSUPPORTED")
	}
}

// ---------------------------------------------------------------------------
// random nodes

type cborStats struct {
	Kinds        map[string]int
	Depth        map[int]int
	SizeBuckets  map[string]int
	IntClasses   map[string]int
	MapsUnsorted int // maps whose insertion order differs from the encoder's sorted order
	MapsTotal    int
	MaxMapLen    int
	MaxListLen   int
	InvalidUTF8  int
	LinkKinds    map[string]int
}

func newCborStats() *cborStats {
	return &cborStats{Kinds: map[string]int{}, Depth: map[int]int{}, SizeBuckets: map[string]int{},
		IntClasses: map[string]int{}, LinkKinds: map[string]int{}}
}

var boundaryInts = []int64{0, 1, -1, 23, 24, -24, -25, 255, 256, -256, -257, 65535, 65536, -65536, -65537,
	1<<32 - 1, 1 << 32, 1<<32 + 1, -(1 << 32), -(1 << 32) - 1, math.MaxInt64, math.MinInt64, math.MaxInt64 - 1, math.MinInt64 + 1,
	1000, -1000, 1700000000, 100, -100}

func randInt(r *rand.Rand, st *cborStats) datamodel.Node {
	switch r.Intn(10) {
	case 0, 1, 2, 3:
		st.IntClasses["boundary"]++
		return basicnode.NewInt(boundaryInts[r.Intn(len(boundaryInts))])
	case 4: // uint64 above MaxInt64 (basicnode.NewUint: what the decoder produces for such values)
		st.IntClasses["uint64>maxint64"]++
		vals := []uint64{math.MaxUint64, math.MaxUint64 - 1, 1 << 63, 1<<63 + 1, 1<<63 + uint64(r.Int63())}
		return basicnode.NewUint(vals[r.Intn(len(vals))])
	case 5:
		st.IntClasses["small"]++
		return basicnode.NewInt(int64(r.Intn(64) - 32))
	case 6: // around a power of 256
		st.IntClasses["near-256^k"]++
		k := uint(r.Intn(8))
		v := int64(1)<<(8*k) + int64(r.Intn(5)-2)
		if r.Intn(2) == 0 {
			v = -v
		}
		return basicnode.NewInt(v)
	default:
		st.IntClasses["random"]++
		v := r.Int63() >> uint(r.Intn(63))
		if r.Intn(2) == 0 {
			v = -v - 1
		}
		return basicnode.NewInt(v)
	}
}

var keyPool = []string{"", "a", "b", "aa", "ab", "abc", "abd", "b", "ba", "z", "A", "iss", "aud", "att", "exp", "nbf", "nnc",
	"fct", "prf", "v", "s", "can", "with", "nb", "ok", "error", "ran", "out", "fx", "meta", "fork", "join", "ucan@0.9.1",
	"ucanto/message@7.0.0", "execute", "report", "é", "ü", "日本", "\x00", "\xff", "\xfe\xff", "a\x00", "aaaaaaaaaaaaaaaaaaaaaaa",
	"aaaaaaaaaaaaaaaaaaaaaaaa", "aaaaaaaaaaaaaaaaaaaaaaab", "link", "bytes", "x", "y", "xy", "yx", "xx"}

func randLen(r *rand.Rand) int {
	switch r.Intn(20) {
	case 0:
		return 0
	case 1:
		return 23
	case 2:
		return 24
	case 3:
		return 255
	case 4:
		return 256
	case 5:
		return 257
	default:
		return r.Intn(40)
	}
}

func randString(r *rand.Rand, st *cborStats) string {
	var s string
	switch r.Intn(8) {
	case 0:
		s = keyPool[r.Intn(len(keyPool))]
	case 1: // unicode
		runes := []rune("héllo wörld ✓ 日本語 😀 did:key:z6Mk")
		n := r.Intn(20)
		var sb strings.Builder
		for i := 0; i < n; i++ {
			sb.WriteRune(runes[r.Intn(len(runes))])
		}
		s = sb.String()
	case 2: // arbitrary bytes (Go strings may hold invalid UTF-8; dagcbor does not validate)
		s = string(randBytes(r, randLen(r)))
	case 3:
		s = "did:key:z6Mk" + strings.Repeat("k", r.Intn(40))
	default:
		const al = "abcdefghijklmnopqrstuvwxyz/:.-_*0123456789"
		n := randLen(r)
		b := make([]byte, n)
		for i := range b {
			b[i] = al[r.Intn(len(al))]
		}
		s = string(b)
	}
	if !validUTF8(s) {
		st.InvalidUTF8++
	}
	return s
}

func validUTF8(s string) bool { return utf8.ValidString(s) }

func randCid(r *rand.Rand, st *cborStats) cid.Cid {
	switch r.Intn(6) {
	case 0:
		st.LinkKinds["v1-dagcbor-sha256"]++
		h, _ := mh.Sum(randBytes(r, 8), mh.SHA2_256, -1)
		return cid.NewCidV1(0x71, h)
	case 1:
		st.LinkKinds["v1-raw-sha256"]++
		h, _ := mh.Sum(randBytes(r, 8), mh.SHA2_256, -1)
		return cid.NewCidV1(0x55, h)
	case 2:
		st.LinkKinds["v1-raw-identity"]++
		h, _ := mh.Sum(randBytes(r, r.Intn(40)), mh.IDENTITY, -1)
		return cid.NewCidV1(0x55, h)
	case 3:
		st.LinkKinds["v0"]++
		h, _ := mh.Sum(randBytes(r, 8), mh.SHA2_256, -1)
		return cid.NewCidV0(h)
	case 4:
		st.LinkKinds["v1-car-sha256(0x0202)"]++
		h, _ := mh.Sum(randBytes(r, 8), mh.SHA2_256, -1)
		return cid.NewCidV1(0x0202, h)
	default:
		st.LinkKinds["v1-dagcbor-sha512"]++
		h, _ := mh.Sum(randBytes(r, 8), mh.SHA2_512, -1)
		return cid.NewCidV1(0x71, h)
	}
}

func randKeys(r *rand.Rand, n int, st *cborStats) []string {
	seen := map[string]bool{}
	var ks []string
	for len(ks) < n {
		var k string
		switch r.Intn(4) {
		case 0, 1:
			k = keyPool[r.Intn(len(keyPool))]
		case 2: // shared prefix family
			k = "key" + strings.Repeat("x", r.Intn(4)) + string(rune('a'+r.Intn(3)))
		default:
			k = randString(r, st)
		}
		if !seen[k] {
			seen[k] = true
			ks = append(ks, k)
		}
	}
	return ks
}

func rfc7049Less(a, b string) bool {
	if len(a) != len(b) {
		return len(a) < len(b)
	}
	return a < b
}

// randNode builds a random node of depth at most d; returns the node and its depth.
func randNode(r *rand.Rand, d int, st *cborStats) (datamodel.Node, int) {
	k := r.Intn(12)
	if d <= 0 && (k == 6 || k == 7 || k == 8 || k == 9) {
		k = r.Intn(6)
	}
	switch k {
	case 0:
		st.Kinds["null"]++
		return datamodel.Null, 1
	case 1:
		st.Kinds["bool"]++
		return basicnode.NewBool(r.Intn(2) == 0), 1
	case 2, 10:
		st.Kinds["int"]++
		return randInt(r, st), 1
	case 3, 11:
		st.Kinds["string"]++
		return basicnode.NewString(randString(r, st)), 1
	case 4:
		st.Kinds["bytes"]++
		return basicnode.NewBytes(randBytes(r, randLen(r))), 1
	case 5:
		st.Kinds["link"]++
		return basicnode.NewLink(cidlink.Link{Cid: randCid(r, st)}), 1
	case 6, 7:
		st.Kinds["list"]++
		n := r.Intn(5)
		if r.Intn(25) == 0 {
			n = []int{23, 24, 25, 255, 256}[r.Intn(5)]
		}
		if n > st.MaxListLen {
			st.MaxListLen = n
		}
		nb := basicnode.Prototype.List.NewBuilder()
		la, _ := nb.BeginList(int64(n))
		md := 0
		for i := 0; i < n; i++ {
			dd := d - 1
			if n > 20 {
				dd = 0
			}
			v, vd := randNode(r, dd, st)
			if vd > md {
				md = vd
			}
			la.AssembleValue().AssignNode(v)
		}
		la.Finish()
		return nb.Build(), md + 1
	default:
		st.Kinds["map"]++
		n := r.Intn(6)
		if r.Intn(30) == 0 {
			n = []int{23, 24, 25, 40}[r.Intn(4)]
		}
		if n > st.MaxMapLen {
			st.MaxMapLen = n
		}
		keys := randKeys(r, n, st) // random (insertion) order
		st.MapsTotal++
		if !sort.SliceIsSorted(keys, func(i, j int) bool { return rfc7049Less(keys[i], keys[j]) }) {
			st.MapsUnsorted++
		}
		nb := basicnode.Prototype.Map.NewBuilder()
		ma, _ := nb.BeginMap(int64(n))
		md := 0
		for _, key := range keys {
			dd := d - 1
			if n > 20 {
				dd = 0
			}
			v, vd := randNode(r, dd, st)
			if vd > md {
				md = vd
			}
			ma.AssembleKey().AssignString(key)
			ma.AssembleValue().AssignNode(v)
		}
		ma.Finish()
		return nb.Build(), md + 1
	}
}

func sizeBucket(n int) string {
	switch {
	case n < 24:
		return "<24"
	case n < 256:
		return "24..255"
	case n < 65536:
		return "256..65535"
	default:
		return ">=65536"
	}
}

func dagcborEncode(n datamodel.Node) ([]byte, error) { return ipld.Encode(n, dagcbor.Encode) }

// ---------------------------------------------------------------------------
// decode observations

type decObs struct {
	kind string // "ok", "rej", "float", "panic"
	node datamodel.Node
	err  string
}

func observeDecode(b []byte) (o decObs) {
	defer func() {
		if p := recover(); p != nil {
			o = decObs{kind: "panic", err: fmt.Sprint(p)}
		}
	}()
	n, err := ipld.Decode(b, dagcbor.Decode)
	if err != nil {
		return decObs{kind: "rej", err: err.Error()}
	}
	if nodeHasFloat(n) {
		return decObs{kind: "float", node: n}
	}
	return decObs{kind: "ok", node: n}
}

func (o decObs) coq() string {
	switch o.kind {
	case "ok":
		return "(EOk " + ipldToCoqPacked(o.node) + ")"
	case "rej":
		return "ERej"
	case "float":
		return "EFloat"
	default:
		return "EPanic"
	}
}

// cborHead is the minimal head; cborHeadN forces the given width class (0: in byte, 1,2,4,8 bytes).
func cborHead(major byte, n uint64) []byte {
	switch {
	case n < 24:
		return cborHeadN(major, n, 0)
	case n < 1<<8:
		return cborHeadN(major, n, 1)
	case n < 1<<16:
		return cborHeadN(major, n, 2)
	case n < 1<<32:
		return cborHeadN(major, n, 4)
	default:
		return cborHeadN(major, n, 8)
	}
}

func cborHeadN(major byte, n uint64, width int) []byte {
	m := major << 5
	switch width {
	case 0:
		return []byte{m | byte(n)}
	case 1:
		return []byte{m | 24, byte(n)}
	case 2:
		b := []byte{m | 25, 0, 0}
		binary.BigEndian.PutUint16(b[1:], uint16(n))
		return b
	case 4:
		b := []byte{m | 26, 0, 0, 0, 0}
		binary.BigEndian.PutUint32(b[1:], uint32(n))
		return b
	default:
		b := []byte{m | 27, 0, 0, 0, 0, 0, 0, 0, 0}
		binary.BigEndian.PutUint64(b[1:], n)
		return b
	}
}

// handWritten: structured adversarial inputs, each exercising one acceptance rule of the decoder.
func handWrittenDecodeInputs(r *rand.Rand) map[string][][]byte {
	str := func(s string) []byte { return cat(cborHead(3, uint64(len(s))), []byte(s)) }
	h, _ := mh.Sum([]byte("x"), mh.SHA2_256, -1)
	c1 := cid.NewCidV1(0x71, h).Bytes()
	c0 := cid.NewCidV0(h).Bytes()
	link := func(c []byte) []byte {
		return cat([]byte{0xd8, 0x2a}, cborHead(2, uint64(len(c)+1)), []byte{0}, c)
	}
	res := map[string][][]byte{}
	add := func(class string, b ...[]byte) { res[class] = append(res[class], b...) }
	// non-minimal heads for every major type
	for _, w := range []int{1, 2, 4, 8} {
		add("nonminimal-head", cborHeadN(0, 5, w), cborHeadN(1, 5, w),
			cat(cborHeadN(2, 2, w), []byte{1, 2}), cat(cborHeadN(3, 2, w), []byte("hi")),
			cat(cborHeadN(4, 2, w), []byte{1, 2}), cat(cborHeadN(5, 1, w), str("a"), []byte{1}),
			cat(cborHeadN(6, 42, w), cborHead(2, uint64(len(c1)+1)), []byte{0}, c1))
	}
	// reserved additional-information values 28..30 and 31 on ints / tags
	for ai := byte(28); ai <= 31; ai++ {
		for mj := byte(0); mj < 8; mj++ {
			add("reserved-ai", []byte{mj<<5 | ai}, []byte{mj<<5 | ai, 0, 0, 0})
		}
	}
	// ints at the edges
	add("int-edges", cborHeadN(0, math.MaxUint64, 8), cborHeadN(0, 1<<63, 8), cborHeadN(0, 1<<63-1, 8),
		cborHeadN(1, 1<<63-1, 8), cborHeadN(1, 1<<63, 8), cborHeadN(1, math.MaxUint64, 8), cborHeadN(1, math.MaxUint64-1, 8))
	// maps: unsorted, duplicate keys, non-string keys, tagged keys, indefinite keys
	add("map-unsorted", cat([]byte{0xa2}, str("bb"), []byte{1}, str("a"), []byte{2}),
		cat([]byte{0xa3}, str("b"), []byte{1}, str("a"), []byte{2}, str("aa"), []byte{0xf6}))
	add("map-dup-key", cat([]byte{0xa2}, str("a"), []byte{1}, str("a"), []byte{2}),
		cat([]byte{0xa3}, str("a"), []byte{1}, str("b"), []byte{1}, str("a"), []byte{1}),
		cat([]byte{0xbf}, str("a"), []byte{1}, str("a"), []byte{2}, []byte{0xff}))
	add("map-nonstring-key", cat([]byte{0xa1}, []byte{1}, []byte{2}), cat([]byte{0xa1}, []byte{0x41, 0x61}, []byte{2}),
		cat([]byte{0xa1}, []byte{0x80}, []byte{2}), cat([]byte{0xa1}, []byte{0xf6}, []byte{2}),
		cat([]byte{0xa1}, []byte{0xfb, 0, 0, 0, 0, 0, 0, 0, 0}, []byte{2}), cat([]byte{0xa1}, []byte{0xf9, 0}, []byte{2}),
		cat([]byte{0xa1}, []byte{0xa0}, []byte{2}), cat([]byte{0xa1}, link(c1), []byte{2}))
	add("map-tagged-key", cat([]byte{0xa1, 0xc1}, str("a"), []byte{2}), cat([]byte{0xa1, 0xd8, 0x2a}, str("a"), []byte{2}),
		cat([]byte{0xa1, 0xc1, 0xc1}, str("a"), []byte{2}))
	add("map-indef-key", cat([]byte{0xa1, 0x7f}, str("a"), str("b"), []byte{0xff, 2}), cat([]byte{0xa1, 0x7f, 0xff, 2}))
	add("map-short", cat([]byte{0xa2}, str("a"), []byte{1}), cat([]byte{0xa1}, str("a")), []byte{0xa1})
	// tags
	add("tag-not-42", cat([]byte{0xc1}, []byte{0x41, 0}), cat([]byte{0xd8, 43}, cborHead(2, uint64(len(c1)+1)), []byte{0}, c1),
		cat([]byte{0xd8, 41}, cborHead(2, uint64(len(c1)+1)), []byte{0}, c1))
	add("tag-ignored-on-nonbytes", []byte{0xc1, 0x05}, []byte{0xd8, 0x2a, 0x05}, cat([]byte{0xd8, 0x2a}, str("a")), []byte{0xc2, 0xf6},
		[]byte{0xc2, 0xf5}, []byte{0xc5, 0x80}, []byte{0xc5, 0xa0}, []byte{0xd8, 0x2a, 0x20}, []byte{0xc5, 0x82, 1, 2}, []byte{0xc5, 0x9f, 1, 0xff})
	add("tag-double", []byte{0xc1, 0xc1, 0x05}, cat([]byte{0xc1}, link(c1)), []byte{0xc1}, []byte{0xd8})
	add("tag-huge", cat(cborHeadN(6, 1<<63, 8), []byte{5}), cat(cborHeadN(6, 1<<63-1, 8), []byte{5}), cat(cborHeadN(6, 42, 8), cborHead(2, uint64(len(c1)+1)), []byte{0}, c1))
	// links
	add("link", link(c1), link(c0), link([]byte{1, 0x55, 0, 0}), link([]byte{1, 0x55, 0, 3, 1, 2, 3}))
	add("link-bad", cat([]byte{0xd8, 0x2a}, cborHead(2, uint64(len(c1))), c1), // no multibase 0 prefix
		cat([]byte{0xd8, 0x2a, 0x40}), cat([]byte{0xd8, 0x2a, 0x41, 0x00}), cat([]byte{0xd8, 0x2a, 0x41, 0x01}),
		link(append(append([]byte{}, c1...), 0)), // trailing byte in cid
		link(c1[:len(c1)-1]),                     // truncated digest
		link(c0[:33]), link(append(append([]byte{}, c0...), 7)), link([]byte{0x12, 0x20}), link([]byte{0x12, 0x20, 1}),
		link([]byte{2, 0x55, 0, 0}), link([]byte{0x81, 0x00, 0x55, 0, 0}), // version 2; non-minimal varint
		link([]byte{1, 0x55, 0}), link([]byte{1, 0x55}), link([]byte{1}), link([]byte{1, 0x55, 0x80, 0x00, 0}),
		link([]byte{1, 0x55, 0, 0x85, 0x80, 0x80, 0x80, 0x10}),                                                   // digest length > MaxInt32
		link([]byte{1, 0xff, 0xff, 0xff, 0xff, 0xff, 0xff, 0xff, 0xff, 0x7f, 0, 0}),                              // 63-bit codec
		link([]byte{1, 0xff, 0xff, 0xff, 0xff, 0xff, 0xff, 0xff, 0xff, 0xff, 0x01, 0, 0}),                        // overflow
		cat([]byte{0xd8, 0x2a, 0x5f}, cborHead(2, 1), []byte{0}, cborHead(2, uint64(len(c1))), c1, []byte{0xff})) // indefinite-length tagged bytes
	// indefinite lengths
	add("indef", []byte{0x9f, 0xff}, []byte{0x9f, 1, 2, 0xff}, []byte{0xbf, 0xff}, cat([]byte{0xbf}, str("a"), []byte{1, 0xff}),
		[]byte{0x5f, 0xff}, []byte{0x5f, 0x41, 1, 0x42, 2, 3, 0xff}, []byte{0x7f, 0xff}, cat([]byte{0x7f}, str("ab"), str(""), str("c"), []byte{0xff}),
		[]byte{0x9f, 0x9f, 0xff, 0xbf, 0xff, 0xff}, []byte{0x82, 0x9f, 0xff, 0x5f, 0xff})
	add("indef-bad", []byte{0x9f}, []byte{0x9f, 1}, []byte{0xbf, 0x61}, cat([]byte{0xbf}, str("a"), []byte{0xff}), cat([]byte{0xbf}, str("a")),
		[]byte{0x5f, 0x61, 0x61, 0xff}, []byte{0x7f, 0x41, 0x61, 0xff}, []byte{0x5f, 0x5f, 0xff, 0xff}, []byte{0x5f, 0x42, 1}, []byte{0x5f, 0x42, 1, 0xff},
		[]byte{0x5f, 0x5c, 0xff}, []byte{0x5f, 0x01, 0xff}, []byte{0xff}, []byte{0x81, 0xff}, []byte{0x9f, 0xc1, 0xff}, []byte{0xbf, 1, 2, 0xff},
		[]byte{0x5f, 0x58}, []byte{0x7f, 0x7b, 0x7f, 0xff, 0xff, 0xff, 0xff, 0xff, 0xff, 0xff})
	// simple values and floats
	for b := 0xe0; b <= 0xff; b++ {
		add("major7", []byte{byte(b)}, []byte{byte(b), 0, 0, 0, 0, 0, 0, 0, 0})
	}
	add("float", []byte{0xf9, 0x3c, 0x00}, []byte{0xfa, 0x3f, 0x80, 0, 0}, []byte{0xfb, 0x3f, 0xf0, 0, 0, 0, 0, 0, 0},
		[]byte{0x82, 0xfb, 0x3f, 0xf0, 0, 0, 0, 0, 0, 0, 0x01}, []byte{0x82, 0xf9, 0, 0}, []byte{0x82, 0x01, 0xf9, 0}, []byte{0xf9}, []byte{0xfb, 1, 2},
		[]byte{0x82, 0xff, 0xf9, 0, 0})
	// trailing / truncated / empty
	add("trailing", []byte{0x01, 0x01}, []byte{0xf6, 0x00}, []byte{0x80, 0xff}, cat(str("a"), []byte{0}), []byte{0xa0, 0xa0})
	add("truncated", []byte{}, []byte{0x18}, []byte{0x19, 1}, []byte{0x1a, 1, 2, 3}, []byte{0x1b, 1, 2, 3, 4, 5, 6, 7}, []byte{0x62, 0x61}, []byte{0x42, 1},
		[]byte{0x82, 1}, []byte{0x58}, []byte{0x98}, []byte{0xb8}, []byte{0xd8})
	// oversize declared lengths (declared only: the payload is absent)
	add("oversize-declared", cborHeadN(2, 33554433, 4), cborHeadN(3, 33554433, 4), cborHeadN(2, 1<<63, 8), cborHeadN(3, 1<<63-1, 8),
		cborHeadN(4, 10485761, 4), cborHeadN(5, 10485761, 4), cborHeadN(4, 1<<63, 8), cborHeadN(5, 1<<63, 8), cborHeadN(4, 1<<62, 8),
		cat(cborHeadN(4, 10485760, 4), []byte{1}), cat(cborHeadN(5, 1<<40, 8), str("a"), []byte{1}))
	// nesting
	deep := bytes.Repeat([]byte{0x81}, 200)
	add("deep", cat(deep, []byte{0xf6}), deep, cat(bytes.Repeat([]byte{0xa1, 0x60}, 100), []byte{1}), cat(bytes.Repeat([]byte{0x9f}, 50), bytes.Repeat([]byte{0xff}, 50)))
	_ = r
	return res
}

// mutate derives byte-level and structure-level mutants of a valid encoding.
func mutate(r *rand.Rand, b []byte) ([]byte, string) {
	if len(b) == 0 {
		return []byte{byte(r.Intn(256))}, "random-byte"
	}
	out := append([]byte{}, b...)
	switch r.Intn(9) {
	case 0:
		return out[:r.Intn(len(out))], "truncate"
	case 1:
		return append(out, byte(r.Intn(256))), "append-byte"
	case 2:
		out[r.Intn(len(out))] = byte(r.Intn(256))
		return out, "replace-byte"
	case 3:
		i := r.Intn(len(out))
		out[i] ^= 1 << uint(r.Intn(8))
		return out, "flip-bit"
	case 4:
		i := r.Intn(len(out))
		return append(out[:i], out[i+1:]...), "delete-byte"
	case 5:
		i := r.Intn(len(out) + 1)
		return cat(out[:i], []byte{byte(r.Intn(256))}, out[i:]), "insert-byte"
	case 6: // widen a head in place (non-minimal): find a byte with ai<24 and major != 7, rewrite as 1/2/4/8-byte head
		for try := 0; try < 8; try++ {
			i := r.Intn(len(out))
			if out[i]>>5 != 7 && out[i]&0x1f < 24 {
				w := []int{1, 2, 4, 8}[r.Intn(4)]
				return cat(out[:i], cborHeadN(out[i]>>5, uint64(out[i]&0x1f), w), out[i+1:]), "widen-head"
			}
		}
		return out, "identity"
	case 7: // change a marker byte into an interesting one
		marks := []byte{0xff, 0x9f, 0xbf, 0x5f, 0x7f, 0xf7, 0xf9, 0xfb, 0xc1, 0xd8, 0x1c, 0x3b, 0xa1, 0x81, 0xf4}
		out[r.Intn(len(out))] = marks[r.Intn(len(marks))]
		return out, "marker-byte"
	default: // splice two halves of the same message
		i, j := r.Intn(len(out)+1), r.Intn(len(out)+1)
		return cat(out[:i], out[j:]), "splice"
	}
}

// structural mutants built from a map's entries: swapped order, duplicated key.
func mapMutants(r *rand.Rand, st *cborStats) [][2]any {
	n := 2 + r.Intn(4)
	keys := randKeys(r, n, st)
	var vals [][]byte
	for range keys {
		v, _ := randNode(r, 1, st)
		b, _ := dagcborEncode(v)
		vals = append(vals, b)
	}
	enc := func(ks []string, vs [][]byte, indef bool) []byte {
		var parts [][]byte
		if indef {
			parts = append(parts, []byte{0xbf})
		} else {
			parts = append(parts, cborHead(5, uint64(len(ks))))
		}
		for i, k := range ks {
			parts = append(parts, cborHead(3, uint64(len(k))), []byte(k), vs[i])
		}
		if indef {
			parts = append(parts, []byte{0xff})
		}
		return cat(parts...)
	}
	var res [][2]any
	res = append(res, [2]any{enc(keys, vals, false), "map-random-order"})
	res = append(res, [2]any{enc(keys, vals, true), "map-random-order-indef"})
	dk := append(append([]string{}, keys...), keys[r.Intn(len(keys))])
	dv := append(append([][]byte{}, vals...), vals[r.Intn(len(vals))])
	res = append(res, [2]any{enc(dk, dv, false), "map-duplicate-key"})
	return res
}

// goGasCost mirrors Cbor.gas_cost (the model's account of dagcbor's allocation budget); used only for the
// budget probes below, whose inputs (10 MiB) are too large to evaluate in Coq.
func goGasCost(n datamodel.Node) int64 {
	switch n.Kind() {
	case datamodel.Kind_Null:
		return 0
	case datamodel.Kind_Bool, datamodel.Kind_Int:
		return 1
	case datamodel.Kind_String:
		s, _ := n.AsString()
		return int64(len(s))
	case datamodel.Kind_Bytes:
		b, _ := n.AsBytes()
		return int64(len(b))
	case datamodel.Kind_Link:
		l, _ := n.AsLink()
		return int64(len(l.(cidlink.Link).Cid.Bytes())) + 1
	case datamodel.Kind_List:
		var c int64
		for it := n.ListIterator(); !it.Done(); {
			_, v, _ := it.Next()
			c += 4 + goGasCost(v)
		}
		return c
	case datamodel.Kind_Map:
		var c int64
		for it := n.MapIterator(); !it.Done(); {
			k, v, _ := it.Next()
			ks, _ := k.AsString()
			c += int64(len(ks)) + 8 + goGasCost(v)
		}
		return c
	}
	return 1
}

// budgetProbes: values whose model gas cost is exactly at / just above the budget of 10485760.
func budgetProbes() (res []map[string]any, problems []string) {
	const budget = 10485760
	listOf := func(n int, v datamodel.Node) datamodel.Node {
		nb := basicnode.Prototype.List.NewBuilder()
		la, _ := nb.BeginList(int64(n))
		for i := 0; i < n; i++ {
			la.AssembleValue().AssignNode(v)
		}
		la.Finish()
		return nb.Build()
	}
	mapOf := func(k string, v datamodel.Node) datamodel.Node {
		nb := basicnode.Prototype.Map.NewBuilder()
		ma, _ := nb.BeginMap(1)
		ma.AssembleKey().AssignString(k)
		ma.AssembleValue().AssignNode(v)
		ma.Finish()
		return nb.Build()
	}
	str := func(n int) datamodel.Node { return basicnode.NewString(strings.Repeat("a", n)) }
	h, _ := mh.Sum([]byte("x"), mh.SHA2_256, -1)
	lnk := basicnode.NewLink(cidlink.Link{Cid: cid.NewCidV1(0x71, h)}) // 36 bytes: cost 37
	probes := map[string]datamodel.Node{
		"string(budget)":                                   str(budget),
		"string(budget+1)":                                 str(budget + 1),
		"bytes(budget)":                                    basicnode.NewBytes(make([]byte, budget)),
		"bytes(budget+1)":                                  basicnode.NewBytes(make([]byte, budget+1)),
		"list(null x budget/4)":                            listOf(budget/4, datamodel.Null),
		"list(null x budget/4+1)":                          listOf(budget/4+1, datamodel.Null),
		"list(int x budget/5)":                             listOf(budget/5, basicnode.NewInt(7)),
		"list(int x budget/5+1)":                           listOf(budget/5+1, basicnode.NewInt(7)),
		"map{abc: string(budget-11)}":                      mapOf("abc", str(budget-11)),
		"map{abc: string(budget-10)}":                      mapOf("abc", str(budget-10)),
		"list(link x 255750)":                              listOf(255750, lnk), // 255750*41 = 10485750
		"list(link x 255751)":                              listOf(255751, lnk), // 255751*41 = 10485791 > budget
		"list[list[string(k), string(k)]], 12+2k = budget": listOf(1, listOf(2, str((budget-12)/2))),
	}
	var names []string
	for k := range probes {
		names = append(names, k)
	}
	sort.Strings(names)
	for _, name := range names {
		n := probes[name]
		cost := goGasCost(n)
		b, err := dagcborEncode(n)
		if err != nil {
			problems = append(problems, "budget probe "+name+": encode error "+err.Error())
			continue
		}
		o := observeDecode(b)
		want := "ok"
		if cost > budget {
			want = "rej"
		}
		res = append(res, map[string]any{"probe": name, "model_gas_cost": cost, "encoded_len": len(b), "go_decode": o.kind})
		if o.kind != want {
			problems = append(problems, fmt.Sprintf("budget probe %s: model gas cost %d (budget %d) predicts %s, dagcbor.Decode -> %s %s", name, cost, budget, want, o.kind, o.err))
		}
	}
	return
}

func init() {
	gens["CBOR"] = func(o genOpts) error {
		nvals, nmut, shards := 1500, 1500, 6
		if o.tier == "thorough" {
			nvals, nmut, shards = 20000, 20000, 32
		}
		r := rand.New(rand.NewSource(o.seed))
		st := newCborStats()
		var encCases, decCases []string
		var samples []map[string]any
		var goProblems []string
		var valid [][]byte
		repoChecks := 0
		for i := 0; i < nvals; i++ {
			d := r.Intn(5)
			n, depth := randNode(r, d, st)
			for tries := 0; tries < 3 && depth == 1 && d > 0; tries++ { // prefer nested values
				n, depth = randNode(r, d, st)
			}
			if i%200 == 0 { // a large string / bytes value now and then (3-byte and 5-byte heads)
				big := []int{65535, 65536, 70000}[r.Intn(3)]
				if r.Intn(2) == 0 {
					n = basicnode.NewBytes(randBytes(r, big))
				} else {
					n = basicnode.NewString(string(randBytes(r, big)))
				}
				depth = 1
			}
			st.Depth[depth]++
			b, err := dagcborEncode(n)
			if err != nil {
				goProblems = append(goProblems, fmt.Sprintf("encode error on generated value #%d: %v", i, err))
				continue
			}
			st.SizeBuckets[sizeBucket(len(b))]++
			// implementation-side round trip: decode and re-encode
			o := observeDecode(b)
			if o.kind != "ok" {
				goProblems = append(goProblems, fmt.Sprintf("value #%d: dagcbor.Decode(dagcbor.Encode(v)) -> %s %s", i, o.kind, o.err))
			} else if b2, err := dagcborEncode(o.node); err != nil || !bytes.Equal(b, b2) {
				goProblems = append(goProblems, fmt.Sprintf("value #%d: re-encoding the decoded node does not reproduce the bytes", i))
			}
			if n.Kind() != datamodel.Kind_Null { // bindnode refuses null as a non-nullable list element
				repoChecks++
				if rb, err := repoEncode(n); err != nil || !bytes.Equal(rb, append([]byte{0x81}, b...)) {
					goProblems = append(goProblems, fmt.Sprintf("value #%d: go-ucanto cbor.Encode([v]) = %x (%v), expected 0x81 ++ %x", i, rb, err, b))
				}
			}
			encCases = append(encCases, "("+ipldToCoqPacked(n)+", "+pk(b)+")")
			if len(b) < 4096 {
				valid = append(valid, b)
			}
			if len(samples) < 6 && depth >= 2 && len(b) < 120 {
				samples = append(samples, map[string]any{"value": ipldToCoq(n), "bytes": fmt.Sprintf("%x", b)})
			}
		}
		// decode stream
		classes := map[string]int{}
		outcomes := map[string]int{}
		addDec := func(b []byte, class string) {
			o := observeDecode(b)
			classes[class]++
			outcomes[o.kind]++
			if o.kind == "panic" {
				goProblems = append(goProblems, fmt.Sprintf("dagcbor.Decode panics on %x: %s", b, o.err))
			}
			if !(o.node != nil && o.node.Kind() == datamodel.Kind_Null) {
				repoChecks++
				rn, rerr := repoDecode(b)
				switch {
				case rerr != nil && strings.HasPrefix(rerr.Error(), "panic"):
					goProblems = append(goProblems, fmt.Sprintf("go-ucanto cbor.Decode panics on 81%x: %v", b, rerr))
				case (rerr == nil) != (o.kind == "ok" || o.kind == "float"):
					goProblems = append(goProblems, fmt.Sprintf("go-ucanto cbor.Decode(81%x) err=%v but dagcbor.Decode(%x) -> %s", b, rerr, b, o.kind))
				case rerr == nil && ipldToCoq(rn) != ipldToCoq(o.node): // (datamodel.DeepEqual panics on uint64 nodes above MaxInt64)
					goProblems = append(goProblems, fmt.Sprintf("go-ucanto cbor.Decode(81%x) and dagcbor.Decode(%x) give different values", b, b))
				}
			}
			decCases = append(decCases, "("+pk(b)+", "+o.coq()+")")
		}
		hw := handWrittenDecodeInputs(r)
		var hwClasses []string
		for c := range hw {
			hwClasses = append(hwClasses, c)
		}
		sort.Strings(hwClasses)
		for _, c := range hwClasses {
			for _, b := range hw[c] {
				addDec(b, "hand:"+c)
			}
		}
		for i := 0; i < nmut; i++ {
			switch {
			case i%10 == 0:
				for _, m := range mapMutants(r, st) {
					addDec(m[0].([]byte), m[1].(string))
				}
			case i%10 == 1: // unmutated valid encoding
				addDec(valid[r.Intn(len(valid))], "valid")
			case i%10 == 2: // random bytes
				addDec(randBytes(r, 1+r.Intn(12)), "random-bytes")
			default:
				b := valid[r.Intn(len(valid))]
				k := 1 + r.Intn(2)
				var cls string
				for j := 0; j < k; j++ {
					b, cls = mutate(r, b)
				}
				addDec(b, "mut:"+cls)
			}
		}
		probes, pp := budgetProbes()
		goProblems = append(goProblems, pp...)
		write := func(prefix, typ, fn string, cases []string, extraPrint string) error {
			per := (len(cases) + shards - 1) / shards
			for k := 0; k < shards; k++ {
				lo, hi := k*per, (k+1)*per
				if lo > len(cases) {
					lo = len(cases)
				}
				if hi > len(cases) {
					hi = len(cases)
				}
				var sb strings.Builder
				sb.WriteString("From Coq Require Import Uint63.\nFrom Ucanto Require Import Base Ipld Cbor Check_CBOR.\nOpen Scope string_scope.\n")
				fmt.Fprintf(&sb, "Definition cases : list %s := %s.\n", typ, coqList(cases[lo:hi]))
				fmt.Fprintf(&sb, "Definition M := Eval vm_compute in %s %d cases.\nPrint M.\n%s", fn, lo, extraPrint)
				if err := writeFile(o.out, fmt.Sprintf("cases_CBOR_%s_%02d.v", prefix, k), sb.String()); err != nil {
					return err
				}
			}
			return nil
		}
		if err := write("enc", "(ipld * bstr)", "check_enc", encCases, ""); err != nil {
			return err
		}
		if err := write("dec", "(bstr * expect)", "check_dec", decCases,
			"Definition U := Eval vm_compute in count_unsup cases.\nPrint U.\n"); err != nil {
			return err
		}
		return writeJSON(o.out, "stats.json", map[string]any{
			"values": len(encCases), "decode_inputs": len(decCases), "kind_histogram": st.Kinds, "depth_histogram": st.Depth,
			"encoded_size_histogram": st.SizeBuckets, "int_classes": st.IntClasses, "link_kinds": st.LinkKinds,
			"maps_total": st.MapsTotal, "maps_inserted_out_of_order": st.MapsUnsorted, "max_map_len": st.MaxMapLen,
			"max_list_len": st.MaxListLen, "strings_with_invalid_utf8": st.InvalidUTF8,
			"decode_input_classes": classes, "decode_outcomes_go": outcomes, "go_problems": goProblems, "samples": samples,
			"repo_path_checks": repoChecks, "budget_probes": probes,
		})
	}
}
