package main

// verif-extract, generator "Accept2": translates carInbound.Accept and its helper
// `acceptable` (transport/car/codec.go, after fixes/C20_accept.diff) to Gallina.
//
// It extends the subset of extract.go by exactly the forms the helper uses
// (meaning in coq/GoSemStr.v):
//
//	for _, x := range strings.Split(s, "c") { assignments; if cond { return e } }  ->  rangeM (splitM s c) (fun x => ...) rest
//	x, _, _ := strings.Cut(s, "c")                                                  ->  cutM s c
//	strings.Trim(s, "ascii cutset")                                                 ->  trimM s cutset
//	f(a, b) for a translated helper f                                               ->  bind a (fun .. => bind b (fun .. => f .. ..))
//
// Anything else is "unsupported": no file is produced and the check falls back
// to the correspondence.

import (
	"fmt"
	"go/ast"
	"go/token"
	"path/filepath"
	"strconv"
	"strings"
)

type tr2 struct {
	*tr
	funcs map[string]bool // translated helper functions that may be called
}

func (t *tr2) byteLit(x ast.Expr, what string) string {
	bl, ok := x.(*ast.BasicLit)
	if !ok || bl.Kind != token.STRING {
		t.fail(x, what+" must be a string literal")
	}
	s, err := strconv.Unquote(bl.Value)
	if err != nil || len(s) != 1 || s[0] >= 0x80 {
		t.fail(x, what+" must be a one-byte ASCII literal")
	}
	return strconv.Itoa(int(s[0]))
}

func (t *tr2) expr(x ast.Expr) string {
	switch v := x.(type) {
	case *ast.ParenExpr:
		return t.expr(v.X)
	case *ast.Ident:
		if c, ok := t.e.consts[v.Name]; ok {
			return "(ret " + c + ")"
		}
		if v.Name == "true" || v.Name == "false" {
			return "(ret " + v.Name + ")"
		}
		if v.Name == "nil" {
			t.fail(x, "bare nil")
		}
		return "(ret " + v.Name + ")"
	case *ast.BasicLit:
		if v.Kind == token.STRING {
			s, _ := strconv.Unquote(v.Value)
			return "(ret " + bytesLit(s) + ")"
		}
	case *ast.SelectorExpr:
		if c, ok := t.e.consts[t.src(v)]; ok {
			return "(ret " + c + ")"
		}
	case *ast.UnaryExpr:
		if v.Op == token.NOT {
			return "(notM " + t.expr(v.X) + ")"
		}
	case *ast.BinaryExpr:
		a, b := t.expr(v.X), t.expr(v.Y)
		switch v.Op {
		case token.LAND:
			return "(andM " + a + " " + b + ")"
		case token.LOR:
			return "(orM " + a + " " + b + ")"
		case token.EQL:
			return "(eqM " + a + " " + b + ")"
		case token.NEQ:
			return "(neqM " + a + " " + b + ")"
		}
	case *ast.CallExpr:
		if c, ok := t.e.calls[t.src(v)]; ok {
			return "(ret " + c + ")"
		}
		fn := t.src(v.Fun)
		switch fn {
		case "strings.HasPrefix":
			return "(prefixM " + t.expr(v.Args[0]) + " " + t.expr(v.Args[1]) + ")"
		case "strings.HasSuffix":
			return "(suffixM " + t.expr(v.Args[0]) + " " + t.expr(v.Args[1]) + ")"
		case "strings.Contains":
			return "(containsM " + t.expr(v.Args[0]) + " " + t.expr(v.Args[1]) + ")"
		case "strings.Trim":
			bl, ok := v.Args[1].(*ast.BasicLit)
			if !ok || bl.Kind != token.STRING {
				t.fail(x, "strings.Trim cutset must be a literal")
			}
			cs, _ := strconv.Unquote(bl.Value)
			for i := 0; i < len(cs); i++ {
				if cs[i] >= 0x80 {
					t.fail(x, "strings.Trim cutset must be ASCII")
				}
			}
			if cs == "" {
				t.fail(x, "empty cutset")
			}
			return "(trimM " + t.expr(v.Args[0]) + " " + bytesLit(cs) + ")"
		}
		if t.funcs[fn] {
			var sb strings.Builder
			var names []string
			for i, a := range v.Args {
				n := fmt.Sprintf("a%d_", i)
				names = append(names, n)
				sb.WriteString("(bind " + t.expr(a) + " (fun " + n + " => ")
			}
			sb.WriteString("(" + fn + " " + strings.Join(names, " ") + ")")
			sb.WriteString(strings.Repeat("))", len(v.Args)))
			return sb.String()
		}
	}
	t.fail(x, fmt.Sprintf("expression %T %s", x, t.src(x)))
	return ""
}

func isBlank(x ast.Expr) bool {
	id, ok := x.(*ast.Ident)
	return ok && id.Name == "_"
}

// stmts translates a statement list.  Outside a loop every path must return;
// inside a loop body (inLoop) reaching the end means "next iteration".
func (t *tr2) stmts(ss []ast.Stmt, inLoop bool) string {
	if len(ss) == 0 {
		if inLoop {
			return "continueM"
		}
		panic(unsupported{"control reaches the end of the function without return"})
	}
	s, rest := ss[0], ss[1:]
	if t.e.ignore != nil && t.e.ignore(s, t.tr) {
		return t.stmts(rest, inLoop)
	}
	switch v := s.(type) {
	case *ast.ReturnStmt:
		r := t.e.ret(t.tr, v.Results)
		if r == "" { // plain value: translate with this translator
			if len(v.Results) != 1 {
				t.fail(v, "return arity")
			}
			r = t.expr(v.Results[0])
		}
		if inLoop {
			return "(returnM " + r + ")"
		}
		return r
	case *ast.AssignStmt:
		if v.Tok != token.DEFINE && v.Tok != token.ASSIGN {
			t.fail(v, "assignment operator")
		}
		if len(v.Lhs) == 1 && len(v.Rhs) == 1 {
			if id, ok := v.Lhs[0].(*ast.Ident); ok && id.Name != "_" {
				return "(bind " + t.expr(v.Rhs[0]) + " (fun " + id.Name + " =>\n " + t.stmts(rest, inLoop) + "))"
			}
		}
		// x, _, _ := strings.Cut(s, "c")
		if len(v.Lhs) == 3 && len(v.Rhs) == 1 && isBlank(v.Lhs[1]) && isBlank(v.Lhs[2]) {
			if id, ok := v.Lhs[0].(*ast.Ident); ok && id.Name != "_" {
				if c, ok := v.Rhs[0].(*ast.CallExpr); ok && t.src(c.Fun) == "strings.Cut" && len(c.Args) == 2 {
					return "(bind (cutM " + t.expr(c.Args[0]) + " " + t.byteLit(c.Args[1], "strings.Cut separator") + ") (fun " + id.Name + " =>\n " + t.stmts(rest, inLoop) + "))"
				}
			}
		}
	case *ast.IfStmt:
		if v.Init != nil {
			t.fail(v, "if with init")
		}
		if len(v.Body.List) == 1 && v.Else == nil {
			if as, ok := v.Body.List[0].(*ast.AssignStmt); ok && as.Tok == token.ASSIGN && len(as.Lhs) == 1 {
				if id, ok := as.Lhs[0].(*ast.Ident); ok {
					return "(bind " + t.expr(v.Cond) + " (fun c_ => bind (if c_ then " + t.expr(as.Rhs[0]) +
						" else ret " + id.Name + ") (fun " + id.Name + " =>\n " + t.stmts(rest, inLoop) + ")))"
				}
			}
		}
		body := append(append([]ast.Stmt{}, v.Body.List...), rest...)
		els := rest
		if v.Else != nil {
			els = append(append([]ast.Stmt{}, elseStmts(v.Else)...), rest...)
		}
		return "(bind " + t.expr(v.Cond) + " (fun c_ => if c_ then\n " + t.stmts(body, inLoop) + "\n else\n " + t.stmts(els, inLoop) + "))"
	case *ast.RangeStmt:
		if inLoop {
			t.fail(v, "nested loop")
		}
		if v.Tok != token.DEFINE || !isBlank(v.Key) || v.Value == nil {
			t.fail(v, "range form (want: for _, x := range ...)")
		}
		id, ok := v.Value.(*ast.Ident)
		if !ok || id.Name == "_" {
			t.fail(v, "range variable")
		}
		c, ok := v.X.(*ast.CallExpr)
		if !ok || t.src(c.Fun) != "strings.Split" || len(c.Args) != 2 {
			t.fail(v, "range over something else than strings.Split(s, sep)")
		}
		// break / continue / goto / labels inside the body are not in the subset:
		// the body translator accepts assignments, if and return only.
		return "(rangeM (splitM " + t.expr(c.Args[0]) + " " + t.byteLit(c.Args[1], "strings.Split separator") + ") (fun " + id.Name + " =>\n " +
			t.stmts(v.Body.List, true) + ")\n " + t.stmts(rest, false) + ")"
	}
	t.fail(s, fmt.Sprintf("statement %T", s))
	return ""
}

// parameters of a func(a, b string) bool
func stringParams(t *tr2, fd *ast.FuncDecl) []string {
	var names []string
	for _, f := range fd.Type.Params.List {
		if id, ok := f.Type.(*ast.Ident); !ok || id.Name != "string" {
			t.fail(f, "parameter type")
		}
		for _, n := range f.Names {
			names = append(names, n.Name)
		}
	}
	if fd.Type.Results == nil || len(fd.Type.Results.List) != 1 {
		t.fail(fd, "result arity")
	}
	if id, ok := fd.Type.Results.List[0].Type.(*ast.Ident); !ok || id.Name != "bool" {
		t.fail(fd, "result type")
	}
	return names
}

func genAccept2(repo string) string {
	fset := token.NewFileSet()
	carf := parseFile(fset, filepath.Join(repo, "core/car/car.go"))
	ct, ok := stringConsts(carf)["ContentType"]
	if !ok {
		panic(unsupported{"car.ContentType constant not found"})
	}
	cts, _ := strconv.Unquote(ct)
	reqf := parseFile(fset, filepath.Join(repo, "transport/car/request/request.go"))
	aliasOK := false
	for _, d := range reqf.Decls {
		if gd, ok := d.(*ast.GenDecl); ok && gd.Tok == token.CONST {
			for _, sp := range gd.Specs {
				vs := sp.(*ast.ValueSpec)
				for i, n := range vs.Names {
					if n.Name == "ContentType" && i < len(vs.Values) {
						if se, ok := vs.Values[i].(*ast.SelectorExpr); ok && se.Sel.Name == "ContentType" {
							aliasOK = true
						}
					}
				}
			}
		}
	}
	if !aliasOK {
		panic(unsupported{"request.ContentType is not car.ContentType"})
	}
	f := parseFile(fset, filepath.Join(repo, "transport/car/codec.go"))
	var sb strings.Builder
	sb.WriteString("(* GENERATED by verif-extract from /repo — do not edit. *)\nFrom Ucanto Require Import Base GoSem Strs GoSemStr.\nOpen Scope N_scope.\n\n")
	fmt.Fprintf(&sb, "Definition car_content_type : bstr := %s.\n\n", bytesLit(cts))

	// helper: func acceptable(accept, contentType string) bool
	base := &tr{fset, env{consts: map[string]string{}, calls: map[string]string{}}}
	base.e.ret = func(t *tr, rs []ast.Expr) string { return "" } // plain values
	th := &tr2{base, map[string]bool{}}
	hd := mustFunc(f, "acceptable", "")
	ps := stringParams(th, hd)
	fmt.Fprintf(&sb, "Definition acceptable (%s : bstr) : outcome bool :=\n %s.\n\n", strings.Join(ps, " "), th.stmts(hd.Body.List, false))

	// carInbound.Accept
	ta := &tr{fset, env{
		consts: map[string]string{"request.ContentType": "car_content_type", "car.ContentType": "car_content_type"},
		calls: map[string]string{
			`req.Headers().Get("Content-Type")`:                "hct",  // first Content-Type line or ""
			`strings.Join(req.Headers().Values("Accept"),",")`: "hacc", // all Accept lines joined with ","
		},
	}}
	ta.e.ignore = func(s ast.Stmt, t *tr) bool {
		// response header bookkeeping has no influence on the decision
		switch v := s.(type) {
		case *ast.AssignStmt:
			if id, ok := v.Lhs[0].(*ast.Ident); ok && id.Name == "headers" && len(v.Rhs) == 1 && t.src(v.Rhs[0]) == "http.Header{}" {
				return true
			}
		case *ast.ExprStmt:
			if c, ok := v.X.(*ast.CallExpr); ok {
				fn := t.src(c.Fun)
				if fn == "headers.Set" || fn == "headers.Add" {
					return true
				}
			}
		}
		return false
	}
	ta.e.ret = func(t *tr, rs []ast.Expr) string {
		if len(rs) == 2 && isNil(rs[1]) && !isNil(rs[0]) {
			return "(ret 0%Z)" // a codec was selected
		}
		if len(rs) == 2 && isNil(rs[0]) {
			if c, ok := rs[1].(*ast.CallExpr); ok && t.src(c.Fun) == "thttp.NewHTTPError" && len(c.Args) == 3 {
				if st, ok := httpStatus[t.src(c.Args[1])]; ok {
					return fmt.Sprintf("(ret %d%%Z)", st)
				}
				if bl, ok := c.Args[1].(*ast.BasicLit); ok && bl.Kind == token.INT {
					return "(ret " + bl.Value + "%Z)"
				}
			}
		}
		t.fail(rs[0], "return form")
		return ""
	}
	tacc := &tr2{ta, map[string]bool{"acceptable": true}}
	fd := mustFunc(f, "Accept", "carInbound")
	fmt.Fprintf(&sb, "(* hct = first Content-Type line or \"\"; hacc = all Accept lines joined with \",\";\n   0 = request accepted (a codec is selected); otherwise the HTTP status of the refusal *)\n")
	fmt.Fprintf(&sb, "Definition Accept (hct hacc : bstr) : outcome Z :=\n %s.\n", tacc.stmts(fd.Body.List, false))
	return sb.String()
}

func init() {
	generators["Accept2"] = genAccept2
}
