package main

// gen_c10.go — C10: receipts are authentic and intact after transport.

import (
	"fmt"
	"io"
	"math/rand"
	"strings"
	"sync"

	ipldprime "github.com/ipld/go-ipld-prime"
	"github.com/ipld/go-ipld-prime/codec/dagcbor"
	"github.com/ipld/go-ipld-prime/datamodel"
	"github.com/ipld/go-ipld-prime/fluent/qp"
	cidlink "github.com/ipld/go-ipld-prime/linking/cid"
	"github.com/ipld/go-ipld-prime/node/basicnode"
	"github.com/ipld/go-ipld-prime/node/bindnode"
	"github.com/ipld/go-ipld-prime/schema"
	"github.com/storacha/go-ucanto/core/dag/blockstore"
	"github.com/storacha/go-ucanto/core/delegation"
	"github.com/storacha/go-ucanto/core/invocation"
	"github.com/storacha/go-ucanto/core/invocation/ran"
	"github.com/storacha/go-ucanto/core/ipld"
	"github.com/storacha/go-ucanto/core/ipld/block"
	"github.com/storacha/go-ucanto/core/ipld/codec/cbor"
	hsha "github.com/storacha/go-ucanto/core/ipld/hash/sha256"
	"github.com/storacha/go-ucanto/core/message"
	"github.com/storacha/go-ucanto/core/receipt"
	rdm "github.com/storacha/go-ucanto/core/receipt/datamodel"
	"github.com/storacha/go-ucanto/core/receipt/fx"
	"github.com/storacha/go-ucanto/core/result"
	"github.com/storacha/go-ucanto/transport/car/response"
	"github.com/storacha/go-ucanto/ucan"
	"github.com/storacha/go-ucanto/ucan/crypto/signature"
)

type nodeB struct{ n datamodel.Node }

func (x nodeB) ToIPLD() (datamodel.Node, error) { return x.n, nil }

// rcptCoqFromBytes renders a receipt root block (decoded generically) as ReceiptFormat.rcpt
func rcptCoqFromBytes(b []byte) (string, error) {
	n, err := ipldprime.Decode(b, dagcbor.Decode)
	if err != nil {
		return "", err
	}
	ocm, err := n.LookupByString("ocm")
	if err != nil {
		return "", err
	}
	sigN, _ := n.LookupByString("sig")
	sig, _ := sigN.AsBytes()
	ranN, _ := ocm.LookupByString("ran")
	ranL, _ := ranN.AsLink()
	out, _ := ocm.LookupByString("out")
	okk := "true"
	val, err := out.LookupByString("ok")
	if err != nil {
		okk = "false"
		val, err = out.LookupByString("error")
		if err != nil {
			return "", fmt.Errorf("result with neither ok nor error")
		}
	}
	links := func(l datamodel.Node) string {
		var ls []string
		for it := l.ListIterator(); !it.Done(); {
			_, e, _ := it.Next()
			lk, _ := e.AsLink()
			ls = append(ls, hx([]byte(lk.Binary())))
		}
		return "[" + strings.Join(ls, "; ") + "]"
	}
	fxN, _ := ocm.LookupByString("fx")
	forkN, _ := fxN.LookupByString("fork")
	join := "None"
	if j, err := fxN.LookupByString("join"); err == nil {
		jl, _ := j.AsLink()
		join = "(Some " + hx([]byte(jl.Binary())) + ")"
	}
	metaN, _ := ocm.LookupByString("meta")
	var meta []string
	for it := metaN.MapIterator(); !it.Done(); {
		k, v, _ := it.Next()
		ks, _ := k.AsString()
		meta = append(meta, fmt.Sprintf("(%s, %s)", hxs(ks), ipldToCoq(v)))
	}
	iss := "None"
	if i, err := ocm.LookupByString("iss"); err == nil {
		s, _ := i.AsString()
		iss = "(Some " + hxs(s) + ")"
	}
	prfN, _ := ocm.LookupByString("prf")
	return fmt.Sprintf("(mkRc (mkOcm %s %s %s %s %s [%s] %s %s) %s)", hx([]byte(ranL.Binary())), okk, ipldToCoq(val),
		links(forkN), join, strings.Join(meta, "; "), iss, links(prfN), hx(sig)), nil
}

func nodeEqual(a, b datamodel.Node) bool {
	if a == nil || b == nil {
		return a == nil && b == nil
	}
	x, err1 := ipldprime.Encode(a, dagcbor.Encode)
	y, err2 := ipldprime.Encode(b, dagcbor.Encode)
	return err1 == nil && err2 == nil && string(x) == string(y)
}

type c10Typed struct {
	N int64
	S c10Str
}

// a Go type with a custom converter: the reader is handed bindnode options (here: upper-case on read); a typed
// reader that drops its options returns the raw wire value (or panics on a kind mismatch)
type c10Str string

var c10Opts = []bindnode.Option{bindnode.TypedStringConverter((*c10Str)(nil),
	func(s string) (interface{}, error) { return c10Str(strings.ToUpper(s)), nil },
	func(v interface{}) (string, error) { return strings.ToLower(string(v.(c10Str))), nil })}

var c10TypeSys = func() *schema.TypeSystem {
	ts, err := ipldprime.LoadSchemaBytes([]byte("type OkRes struct {\n  n Int\n  s String\n}\ntype ErrRes struct {\n  n Int\n  s String\n}\n"))
	if err != nil {
		panic(err)
	}
	return ts
}()

// a second result schema whose types have the SAME NAMES but another definition (two capabilities of one service
// commonly both call their results Ok / Err): each reader must decode with the schema it was given
type c10Typed2 struct {
	Label string
}

var c10TypeSys2 = func() *schema.TypeSystem {
	ts, err := ipldprime.LoadSchemaBytes([]byte("type OkRes struct {\n  label String\n}\ntype ErrRes struct {\n  label String\n}\n"))
	if err != nil {
		panic(err)
	}
	return ts
}()

// what every view of a receipt offers, whatever its result types
type rcptCommon interface {
	ipld.View
	Ran() invocation.Invocation
	Fx() fx.Effects
	Meta() map[string]any
	Issuer() ucan.Principal
	Proofs() delegation.Proofs
	Signature() signature.SignatureView
}

type rcptAlter struct {
	name  string
	apply func(m *rdm.OutcomeModel[ipld.Node, ipld.Node]) bool
}

func c10Alterations() []rcptAlter {
	alt := basicnode.NewString("altered")
	var altN ipld.Node = alt
	return []rcptAlter{
		{"out-value", func(m *rdm.OutcomeModel[ipld.Node, ipld.Node]) bool {
			if m.Out.Ok != nil {
				m.Out.Ok = &altN
			} else {
				m.Out.Err = &altN
			}
			return true
		}},
		{"out-flip-ok-error", func(m *rdm.OutcomeModel[ipld.Node, ipld.Node]) bool {
			m.Out.Ok, m.Out.Err = m.Out.Err, m.Out.Ok
			return true
		}},
		{"ran", func(m *rdm.OutcomeModel[ipld.Node, ipld.Node]) bool { m.Ran = fakeLink(77001); return true }},
		{"fork-added", func(m *rdm.OutcomeModel[ipld.Node, ipld.Node]) bool {
			m.Fx.Fork = append(append([]ipld.Link{}, m.Fx.Fork...), fakeLink(77002))
			return true
		}},
		{"fork-dropped", func(m *rdm.OutcomeModel[ipld.Node, ipld.Node]) bool {
			if len(m.Fx.Fork) == 0 {
				return false
			}
			m.Fx.Fork = m.Fx.Fork[1:]
			return true
		}},
		{"join", func(m *rdm.OutcomeModel[ipld.Node, ipld.Node]) bool { m.Fx.Join = fakeLink(77003); return true }},
		{"join-removed", func(m *rdm.OutcomeModel[ipld.Node, ipld.Node]) bool {
			if m.Fx.Join == nil {
				return false
			}
			m.Fx.Join = nil
			return true
		}},
		{"meta", func(m *rdm.OutcomeModel[ipld.Node, ipld.Node]) bool {
			mm := rdm.MetaModel{Values: map[string]datamodel.Node{}}
			for _, k := range m.Meta.Keys {
				mm.Keys = append(mm.Keys, k)
				mm.Values[k] = m.Meta.Values[k]
			}
			mm.Keys = append(mm.Keys, "zz-added")
			mm.Values["zz-added"] = alt
			m.Meta = mm
			return true
		}},
		{"iss", func(m *rdm.OutcomeModel[ipld.Node, ipld.Node]) bool {
			s := "did:key:z6MkffDZCkCTWreg8868fG1FGFogcJj5X6PY93pPcWDn9bob"
			if m.Iss != nil && *m.Iss == s {
				s = "did:web:other.example"
			}
			m.Iss = &s
			return true
		}},
		{"iss-removed", func(m *rdm.OutcomeModel[ipld.Node, ipld.Node]) bool {
			if m.Iss == nil {
				return false
			}
			m.Iss = nil
			return true
		}},
		{"prf", func(m *rdm.OutcomeModel[ipld.Node, ipld.Node]) bool {
			m.Prf = append(append([]ipld.Link{}, m.Prf...), fakeLink(77004))
			return true
		}},
	}
}

func init() {
	gens["C10"] = func(o genOpts) error {
		n := 350
		if o.tier == "thorough" {
			n = 10000
		}
		r := rand.New(rand.NewSource(o.seed))
		cast := newCast(o.seed * 13)
		signers := []*Prin{cast.Ed("svc"), cast.RSA("svcrsa", 0), cast.Wrapped("svcweb", "did:web:service.example", cast.Ed("svckey")),
			// issuers of other DID methods (names that begin with letters of "did:") keep their name through the codec
			cast.Wrapped("svcdns", "did:dns:service.example", cast.Ed("svckey2")), cast.Wrapped("svcion", "did:ion:EiClkZMDxPKqC9c-umQfTkR8", cast.Ed("svckey3"))}
		others := []*Prin{cast.Ed("other"), cast.RSA("otherrsa", 1)}
		cst := newCborStats()
		far := int(ucan.Now()) + 100000
		var cases []string
		var direct []map[string]any
		for name, lit := range map[string]string{"svcweb": "did:web:service.example", "svcdns": "did:dns:service.example", "svcion": "did:ion:EiClkZMDxPKqC9c-umQfTkR8"} {
			for _, sg := range signers {
				if sg.Name == name && (sg.DID.String() != lit || sg.Signer.DID().String() != lit) {
					direct = append(direct, map[string]any{"receipt": -1, "shape": "issuer " + name, "what": "read-back differs from what was issued: an issuer wrapped under " + lit + " names itself " + sg.Signer.DID().String()})
				}
			}
		}
		altHist := map[string]int{}
		shapeHist := map[string]int{}
		var samples []any
		nverify := 0
		nrebind := 0
		for i := 0; i < n; i++ {
			sg := signers[i%len(signers)]
			user := cast.Ed(fmt.Sprintf("user%d", i%5))
			inv, err := invocation.Invoke(user.Signer, sg.DID, ucan.NewCapability[ucan.CaveatBuilder]("store/add", user.DID.String(), Cav{Max: i64(int64(i))}), delegation.WithExpiration(far))
			if err != nil {
				return err
			}
			// result value over all kinds
			val, _ := randNode(r, 3, cst)
			if nodeHasFloat(val) || val.Kind() == datamodel.Kind_Null {
				val = basicnode.NewString("value")
			}
			typed := i%4 == 0
			typed2 := i%4 == 2
			if typed2 {
				val, _ = qp.BuildMap(basicnode.Prototype.Any, 1, func(ma datamodel.MapAssembler) {
					qp.MapEntry(ma, "label", qp.String(fmt.Sprintf("x%d", i)))
				})
			}
			if typed {
				// a result with a fixed shape, read back into Go structs with Rebind
				val, _ = qp.BuildMap(basicnode.Prototype.Any, 2, func(ma datamodel.MapAssembler) {
					qp.MapEntry(ma, "n", qp.Int(int64(i)))
					qp.MapEntry(ma, "s", qp.String("typed"))
				})
			}
			isOk := r.Intn(3) != 0
			var res result.Result[nodeB, nodeB]
			if isOk {
				res = result.Ok[nodeB, nodeB](nodeB{val})
			} else {
				res = result.Error[nodeB, nodeB](nodeB{val})
			}
			var opts []receipt.Option
			shape := fmt.Sprintf("ok=%v", isOk)
			// effects
			nfork := r.Intn(4)
			var forks []fx.Effect
			var forkInvs []invocation.Invocation
			for f := 0; f < nfork; f++ {
				if r.Intn(2) == 0 {
					fi, _ := invocation.Invoke(user.Signer, sg.DID, ucan.NewCapability[ucan.CaveatBuilder]("store/list", user.DID.String(), Cav{Tag: strp(fmt.Sprint(i, f))}), delegation.WithExpiration(far))
					forks = append(forks, fx.FromInvocation(fi))
					forkInvs = append(forkInvs, fi)
				} else {
					forks = append(forks, fx.FromLink(cidlink.Link{Cid: randCid(r, cst)}))
				}
			}
			if nfork > 0 {
				opts = append(opts, receipt.WithFork(forks...))
			}
			hasJoin := r.Intn(3) == 0
			var joinInv invocation.Invocation
			if hasJoin {
				if r.Intn(2) == 0 {
					// the join as an EMBEDDED invocation (often the only embedded view of the receipt)
					joinInv, _ = invocation.Invoke(user.Signer, sg.DID, ucan.NewCapability[ucan.CaveatBuilder]("store/list", user.DID.String(), Cav{Tag: strp(fmt.Sprint("join", i))}), delegation.WithExpiration(far))
					opts = append(opts, receipt.WithJoin(fx.FromInvocation(joinInv)))
				} else {
					opts = append(opts, receipt.WithJoin(fx.FromLink(cidlink.Link{Cid: randCid(r, cst)})))
				}
			}
			shape += fmt.Sprintf(" forks=%d join=%v", nfork, hasJoin)
			// metadata (bindnode infers the node from pointers to Go values)
			nmeta := r.Intn(5)
			if nmeta > 0 {
				meta := map[string]any{}
				for m := 0; m < nmeta; m++ {
					k := []string{"a", "bb", "ccc", "b", "Z", "key with space", "ü"}[r.Intn(7)]
					switch r.Intn(3) {
					case 0:
						v := int64(r.Intn(1000)) - 500
						meta[k] = &v
					case 1:
						v := fmt.Sprintf("v%d", r.Intn(100))
						meta[k] = &v
					case 2:
						v := r.Intn(2) == 0
						meta[k] = &v
					}
				}
				opts = append(opts, receipt.WithMeta(meta))
				nmeta = len(meta)
			}
			// proofs
			nprf := r.Intn(3)
			var prfs delegation.Proofs
			for p := 0; p < nprf; p++ {
				if r.Intn(2) == 0 {
					pd, _ := delegation.Delegate(user.Signer, sg.DID, []ucan.Capability[ucan.CaveatBuilder]{ucan.NewCapability[ucan.CaveatBuilder]("*", user.DID.String(), Cav{})}, delegation.WithExpiration(far), delegation.WithNonce(fmt.Sprint(i, p)))
					prfs = append(prfs, delegation.FromDelegation(pd))
				} else {
					prfs = append(prfs, delegation.FromLink(cidlink.Link{Cid: randCid(r, cst)}))
				}
			}
			if nprf > 0 && r.Intn(4) == 0 {
				// the same proof named twice (once by its link, once in full, or twice alike), as far apart as the list allows:
				// the proof list that was issued is the proof list that is read back
				first := prfs[0]
				dupe := first
				if _, isD := first.Delegation(); isD && r.Intn(2) == 0 {
					dupe = delegation.FromLink(first.Link())
					prfs = append(delegation.Proofs{dupe}, prfs...) // link first, the full one later
				} else {
					prfs = append(prfs, dupe)
				}
				nprf++
			}
			if nprf > 0 {
				opts = append(opts, receipt.WithProofs(prfs))
			}
			shape += fmt.Sprintf(" meta=%d prf=%d", nmeta, nprf)
			embedded := r.Intn(4) != 0
			rn := ran.FromInvocation(inv)
			if !embedded {
				rn = ran.FromLink(inv.Link())
			}
			shape += fmt.Sprintf(" ran-embedded=%v signer=%s", embedded, sg.Name)
			shapeHist[fmt.Sprintf("ok=%v forks=%d join=%v meta=%d prf=%d emb=%v", isOk, nfork, hasJoin, nmeta, nprf, embedded)]++
			rc, err := receipt.Issue(sg.Signer, res, rn, opts...)
			if err != nil {
				return fmt.Errorf("issuing receipt %d: %v", i, err)
			}
			// transport: message -> response codec -> message
			msg, err := message.Build(nil, []receipt.AnyReceipt{rc})
			if err != nil {
				direct = append(direct, map[string]any{"receipt": i, "shape": shape, "what": "message.Build failed: " + err.Error()})
				continue
			}
			hres, _ := response.Encode(msg)
			body, _ := io.ReadAll(hres.Body())
			_ = body
			hres2, _ := response.Encode(msg)
			dmsg, err := response.Decode(hres2)
			if err != nil {
				direct = append(direct, map[string]any{"receipt": i, "shape": shape, "what": "response.Decode failed: " + err.Error()})
				continue
			}
			rl, found := dmsg.Get(inv.Link())
			if !found || rl.String() != rc.Root().Link().String() {
				direct = append(direct, map[string]any{"receipt": i, "shape": shape, "what": "receipt not retrievable by its invocation link after transport"})
				continue
			}
			br, _ := blockstore.NewBlockReader(blockstore.WithBlocksIterator(dmsg.Blocks()))
			rootBlk, okb, _ := br.Get(rl)
			if !okb {
				direct = append(direct, map[string]any{"receipt": i, "shape": shape, "what": "receipt root block missing after transport"})
				continue
			}
			// the signed bytes as a consumer recomputes them from the transported root block
			var rm rdm.ReceiptModel[ipld.Node, ipld.Node]
			if err := block.Decode(rootBlk, &rm, rdm.TypeSystem().TypeByName("Receipt"), cbor.Codec, hsha.Hasher); err != nil {
				direct = append(direct, map[string]any{"receipt": i, "shape": shape, "what": "transported receipt does not decode: " + err.Error()})
				continue
			}
			obytes, err := cbor.Encode(&rm.Ocm, rdm.TypeSystem().TypeByName("Outcome"))
			if err != nil {
				return err
			}
			nverify++
			if !sg.Real.Verify(obytes, signature.Decode(rm.Sig)) {
				direct = append(direct, map[string]any{"receipt": i, "shape": shape, "what": "signature does not verify over the re-encoded outcome of the transported receipt"})
			}
			for _, ot := range others {
				nverify++
				if ot.Real.Verify(obytes, signature.Decode(rm.Sig)) {
					direct = append(direct, map[string]any{"receipt": i, "shape": shape, "what": "signature verifies for another principal"})
				}
			}
			// alterations
			for _, a := range c10Alterations() {
				m := rm.Ocm
				if !a.apply(&m) {
					continue
				}
				ab, err := cbor.Encode(&m, rdm.TypeSystem().TypeByName("Outcome"))
				if err != nil {
					continue
				}
				altHist[a.name]++
				nverify++
				if sg.Real.Verify(ab, signature.Decode(rm.Sig)) {
					direct = append(direct, map[string]any{"receipt": i, "shape": shape, "alteration": a.name, "what": "signature still verifies after altering " + a.name})
				}
			}
			{
				s := append([]byte{}, rm.Sig...)
				s[len(s)-1] ^= 1
				altHist["sig-flip"]++
				if sg.Real.Verify(obytes, signature.Decode(s)) {
					direct = append(direct, map[string]any{"receipt": i, "shape": shape, "alteration": "sig-flip", "what": "altered signature verifies"})
				}
				// every other single alteration of the signature bytes: extended, truncated, size varint changed / padded,
				// code varint padded
				sv := signature.Decode(rm.Sig)
				code, raw := sv.Code(), sv.Raw()
				padded := func(v uint64) []byte { // a non-minimal varint of v (one redundant continuation octet)
					b := uvarintBytes(v)
					b[len(b)-1] |= 0x80
					return append(b, 0x00)
				}
				for name, alt := range map[string][]byte{
					"sig-extended":       append(append([]byte{}, rm.Sig...), 0x00),
					"sig-extended-many":  append(append([]byte{}, rm.Sig...), []byte("RS256")...),
					"sig-truncated":      rm.Sig[:len(rm.Sig)-1],
					"sig-size-plus-one":  cat(uvarintBytes(code), uvarintBytes(uint64(len(raw))+1), raw),
					"sig-size-minus-one": cat(uvarintBytes(code), uvarintBytes(uint64(len(raw))-1), raw),
					"sig-size-padded":    cat(uvarintBytes(code), padded(uint64(len(raw))), raw),
					"sig-code-padded":    cat(padded(code), uvarintBytes(uint64(len(raw))), raw),
					// the same raw bytes declared under ANOTHER algorithm's code (EdDSA <-> RS256) and under an unknown one
					"sig-code-other-algorithm": cat(uvarintBytes(map[uint64]uint64{signature.EdDSA: signature.RS256}[code]+map[bool]uint64{true: signature.EdDSA}[code != signature.EdDSA]), uvarintBytes(uint64(len(raw))), raw),
					"sig-code-unknown":         cat(uvarintBytes(0x1234), uvarintBytes(uint64(len(raw))), raw),
				} {
					altHist[name]++
					nverify++
					if p := recovered(func() {
						if sg.Real.Verify(obytes, signature.Decode(alt)) {
							direct = append(direct, map[string]any{"receipt": i, "shape": shape, "alteration": name, "what": "signature still verifies after altering " + name})
						}
					}); p != nil {
						direct = append(direct, map[string]any{"receipt": i, "shape": shape, "alteration": name, "what": fmt.Sprintf("verifying an altered signature panicked (%s): %v", name, p)})
					}
				}
			}
			// read back through the library's readers: NewReceipt (untyped), ReceiptReader.Read, Rebind to typed results
			wantBlocks := map[string]bool{}
			for b, err := range rc.Blocks() {
				if err == nil {
					wantBlocks[b.Link().String()] = true
				}
			}
			common := func(how string, rd rcptCommon) {
				var bad []string
				fxs := rd.Fx()
				if len(fxs.Fork()) != nfork {
					bad = append(bad, "fork-count")
				} else {
					for fi, f := range fxs.Fork() {
						if f.Link().String() != forks[fi].Link().String() {
							bad = append(bad, "fork-link")
						}
						if _, isInv := forks[fi].Invocation(); isInv {
							if got, okk := f.Invocation(); !okk || got.Link().String() != forks[fi].Link().String() {
								bad = append(bad, "fork-embedded-invocation-lost")
							}
						}
					}
				}
				if hasJoin != (fxs.Join() != (fx.Effect{})) {
					bad = append(bad, "join")
				} else if joinInv != nil {
					if got, okk := fxs.Join().Invocation(); !okk || got.Link().String() != joinInv.Link().String() {
						bad = append(bad, "join-embedded-invocation-lost")
					}
				}
				if len(rd.Meta()) != nmeta {
					bad = append(bad, "meta")
				}
				if len(rd.Proofs()) != nprf {
					bad = append(bad, "proofs")
				} else {
					for pi, p := range rd.Proofs() {
						if p.Link().String() != prfs[pi].Link().String() {
							bad = append(bad, "proof-link")
						}
						if _, isD := prfs[pi].Delegation(); isD {
							if _, okk := p.Delegation(); !okk {
								bad = append(bad, "proof-embedded-delegation-lost")
							}
						}
					}
				}
				if rd.Issuer() == nil || rd.Issuer().DID().String() != sg.DID.String() {
					bad = append(bad, "issuer")
				}
				if embedded && (rd.Ran() == nil || rd.Ran().Link().String() != inv.Link().String()) {
					bad = append(bad, "ran")
				}
				if string(rd.Signature().Bytes()) != string(rm.Sig) {
					bad = append(bad, "signature")
				}
				if rd.Root().Link().String() != rc.Root().Link().String() {
					bad = append(bad, "root")
				}
				got := map[string]bool{}
				for b, err := range rd.Blocks() {
					if err == nil {
						got[b.Link().String()] = true
					}
				}
				for l := range wantBlocks {
					if !got[l] {
						bad = append(bad, "blocks-lost")
						break
					}
				}
				if len(bad) > 0 {
					direct = append(direct, map[string]any{"receipt": i, "shape": shape, "reader": how, "what": how + ": read-back differs from what was issued: " + strings.Join(bad, ",")})
				}
			}
			outAny := func(how string, rd receipt.AnyReceipt) {
				gotOk, gotVal := false, datamodel.Node(nil)
				result.MatchResultR0(rd.Out(), func(v ipld.Node) { gotOk, gotVal = true, v }, func(v ipld.Node) { gotOk, gotVal = false, v })
				if gotOk != isOk || !nodeEqual(gotVal, val) {
					direct = append(direct, map[string]any{"receipt": i, "shape": shape, "reader": how, "what": how + ": read-back differs from what was issued: out"})
				}
			}
			rd, err := receipt.NewReceipt[ipld.Node, ipld.Node](rl, br, rdm.TypeSystem().TypeByName("Receipt"))
			if err != nil {
				direct = append(direct, map[string]any{"receipt": i, "shape": shape, "what": "NewReceipt failed after transport: " + err.Error()})
			} else {
				common("NewReceipt", rd)
				outAny("NewReceipt", rd)
				if rr, err := receipt.NewReceiptReader[ipld.Node, ipld.Node]([]byte("type Result struct {\n  ok optional Any\n  err optional Any (rename \"error\")\n}\n")); err == nil {
					if rd2, err := rr.Read(rl, dmsg.Blocks()); err != nil {
						direct = append(direct, map[string]any{"receipt": i, "shape": shape, "what": "ReceiptReader.Read failed after transport: " + err.Error()})
					} else {
						common("ReceiptReader.Read", rd2)
						outAny("ReceiptReader.Read", rd2)
					}
				}
				if p := recovered(func() {
					if typed2 {
						rb, err := receipt.Rebind[c10Typed2, c10Typed2](rd, c10TypeSys2.TypeByName("OkRes"), c10TypeSys2.TypeByName("ErrRes"))
						if err != nil {
							direct = append(direct, map[string]any{"receipt": i, "shape": shape, "what": "Rebind (second schema with the same type names) failed after transport: " + err.Error()})
						} else {
							nrebind++
							common("Rebind", rb)
							gotOk, gotVal := false, c10Typed2{}
							result.MatchResultR0(rb.Out(), func(v c10Typed2) { gotOk, gotVal = true, v }, func(v c10Typed2) { gotOk, gotVal = false, v })
							if gotOk != isOk || gotVal.Label != fmt.Sprintf("x%d", i) {
								direct = append(direct, map[string]any{"receipt": i, "shape": shape, "reader": "Rebind", "what": "Rebind (second schema): read-back differs from what was issued: out"})
							}
						}
						if rr, err := receipt.NewReceiptReaderFromTypes[c10Typed2, c10Typed2](c10TypeSys2.TypeByName("OkRes"), c10TypeSys2.TypeByName("ErrRes")); err == nil {
							if _, err := rr.Read(rl, dmsg.Blocks()); err != nil {
								direct = append(direct, map[string]any{"receipt": i, "shape": shape, "what": "typed ReceiptReader (second schema) failed after transport: " + err.Error()})
							}
						}
					}
					if typed {
						rb, err := receipt.Rebind[c10Typed, c10Typed](rd, c10TypeSys.TypeByName("OkRes"), c10TypeSys.TypeByName("ErrRes"), c10Opts...)
						if err != nil {
							direct = append(direct, map[string]any{"receipt": i, "shape": shape, "what": "Rebind failed after transport: " + err.Error()})
						} else {
							nrebind++
							common("Rebind", rb)
							gotOk, gotVal := false, c10Typed{}
							result.MatchResultR0(rb.Out(), func(v c10Typed) { gotOk, gotVal = true, v }, func(v c10Typed) { gotOk, gotVal = false, v })
							if gotOk != isOk || gotVal.N != int64(i) || gotVal.S != "TYPED" { // the converter upper-cases
								direct = append(direct, map[string]any{"receipt": i, "shape": shape, "reader": "Rebind", "what": "Rebind: read-back differs from what was issued: out"})
							}
						}
					}
				}); p != nil {
					direct = append(direct, map[string]any{"receipt": i, "shape": shape, "reader": "Rebind", "what": fmt.Sprintf("typed reader / Rebind panicked: %v", p)})
				}
			}
			rt, err := rcptCoqFromBytes(rootBlk.Bytes())
			if err != nil {
				return err
			}
			cases = append(cases, fmt.Sprintf("(%d, %s, %s, %s)", i, rt, hx(rootBlk.Bytes()), hx(obytes)))
			if len(samples) < 5 {
				samples = append(samples, map[string]any{"receipt": i, "shape": shape, "root_bytes": len(rootBlk.Bytes()), "outcome_bytes": len(obytes)})
			}
			_ = forkInvs
		}
		// ---- receipts issued CONCURRENTLY with one signer (as server.Execute does: one goroutine per invocation, all
		// signing with the server's identity): every one of them must verify
		nconc := 0
		for _, sg := range signers {
			const workers, each = 12, 3
			type res struct {
				rc  receipt.AnyReceipt
				err string
			}
			out := make([]res, workers*each)
			var wg sync.WaitGroup
			for wk := 0; wk < workers; wk++ {
				wg.Add(1)
				go func(wk int) {
					defer wg.Done()
					for j := 0; j < each; j++ {
						k := wk*each + j
						if p := recovered(func() {
							big := make([]byte, 200_000+k) // large outcomes keep the digest busy for long enough to overlap
							for x := range big {
								big[x] = byte(k + x)
							}
							rc, err := receipt.Issue(sg.Signer, result.Ok[nodeB, nodeB](nodeB{basicnode.NewBytes(big)}), ran.FromLink(fakeLink(88000+k)))
							if err != nil {
								out[k].err = err.Error()
								return
							}
							out[k].rc = rc
						}); p != nil {
							out[k].err = fmt.Sprintf("panic: %v", p)
						}
					}
				}(wk)
			}
			wg.Wait()
			for k, r := range out {
				nconc++
				if r.err != "" {
					direct = append(direct, map[string]any{"receipt": -1, "shape": "concurrent issuance signer=" + sg.Name, "what": fmt.Sprintf("concurrent Issue %d failed: %s", k, r.err)})
					continue
				}
				ob, err := reencodeOutcome(r.rc.Root().Bytes())
				if err != nil || !sg.Real.Verify(ob, r.rc.Signature()) {
					direct = append(direct, map[string]any{"receipt": -1, "shape": "concurrent issuance signer=" + sg.Name,
						"what": "a receipt issued concurrently with others by the same signer does not verify over its outcome"})
				}
			}
		}
		shards := 16
		per := (len(cases) + shards - 1) / shards
		if per == 0 {
			per = 1
		}
		for k := 0; k*per < len(cases); k++ {
			hi := (k + 1) * per
			if hi > len(cases) {
				hi = len(cases)
			}
			var sb strings.Builder
			sb.WriteString("From Ucanto Require Import Base Ipld Cbor Formats ReceiptFormat Check_Formats.\nOpen Scope N_scope.\n")
			defs, body := internHex(coqList(cases[k*per : hi]))
			sb.WriteString(defs)
			fmt.Fprintf(&sb, "Definition cases : list (N * rcpt * bstr * bstr) := %s.\n", body)
			sb.WriteString("Definition M := Eval vm_compute in check_receipts cases.\nPrint M.\n")
			if err := writeFile(o.out, fmt.Sprintf("cases_C10_%02d.v", k), sb.String()); err != nil {
				return err
			}
		}
		// receipts issued BY THE SERVER for handlers that return effects (forks only, a join only, both): the effects of the
		// receipt are the effects the handler returned
		srvRcpts := 0
		rb := rand.New(rand.NewSource(o.seed + 77))
		for bi := 0; bi < 60; bi++ {
			b := randomBatch(rb, bi, o.seed+77, 4, false)
			for can := range b.Handlers {
				b.Handlers[can] = []string{"okfx", "okjoin", "okfxjoin", "ok", "okfxinv"}[(bi+len(can))%5]
			}
			b.Handlers["store/add"] = []string{"okjoin", "okfx", "okfxjoin"}[bi%3]
			if err := b.W.Build(); err != nil {
				return err
			}
			bobs := b.Run(nil)
			for _, rc := range bobs.Rcpts {
				if rc.Class == "ok" {
					srvRcpts++
				}
				if rc.FxBad != "" {
					direct = append(direct, map[string]any{"receipt": fmt.Sprintf("server batch %d", bi), "shape": "issued by server.Run", "what": "read-back differs from what was issued: effects of a receipt issued by the server (" + rc.FxBad + ")"})
				}
			}
		}
		xd, xruns := c10Extra(o.seed)
		direct = append(direct, xd...)
		return writeJSON(o.out, "stats.json", map[string]any{"receipts": n, "verify_calls": nverify, "alteration_histogram": altHist, "receipts_issued_by_a_server": srvRcpts, "handwritten_method_and_large_result_runs": xruns,
			"distinct_shapes": len(shapeHist), "rebinds": nrebind, "concurrently_issued": nconc, "direct_violations": direct, "samples": samples, "byte_cases": len(cases)})
	}
}
