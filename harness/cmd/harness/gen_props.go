package main

// gen_props.go — structured world enumerations for C02 (caveats), C03 (time
// window), C04 (sessions), C05 (revocation), C06 (order / decoys), C19 (cost).

import (
	"fmt"
	"strings"
	"math/rand"
	"time"

	"github.com/ipld/go-ipld-prime/datamodel"
	"github.com/ipld/go-ipld-prime/node/basicnode"
	"github.com/storacha/go-ucanto/ucan"
)

func baseCtx(service *Prin) CtxSpec {
	return CtxSpec{Authority: service, SelfIssued: true, Owners: map[string]*Prin{}, Revoked: map[string]bool{},
		Resolvable: map[string]bool{}, ParserKind: "ed", KeyResolver: map[string]*Prin{}}
}

// linear chain owner=p0 -> p1 -> ... -> p_depth (invoker); returns specs d1..d_depth, inv
func linearChain(cast *Cast, service *Prin, can, with string, depth int, far int, claimNb ucan.CaveatBuilder) []*TokSpec {
	var specs []*TokSpec
	prev := ""
	for i := 1; i <= depth+1; i++ {
		sp := &TokSpec{Issuer: cast.Ed(fmt.Sprintf("p%d", i-1)), Exp: &far}
		if i == depth+1 {
			sp.Name, sp.Audience = "inv", service
			sp.Caps = []CapSpec{{Can: can, With: with, Nb: claimNb}}
		} else {
			sp.Name, sp.Audience = fmt.Sprintf("d%d", i), cast.Ed(fmt.Sprintf("p%d", i))
			sp.Caps = []CapSpec{{Can: can, With: with, Nb: Cav{}}}
		}
		if prev != "" {
			sp.Proofs = []ProofRef{{Tok: prev, Inline: true}}
		}
		specs = append(specs, sp)
		prev = sp.Name
	}
	return specs
}

func linkNode(i int) datamodel.Link { return fakeLink(900000 + i) }

// set by a generator before finishWorlds: builders of worlds for the second t
var timedExtras []func(t int) (*World, string)

func finishWorlds(o genOpts, prop string, worlds []*World, labels map[int]string, st *worldStats, shards int, extra map[string]any) error {
	var cases []string
	for _, w := range worlds {
		c, _, err := runAndRender(w, st, labels[w.ID])
		if err != nil {
			return err
		}
		cases = append(cases, c)
	}
	// worlds that must be validated in exactly the second their tokens name (boundary of the validity window)
	for _, mk := range timedExtras {
		for try := 0; try < 40; try++ {
			for ns := time.Now().Nanosecond(); ns > 600_000_000; ns = time.Now().Nanosecond() {
				time.Sleep(5 * time.Millisecond)
			}
			t := int(time.Now().Unix())
			w, label := mk(t)
			if err := w.Build(); err != nil {
				return err
			}
			obs := w.Run()
			if obs.NowBefore != t || obs.NowAfter != t {
				continue
			}
			labels[w.ID] = label
			st.Worlds++
			st.Kinds["at-the-exact-second"]++
			if obs.Authorized {
				st.Authorized++
			}
			cases = append(cases, w.Coq(obs))
			break
		}
	}
	timedExtras = nil
	if err := writeWorldCases(o.out, "cases_"+prop, cases, shards, "check_worlds"); err != nil {
		return err
	}
	if err := writeJSON(o.out, "labels.json", labels); err != nil {
		return err
	}
	if extra != nil {
		return writeJSON(o.out, "stats.json", struct {
			*worldStats
			Extra map[string]any `json:"extra"`
		}{st, extra})
	}
	return writeJSON(o.out, "stats.json", st)
}

// ---------------------------------------------------------------------------
// C02

var c02Extra map[string]any

func cavWith(field string, variant int) Cav {
	// variant 0: the restricting value; 1: a value satisfying it; 2: a value contradicting it
	switch field {
	case "link":
		if variant == 2 {
			return Cav{Link: linkNode(2)}
		}
		return Cav{Link: linkNode(1)}
	case "tag":
		if variant == 2 {
			return Cav{Tag: strp("other")}
		}
		return Cav{Tag: strp("blue")}
	case "max":
		switch variant {
		case 0:
			return Cav{Max: i64(10)}
		case 1:
			return Cav{Max: i64(7)}
		}
		return Cav{Max: i64(11)}
	case "hdr":
		switch variant {
		case 0:
			return Cav{Hdr: map[string]string{"x-a": "1", "x-b": "2"}}
		case 1:
			return Cav{Hdr: map[string]string{"x-a": "1"}}
		}
		return Cav{Hdr: map[string]string{"x-a": "1", "x-c": "9"}} // adds a key the delegation did not write
	case "orig":
		// the delegation WRITES null (a nullable field set to null is a value, not an absent field)
		switch variant {
		case 0:
			return Cav{OrigNull: true}
		case 1:
			return Cav{OrigNull: true}
		}
		return Cav{Orig: linkNode(3)}
	case "tags":
		switch variant {
		case 0:
			return Cav{Tags: []string{"a", "b", "c"}}
		case 1:
			return Cav{Tags: []string{"c", "a"}}
		}
		return Cav{Tags: []string{"a", "z"}}
	}
	return Cav{}
}

func init() {
	gens["C02"] = func(o genOpts) error {
		st := newWorldStats()
		labels := map[int]string{}
		var worlds []*World
		now := int(ucan.Now())
		far := now + 1000000
		id := 0
		add := func(w *World, label string) {
			w.ID = id
			labels[id] = label
			worlds = append(worlds, w)
			id++
		}
		for depth := 1; depth <= 4; depth++ {
			for level := 1; level <= depth; level++ {
				for _, field := range []string{"link", "tag", "max", "tags", "hdr", "orig"} {
					for claim := 0; claim < 3; claim++ { // 0 omits, 1 matches, 2 contradicts
						for mid := 0; mid < 3; mid++ { // intermediate re-statement: 0 none, 1 tighter/equal, 2 looser (escalation)
							if mid != 0 && level == depth {
								continue
							}
							for pat := 0; pat < 3; pat++ { // ability of the restricting delegation: exact, ns/*, *
								if pat != 0 && mid != 0 {
									continue
								}
								cast := newCast(o.seed*7919 + int64(id))
								service := cast.Ed("service")
								with := cast.Ed("p0").DID.String()
								var claimNb Cav
								if claim == 1 {
									claimNb = cavWith(field, 1)
								} else if claim == 2 {
									claimNb = cavWith(field, 2)
								}
								specs := linearChain(cast, service, "store/add", with, depth, far, claimNb)
								specs[level-1].Caps[0].Nb = cavWith(field, 0)
								specs[level-1].Caps[0].Can = []string{"store/add", "store/*", "*"}[pat]
								if mid != 0 {
									// the delegation just below the restricting one states the field itself
									v := 1
									if mid == 2 {
										v = 2
									}
									specs[level].Caps[0].Nb = cavWith(field, v)
								}
								w := &World{Kind: "caveat-chain", Cast: cast, Can: "store/add", Inv: "inv", Specs: specs, Ctx: baseCtx(service)}
								add(w, fmt.Sprintf("depth=%d level=%d field=%s claim=%s mid=%s can=%s", depth, level, field,
									[]string{"omits", "matches", "contradicts"}[claim], []string{"none", "tighter", "looser"}[mid], []string{"exact", "ns/*", "*"}[pat]))
							}
						}
					}
				}
			}
		}
		// the same restrictions read through core/schema.Struct (fields renamed in the representation); a restricting
		// delegation that ALSO carries an entry the schema does not define is malformed, not a narrower delegation
		for depth := 1; depth <= 2; depth++ {
			for _, field := range []string{"link", "tag", "max", "tags", "hdr"} {
				for claim := 0; claim < 3; claim++ {
					for _, extra := range []bool{false, true} {
						cast := newCast(o.seed*7919 + int64(id))
						service := cast.Ed("service")
						with := cast.Ed("p0").DID.String()
						var claimNb Cav
						if claim > 0 {
							claimNb = cavWith(field, claim)
						}
						specs := linearChain(cast, service, "store/add", with, depth, far, claimNb)
						nb := cavWith(field, 0)
						if extra {
							nb.Extra = map[string]datamodel.Node{"ttl": basicnode.NewInt(3600)}
						}
						specs[0].Caps[0].Nb = nb
						w := &World{Kind: "caveat-struct-reader", Cast: cast, Can: "store/add", Inv: "inv", Specs: specs, Ctx: baseCtx(service), StructReader: true}
						add(w, fmt.Sprintf("schema.Struct reader: depth=%d field=%s claim=%s undefined-entry=%v", depth, field, []string{"omits", "matches", "contradicts"}[claim], extra))
					}
				}
			}
		}
		// two sibling proofs with the SAME ability and resource: a worthless unrestricted one (the citing principal
		// delegating to himself) next to the owner's genuine, restricting delegation — in both orders
		for depth := 1; depth <= 3; depth++ {
			for level := 1; level <= depth; level++ {
				for _, field := range []string{"link", "max", "tags", "orig"} {
					for claim := 1; claim <= 2; claim++ {
						for _, first := range []bool{true, false} {
							cast := newCast(o.seed*7919 + int64(id))
							service := cast.Ed("service")
							with := cast.Ed("p0").DID.String()
							specs := linearChain(cast, service, "store/add", with, depth, far, cavWith(field, claim))
							specs[level-1].Caps[0].Nb = cavWith(field, 0)
							citing := specs[level]
							self := &TokSpec{Name: "selfgrant", Issuer: citing.Issuer, Audience: citing.Issuer, Exp: &far, Nonce: "self",
								Caps: []CapSpec{{Can: "store/add", With: with, Nb: Cav{}}}}
							if first {
								citing.Proofs = append([]ProofRef{{Tok: "selfgrant", Inline: true}}, citing.Proofs...)
							} else {
								citing.Proofs = append(citing.Proofs, ProofRef{Tok: "selfgrant", Inline: true})
							}
							w := &World{Kind: "caveat-sibling", Cast: cast, Can: "store/add", Inv: "inv", Specs: append([]*TokSpec{self}, specs...), Ctx: baseCtx(service)}
							add(w, fmt.Sprintf("unrestricted self-grant %s the restricting delegation: depth=%d level=%d field=%s claim=%s",
								map[bool]string{true: "before", false: "after"}[first], depth, level, field, []string{"", "matches", "contradicts"}[claim]))
						}
					}
				}
			}
		}
		// malformed / non-map caveats in a delegation
		for k := 0; k < 4; k++ {
			cast := newCast(o.seed*7919 + int64(id))
			service := cast.Ed("service")
			with := cast.Ed("p0").DID.String()
			specs := linearChain(cast, service, "store/add", with, 2, far, Cav{Max: i64(3)})
			var nb ucan.CaveatBuilder
			switch k {
			case 0:
				nb = rawNb{basicnode.NewString("not a map")}
			case 1:
				nb = rawNb{datamodel.Null}
			case 2:
				nb = Cav{Extra: map[string]datamodel.Node{"bogus": basicnode.NewInt(1)}}
			case 3:
				nb = Cav{Extra: map[string]datamodel.Node{"max": basicnode.NewString("ten")}}
			}
			specs[0].Caps[0].Nb = nb
			w := &World{Kind: "caveat-kinds", Cast: cast, Can: "store/add", Inv: "inv", Specs: specs, Ctx: baseCtx(service)}
			add(w, fmt.Sprintf("delegation nb kind %d", k))
		}
		// re-delegated attestation whose parent names one proof (C04 corollary)
		for variant := 0; variant < 6; variant++ {
			w, label := sessionWorld(o.seed, id, sessOpts{Attested: "this", AttIssuer: "delegate", Resource: "authority", Window: "valid", Pos: 1, Resolver: "absent", ParentProof: variant})
			add(w, "attest-redelegation "+label)
		}
		mappedDirect, mappedRuns := c02Mapped(o.seed)
		c02Extra = map[string]any{"direct_violations": mappedDirect, "mapped_caveat_runs": mappedRuns,
			"direct_oracle": "capability with schema.Mapped plain-Go caveats: a claim above the size a delegation of its chain allows is never authorized (1..3 hops x restricting delegation x claim {50,100,101,500})"}
		if o.tier == "thorough" {
			r := rand.New(rand.NewSource(o.seed))
			for i := 0; i < 4000; i++ {
				k := chainKnobs{MaxDepth: 4, Defects: []int{0, 0, 0, 1}, Caveats: true}
				w, info := chainWorld(r, id, o.seed, k)
				// random restricting caveats on random delegations
				for _, sp := range w.Specs {
					if sp.Name != "inv" && r.Intn(2) == 0 {
						f := pick(r, []string{"link", "tag", "max", "tags"})
						sp.Caps[len(sp.Caps)/2].Nb = cavWith(f, r.Intn(3))
					}
				}
				if r.Intn(2) == 0 {
					f := pick(r, []string{"link", "tag", "max", "tags"})
					w.Specs[len(w.Specs)-1].Caps[0].Nb = cavWith(f, r.Intn(3))
				}
				st.addChain(info)
				add(w, "random caveats")
			}
		}
		return finishWorlds(o, "C02", worlds, labels, st, 16, c02Extra)
	}
}

// ---------------------------------------------------------------------------
// sessions (C04; also used by C02, C03)

type sessOpts struct {
	Attested    string // this | other | none
	AttIssuer   string // authority | delegate | delegate-broken | stranger
	Resource    string // authority | other
	Window      string // valid | expired | notyet
	Pos         int    // position of the non-key issued token below the invocation: 0 = the invocation itself
	Resolver    string // absent | correct | wrong
	ParentProof int    // for AttIssuer=delegate: 0 parent has no caveat, 1 parent names this token, 2 parent names another token,
	// 3 parent nb null, 4 parent is `*` with no caveat, 5 parent names this token but attestation names another
	Decoys    int
	BadDecoys int  // attestations alongside that are themselves invalid: expired, badly signed, issued by a stranger
	AttAudience string // "" = the holder citing it; "stranger" = a genuine attestation of this token addressed to SOMEBODY ELSE (not aligned: unusable)
	AttFirst  bool // attestation is not the first capability of its token (then it is not considered)
	RSAAuth   bool
	WebAuth   bool    // the authority is identified by did:web:example.com (its key wrapped), not by a did:key
	Lookalike string  // suffix making a DID that textually EXTENDS the authority's (".evil.org", ":users:mallory"); used by AttIssuer / Resource "lookalike"
	TimeShift *[2]int // exp, nbf overrides for the attestation (C03)
	Now       int
}

func sessionWorld(seed int64, id int, so sessOpts) (*World, string) {
	cast := newCast(seed*104729 + int64(id))
	var service *Prin
	if so.WebAuth {
		service = cast.Wrapped("service", "did:web:example.com", cast.Ed("servicekey"))
	} else {
		service = cast.Ed("service")
	}
	now := so.Now
	if now == 0 {
		now = int(ucan.Now())
	}
	far := now + 1000000
	acctKey := cast.Ed("acctkey")
	account := cast.Wrapped("account", "did:mailto:web.mail:alice", acctKey)
	agent := cast.Ed("agent")
	with := account.DID.String()
	w := &World{Kind: "session", Cast: cast, Can: "debug/echo", Inv: "inv", Ctx: baseCtx(service)}

	var specs []*TokSpec
	if so.Pos == 0 {
		// the invocation itself is issued by the account
		specs = append(specs, &TokSpec{Name: "inv", Issuer: account, Audience: service, Exp: &far,
			Caps: []CapSpec{{Can: "debug/echo", With: with, Nb: Cav{}}}})
	} else {
		acct := &TokSpec{Name: "acct", Issuer: account, Audience: agent, Exp: &far,
			Caps: []CapSpec{{Can: "debug/echo", With: with, Nb: Cav{}}}}
		other := &TokSpec{Name: "othertok", Issuer: account, Audience: agent, Exp: &far, Nonce: "other",
			Caps: []CapSpec{{Can: "debug/other", With: with, Nb: Cav{}}}}
		specs = append(specs, acct, other)
		// attestation
		var att *TokSpec
		if so.Attested != "none" {
			attWith := service.DID.String()
			if so.Resource == "other" {
				attWith = agent.DID.String()
			}
			if so.Resource == "lookalike" {
				attWith = service.DID.String() + so.Lookalike
			}
			target := "acct"
			if so.Attested == "other" || so.ParentProof == 5 {
				target = "othertok"
			}
			att = &TokSpec{Name: "att", Audience: agent, Exp: &far}
			if so.AttAudience == "stranger" {
				att.Audience = cast.Ed("mallory")
			}
			att.Caps = []CapSpec{{Can: "ucan/attest", With: attWith, Nb: attestNb{w, target}}}
			if so.AttFirst {
				att.Caps = append([]CapSpec{{Can: "debug/echo", With: with, Nb: Cav{}}}, att.Caps...)
			}
			switch so.AttIssuer {
			case "authority":
				att.Issuer = service
			case "stranger":
				att.Issuer = cast.Ed("mallory")
			case "stranger-with-proofs":
				// a stranger attests, citing two delegations that are both addressed to OTHER principals: a junk one first,
				// then the authority's genuine `*` delegation to its worker
				att.Issuer = cast.Ed("mallory")
				worker := cast.Ed("worker")
				parent := &TokSpec{Name: "attparent", Issuer: service, Audience: worker, Exp: &far,
					Caps: []CapSpec{{Can: "*", With: service.DID.String(), Nb: Cav{}}}}
				junk := &TokSpec{Name: "attjunk", Issuer: cast.Ed("carol"), Audience: cast.Ed("bob"), Exp: &far,
					Caps: []CapSpec{{Can: "debug/echo", With: cast.Ed("carol").DID.String(), Nb: Cav{}}}}
				specs = append(specs, parent, junk)
				att.Proofs = []ProofRef{{Tok: "attjunk", Inline: true}, {Tok: "attparent", Inline: true}}
			case "lookalike":
				// a principal whose DID extends the authority's text, with a resolvable key: it may attest on ITS OWN DID only
				la := cast.Wrapped("lookalike", service.DID.String()+so.Lookalike, cast.Ed("lookalikekey"))
				att.Issuer = la
				w.Ctx.KeyResolver[la.DID.String()] = cast.Ed("lookalikekey")
			case "shortalike":
				// a principal whose DID is a textual PREFIX of the authority's (did:web:example.co vs did:web:example.com), with a
				// resolvable key: it is not the authority and does not own the authority's DID
				ad := service.DID.String()
				sa := cast.Wrapped("shortalike", ad[:len(ad)-1], cast.Ed("shortalikekey"))
				att.Issuer = sa
				w.Ctx.KeyResolver[sa.DID.String()] = cast.Ed("shortalikekey")
			case "delegate", "delegate-broken":
				worker := cast.Ed("worker")
				att.Issuer = worker
				parent := &TokSpec{Name: "attparent", Issuer: service, Audience: worker, Exp: &far}
				var pnb ucan.CaveatBuilder = Cav{}
				pcan := "ucan/attest"
				switch so.ParentProof {
				case 1, 5:
					pnb = attestNb{w, "acct"}
				case 2:
					pnb = attestNb{w, "othertok"}
				case 3:
					pnb = rawNb{datamodel.Null}
				case 4:
					pcan = "*"
				}
				parent.Caps = []CapSpec{{Can: pcan, With: service.DID.String(), Nb: pnb}}
				if so.AttIssuer == "delegate-broken" {
					parent.SignedBy = cast.Ed("mallory")
				}
				specs = append(specs, parent)
				att.Proofs = []ProofRef{{Tok: "attparent", Inline: true}}
			}
			switch so.Window {
			case "expired":
				e := now - 100000
				att.Exp = &e
			case "notyet":
				att.Nbf = now + 100000
			case "notyet-noexp":
				att.Nbf = now + 100000
				att.Exp = nil
			}
			if so.TimeShift != nil {
				if so.TimeShift[0] == -1 {
					att.Exp = nil
				} else {
					e := so.TimeShift[0]
					att.Exp = &e
				}
				att.Nbf = so.TimeShift[1]
			}
			specs = append(specs, att)
		}
		// chain below the account delegation: agent -> q2 -> ... -> invoker
		prev := "acct"
		holder := agent
		for i := 1; i <= so.Pos; i++ {
			sp := &TokSpec{Issuer: holder, Exp: &far}
			if i == so.Pos {
				sp.Name, sp.Audience = "inv", service
			} else {
				next := cast.Ed(fmt.Sprintf("q%d", i))
				sp.Name, sp.Audience = fmt.Sprintf("s%d", i), next
				holder = next
			}
			sp.Caps = []CapSpec{{Can: "debug/echo", With: with, Nb: Cav{}}}
			sp.Proofs = []ProofRef{{Tok: prev, Inline: true}}
			if i == 1 {
				// the token citing the account delegation also carries the attestation (and decoys)
				if att != nil {
					sp.Proofs = append(sp.Proofs, ProofRef{Tok: "att", Inline: true})
				}
				for d := 0; d < so.BadDecoys; d++ {
					dn := fmt.Sprintf("attbad%d", d)
					dec := &TokSpec{Name: dn, Issuer: service, Audience: agent, Exp: &far, Nonce: dn,
						Caps: []CapSpec{{Can: "ucan/attest", With: service.DID.String(), Nb: attestNb{w, []string{"acct", "othertok"}[d%2]}}}}
					switch d % 3 {
					case 0:
						e := now - 5000
						dec.Exp = &e
					case 1:
						dec.SignedBy = cast.Ed("mallory")
					case 2:
						dec.Issuer = cast.Ed("mallory")
					}
					specs = append(specs, dec)
					if d%2 == 0 {
						sp.Proofs = append([]ProofRef{{Tok: dn, Inline: true}}, sp.Proofs...)
					} else {
						sp.Proofs = append(sp.Proofs, ProofRef{Tok: dn, Inline: true})
					}
				}
				for d := 0; d < so.Decoys; d++ {
					dn := fmt.Sprintf("attdecoy%d", d)
					dec := &TokSpec{Name: dn, Issuer: service, Audience: agent, Exp: &far, Nonce: dn,
						Caps: []CapSpec{{Can: "ucan/attest", With: service.DID.String(), Nb: attestNb{w, "othertok"}}}}
					specs = append(specs, dec)
					sp.Proofs = append([]ProofRef{{Tok: dn, Inline: true}}, sp.Proofs...)
				}
			}
			specs = append(specs, sp)
			prev = sp.Name
		}
	}
	switch so.Resolver {
	case "correct":
		w.Ctx.KeyResolver[account.DID.String()] = acctKey
	case "wrong":
		w.Ctx.KeyResolver[account.DID.String()] = cast.Ed("wrongkey")
	case "unparsable":
		// the resolver answers, without error, with a key the principal parser cannot use (RSA, parser knows Ed25519 only)
		w.Ctx.KeyResolver[account.DID.String()] = cast.RSA("acctrsa", 2)
	case "webkey":
		// the resolver answers with ANOTHER non-key DID (did:web), which the principal parser knows: verifier.Wrap
		// only wraps did:key verifiers, so the token is not acceptable
		w.Ctx.KeyResolver[account.DID.String()] = cast.Wrapped("acctweb", "did:web:alice.example", acctKey)
		w.Ctx.ParserKind = "ed+web"
	case "undef":
		// ... or with the undefined DID (a table lookup that misses, returned without an error)
		w.Ctx.KeyResolver[account.DID.String()] = &Prin{Name: "undef"}
	}
	w.Specs = specs
	label := fmt.Sprintf("attested=%s issuer=%s resource=%s window=%s pos=%d resolver=%s parent=%d", so.Attested, so.AttIssuer, so.Resource, so.Window, so.Pos, so.Resolver, so.ParentProof)
	if so.AttAudience != "" {
		label += " attestation-audience=" + so.AttAudience
	}
	return w, label
}

// attestNb: {proof: link of a token of the same world}; resolved lazily at build time
type attestNb struct {
	w      *World
	target string
}

func (a attestNb) ToIPLD() (datamodel.Node, error) {
	b := a.w.built[a.target]
	if b == nil {
		return nil, fmt.Errorf("attestation target %s not built yet", a.target)
	}
	nb := basicnode.Prototype.Map.NewBuilder()
	ma, _ := nb.BeginMap(1)
	ma.AssembleKey().AssignString("proof")
	ma.AssembleValue().AssignLink(b.Dlg.Link())
	ma.Finish()
	return nb.Build(), nil
}

func init() {
	gens["C04"] = func(o genOpts) error {
		st := newWorldStats()
		labels := map[int]string{}
		var worlds []*World
		id := 0
		for _, attested := range []string{"this", "other", "none"} {
			for _, iss := range []string{"authority", "delegate", "delegate-broken", "stranger", "stranger-with-proofs"} {
				for _, res := range []string{"authority", "other"} {
					for _, win := range []string{"valid", "expired", "notyet", "notyet-noexp"} {
						for pos := 0; pos <= 3; pos++ {
							for _, rs := range []string{"absent", "correct", "wrong", "unparsable", "undef"} {
								if (rs == "unparsable" || rs == "undef") && (win != "valid" || iss != "authority") {
									continue
								}
								if win == "notyet-noexp" && rs != "absent" {
									continue
								}
								w, label := sessionWorld(o.seed, id, sessOpts{Attested: attested, AttIssuer: iss, Resource: res, Window: win, Pos: pos, Resolver: rs})
								w.ID = id
								labels[id] = label
								worlds = append(worlds, w)
								id++
							}
						}
					}
				}
			}
		}
		// a re-delegated attestation: what the parent delegation pins (this token, another token, nothing, null, `*`)
		for pp := 0; pp < 6; pp++ {
			for _, attested := range []string{"this", "other"} {
				for pos := 1; pos <= 2; pos++ {
					w, label := sessionWorld(o.seed, id, sessOpts{Attested: attested, AttIssuer: "delegate", Resource: "authority", Window: "valid", Pos: pos, Resolver: "absent", ParentProof: pp})
					w.ID = id
					labels[id] = label
					worlds = append(worlds, w)
					id++
				}
			}
		}
		// a genuine attestation of this token that was delegated to somebody else than the issuer of the token citing it
		for _, iss := range []string{"authority", "delegate"} {
			for pos := 1; pos <= 2; pos++ {
				for dec := 0; dec <= 1; dec++ {
					w, label := sessionWorld(o.seed, id, sessOpts{Attested: "this", AttIssuer: iss, Resource: "authority", Window: "valid", Pos: pos, Resolver: "absent", ParentProof: 1, Decoys: dec, AttAudience: "stranger"})
					w.ID = id
					labels[id] = label
					worlds = append(worlds, w)
					id++
				}
			}
		}
		// the key resolver answers with a did:web the principal parser knows (gen_cov.go)
		for _, attested := range []string{"none", "this", "other"} {
			for pos := 0; pos <= 2; pos++ {
				w, label := sessionWorld(o.seed, id, sessOpts{Attested: attested, AttIssuer: "authority", Resource: "authority", Window: "valid", Pos: pos, Resolver: "webkey"})
				w.ID = id
				labels[id] = label
				worlds = append(worlds, w)
				id++
			}
		}
		// a non-key authority and principals / resources whose DID text extends the authority's
		for _, iss := range []string{"authority", "lookalike", "shortalike", "stranger"} {
			for _, res := range []string{"authority", "lookalike"} {
				for _, suffix := range []string{".evil.org", ":users:mallory"} {
					for pos := 1; pos <= 2; pos++ {
						w, label := sessionWorld(o.seed, id, sessOpts{Attested: "this", AttIssuer: iss, Resource: res, Window: "valid", Pos: pos, Resolver: "absent", WebAuth: true, Lookalike: suffix})
						w.ID = id
						labels[id] = label + " authority=did:web lookalike=" + suffix
						worlds = append(worlds, w)
						id++
					}
				}
			}
		}
		if o.tier == "thorough" {
			r := rand.New(rand.NewSource(o.seed))
			for i := 0; i < 6000; i++ {
				so := sessOpts{Attested: pick(r, []string{"this", "this", "other", "none"}),
					AttIssuer: pick(r, []string{"authority", "delegate", "delegate-broken", "stranger"}),
					Resource:  pick(r, []string{"authority", "authority", "other"}),
					Window:    pick(r, []string{"valid", "valid", "expired", "notyet"}),
					Pos:       r.Intn(4), Resolver: pick(r, []string{"absent", "correct", "wrong"}),
					ParentProof: r.Intn(6), Decoys: r.Intn(3), AttFirst: r.Intn(6) == 0}
				w, label := sessionWorld(o.seed, id, so)
				w.ID = id
				labels[id] = label + fmt.Sprintf(" decoys=%d attfirst=%v", so.Decoys, so.AttFirst)
				worlds = append(worlds, w)
				id++
			}
		}
		// the attestation (and the delegation its issuer holds) exactly at the boundary seconds of its window
		for _, pos := range []string{"attestation", "attest-parent"} {
			for _, tc := range []timedCase{{pos, 0, -9}, {pos, 1, -9}, {pos, -1, -9}, {pos, 100000, 0}, {pos, 100000, -1}, {pos, 100000, 1}} {
				tc, wid := tc, id
				timedExtras = append(timedExtras, func(t int) (*World, string) {
					w, label := timedWorld(o.seed, wid, tc, t)
					w.ID = wid
					return w, "session at the exact second: " + label
				})
				id++
			}
		}
		// the same worlds through real servers (one per world, each with ITS authority and resolver configuration, all
		// sharing the provider values): an attestation counts only for the server whose authority issued it
		nsrv, err := serverPass(o, "C04", worlds, func(w *World) bool { return w.ID%3 == 0 || o.tier == "thorough" })
		if err != nil {
			return err
		}
		// key rotation on one server: the key resolver answers K1 for the account, later K2 — a token signed with K1 is
		// accepted while the resolver says K1 and refused once it says K2 (and the other way round)
		var hist []historyItem
		for hk := 0; hk < 4; hk++ {
			hw, hl := sessionWorld(o.seed, 700000+hk, sessOpts{Attested: "none", AttIssuer: "authority", Resource: "authority", Window: "valid", Pos: hk % 3, Resolver: "correct"})
			acct := hw.Cast.byName["account"]
			k1, k2 := hw.Ctx.KeyResolver[acct.DID.String()], hw.Cast.Ed("rotatedkey")
			set := func(p *Prin) func() { return func() { hw.Ctx.KeyResolver[acct.DID.String()] = p } }
			it := historyItem{w: hw, label: "key rotation: " + hl, phases: []func(){set(k1), set(k2), set(k1)}, names: []string{"resolver says K1", "resolver says K2", "resolver says K1 again"}}
			if hk%2 == 1 {
				it.phases, it.names = []func(){set(k2), set(k1)}, []string{"resolver says K2", "resolver says K1"}
			}
			hist = append(hist, it)
		}
		if _, err := serverHistories(o, "C04", hist, labels, 700000); err != nil {
			return err
		}
		dd, dr := disguiseScenarios(o.seed)
		if err := writeLinkCases(o.out, "C04"); err != nil {
			return err
		}
		return finishWorlds(o, "C04", worlds, labels, st, 16, map[string]any{"direct_violations": dd, "disguised_token_runs": dr, "worlds_also_run_through_server": nsrv,
			"direct_oracle": "tokens presented under a link that is not the CID of their bytes (another token's link; raw / CIDv0 / dag-json re-labelling) contribute nothing"})
	}
}

// ---------------------------------------------------------------------------
// C05

func init() {
	gens["C05"] = func(o genOpts) error {
		st := newWorldStats()
		labels := map[int]string{}
		var worlds []*World
		now := int(ucan.Now())
		far := now + 1000000
		id := 0
		nbs := []Cav{{}, {Max: i64(3)}, {Tag: strp("x"), Tags: []string{"a"}}, {Link: linkNode(5)}}
		for depth := 0; depth <= 5; depth++ {
			for rev := -1; rev <= depth; rev++ { // -1 none; k: token k of the chain (0 = invocation ... depth = root delegation)
				for alt := 0; alt < 3; alt++ { // 1: a second, unrevoked chain alongside; 2: a dead-end twin of the first proof, listed first
					for _, nb := range nbs {
						cast := newCast(o.seed*6151 + int64(id))
						service := cast.Ed("service")
						with := cast.Ed("p0").DID.String()
						specs := linearChain(cast, service, "store/add", with, depth, far, nb)
						w := &World{Kind: "revocation", Cast: cast, Can: "store/add", Inv: "inv", Ctx: baseCtx(service)}
						if alt == 1 && depth >= 1 {
							// second chain: owner delegates directly to the invoker
							alt := &TokSpec{Name: "altroot", Issuer: cast.Ed("p0"), Audience: cast.Ed(fmt.Sprintf("p%d", depth)), Exp: &far, Nonce: "alt",
								Caps: []CapSpec{{Can: "store/*", With: with, Nb: Cav{}}}}
							inv := specs[len(specs)-1]
							inv.Proofs = append(inv.Proofs, ProofRef{Tok: "altroot", Inline: true})
							specs = append([]*TokSpec{alt}, specs...)
						} else if alt == 1 {
							continue
						} else if alt == 2 && depth >= 1 {
							// a stranger's delegation of EXACTLY the capability the genuine proof delegates, to the same audience,
							// cited before it: it leads nowhere; the checker is shown the chain that authorizes
							inv := specs[len(specs)-1]
							gen := specs[len(specs)-2]
							twin := &TokSpec{Name: "deadtwin", Issuer: cast.Ed("stranger"), Audience: gen.Audience, Exp: &far, Nonce: "deadtwin",
								Caps: append([]CapSpec{}, gen.Caps...)}
							inv.Proofs = append([]ProofRef{{Tok: "deadtwin", Inline: true}}, inv.Proofs...)
							specs = append([]*TokSpec{twin}, specs...)
						} else if alt == 2 {
							continue
						}
						w.Specs = specs
						if rev >= 0 {
							name := "inv"
							if rev > 0 {
								name = fmt.Sprintf("d%d", depth+1-rev)
							}
							w.Ctx.Revoked[name] = true
						}
						w.ID = id
						labels[id] = fmt.Sprintf("depth=%d revoked=%d alt=%d nb=%d", depth, rev, alt, len(labels)%4)
						worlds = append(worlds, w)
						id++
					}
				}
			}
		}
		// a proof addressed to someone else (not revoked) cited BEFORE the proof that really authorizes (revoked): the
		// checker must be shown the delegation that authorizes, at the invocation and inside an intermediate delegation
		for depth := 1; depth <= 3; depth++ {
			for at := 1; at <= depth; at++ { // the token citing the pair: at == depth+1-... index into specs
				for _, revoked := range []bool{true, false} {
					for _, before := range []bool{true, false} {
						cast := newCast(o.seed*6151 + int64(id))
						service := cast.Ed("service")
						with := cast.Ed("p0").DID.String()
						specs := linearChain(cast, service, "store/add", with, depth, far, Cav{})
						w := &World{Kind: "revocation-misaligned-sibling", Cast: cast, Can: "store/add", Inv: "inv", Ctx: baseCtx(service)}
						citing := specs[at] // cites specs[at-1]
						genuine := specs[at-1]
						decoy := &TokSpec{Name: "stray", Issuer: genuine.Issuer, Audience: cast.Ed("mallory"), Exp: &far, Nonce: "stray",
							Caps: []CapSpec{{Can: "store/add", With: with, Nb: Cav{}}}}
						if before {
							citing.Proofs = append([]ProofRef{{Tok: "stray", Inline: true}}, citing.Proofs...)
						} else {
							citing.Proofs = append(citing.Proofs, ProofRef{Tok: "stray", Inline: true})
						}
						w.Specs = append([]*TokSpec{decoy}, specs...)
						if revoked {
							w.Ctx.Revoked[genuine.Name] = true
						}
						w.ID = id
						labels[id] = fmt.Sprintf("misaligned sibling %s the genuine proof, depth=%d citing=%d genuine-revoked=%v", map[bool]string{true: "before", false: "after"}[before], depth, at, revoked)
						worlds = append(worlds, w)
						id++
					}
				}
			}
		}
		// sessions: the attestation itself (a "logout") or the delegation the attester holds is revoked
		for _, iss := range []string{"authority", "delegate"} {
			for pos := 1; pos <= 2; pos++ {
				for _, victim := range []string{"", "att", "attparent", "acct"} {
					if victim == "attparent" && iss != "delegate" {
						continue
					}
					w, label := sessionWorld(o.seed, id, sessOpts{Attested: "this", AttIssuer: iss, Resource: "authority", Window: "valid", Pos: pos, Resolver: "absent", ParentProof: 1})
					if victim != "" {
						w.Ctx.Revoked[victim] = true
					}
					w.ID = id
					labels[id] = "session " + label + " revoked=" + victim
					worlds = append(worlds, w)
					id++
				}
			}
		}
		n := 0
		if o.tier == "thorough" {
			n = 8000
		}
		r := rand.New(rand.NewSource(o.seed))
		for i := 0; i < n; i++ {
			k := chainKnobs{MaxDepth: 5, Defects: []int{0, 0, 0, 1}, Decoys: 1, Revocation: true, Caveats: true}
			w, info := chainWorld(r, id, o.seed, k)
			st.addChain(info)
			labels[id] = "random chain with revocation"
			worlds = append(worlds, w)
			id++
		}
		// the same worlds through a real server: WithRevocationChecker -> context -> Provide -> validator
		var bcases []string
		nhist := 0
		for _, w := range worlds {
			if w.ID%2 == 1 && o.tier != "thorough" {
				continue
			}
			if err := w.Build(); err != nil {
				return err
			}
			b := &Batch{ID: w.ID, W: w, Invs: []string{w.Inv}, Handlers: map[string]string{w.Can: "ok"}}
			bobs := b.Run(nil)
			bcases = append(bcases, b.Coq(bobs))
			// history on ONE server: the invocation is served while nothing is revoked, then the delegation is revoked
			// and the identical invocation is presented again
			if len(w.Ctx.Revoked) > 0 && nhist < 40 {
				nhist++
				saved := w.Ctx.Revoked
				realID := w.ID
				hb := &Batch{ID: w.ID, W: w, Invs: []string{w.Inv}, Handlers: map[string]string{w.Can: "ok"}}
				_, rendered := hb.RunPhases([]func(){
					func() { w.Ctx.Revoked = map[string]bool{}; w.ID = 500000 + 2*realID },
					func() { w.Ctx.Revoked = saved; w.ID = 500000 + 2*realID + 1 },
				})
				w.ID = realID
				w.Ctx.Revoked = saved
				for k := range rendered {
					labels[500000+2*realID+k] = labels[realID] + fmt.Sprintf(" — same server, request %d (%s)", k+1, []string{"before the revocation", "after the revocation"}[k])
				}
				bcases = append(bcases, rendered...)
			}
		}
		if err := writeBatchCases(o.out, "cases_C05srv", bcases, 8); err != nil {
			return err
		}
		dd, dr := disguiseScenarios(o.seed + 1)
		if err := writeLinkCases(o.out, "C05"); err != nil {
			return err
		}
		return finishWorlds(o, "C05", worlds, labels, st, 16, map[string]any{"worlds_also_run_through_server": len(bcases), "revocation_histories_on_one_server": nhist,
			"direct_violations": dd, "disguised_token_runs": dr,
			"direct_oracle": "a revoked delegation stays revoked under every re-labelling of its root block (raw / CIDv0 / dag-json CID over the same multihash)"})
	}
}

// ---------------------------------------------------------------------------
// serverPass runs worlds through a real server (options -> context -> Provide -> validator; the provider values are
// shared by all the servers of the process; servers whose context is the library's defaults are built without options)
// and writes the batch cases next to the world cases.
func serverPass(o genOpts, prop string, worlds []*World, keep func(*World) bool) (int, error) {
	var bcases []string
	for _, w := range worlds {
		if keep != nil && !keep(w) {
			continue
		}
		if err := w.Build(); err != nil {
			return 0, err
		}
		b := &Batch{ID: w.ID, W: w, Invs: []string{w.Inv}, Handlers: map[string]string{w.Can: "ok"}}
		bobs := b.Run(nil)
		bcases = append(bcases, b.Coq(bobs))
	}
	if len(bcases) == 0 {
		return 0, nil
	}
	return len(bcases), writeBatchCases(o.out, "cases_"+prop+"srv", bcases, 8)
}

// serverHistory runs ONE world several times on ONE server, changing what the configured resolvers answer between the
// requests (phase k sets the state and the world id; the model is evaluated with the state of that request): a server
// answers every request by what its resolvers say NOW.
type historyItem struct {
	w      *World
	label  string
	phases []func()
	names  []string
}

func serverHistories(o genOpts, prop string, items []historyItem, labels map[int]string, idBase int) (int, error) {
	var bcases []string
	n := 0
	for hi, it := range items {
		if err := it.w.Build(); err != nil {
			return 0, err
		}
		b := &Batch{ID: idBase + 10*hi, W: it.w, Invs: []string{it.w.Inv}, Handlers: map[string]string{it.w.Can: "ok"}}
		var phases []func()
		for k, ph := range it.phases {
			k, ph := k, ph
			phases = append(phases, func() { ph(); it.w.ID = idBase + 10*hi + k })
			labels[idBase+10*hi+k] = fmt.Sprintf("%s — same server, request %d (%s)", it.label, k+1, it.names[k])
		}
		_, rendered := b.RunPhases(phases)
		bcases = append(bcases, rendered...)
		n++
	}
	if len(bcases) == 0 {
		return 0, nil
	}
	return n, writeBatchCases(o.out, "cases_"+prop+"srvhist", bcases, 4)
}

// C06: the same world under permutations of every proof list / capability list,
// with decoys, inline vs resolver-supplied proofs

func permuteWorld(r *rand.Rand, base *World, id int, flipInline bool) *World {
	w := &World{ID: id, Kind: base.Kind, Cast: base.Cast, Can: base.Can, Inv: base.Inv, Ctx: base.Ctx}
	w.Ctx.Resolvable = map[string]bool{}
	for k, v := range base.Ctx.Resolvable {
		w.Ctx.Resolvable[k] = v
	}
	for _, sp := range base.Specs {
		c := *sp
		c.Proofs = append([]ProofRef{}, sp.Proofs...)
		r.Shuffle(len(c.Proofs), func(i, j int) { c.Proofs[i], c.Proofs[j] = c.Proofs[j], c.Proofs[i] })
		if sp.Name != base.Inv {
			c.Caps = append([]CapSpec{}, sp.Caps...)
			r.Shuffle(len(c.Caps), func(i, j int) { c.Caps[i], c.Caps[j] = c.Caps[j], c.Caps[i] })
		}
		if flipInline {
			shallowOf := map[string]bool{}
			for _, pr := range c.Proofs {
				if pr.Shallow {
					shallowOf[pr.Tok] = true
				}
			}
			for i := range c.Proofs {
				// (a proof that is also cited as a shallow copy stays embedded in full: with only its root block embedded
				// and the rest behind the resolver the worlds would no longer carry the same delegations)
				if r.Intn(3) == 0 && c.Proofs[i].Inline && !shallowOf[c.Proofs[i].Tok] {
					c.Proofs[i].Inline = false
					w.Ctx.Resolvable[c.Proofs[i].Tok] = true
				}
			}
		}
		w.Specs = append(w.Specs, &c)
	}
	return w
}

func init() {
	gens["C06"] = func(o genOpts) error {
		nbase, nperm := 220, 4
		if o.tier == "thorough" {
			nbase, nperm = 3000, 8
		}
		st := newWorldStats()
		labels := map[int]string{}
		r := rand.New(rand.NewSource(o.seed))
		var cases []string
		id := 0
		var disagreements []map[string]any
		for b := 0; b < nbase; b++ {
			k := chainKnobs{MaxDepth: 4, Defects: []int{0, 0, 0, 0, 1}, Decoys: 3, RSA: false, Resolver: true, Caveats: true}
			base, info := chainWorld(r, id, o.seed, k)
			if b%5 == 4 {
				// a chain through a non-key issuer: valid session attestation among 1..3 useless ones
				// (for another token, expired), in every order the permutations produce
				so := sessOpts{Attested: "this", AttIssuer: pick(r, []string{"authority", "delegate"}), Resource: "authority", Window: "valid",
					Pos: 1 + r.Intn(2), Resolver: "absent", Decoys: 1 + r.Intn(3)}
				if b%10 == 9 {
					// not attested at all but its key can be resolved, with INVALID attestations (expired, badly signed, by a
					// stranger — for this token and for another) alongside: they must not get in the way
					so = sessOpts{Attested: "none", AttIssuer: "authority", Resource: "authority", Window: "valid",
						Pos: 1 + r.Intn(2), Resolver: "correct", BadDecoys: 1 + r.Intn(4), Decoys: r.Intn(2)}
				}
				base, _ = sessionWorld(o.seed, id, so)
				info = chainInfo{Depth: so.Pos, Decoys: so.Decoys + so.BadDecoys}
			}
			var verdicts []bool
			var ids []int
			for p := 0; p <= nperm; p++ {
				w := base
				if p > 0 {
					w = permuteWorld(r, base, id, p%2 == 0)
				}
				w.ID = id
				label := fmt.Sprintf("base=%d perm=%d depth=%d defects=%v decoys=%d", b, p, info.Depth, info.Defects, info.Decoys)
				labels[id] = label
				c, obs, err := runAndRender(w, st, fmt.Sprintf("base-%d", b))
				if err != nil {
					return err
				}
				cases = append(cases, c)
				verdicts = append(verdicts, obs.Authorized)
				ids = append(ids, id)
				id++
			}
			st.addChain(info)
			for i, v := range verdicts {
				if v != verdicts[0] {
					disagreements = append(disagreements, map[string]any{"base": b, "world_a": ids[0], "world_b": ids[i],
						"verdict_a": verdicts[0], "verdict_b": v, "label": labels[ids[i]]})
				}
			}
		}
		// gen_cov.go: a valid chain among unknown abilities of the same token / unresolvable top-level proof links
		xw, xl := covExtraWorlds(o.seed, id, false)
		for i, w := range xw {
			c, _, err := runAndRender(w, st, xl[i])
			if err != nil {
				return err
			}
			labels[w.ID] = xl[i]
			cases = append(cases, c)
		}
		claimCases, err := covClaimCases(o.seed, id+len(xw), st, labels)
		if err != nil {
			return err
		}
		if err := writeClaimCases(o.out, "cases_C06claim", claimCases); err != nil {
			return err
		}
		// one server, the same invocation presented again: a proof cited by link that the resolver cannot supply yet is
		// reported as unavailable; once the resolver can supply it the complete valid chain is authorized (and the other
		// way round) — whatever the server answered before
		var hist []historyItem
		for hk := 0; hk < 4; hk++ {
			cast := newCast(o.seed*7103 + int64(hk))
			service := cast.Ed("service")
			far := int(ucan.Now()) + 1000000
			depth := 2 + hk%2
			specs := linearChain(cast, service, "store/add", cast.Ed("p0").DID.String(), depth, far, Cav{})
			hw := &World{Kind: "resolver-history", Cast: cast, Can: "store/add", Inv: "inv", Specs: specs, Ctx: baseCtx(service)}
			at := 1 + hk%depth // the token whose proof is cited by link only
			specs[at].Proofs[0].Inline = false
			tok := specs[at].Proofs[0].Tok
			set := func(v bool) func() { return func() { hw.Ctx.Resolvable[tok] = v } }
			it := historyItem{w: hw, label: fmt.Sprintf("proof of token %d cited by link, depth %d", at, depth),
				phases: []func(){set(false), set(true), set(false)}, names: []string{"the resolver does not have the proof", "the resolver has it", "the resolver lost it again"}}
			if hk >= 2 {
				it.phases, it.names = []func(){set(true), set(false)}, []string{"the resolver has the proof", "the resolver no longer has it"}
			}
			hist = append(hist, it)
		}
		if _, err := serverHistories(o, "C06", hist, labels, 800000); err != nil {
			return err
		}
		if err := writeWorldCases(o.out, "cases_C06", cases, 16, "check_worlds"); err != nil {
			return err
		}
		if err := writeJSON(o.out, "labels.json", labels); err != nil {
			return err
		}
		return writeJSON(o.out, "stats.json", struct {
			*worldStats
			Extra map[string]any `json:"extra"`
		}{st, map[string]any{"bases": nbase, "permutations_per_base": nperm, "permutation_disagreements": disagreements}})
	}
}

// ---------------------------------------------------------------------------
// C19: proof-DAG shapes and the number of signature verifications

type shapeInfo struct {
	World       int    `json:"world"`
	Shape       string `json:"shape"`
	Width       int    `json:"width"`
	Depth       int    `json:"depth"`
	RootOK      bool   `json:"root_ok"`
	Delegations int    `json:"distinct_delegations"`
	Verifies    int    `json:"verifications"`
	Bound       int    `json:"bound"`
	Millis      int64  `json:"wall_ms"` // wall time of building + validating the world (work that is not signature verification shows here)
}

// layered DAG: `depth` layers of `width` tokens; every token of a layer cites every token of the next
func shapeWorld(seed int64, id int, shape string, width, depth int, rootOK bool) *World {
	cast := newCast(seed*31337 + int64(id))
	var service *Prin
	if shape == "logins-web" {
		// the authority is identified by a did:web (its key wrapped): its attestations are verified with the authority's key
		service = cast.Wrapped("service", "did:web:service.example", cast.Ed("servicekey"))
		shape = "logins"
	} else {
		service = cast.Ed("service")
	}
	far := int(ucan.Now()) + 1000000
	owner := cast.Ed("L0")
	with := owner.DID.String()
	selfbag := shape == "selfbag"
	if selfbag {
		// the invoker acts on ITS OWN resource (self-issued: no proof needed) but carries a layered bag of delegations
		// about that resource whose chains all fail
		with = cast.Ed(fmt.Sprintf("L%d", depth)).DID.String()
		shape, rootOK = "layered", false
	}
	// chain-star: a chain of re-delegated blanket grants {can: "*", with: "ucan:*"} (the account-login shape);
	// chain-linked: a chain whose proofs are cited by link and supplied by the proof resolver
	star, linked := shape == "chain-star", shape == "chain-linked"
	if star || linked {
		shape = "chain"
	}
	// layered-multicap / chain-multicap: every delegation lists an unrelated capability BEFORE the one that is wanted
	multicap := shape == "layered-multicap" || shape == "chain-multicap"
	if multicap {
		shape = shape[:len(shape)-len("-multicap")]
	}
	w := &World{ID: id, Kind: shape, Cast: cast, Can: "store/add", Inv: "inv", Ctx: baseCtx(service)}
	if shape == "attest-siblings" {
		// one login by an account without a key, `width` attestations of it issued by OTHER key-less DIDs (each of which
		// would itself need a session) and one genuine attestation by the authority, last
		agent := cast.Ed("agent")
		acct := cast.Absentee("acct", "did:mailto:example.com:alice")
		inv := &TokSpec{Name: "inv", Issuer: agent, Audience: service, Exp: &far,
			Caps: []CapSpec{{Can: "store/add", With: acct.DID.String(), Nb: Cav{}}}}
		w.Specs = append(w.Specs, &TokSpec{Name: "login", Issuer: acct, Audience: agent, Exp: &far,
			Caps: []CapSpec{{Can: "*", With: acct.DID.String(), Nb: Cav{}}}})
		inv.Proofs = append(inv.Proofs, ProofRef{Tok: "login", Inline: true})
		for i := 0; i < width; i++ {
			other := cast.Absentee(fmt.Sprintf("other%d", i), fmt.Sprintf("did:mailto:example.com:other%d", i))
			n := fmt.Sprintf("fakeatt%d", i)
			w.Specs = append(w.Specs, &TokSpec{Name: n, Issuer: other, Audience: agent, Exp: &far, Nonce: n,
				Caps: []CapSpec{{Can: "ucan/attest", With: service.DID.String(), Nb: attestNb{w, "login"}}}})
			inv.Proofs = append(inv.Proofs, ProofRef{Tok: n, Inline: true})
		}
		if rootOK {
			w.Specs = append(w.Specs, &TokSpec{Name: "att", Issuer: service, Audience: agent, Exp: &far,
				Caps: []CapSpec{{Can: "ucan/attest", With: service.DID.String(), Nb: attestNb{w, "login"}}}})
			inv.Proofs = append(inv.Proofs, ProofRef{Tok: "att", Inline: true})
		}
		w.Specs = append(w.Specs, inv)
		return w
	}
	if shape == "logins" {
		// `width` sibling logins: accounts (did:mailto, no key) delegate `*` to the agent, the service attests each of them;
		// every account proof has to be matched with its session among the sibling attestations
		agent := cast.Ed("agent")
		inv := &TokSpec{Name: "inv", Issuer: agent, Audience: service, Exp: &far}
		var sess []ProofRef
		for i := 0; i < width; i++ {
			acct := cast.Absentee(fmt.Sprintf("acct%d", i), fmt.Sprintf("did:mailto:example.com:user%d", i))
			iss := service
			if !rootOK && i == 0 {
				iss = cast.Ed("strangerroot") // the session of the account that is invoked is not by the authority
			}
			ln := fmt.Sprintf("login%d", i)
			w.Specs = append(w.Specs, &TokSpec{Name: ln, Issuer: acct, Audience: agent, Exp: &far,
				Caps: []CapSpec{{Can: "*", With: acct.DID.String(), Nb: Cav{}}}})
			w.Specs = append(w.Specs, &TokSpec{Name: fmt.Sprintf("sess%d", i), Issuer: iss, Audience: agent, Exp: &far,
				Caps: []CapSpec{{Can: "ucan/attest", With: service.DID.String(), Nb: attestNb{w, ln}}}})
			inv.Proofs = append(inv.Proofs, ProofRef{Tok: ln, Inline: true})
			sess = append(sess, ProofRef{Tok: fmt.Sprintf("sess%d", i), Inline: true})
			if i == 0 {
				inv.Caps = []CapSpec{{Can: "store/add", With: acct.DID.String(), Nb: Cav{}}}
			}
		}
		inv.Proofs = append(inv.Proofs, sess...)
		w.Specs = append(w.Specs, inv)
		return w
	}
	// layer 1 is issued by the owner (or by a stranger when the roots must fail), layer i by principal L(i-1) to L(i)
	var prevLayer []string
	for layer := 1; layer <= depth; layer++ {
		var cur []string
		n := width
		if shape == "chain" {
			n = 1
		}
		if shape == "tree" {
			n = 1
			for i := 1; i <= depth-layer; i++ {
				n *= width
			}
		}
		for j := 0; j < n; j++ {
			iss := cast.Ed(fmt.Sprintf("L%d", layer-1))
			if layer == 1 && !rootOK {
				// issued by a principal that does not own the resource: every path fails at its end
				iss = cast.Ed("strangerroot")
			}
			sp := &TokSpec{Name: fmt.Sprintf("t%d_%d", layer, j), Issuer: iss, Audience: cast.Ed(fmt.Sprintf("L%d", layer)), Exp: &far,
				Nonce: fmt.Sprintf("%d.%d", layer, j), Caps: []CapSpec{{Can: "store/add", With: with, Nb: Cav{}}}}
			if star {
				sp.Caps = []CapSpec{{Can: "*", With: "ucan:*", Nb: Cav{}}}
			}
			if multicap {
				sp.Caps = append([]CapSpec{{Can: "store/list", With: with, Nb: Cav{}}}, sp.Caps...)
			}
			switch shape {
			case "layered", "chain":
				for _, p := range prevLayer {
					sp.Proofs = append(sp.Proofs, ProofRef{Tok: p, Inline: !linked})
					if linked {
						w.Ctx.Resolvable[p] = true
					}
				}
			case "tree":
				for c := 0; c < width && layer > 1; c++ {
					sp.Proofs = append(sp.Proofs, ProofRef{Tok: prevLayer[j*width+c], Inline: true})
				}
			}
			w.Specs = append(w.Specs, sp)
			cur = append(cur, sp.Name)
		}
		prevLayer = cur
	}
	inv := &TokSpec{Name: "inv", Issuer: cast.Ed(fmt.Sprintf("L%d", depth)), Audience: service, Exp: &far,
		Caps: []CapSpec{{Can: "store/add", With: with, Nb: Cav{}}}}
	for _, p := range prevLayer {
		inv.Proofs = append(inv.Proofs, ProofRef{Tok: p, Inline: !linked})
		if linked {
			w.Ctx.Resolvable[p] = true
		}
	}
	w.Specs = append(w.Specs, inv)
	return w
}

func init() {
	gens["C19"] = func(o genOpts) error {
		st := newWorldStats()
		labels := map[int]string{}
		var infos []shapeInfo
		var cases []string
		id := 0
		type sh struct {
			shape        string
			width, depth int
		}
		var shapes []sh
		maxLayered := 6
		if o.tier == "thorough" {
			maxLayered = 9
		}
		for d := 1; d <= 8; d++ {
			shapes = append(shapes, sh{"chain", 1, d})
		}
		for d := 1; d <= 8; d++ {
			shapes = append(shapes, sh{"chain-star", 1, d}, sh{"chain-linked", 1, d}, sh{"chain-multicap", 1, d})
		}
		for _, wd := range []int{2, 3} {
			for d := 1; d <= 5; d++ {
				if wd == 3 && d > 4 {
					continue
				}
				shapes = append(shapes, sh{"layered-multicap", wd, d})
			}
		}
		for _, wd := range []int{2, 3} {
			for d := 1; d <= 4; d++ {
				if wd == 3 && d > 3 {
					continue
				}
				shapes = append(shapes, sh{"tree", wd, d})
			}
		}
		for _, wd := range []int{2, 3, 4} {
			for d := 1; d <= maxLayered; d++ {
				// keep the exponential cases below a few thousand verifications
				est := 1
				for i := 0; i < d; i++ {
					est *= wd
				}
				if est > 3000 {
					continue
				}
				shapes = append(shapes, sh{"layered", wd, d})
			}
		}
		for k := 1; k <= 6; k++ {
			shapes = append(shapes, sh{"logins", k, 1})
			shapes = append(shapes, sh{"logins-web", k, 1})
			if k <= 5 {
				shapes = append(shapes, sh{"attest-siblings", k, 1})
			}
			if k <= 4 {
				shapes = append(shapes, sh{"selfbag", 3, k})
			}
		}
		// deep layered DAGs whose roots are good (linear cost; the failing variants would take 3^d verifications)
		deepOK := map[sh]bool{}
		for _, d := range []int{8, 9, 10, 12} {
			for _, wd := range []int{2, 3} {
				k := sh{"layered", wd, d}
				est := 1
				for i := 0; i < d; i++ {
					est *= wd
				}
				if est <= 3000 {
					continue // already in the list above, with failing roots too
				}
				deepOK[k] = true
				shapes = append(shapes, k)
			}
		}
		slowStop := false
		for _, s := range shapes {
			for _, rootOK := range []bool{true, false} {
				if deepOK[s] && !rootOK {
					continue
				}
				w := shapeWorld(o.seed, id, s.shape, s.width, s.depth, rootOK)
				label := fmt.Sprintf("%s width=%d depth=%d root_ok=%v", s.shape, s.width, s.depth, rootOK)
				labels[id] = label
				t0 := time.Now()
				c, obs, err := runAndRender(w, st, label)
				if err != nil {
					return err
				}
				elapsed := time.Since(t0).Milliseconds()
				cases = append(cases, c)
				n := len(w.Specs) // distinct delegations carried (including the invocation)
				infos = append(infos, shapeInfo{World: id, Shape: s.shape, Width: s.width, Depth: s.depth, RootOK: rootOK,
					Delegations: n, Verifies: len(obs.Verifies), Bound: n*n + 2, Millis: elapsed})
				id++
				if elapsed > 10000 {
					slowStop = true // reported by the check; the remaining shapes would only take longer
					break
				}
			}
			if slowStop {
				break
			}
		}
		infos = append(infos, c19ServerManyCaps(o.seed, id)...)
		if err := writeWorldCases(o.out, "cases_C19", cases, 16, "check_worlds"); err != nil {
			return err
		}
		if err := writeJSON(o.out, "labels.json", labels); err != nil {
			return err
		}
		return writeJSON(o.out, "stats.json", struct {
			*worldStats
			Extra map[string]any `json:"extra"`
		}{st, map[string]any{"shapes": infos}})
	}
}

// ---------------------------------------------------------------------------
// C03: validity window at the exact second of validation

type timedCase struct {
	pos      string
	exp, nbf int // offsets; exp: -9 none
}

func init() {
	gens["C03"] = func(o genOpts) error {
		st := newWorldStats()
		labels := map[int]string{}
		positions := []string{"invocation", "proof1", "proof2", "proof3", "proof4", "attestation", "attest-parent", "resolver-proof", "proof1-twin", "proof2-twin", "proof1-twin-noexp", "proof2-twin-noexp", "attestation-twin", "proof2-stale-branch"}
		expOffs := []int{-9, -8, -7, -100000, -1, 0, 1, 100000} // -9 unset, -8 / -7 the absolute values 0 and 1
		nbfOffs := []int{-9, -100000, -1, 0, 1, 100000}         // -9: unset
		var todo []timedCase
		rounds := 1
		if o.tier == "thorough" {
			rounds = 6
		}
		for rd := 0; rd < rounds; rd++ {
			for _, p := range positions {
				for _, e := range expOffs {
					for _, n := range nbfOffs {
						todo = append(todo, timedCase{p, e, n})
					}
				}
			}
		}
		var cases []string
		id := 0
		retries := 0
		// every case is run twice: in the first and in the second half of a wall-clock second
		// (a clock that rounds instead of truncating only shows in the second half)
		for half := 0; half < 2; half++ {
			lo, hi := 20_000_000, 450_000_000
			if half == 1 {
				lo, hi = 550_000_000, 950_000_000
			}
			pending := append([]timedCase{}, todo...)
			for len(pending) > 0 {
				for ns := time.Now().Nanosecond(); ns < lo || ns > hi-100_000_000; ns = time.Now().Nanosecond() {
					time.Sleep(3 * time.Millisecond)
				}
				t := int(time.Now().Unix())
				var later []timedCase
				for i, tc := range pending {
					if ns := time.Now().Nanosecond(); ns > hi || ns < lo || int(time.Now().Unix()) != t {
						later = append(later, pending[i:]...)
						break
					}
					w, label := timedWorld(o.seed, id, tc, t)
					if err := w.Build(); err != nil {
						return err
					}
					obs := w.Run()
					if obs.NowBefore != t || obs.NowAfter != t {
						retries++
						later = append(later, tc)
						continue
					}
					w.ID = id
					labels[id] = label + []string{" (first half of the second)", " (second half of the second)"}[half]
					st.Worlds++
					st.Kinds[tc.pos]++
					if obs.Authorized {
						st.Authorized++
					}
					st.Signatures[fmt.Sprintf("%s|%d|%d|%v|%d", tc.pos, tc.exp, tc.nbf, obs.Authorized, half)]++
					if len(st.Samples) < 6 {
						st.Samples = append(st.Samples, map[string]any{"world": id, "label": labels[id], "now": t, "authorized": obs.Authorized})
					}
					cases = append(cases, w.Coq(obs))
					id++
				}
				pending = later
			}
		}
		// histories: the SAME tokens validated again after time has passed — a proof accepted inside its window must be
		// refused once it has expired, and one refused as too early must be accepted once its not-before has passed
		// (a validator that remembers verdicts per token would get either wrong)
		histories := 0
		for attempt := 0; attempt < 5 && histories == 0; attempt++ {
			for ns := time.Now().Nanosecond(); ns > 300_000_000; ns = time.Now().Nanosecond() {
				time.Sleep(5 * time.Millisecond)
			}
			t0 := int(time.Now().Unix())
			type hist struct {
				w     *World
				label string
			}
			var hs []hist
			for _, pos := range []string{"invocation", "proof1", "proof2", "proof4", "attestation", "resolver-proof"} {
				for _, tc := range []timedCase{{pos, 2, -9}, {pos, 100000, 2}, {pos, 3, 1}} {
					w, label := timedWorld(o.seed, id+len(hs), tc, t0)
					if err := w.Build(); err != nil {
						return err
					}
					hs = append(hs, hist{w, label})
				}
			}
			okRound := true
			var roundCases []string
			roundLabels := map[int]string{}
			for round, at := range []int{t0, t0 + 3} {
				for int(time.Now().Unix()) < at {
					time.Sleep(20 * time.Millisecond)
				}
				for i, h := range hs {
					obs := h.w.Run()
					if obs.NowBefore != obs.NowAfter || (round == 0 && obs.NowBefore != t0) || (round == 1 && obs.NowBefore < t0+3) {
						okRound = false
						break
					}
					h.w.ID = id + round*len(hs) + i
					roundLabels[h.w.ID] = fmt.Sprintf("history %s, validation %d of the same tokens at t0%+d", h.label, round+1, obs.NowBefore-t0)
					roundCases = append(roundCases, h.w.Coq(obs))
					st.Worlds++
					st.Kinds["history"]++
					if obs.Authorized {
						st.Authorized++
					}
					st.Signatures[fmt.Sprintf("history|%s|%d|%v", h.label, round, obs.Authorized)]++
				}
				if !okRound {
					break
				}
			}
			if okRound {
				cases = append(cases, roundCases...)
				for k, v := range roundLabels {
					labels[k] = v
				}
				id += 2 * len(hs)
				histories = len(hs)
			} else {
				retries++
			}
		}
		// gen_cov.go: tokens issued without an expiration option (library default: 30 s from now) are inside their window
		xw, xl := covExtraWorlds(o.seed, id, false)
		for i, w := range xw {
			if !strings.Contains(xl[i], "default-exp") {
				continue
			}
			c, _, err := runAndRender(w, st, xl[i])
			if err != nil {
				return err
			}
			labels[w.ID] = xl[i]
			cases = append(cases, c)
		}
		if err := writeWorldCases(o.out, "cases_C03", cases, 16, "check_worlds"); err != nil {
			return err
		}
		if err := writeJSON(o.out, "labels.json", labels); err != nil {
			return err
		}
		return writeJSON(o.out, "stats.json", struct {
			*worldStats
			Extra map[string]any `json:"extra"`
		}{st, map[string]any{"retries_because_the_second_changed": retries, "histories_validated_twice": histories}})
	}
}

func timedWorld(seed int64, id int, tc timedCase, t int) (*World, string) {
	label := fmt.Sprintf("pos=%s exp=%s nbf=%s", tc.pos, offName(tc.exp), offName(tc.nbf))
	apply := func(sp *TokSpec) {
		if tc.exp == -9 {
			sp.Exp = nil
		} else if tc.exp == -8 || tc.exp == -7 {
			e := tc.exp + 8 // absolute: the epoch itself (exp present and 0) and one second after it
			sp.Exp = &e
		} else {
			e := t + tc.exp
			sp.Exp = &e
		}
		if tc.nbf == -9 {
			sp.Nbf = 0
		} else {
			sp.Nbf = t + tc.nbf
		}
	}
	far := t + 1000000
	switch tc.pos {
	case "attestation", "attest-parent", "attestation-twin":
		so := sessOpts{Attested: "this", AttIssuer: "authority", Resource: "authority", Window: "valid", Pos: 2, Resolver: "absent", Now: t}
		if tc.pos == "attestation-twin" {
			// the attestation under test is cited AFTER a long-expired attestation of the same token: the stale one contributes
			// nothing and takes nothing away
			so.BadDecoys = 1
		}
		if tc.pos == "attest-parent" {
			so.AttIssuer = "delegate"
		}
		w, _ := sessionWorld(seed, id, so)
		for _, sp := range w.Specs {
			if ((tc.pos == "attestation" || tc.pos == "attestation-twin") && sp.Name == "att") || (tc.pos == "attest-parent" && sp.Name == "attparent") {
				apply(sp)
			}
		}
		return w, label
	}
	cast := newCast(seed*9973 + int64(id))
	service := cast.Ed("service")
	with := cast.Ed("p0").DID.String()
	depth := 4
	specs := linearChain(cast, service, "store/add", with, depth, far, Cav{})
	w := &World{Kind: "timed", Cast: cast, Can: "store/add", Inv: "inv", Specs: specs, Ctx: baseCtx(service)}
	switch tc.pos {
	case "invocation":
		apply(specs[depth])
	case "proof1", "proof2", "proof3", "proof4":
		k := int(tc.pos[5] - '0') // distance from the invocation
		apply(specs[depth-k])
	case "resolver-proof":
		apply(specs[depth-2])
		specs[depth-1].Proofs[0].Inline = false
		w.Ctx.Resolvable[specs[depth-2].Name] = true
	case "proof1-twin", "proof2-twin", "proof1-twin-noexp", "proof2-twin-noexp":
		// the proof with the window under test is cited right AFTER another copy of it that is long expired
		// (-noexp: by a token that itself never expires — it does not inherit an expiry from what it carries)
		k := int(tc.pos[5] - '0')
		target := specs[depth-k]
		apply(target)
		tw := *target
		past := t - 100000
		tw.Name, tw.Nonce, tw.Exp, tw.Nbf = target.Name+"_twin", "twin", &past, 0
		tw.Caps = append([]CapSpec{}, target.Caps...)
		tw.Proofs = append([]ProofRef{}, target.Proofs...)
		citing := specs[depth-k+1]
		citing.Proofs = append([]ProofRef{{Tok: tw.Name, Inline: true}}, citing.Proofs...)
		if len(tc.pos) > 6 && tc.pos[len(tc.pos)-6:] == "-noexp" {
			citing.Exp = nil
		}
		// insert the twin before the citing token
		var out []*TokSpec
		for _, sp := range specs {
			if sp == citing {
				out = append(out, &tw)
			}
			out = append(out, sp)
		}
		w.Specs = out
	case "proof2-stale-branch":
		// the renewed delegation kept next to the old one: the invocation cites FIRST a copy of its proof that is itself
		// inside its window but stands on a long-expired copy of the next token up, THEN the genuine proof whose parent
		// carries the window under test — the dead branch must not decide for the live one
		p1, p2 := specs[depth-1], specs[depth-2]
		apply(p2)
		old2 := *p2
		past := t - 100000
		old2.Name, old2.Nonce, old2.Exp, old2.Nbf = p2.Name+"_old", "old", &past, 0
		old2.Caps = append([]CapSpec{}, p2.Caps...)
		old2.Proofs = append([]ProofRef{}, p2.Proofs...)
		old1 := *p1
		old1.Name, old1.Nonce = p1.Name+"_old", "old"
		old1.Caps = append([]CapSpec{}, p1.Caps...)
		old1.Proofs = []ProofRef{{Tok: old2.Name, Inline: true}}
		inv := specs[depth]
		inv.Proofs = append([]ProofRef{{Tok: old1.Name, Inline: true}}, inv.Proofs...)
		var out []*TokSpec
		for _, sp := range specs {
			if sp == p1 {
				out = append(out, &old2, &old1)
			}
			out = append(out, sp)
		}
		w.Specs = out
	}
	return w, label
}

func offName(o int) string {
	switch o {
	case -9:
		return "unset"
	case -8:
		return "epoch(0)"
	case -7:
		return "epoch+1"
	case -100000:
		return "far-past"
	case 100000:
		return "far-future"
	case 0:
		return "now"
	}
	return fmt.Sprintf("now%+d", o)
}
