package main

// Typed receipt readers WITH bindnode options (a result type that needs a converter: a did.DID held
// in a String field): NewReceiptReaderFromTypes(..., opts...).Read and Rebind(..., opts...) on every
// receipt a reply names.  Reading returns a receipt or an error, never a panic; for the receipt
// whose result has that shape the typed read succeeds and returns the DID that was issued.

import (
	"fmt"

	ipldprime "github.com/ipld/go-ipld-prime"
	"github.com/ipld/go-ipld-prime/datamodel"
	"github.com/ipld/go-ipld-prime/fluent/qp"
	"github.com/ipld/go-ipld-prime/node/basicnode"
	"github.com/ipld/go-ipld-prime/node/bindnode"
	"github.com/ipld/go-ipld-prime/schema"
	"github.com/storacha/go-ucanto/client"
	"github.com/storacha/go-ucanto/core/ipld"
	"github.com/storacha/go-ucanto/core/receipt"
	"github.com/storacha/go-ucanto/core/result"
	"github.com/storacha/go-ucanto/did"
)

type c15Who struct {
	Who did.DID
}

func (o c15Who) ToIPLD() (ipld.Node, error) {
	return qp.BuildMap(basicnode.Prototype.Any, 1, func(ma datamodel.MapAssembler) {
		qp.MapEntry(ma, "who", qp.String(o.Who.String()))
	})
}

type c15WhoErr struct {
	Message string
}

func (e c15WhoErr) ToIPLD() (ipld.Node, error) {
	return qp.BuildMap(basicnode.Prototype.Any, 1, func(ma datamodel.MapAssembler) {
		qp.MapEntry(ma, "message", qp.String(e.Message))
	})
}

var c15Converters = []bindnode.Option{
	bindnode.TypedStringConverter(
		&did.DID{},
		func(s string) (interface{}, error) {
			d, err := did.Parse(s)
			if err != nil {
				return nil, err
			}
			return &d, nil
		},
		func(v interface{}) (string, error) {
			d, ok := v.(*did.DID)
			if !ok {
				return "", fmt.Errorf("not a DID: %T", v)
			}
			return d.String(), nil
		},
	),
}

var c15OkT, c15ErrT schema.Type

func init() {
	ts, err := ipldprime.LoadSchemaBytes([]byte("type DID string\ntype Ok struct {\n  who DID\n}\ntype Err struct {\n  message String\n}\n"))
	if err != nil {
		panic(err)
	}
	c15OkT, c15ErrT = ts.TypeByName("Ok"), ts.TypeByName("Err")
}

// c15TypedReads reads the receipt at l with the typed reader and through Rebind, both with converters.
// Returns "" or the DID the typed receipt reports (when the result has the {who: DID} shape).
func c15TypedReads(obs *c15Obs, l ipld.Link, resp client.ExecutionResponse, anyrc receipt.AnyReceipt) (who string, mismatch string) {
	guard(obs, "ReceiptReaderFromTypes(converters).Read", func() {
		rdr, err := receipt.NewReceiptReaderFromTypes[c15Who, c15WhoErr](c15OkT, c15ErrT, c15Converters...)
		if err != nil {
			mismatch = "NewReceiptReaderFromTypes with converters failed: " + err.Error()
			return
		}
		rc, err := rdr.Read(l, resp.Blocks())
		if err != nil || rc == nil {
			return
		}
		o, _ := result.Unwrap(rc.Out())
		who = o.Who.String()
	})
	if anyrc != nil {
		guard(obs, "Rebind(converters)", func() {
			rc, err := receipt.Rebind[c15Who, c15WhoErr](anyrc, c15OkT, c15ErrT, c15Converters...)
			if err != nil || rc == nil {
				return
			}
			o, _ := result.Unwrap(rc.Out())
			if w := o.Who.String(); w != who {
				mismatch = fmt.Sprintf("Rebind with converters reports %q where the typed reader reports %q", w, who)
			}
		})
	}
	return who, mismatch
}

// the DID an untyped receipt carries in {ok: {who: <did>}}, "" when the result has another shape
func c15WhoOf(anyrc receipt.AnyReceipt) (who string) {
	recovered(func() {
		result.MatchResultR0(anyrc.Out(), func(n ipld.Node) {
			if n == nil || n.Kind() != datamodel.Kind_Map || n.Length() != 1 {
				return
			}
			w, err := n.LookupByString("who")
			if err != nil {
				return
			}
			s, err := w.AsString()
			if err != nil {
				return
			}
			if d, err := did.Parse(s); err == nil {
				who = d.String()
			}
		}, func(ipld.Node) {})
	})
	return who
}
