package main

// extract_locks.go — verif-extract generator "Locks": lock / access tables.
//
//   blockstore_table  from core/dag/blockstore/blockstore.go: for every method of
//       *blockstore, the sections it executes: (lock mode, accesses to the shared
//       fields).  Accesses performed by a func literal that is not invoked on the
//       spot (the iterator closure that Iterator returns) run after the deferred
//       unlock and therefore form a separate section with mode MNone.
//   execute_table     from server/server.go: for the goroutine literal(s) in
//       Execute, the accesses to variables captured from the enclosing function
//       and mutated by the goroutine, split at lock.Lock()/lock.Unlock().
//
// The walker recognises a closed list of syntactic forms.  Anything else that
// touches the receiver / a shared field / a captured variable / the lock is an
// error ("unsupported"): the file is then not produced and the tie fails.
// Never a guess.

import (
	"fmt"
	"go/ast"
	"go/token"
	"path/filepath"
	"sort"
	"strings"
)

type lkAcc struct {
	v int
	w bool
}

type lkSect struct {
	mode string // MNone | MR | MW
	accs []lkAcc
}

type lkWalker struct {
	fset *token.FileSet
	file *ast.File
	// blockstore mode
	recv     string            // receiver identifier ("" in capture mode)
	recvType string            // receiver type name
	fields   map[string]int    // shared field name -> variable id
	embedded map[string]string // embedded field name -> struct type name (methods may be followed)
	mutexEmb string            // name of the embedded mutex field ("RWMutex" / "Mutex"), "" if none
	ownMeths map[string]bool   // methods of the receiver type itself
	depth    int               // inlining depth
	// capture mode (Execute)
	capture  map[string]int  // captured, mutated variable -> id
	lockVars map[string]bool // names of sync.Mutex / sync.RWMutex variables visible
	syncVars map[string]bool // other sync objects (WaitGroup): method calls ignored
	inner    map[string]bool // names declared inside the literal (shadow outer ones)
	// output of the current section
	accs     []lkAcc
	closures []*ast.FuncLit
	closRecv []string // receiver name in force for each closure
}

func (w *lkWalker) fail(n ast.Node, msg string) {
	panic(unsupported{fmt.Sprintf("%s: unsupported: %s", w.fset.Position(n.Pos()), msg)})
}

func (w *lkWalker) add(v int, write bool) { w.accs = append(w.accs, lkAcc{v, write}) }

// shared returns the variable id if e denotes a shared location itself.
func (w *lkWalker) shared(e ast.Expr) (int, bool) {
	switch x := e.(type) {
	case *ast.ParenExpr:
		return w.shared(x.X)
	case *ast.Ident:
		if w.recv == "" && !w.inner[x.Name] {
			if id, ok := w.capture[x.Name]; ok {
				return id, true
			}
		}
	case *ast.SelectorExpr:
		if w.recv == "" {
			return 0, false
		}
		if id, ok := x.X.(*ast.Ident); ok && id.Name == w.recv {
			if v, ok := w.fields[x.Sel.Name]; ok {
				return v, true
			}
		}
		if in, ok := x.X.(*ast.SelectorExpr); ok {
			if id, ok := in.X.(*ast.Ident); ok && id.Name == w.recv {
				if _, emb := w.embedded[in.Sel.Name]; emb {
					if v, ok := w.fields[x.Sel.Name]; ok {
						return v, true
					}
				}
			}
		}
	}
	return 0, false
}

// lockCall classifies a call as a lock operation: "Lock", "RLock", "Unlock", "RUnlock".
func (w *lkWalker) lockCall(c *ast.CallExpr) (string, bool) {
	sel, ok := c.Fun.(*ast.SelectorExpr)
	if !ok {
		return "", false
	}
	switch sel.Sel.Name {
	case "Lock", "RLock", "Unlock", "RUnlock", "TryLock", "TryRLock", "RLocker":
	default:
		return "", false
	}
	isLock := false
	if w.recv != "" {
		if id, ok := sel.X.(*ast.Ident); ok && id.Name == w.recv && w.mutexEmb != "" {
			isLock = true
		}
		if in, ok := sel.X.(*ast.SelectorExpr); ok {
			if id, ok := in.X.(*ast.Ident); ok && id.Name == w.recv && in.Sel.Name == w.mutexEmb {
				isLock = true
			}
		}
	} else if id, ok := sel.X.(*ast.Ident); ok && w.lockVars[id.Name] && !w.inner[id.Name] {
		isLock = true
	}
	if !isLock {
		return "", false
	}
	if strings.HasPrefix(sel.Sel.Name, "Try") || sel.Sel.Name == "RLocker" {
		w.fail(c, "lock operation "+sel.Sel.Name)
	}
	if len(c.Args) != 0 {
		w.fail(c, "lock call with arguments")
	}
	return sel.Sel.Name, true
}

var lkTypeNode = func(e ast.Expr) bool {
	switch e.(type) {
	case *ast.ArrayType, *ast.MapType, *ast.ChanType, *ast.FuncType, *ast.StructType, *ast.InterfaceType:
		return true
	}
	return false
}

// target: e is assigned to.  The write is attributed to the shared variable at the
// root of the expression (m[k] = …, s[i].f = …, v.f = …, *v = … all count as a write of it).
func (w *lkWalker) target(e ast.Expr, alsoRead bool) {
	var idx []ast.Expr
	cur := e
loop:
	for {
		if v, ok := w.shared(cur); ok {
			for _, i := range idx {
				w.read(i)
			}
			if alsoRead {
				w.add(v, false)
			}
			w.add(v, true)
			return
		}
		switch x := cur.(type) {
		case *ast.ParenExpr:
			cur = x.X
		case *ast.IndexExpr:
			idx = append(idx, x.Index)
			cur = x.X
		case *ast.SelectorExpr:
			cur = x.X
		case *ast.StarExpr:
			cur = x.X
		default:
			break loop
		}
	}
	if id, ok := e.(*ast.Ident); ok {
		if id.Name == w.recv && w.recv != "" {
			w.fail(e, "assignment to the receiver")
		}
		if w.recv == "" && (w.lockVars[id.Name] || w.syncVars[id.Name]) && !w.inner[id.Name] {
			w.fail(e, "assignment to a synchronisation object")
		}
		return
	}
	w.read(e)
}

func (w *lkWalker) readAll(es []ast.Expr) {
	for _, e := range es {
		w.read(e)
	}
}

// sharedArg: a shared field handed to a known builtin / library function
func (w *lkWalker) sharedArg(e ast.Expr, read, write bool) {
	if v, ok := w.shared(e); ok {
		if read {
			w.add(v, false)
		}
		if write {
			w.add(v, true)
		}
		return
	}
	w.read(e)
}

func (w *lkWalker) read(e ast.Expr) {
	if e == nil {
		return
	}
	if v, ok := w.shared(e); ok {
		if w.recv == "" { // a captured variable used as a value: a read of that variable
			w.add(v, false)
			return
		}
		w.fail(e, "shared field used as a value (alias of the map/slice would escape the lock)")
	}
	if lkTypeNode(e) {
		return
	}
	switch x := e.(type) {
	case *ast.BasicLit:
	case *ast.Ident:
		if w.recv != "" && x.Name == w.recv {
			w.fail(e, "receiver used as a value (escapes)")
		}
		if w.recv == "" && w.lockVars[x.Name] && !w.inner[x.Name] {
			w.fail(e, "lock variable used other than in Lock/Unlock calls")
		}
	case *ast.ParenExpr:
		w.read(x.X)
	case *ast.StarExpr:
		w.read(x.X)
	case *ast.UnaryExpr:
		if x.Op == token.AND {
			if _, ok := w.shared(x.X); ok {
				w.fail(e, "address of a shared variable")
			}
			if ix, ok := x.X.(*ast.IndexExpr); ok {
				if _, ok := w.shared(ix.X); ok {
					w.fail(e, "address of an element of a shared variable")
				}
			}
		}
		if x.Op == token.ARROW {
			w.fail(e, "channel receive")
		}
		w.read(x.X)
	case *ast.BinaryExpr:
		w.read(x.X)
		w.read(x.Y)
	case *ast.KeyValueExpr:
		w.read(x.Key)
		w.read(x.Value)
	case *ast.CompositeLit:
		w.readAll(x.Elts)
	case *ast.TypeAssertExpr:
		w.read(x.X)
	case *ast.IndexExpr:
		if v, ok := w.shared(x.X); ok {
			w.read(x.Index)
			w.add(v, false)
			return
		}
		w.read(x.X)
		w.read(x.Index)
	case *ast.IndexListExpr:
		w.read(x.X)
	case *ast.SliceExpr:
		if _, ok := w.shared(x.X); ok && w.recv != "" {
			w.fail(e, "slice of a shared field (alias escapes the lock)")
		}
		w.read(x.X)
		w.read(x.Low)
		w.read(x.High)
		w.read(x.Max)
	case *ast.SelectorExpr:
		if id, ok := x.X.(*ast.Ident); ok && w.recv != "" && id.Name == w.recv {
			w.fail(e, "receiver member "+x.Sel.Name+" is neither a known shared field nor a followed method call")
		}
		if in, ok := x.X.(*ast.SelectorExpr); ok && w.recv != "" {
			if id, ok := in.X.(*ast.Ident); ok && id.Name == w.recv {
				w.fail(e, "receiver member "+in.Sel.Name+"."+x.Sel.Name+" not classified")
			}
		}
		w.read(x.X)
	case *ast.FuncLit:
		w.closures = append(w.closures, x)
		w.closRecv = append(w.closRecv, w.recv)
	case *ast.CallExpr:
		w.call(x)
	default:
		w.fail(e, fmt.Sprintf("expression %T", e))
	}
}

func (w *lkWalker) call(c *ast.CallExpr) {
	if _, ok := w.lockCall(c); ok {
		w.fail(c, "lock operation that is not a top-level statement of the function body")
	}
	if c.Ellipsis != token.NoPos {
		for _, a := range c.Args {
			if _, ok := w.shared(a); ok && w.recv != "" {
				w.fail(c, "shared field spread into a call")
			}
		}
	}
	switch f := c.Fun.(type) {
	case *ast.FuncLit: // invoked on the spot: part of the current section
		w.readAll(c.Args)
		w.block(f.Body.List)
		return
	case *ast.Ident:
		switch f.Name {
		case "len", "cap":
			for _, a := range c.Args {
				w.sharedArg(a, true, false)
			}
			return
		case "append":
			for i, a := range c.Args {
				if i == 0 {
					// append may write into the backing array of its first argument
					w.sharedArg(a, true, w.recv != "")
				} else {
					w.sharedArg(a, true, false)
				}
			}
			return
		case "copy":
			if len(c.Args) == 2 {
				w.sharedArg(c.Args[0], false, true)
				w.sharedArg(c.Args[1], true, false)
				return
			}
		case "delete", "clear":
			for i, a := range c.Args {
				if i == 0 {
					w.sharedArg(a, false, true)
				} else {
					w.read(a)
				}
			}
			return
		case "make", "new":
			for i, a := range c.Args {
				if i > 0 {
					w.read(a)
				}
			}
			return
		}
	case *ast.SelectorExpr:
		name := w.src(f)
		if name == "slices.Clone" || name == "maps.Clone" {
			for _, a := range c.Args {
				w.sharedArg(a, true, false)
			}
			return
		}
		if w.recv != "" {
			// bs.blockreader.Get(link): follow into the embedded type's method
			if in, ok := f.X.(*ast.SelectorExpr); ok {
				if id, ok := in.X.(*ast.Ident); ok && id.Name == w.recv {
					if ty, emb := w.embedded[in.Sel.Name]; emb {
						w.readAll(c.Args)
						w.follow(c, ty, f.Sel.Name)
						return
					}
				}
			}
			if id, ok := f.X.(*ast.Ident); ok && id.Name == w.recv {
				if w.ownMeths[f.Sel.Name] {
					w.fail(c, "call of the receiver's own method "+f.Sel.Name+" (would re-enter the lock)")
				}
				// promoted method of an embedded type
				for emb, ty := range w.embedded {
					_ = emb
					if findFunc(w.file, f.Sel.Name, ty) != nil {
						w.readAll(c.Args)
						w.follow(c, ty, f.Sel.Name)
						return
					}
				}
				w.fail(c, "call of unknown receiver method "+f.Sel.Name)
			}
		} else if id, ok := f.X.(*ast.Ident); ok && w.syncVars[id.Name] && !w.inner[id.Name] {
			w.readAll(c.Args) // wg.Done(), wg.Add(1): synchronisation, no data access
			return
		}
	}
	// any other call: no shared field may be handed over
	for _, a := range c.Args {
		if _, ok := w.shared(a); ok && w.recv != "" {
			w.fail(c, "shared field passed to a function that is not on the known list")
		}
	}
	w.read(c.Fun)
	w.readAll(c.Args)
}

func (w *lkWalker) src(n ast.Node) string { return (&tr{fset: w.fset}).src(n) }

// follow inlines the body of method `name` of struct type ty (same shared fields).
func (w *lkWalker) follow(at ast.Node, ty, name string) {
	fd := findFunc(w.file, name, ty)
	if fd == nil || fd.Body == nil {
		w.fail(at, "method "+ty+"."+name+" not found")
	}
	if w.depth > 4 {
		w.fail(at, "inlining too deep")
	}
	if len(fd.Recv.List[0].Names) != 1 {
		w.fail(fd, "receiver without a name")
	}
	saved, savedEmb, savedMutex, savedOwn := w.recv, w.embedded, w.mutexEmb, w.ownMeths
	w.recv = fd.Recv.List[0].Names[0].Name
	w.embedded, w.mutexEmb, w.ownMeths = map[string]string{}, "", methodsOf(w.file, ty)
	w.depth++
	w.checkNoShadow(fd.Body, fd.Type)
	w.block(fd.Body.List)
	w.depth--
	w.recv, w.embedded, w.mutexEmb, w.ownMeths = saved, savedEmb, savedMutex, savedOwn
}

func (w *lkWalker) block(ss []ast.Stmt) {
	for _, s := range ss {
		w.stmt(s)
	}
}

func (w *lkWalker) stmt(s ast.Stmt) {
	switch x := s.(type) {
	case nil:
	case *ast.EmptyStmt, *ast.BranchStmt:
	case *ast.ExprStmt:
		w.read(x.X)
	case *ast.AssignStmt:
		// right-hand sides are evaluated first
		w.readAll(x.Rhs)
		opAssign := x.Tok != token.ASSIGN && x.Tok != token.DEFINE
		for _, l := range x.Lhs {
			w.target(l, opAssign)
		}
	case *ast.IncDecStmt:
		w.target(x.X, true)
	case *ast.DeclStmt:
		gd, ok := x.Decl.(*ast.GenDecl)
		if !ok {
			w.fail(s, "declaration")
		}
		for _, sp := range gd.Specs {
			if vs, ok := sp.(*ast.ValueSpec); ok {
				w.readAll(vs.Values)
			}
		}
	case *ast.BlockStmt:
		w.block(x.List)
	case *ast.IfStmt:
		w.stmt(x.Init)
		w.read(x.Cond)
		w.block(x.Body.List)
		w.stmt(x.Else)
	case *ast.ForStmt:
		w.stmt(x.Init)
		w.read(x.Cond)
		w.stmt(x.Post)
		w.block(x.Body.List)
	case *ast.RangeStmt:
		if v, ok := w.shared(x.X); ok {
			w.add(v, false)
		} else {
			w.read(x.X)
		}
		if x.Key != nil {
			w.target(x.Key, false)
		}
		if x.Value != nil {
			w.target(x.Value, false)
		}
		w.block(x.Body.List)
	case *ast.ReturnStmt:
		w.readAll(x.Results)
	case *ast.SwitchStmt:
		w.stmt(x.Init)
		w.read(x.Tag)
		w.block(x.Body.List)
	case *ast.TypeSwitchStmt:
		w.stmt(x.Init)
		w.stmt(x.Assign)
		w.block(x.Body.List)
	case *ast.CaseClause:
		w.readAll(x.List)
		w.block(x.Body)
	case *ast.LabeledStmt:
		w.stmt(x.Stmt)
	case *ast.DeferStmt:
		if _, ok := w.lockCall(x.Call); ok {
			w.fail(s, "deferred lock operation that is not a top-level statement of the function body")
		}
		// the deferred call runs at function exit, still inside a section opened with a deferred unlock
		w.call(x.Call)
	default:
		w.fail(s, fmt.Sprintf("statement %T", s))
	}
}

// checkNoShadow: the receiver name (and in capture mode nothing) must not be re-declared.
func (w *lkWalker) checkNoShadow(body *ast.BlockStmt, ft *ast.FuncType) {
	if w.recv == "" {
		return
	}
	recv := w.recv
	bad := func(id *ast.Ident) {
		if id != nil && id.Name == recv {
			w.fail(id, "receiver name re-declared")
		}
	}
	params := func(ft *ast.FuncType) {
		if ft == nil {
			return
		}
		for _, fl := range []*ast.FieldList{ft.Params, ft.Results} {
			if fl == nil {
				continue
			}
			for _, f := range fl.List {
				for _, n := range f.Names {
					bad(n)
				}
			}
		}
	}
	params(ft)
	ast.Inspect(body, func(n ast.Node) bool {
		switch x := n.(type) {
		case *ast.AssignStmt:
			for _, l := range x.Lhs {
				if id, ok := l.(*ast.Ident); ok {
					bad(id)
				}
			}
		case *ast.ValueSpec:
			for _, id := range x.Names {
				bad(id)
			}
		case *ast.RangeStmt:
			if id, ok := x.Key.(*ast.Ident); ok {
				bad(id)
			}
			if id, ok := x.Value.(*ast.Ident); ok {
				bad(id)
			}
		case *ast.FuncLit:
			params(x.Type)
		}
		return true
	})
}

// sections walks a function body: top-level lock operations delimit the sections.
func (w *lkWalker) sections(body []ast.Stmt) []lkSect {
	var res []lkSect
	mode := "MNone"
	deferred := false
	flush := func() {
		if mode != "MNone" || len(w.accs) > 0 {
			res = append(res, lkSect{mode, w.accs})
		}
		w.accs = nil
	}
	for _, s := range body {
		if es, ok := s.(*ast.ExprStmt); ok {
			if c, ok := es.X.(*ast.CallExpr); ok {
				if op, ok := w.lockCall(c); ok {
					switch op {
					case "Lock", "RLock":
						if mode != "MNone" {
							w.fail(s, "lock acquired while a lock is held")
						}
						flush()
						mode = map[string]string{"Lock": "MW", "RLock": "MR"}[op]
					case "Unlock", "RUnlock":
						want := map[string]string{"Unlock": "MW", "RUnlock": "MR"}[op]
						if mode != want || deferred {
							w.fail(s, op+" does not match the lock held")
						}
						flush()
						mode = "MNone"
					}
					continue
				}
			}
		}
		if ds, ok := s.(*ast.DeferStmt); ok {
			if op, ok := w.lockCall(ds.Call); ok {
				want := map[string]string{"Unlock": "MW", "RUnlock": "MR"}[op]
				if want == "" || mode != want || deferred {
					w.fail(s, "deferred "+op+" does not match the lock held")
				}
				deferred = true
				continue
			}
		}
		// `if c { …; X.Unlock(); return … }` while the lock is held without a deferred unlock:
		// the early exit releases the lock itself; the fall-through path still holds it
		if is, ok := s.(*ast.IfStmt); ok && mode != "MNone" && !deferred && is.Else == nil && len(is.Body.List) >= 2 {
			n := len(is.Body.List)
			ret, isRet := is.Body.List[n-1].(*ast.ReturnStmt)
			if es, ok := is.Body.List[n-2].(*ast.ExprStmt); ok && isRet {
				if c, ok := es.X.(*ast.CallExpr); ok {
					if op, ok := w.lockCall(c); ok {
						want := map[string]string{"Unlock": "MW", "RUnlock": "MR"}[op]
						if mode != want {
							w.fail(es, op+" does not match the lock held")
						}
						w.stmt(is.Init)
						w.read(is.Cond)
						w.block(is.Body.List[:n-2])
						held := w.accs
						nclos := len(w.closures)
						w.accs = nil
						w.readAll(ret.Results)
						if len(w.accs) > 0 || len(w.closures) != nclos {
							w.fail(ret, "shared access in a return statement after the unlock")
						}
						w.accs = held
						continue
					}
				}
			}
		}
		w.stmt(s)
	}
	if mode != "MNone" && !deferred {
		w.fail(body[len(body)-1], "function ends with the lock held")
	}
	flush()
	// closures that were created but not invoked on the spot run later, without the lock
	for i := 0; i < len(w.closures); i++ {
		cl := w.closures[i]
		saved := w.recv
		w.recv = w.closRecv[i]
		ast.Inspect(cl.Body, func(n ast.Node) bool {
			if c, ok := n.(*ast.CallExpr); ok {
				if _, ok := w.lockCall(c); ok {
					w.fail(c, "lock operation inside a closure")
				}
			}
			return true
		})
		w.block(cl.Body.List)
		w.recv = saved
	}
	if len(w.closures) > 0 {
		res = append(res, lkSect{"MNone", w.accs})
		w.accs = nil
	}
	w.closures, w.closRecv = nil, nil
	return res
}

func methodsOf(f *ast.File, ty string) map[string]bool {
	res := map[string]bool{}
	for _, d := range f.Decls {
		if fd, ok := d.(*ast.FuncDecl); ok && fd.Recv != nil && len(fd.Recv.List) == 1 {
			t := fd.Recv.List[0].Type
			if st, ok := t.(*ast.StarExpr); ok {
				t = st.X
			}
			if id, ok := t.(*ast.Ident); ok && id.Name == ty {
				res[fd.Name.Name] = true
			}
		}
	}
	return res
}

func findStruct(f *ast.File, name string) *ast.StructType {
	for _, d := range f.Decls {
		if gd, ok := d.(*ast.GenDecl); ok && gd.Tok == token.TYPE {
			for _, sp := range gd.Specs {
				ts := sp.(*ast.TypeSpec)
				if ts.Name.Name == name {
					if st, ok := ts.Type.(*ast.StructType); ok {
						return st
					}
				}
			}
		}
	}
	return nil
}

func coqSections(ss []lkSect) string {
	var parts []string
	for _, s := range ss {
		var as []string
		for _, a := range s.accs {
			as = append(as, fmt.Sprintf("mkAcc %d %s", a.v, coqBool(a.w)))
		}
		parts = append(parts, fmt.Sprintf("(%s, [%s])", s.mode, strings.Join(as, "; ")))
	}
	return "[" + strings.Join(parts, ";\n      ") + "]"
}

func describeSections(names []string, ss []lkSect) string {
	var parts []string
	for _, s := range ss {
		var as []string
		for _, a := range s.accs {
			k := "read "
			if a.w {
				k = "write "
			}
			as = append(as, k+names[a.v])
		}
		parts = append(parts, s.mode+"{"+strings.Join(as, ", ")+"}")
	}
	return strings.Join(parts, " ; ")
}

// ---------------------------------------------------------------------------
// blockstore

func genBlockstoreTable(repo string) string {
	fset := token.NewFileSet()
	f := parseFile(fset, filepath.Join(repo, "core/dag/blockstore/blockstore.go"))
	const ty = "blockstore"
	st := findStruct(f, ty)
	if st == nil {
		panic(unsupported{"struct blockstore not found"})
	}
	fields := map[string]int{}
	var names []string
	embedded := map[string]string{}
	mutexEmb := ""
	addFields := func(s *ast.StructType, where string) {
		for _, fl := range s.Fields.List {
			if len(fl.Names) == 0 {
				panic(unsupported{fmt.Sprintf("%s: embedded field inside %s not supported", fset.Position(fl.Pos()), where)})
			}
			for _, n := range fl.Names {
				if _, dup := fields[n.Name]; dup {
					panic(unsupported{"duplicate field name " + n.Name})
				}
				fields[n.Name] = len(names)
				names = append(names, n.Name)
			}
		}
	}
	for _, fl := range st.Fields.List {
		if len(fl.Names) > 0 {
			for _, n := range fl.Names {
				fields[n.Name] = len(names)
				names = append(names, n.Name)
			}
			continue
		}
		switch t := fl.Type.(type) {
		case *ast.SelectorExpr:
			src := (&tr{fset: fset}).src(t)
			if src == "sync.RWMutex" || src == "sync.Mutex" {
				if mutexEmb != "" {
					panic(unsupported{"two embedded mutexes"})
				}
				mutexEmb = t.Sel.Name
				continue
			}
			panic(unsupported{"embedded " + src})
		case *ast.Ident:
			es := findStruct(f, t.Name)
			if es == nil {
				panic(unsupported{"embedded type " + t.Name + " is not a struct of this file"})
			}
			embedded[t.Name] = t.Name
			addFields(es, t.Name)
		default:
			panic(unsupported{fmt.Sprintf("%s: embedded field form", fset.Position(fl.Pos()))})
		}
	}
	if mutexEmb == "" {
		panic(unsupported{"blockstore embeds no sync.RWMutex / sync.Mutex"})
	}
	// methods in source order; fixed ids for the three the model knows
	opID := map[string]int{"Put": 0, "Get": 1, "Iterator": 2}
	next := 3
	type op struct {
		id   int
		name string
		ss   []lkSect
	}
	var ops []op
	own := methodsOf(f, ty)
	for _, d := range f.Decls {
		fd, ok := d.(*ast.FuncDecl)
		if !ok || fd.Recv == nil || fd.Body == nil || !own[fd.Name.Name] || findFunc(f, fd.Name.Name, ty) != fd {
			continue
		}
		id, known := opID[fd.Name.Name]
		if !known {
			id = next
			next++
		}
		w := &lkWalker{fset: fset, file: f, recvType: ty, fields: fields, embedded: embedded, mutexEmb: mutexEmb, ownMeths: own}
		if len(fd.Recv.List[0].Names) != 1 || fd.Recv.List[0].Names[0].Name == "_" {
			w.fail(fd, "receiver without a name")
		}
		w.recv = fd.Recv.List[0].Names[0].Name
		w.checkNoShadow(fd.Body, fd.Type)
		ops = append(ops, op{id, fd.Name.Name, w.sections(fd.Body.List)})
	}
	for n := range opID {
		if !own[n] {
			panic(unsupported{"method blockstore." + n + " not found"})
		}
	}
	sort.Slice(ops, func(i, j int) bool { return ops[i].id < ops[j].id })
	var sb strings.Builder
	sb.WriteString("(* core/dag/blockstore/blockstore.go — methods of *blockstore; lock = embedded sync." + mutexEmb + " *)\n")
	for i, n := range names {
		fmt.Fprintf(&sb, "Definition bs_var_%s : N := %d.\n", n, i)
	}
	for _, o := range ops {
		fmt.Fprintf(&sb, "Definition bs_op_%s : N := %d.   (* %s *)\n", o.name, o.id, describeSections(names, o.ss))
	}
	var rows []string
	for _, o := range ops {
		rows = append(rows, fmt.Sprintf("(%d, %s)", o.id, coqSections(o.ss)))
	}
	fmt.Fprintf(&sb, "Definition blockstore_table : op_table :=\n  [%s].\n", strings.Join(rows, ";\n   "))
	return sb.String()
}

// ---------------------------------------------------------------------------
// server.Execute's goroutine literal(s)

func declaredNames(n ast.Node, into map[string]token.Pos, topOnly map[string]bool, top []ast.Stmt) {
	note := func(id *ast.Ident) {
		if id == nil || id.Name == "_" {
			return
		}
		if _, ok := into[id.Name]; !ok {
			into[id.Name] = id.Pos()
		}
	}
	ast.Inspect(n, func(m ast.Node) bool {
		switch x := m.(type) {
		case *ast.AssignStmt:
			if x.Tok == token.DEFINE {
				for _, l := range x.Lhs {
					if id, ok := l.(*ast.Ident); ok {
						note(id)
					}
				}
			}
		case *ast.ValueSpec:
			for _, id := range x.Names {
				note(id)
			}
		case *ast.RangeStmt:
			if x.Tok == token.DEFINE {
				if id, ok := x.Key.(*ast.Ident); ok {
					note(id)
				}
				if id, ok := x.Value.(*ast.Ident); ok {
					note(id)
				}
			}
		case *ast.FuncType:
			for _, fl := range []*ast.FieldList{x.Params, x.Results} {
				if fl != nil {
					for _, f := range fl.List {
						for _, id := range f.Names {
							note(id)
						}
					}
				}
			}
		case *ast.TypeSwitchStmt:
			if as, ok := x.Assign.(*ast.AssignStmt); ok {
				for _, l := range as.Lhs {
					if id, ok := l.(*ast.Ident); ok {
						note(id)
					}
				}
			}
		}
		return true
	})
}

func genExecuteTable(repo string) string {
	fset := token.NewFileSet()
	f := parseFile(fset, filepath.Join(repo, "server/server.go"))
	fd := mustFunc(f, "Execute", "")
	// names declared in Execute outside the goroutine literals, and sync objects among them
	var lits []*ast.FuncLit
	var gos []*ast.GoStmt
	ast.Inspect(fd.Body, func(n ast.Node) bool {
		if g, ok := n.(*ast.GoStmt); ok {
			fl, ok := g.Call.Fun.(*ast.FuncLit)
			if !ok {
				panic(unsupported{fmt.Sprintf("%s: go statement that does not call a func literal", fset.Position(g.Pos()))})
			}
			lits = append(lits, fl)
			gos = append(gos, g)
			return false
		}
		return true
	})
	if len(lits) == 0 {
		panic(unsupported{"Execute starts no goroutine literal"})
	}
	inLit := func(p token.Pos) bool {
		for _, l := range lits {
			if l.Pos() <= p && p < l.End() {
				return true
			}
		}
		return false
	}
	outer := map[string]token.Pos{}
	declaredNames(fd.Type, outer, nil, nil)
	lockVars, syncVars := map[string]bool{}, map[string]bool{}
	ast.Inspect(fd.Body, func(n ast.Node) bool {
		if n == nil {
			return true
		}
		if inLit(n.Pos()) {
			return false
		}
		switch x := n.(type) {
		case *ast.ValueSpec:
			if x.Type != nil {
				switch (&tr{fset: fset}).src(x.Type) {
				case "sync.RWMutex", "sync.Mutex":
					for _, id := range x.Names {
						lockVars[id.Name] = true
					}
				case "sync.WaitGroup":
					for _, id := range x.Names {
						syncVars[id.Name] = true
					}
				}
			}
			for _, id := range x.Names {
				outer[id.Name] = id.Pos()
			}
		case *ast.AssignStmt:
			if x.Tok == token.DEFINE {
				for _, l := range x.Lhs {
					if id, ok := l.(*ast.Ident); ok && id.Name != "_" {
						outer[id.Name] = id.Pos()
					}
				}
			}
		case *ast.RangeStmt:
			if x.Tok == token.DEFINE {
				for _, e := range []ast.Expr{x.Key, x.Value} {
					if id, ok := e.(*ast.Ident); ok && id.Name != "_" {
						outer[id.Name] = id.Pos()
					}
				}
			}
		}
		return true
	})
	var sb strings.Builder
	sb.WriteString("(* server/server.go — goroutine literal(s) started by Execute *)\n")
	var rows []string
	var allNames []string
	varID := map[string]int{}
	type litInfo struct {
		ss       []lkSect
		readOnly []string
	}
	var infos []litInfo
	// pass 1: captured variables that some literal mutates
	inners := make([]map[string]bool, len(lits))
	for li, lit := range lits {
		innerPos := map[string]token.Pos{}
		declaredNames(lit.Type, innerPos, nil, nil)
		declaredNames(lit.Body, innerPos, nil, nil)
		inner := map[string]bool{}
		for n, p := range innerPos {
			inner[n] = true
			if _, both := outer[n]; both {
				// the inner declaration must precede every use inside the literal and be a
				// parameter or a top-level statement of the literal's body
				first := token.NoPos
				ast.Inspect(lit, func(m ast.Node) bool {
					if id, ok := m.(*ast.Ident); ok && id.Name == n && first == token.NoPos {
						first = id.Pos()
					}
					return true
				})
				okTop := false
				if lit.Type.Params != nil && lit.Type.Params.Pos() <= p && p < lit.Type.Params.End() {
					okTop = true
				}
				for _, s := range lit.Body.List {
					switch x := s.(type) {
					case *ast.AssignStmt:
						for _, l := range x.Lhs {
							if l.Pos() == p {
								okTop = true
							}
						}
					case *ast.DeclStmt:
						if x.Pos() <= p && p < x.End() {
							okTop = true
						}
					}
				}
				if first != p || !okTop {
					panic(unsupported{fmt.Sprintf("%s: name %s is both captured and declared inside the goroutine", fset.Position(p), n)})
				}
			}
		}
		inners[li] = inner
	}
	mutated := map[string]bool{}
	for li, lit := range lits {
		inner := inners[li]
		noteW := func(e ast.Expr) {
			for {
				switch x := e.(type) {
				case *ast.ParenExpr:
					e = x.X
					continue
				case *ast.IndexExpr:
					e = x.X
					continue
				case *ast.SelectorExpr:
					e = x.X
					continue
				case *ast.StarExpr:
					e = x.X
					continue
				}
				break
			}
			if id, ok := e.(*ast.Ident); ok && !inner[id.Name] {
				if _, isOuter := outer[id.Name]; isOuter {
					mutated[id.Name] = true
				}
			}
		}
		ast.Inspect(lit.Body, func(m ast.Node) bool {
			switch x := m.(type) {
			case *ast.AssignStmt:
				for _, l := range x.Lhs {
					if x.Tok == token.DEFINE {
						continue
					}
					noteW(l)
				}
			case *ast.IncDecStmt:
				noteW(x.X)
			case *ast.UnaryExpr:
				if x.Op == token.AND {
					noteW(x.X) // address taken: treat as mutated (the walker then rejects it)
				}
			}
			return true
		})
	}
	for n := range mutated {
		if lockVars[n] || syncVars[n] {
			panic(unsupported{"synchronisation object " + n + " is assigned inside the goroutine"})
		}
		allNames = append(allNames, n)
	}
	sort.Slice(allNames, func(i, j int) bool { return outer[allNames[i]] < outer[allNames[j]] })
	for i, n := range allNames {
		varID[n] = i
	}
	for li, lit := range lits {
		w := &lkWalker{fset: fset, file: f, capture: varID, lockVars: lockVars, syncVars: syncVars, inner: inners[li]}
		// one lock only
		used := map[string]bool{}
		ast.Inspect(lit.Body, func(m ast.Node) bool {
			if c, ok := m.(*ast.CallExpr); ok {
				if sel, ok := c.Fun.(*ast.SelectorExpr); ok {
					if id, ok := sel.X.(*ast.Ident); ok && lockVars[id.Name] && !inners[li][id.Name] {
						used[id.Name] = true
					}
				}
			}
			return true
		})
		if len(used) > 1 {
			panic(unsupported{"goroutine uses more than one lock"})
		}
		w.readAll(gos[li].Call.Args) // evaluated by the parent before the goroutine starts
		if len(w.accs) > 0 {
			// arguments are evaluated in the parent while earlier goroutines run
			panic(unsupported{"goroutine argument reads a variable that goroutines mutate"})
		}
		ss := w.sections(lit.Body.List)
		// captured but never mutated by a goroutine: must not be assigned by the parent
		// between the go statement and the end of the enclosing loop either
		ro := map[string]bool{}
		ast.Inspect(lit.Body, func(m ast.Node) bool {
			if id, ok := m.(*ast.Ident); ok && !inners[li][id.Name] && !mutated[id.Name] && !lockVars[id.Name] && !syncVars[id.Name] {
				if _, isOuter := outer[id.Name]; isOuter {
					ro[id.Name] = true
				}
			}
			return true
		})
		var roNames []string
		for n := range ro {
			roNames = append(roNames, n)
		}
		sort.Strings(roNames)
		infos = append(infos, litInfo{ss, roNames})
		rows = append(rows, fmt.Sprintf("(%d, %s)", li, coqSections(ss)))
	}
	// read-only captured variables must not be written anywhere in Execute after their declaration
	// other than by their declaring statement (parent writes would be concurrent with the goroutines)
	for _, info := range infos {
		for _, n := range info.readOnly {
			ast.Inspect(fd.Body, func(m ast.Node) bool {
				if as, ok := m.(*ast.AssignStmt); ok && as.Tok != token.DEFINE && !inLit(as.Pos()) {
					for _, l := range as.Lhs {
						if id, ok := l.(*ast.Ident); ok && id.Name == n {
							panic(unsupported{fmt.Sprintf("%s: %s is read by goroutines and assigned by the parent", fset.Position(as.Pos()), n)})
						}
					}
				}
				return true
			})
		}
	}
	// the parent may touch the mutated variables only before the fan-out starts or after the
	// join (wg.Wait() as a top-level statement of Execute): those accesses happen-before /
	// happen-after every worker.  Anything in between is concurrent with the workers: rejected.
	fanStart := token.NoPos
	for _, st := range fd.Body.List {
		for _, g := range gos {
			if st.Pos() <= g.Pos() && g.Pos() < st.End() && (fanStart == token.NoPos || st.Pos() < fanStart) {
				fanStart = st.Pos()
			}
		}
	}
	joinPos := token.NoPos
	for _, st := range fd.Body.List {
		if es, ok := st.(*ast.ExprStmt); ok && st.Pos() > fanStart {
			if c, ok := es.X.(*ast.CallExpr); ok {
				if sel, ok := c.Fun.(*ast.SelectorExpr); ok && sel.Sel.Name == "Wait" {
					if id, ok := sel.X.(*ast.Ident); ok && syncVars[id.Name] {
						last := true
						for _, g := range gos {
							if g.Pos() > st.Pos() {
								last = false
							}
						}
						if last && joinPos == token.NoPos {
							joinPos = st.End()
						}
					}
				}
			}
		}
	}
	ast.Inspect(fd.Body, func(m ast.Node) bool {
		if m == nil {
			return true
		}
		if inLit(m.Pos()) {
			return false
		}
		if id, ok := m.(*ast.Ident); ok && mutated[id.Name] && id.Pos() != outer[id.Name] {
			if id.Pos() >= fanStart && (joinPos == token.NoPos || id.Pos() < joinPos) {
				panic(unsupported{fmt.Sprintf("%s: parent uses %s while the goroutines may be running (no join before it)", fset.Position(id.Pos()), id.Name)})
			}
		}
		return true
	})
	for i, n := range allNames {
		fmt.Fprintf(&sb, "Definition ex_var_%s : N := %d.\n", n, i)
	}
	for li, info := range infos {
		fmt.Fprintf(&sb, "(* goroutine %d: %s; captured read-only: %s *)\n", li, describeSections(allNames, info.ss), strings.Join(info.readOnly, ", "))
	}
	fmt.Fprintf(&sb, "Definition execute_table : op_table :=\n  [%s].\n", strings.Join(rows, ";\n   "))
	return sb.String()
}

func genLocks(repo string) string {
	var sb strings.Builder
	sb.WriteString("(* GENERATED by verif-extract from /repo — do not edit. *)\nFrom Ucanto Require Import Base Conc.\nOpen Scope N_scope.\n\n")
	sb.WriteString(genBlockstoreTable(repo))
	sb.WriteString("\n(* ------------------------------------------------------------------ *)\n")
	func() {
		defer func() {
			if r := recover(); r != nil {
				if u, ok := r.(unsupported); ok {
					// C09's tie needs execute_table: leaving it undefined makes that tie fail
					sb.WriteString("(* execute_table NOT EXTRACTED: " + strings.ReplaceAll(u.msg, "*)", "* )") + " *)\n")
					return
				}
				panic(r)
			}
		}()
		sb.WriteString(genExecuteTable(repo))
	}()
	return sb.String()
}

func init() {
	generators["Locks"] = genLocks
}
