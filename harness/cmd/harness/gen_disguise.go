package main

// gen_disguise.go — tokens presented under a link that is not the CID of their bytes (C04, C05, C01).
// A delegation view is built by the CALLER from a block (link, bytes): nothing forces the two to belong together,
// and over the wire a CAR section only has to satisfy the multihash of its CID — the same bytes travel just as well
// under a raw-codec or CIDv0 CID.  A token is what its link says only when the link is the dag-cbor sha2-256 CID of
// the bytes; anything else has no fields (fix 996c43f) and contributes nothing.  Direct oracles (outside the Coq
// model, whose tokens are keyed by their true link): whatever is disguised, the invocation is refused.

import (
	"fmt"

	"github.com/ipfs/go-cid"
	cidlink "github.com/ipld/go-ipld-prime/linking/cid"
	"github.com/ipld/go-ipld-prime/node/basicnode"
	"github.com/storacha/go-ucanto/core/dag/blockstore"
	"github.com/storacha/go-ucanto/core/delegation"
	"github.com/storacha/go-ucanto/core/invocation"
	"github.com/storacha/go-ucanto/core/ipld"
	"github.com/storacha/go-ucanto/core/ipld/block"
	"github.com/storacha/go-ucanto/principal"
	"github.com/storacha/go-ucanto/ucan"
	"github.com/storacha/go-ucanto/validator"
)

// disguise presents the bytes of `what` under the link `as`
func disguise(as ipld.Link, what delegation.Delegation) (delegation.Delegation, error) {
	blk := block.NewBlock(as, what.Root().Bytes())
	br, err := blockstore.NewBlockReader(blockstore.WithBlocks([]ipld.Block{blk}))
	if err != nil {
		return nil, err
	}
	// the same block list, as a model-evaluated case (gen_link.go)
	recordLinkCase("disguised: bytes of "+what.Link().String()+" under "+as.String(), []ipld.Block{blk}, []ipld.Link{as, what.Link()})
	return delegation.NewDelegation(blk, br)
}

func relabel(l ipld.Link, kind string) ipld.Link {
	c := l.(cidlink.Link).Cid
	switch kind {
	case "raw":
		return cidlink.Link{Cid: cid.NewCidV1(cid.Raw, c.Hash())}
	case "dag-pb-v0":
		return cidlink.Link{Cid: cid.NewCidV0(c.Hash())}
	case "dag-json":
		return cidlink.Link{Cid: cid.NewCidV1(0x0129, c.Hash())}
	}
	return l
}

func disguiseScenarios(seed int64) (direct []map[string]any, runs int) {
	cast := newCast(seed*7717 + 5)
	service := cast.Ed("service")
	far := int(ucan.Now()) + 1000000
	w := &World{Kind: "disguise", Cast: cast, Can: "debug/echo", Ctx: baseCtx(service)}
	obs := &Obs{}
	desc := w.descriptor(obs)
	revoked := map[string]bool{}
	ctx := validator.NewValidationContext(service.Signer.(principal.Signer).Verifier(), desc, validator.IsSelfIssued,
		func(a validator.Authorization[any]) validator.Revoked {
			var walk func(a validator.Authorization[any]) validator.Revoked
			walk = func(a validator.Authorization[any]) validator.Revoked {
				if revoked[a.Delegation().Link().String()] {
					return validator.NewRevokedError(a.Delegation())
				}
				for _, p := range a.Proofs() {
					if r := walk(p); r != nil {
						return r
					}
				}
				return nil
			}
			return walk(a)
		}, validator.ProofUnavailable, w.parser(obs), validator.FailDIDKeyResolution)
	mk := func(iss, aud *Prin, can, with string, nb ucan.CaveatBuilder, nonce string, prf ...delegation.Proof) delegation.Delegation {
		d, err := delegation.Delegate(iss.Signer, aud.DID, []ucan.Capability[ucan.CaveatBuilder]{ucan.NewCapability(can, with, nb)},
			delegation.WithExpiration(far), delegation.WithNonce(nonce), delegation.WithProof(prf...))
		if err != nil {
			panic(err)
		}
		recordLinkCase("genuine: "+nonce, []ipld.Block{d.Root()}, []ipld.Link{d.Link()})
		return d
	}
	access := func(label string, expectOK bool, can, with string, invoker *Prin, prf ...delegation.Proof) {
		inv, err := invocation.Invoke(invoker.Signer, service.DID, ucan.NewCapability[ucan.CaveatBuilder](can, with, Cav{}),
			delegation.WithExpiration(far), delegation.WithProof(prf...))
		if err != nil {
			direct = append(direct, map[string]any{"what": "disguised tokens: cannot build the invocation: " + err.Error(), "scenario": label})
			return
		}
		var ok bool
		if p := recovered(func() {
			_, x := validator.Access(inv, ctx)
			ok = x == nil
		}); p != nil {
			direct = append(direct, map[string]any{"what": fmt.Sprintf("disguised tokens: Access panicked: %v", p), "scenario": label})
			return
		}
		runs++
		if ok != expectOK {
			direct = append(direct, map[string]any{"what": "disguised tokens: " + label, "authorized": ok, "expected_authorized": expectOK})
		}
	}
	agent := cast.Ed("agent")

	// 1. an attestation names ONE token by its link: other bytes carried under that link do not inherit it
	own := cast.Absentee("own", "did:mailto:web.mail:mallory")
	victim := cast.Absentee("victim", "did:mailto:web.mail:alice")
	login := mk(own, agent, "debug/echo", own.DID.String(), Cav{}, "login")
	session := mk(service, agent, "ucan/attest", service.DID.String(), attestLinkNb{login.Link()}, "session")
	forged := mk(victim, agent, "debug/echo", victim.DID.String(), Cav{}, "forged")
	access("control: a genuine attested login is refused", true, "debug/echo", own.DID.String(), agent,
		delegation.FromDelegation(login), delegation.FromDelegation(session))
	if dis, err := disguise(login.Link(), forged); err == nil {
		access("a token carried under the link of ANOTHER, attested token was accepted on the strength of that attestation", false,
			"debug/echo", victim.DID.String(), agent, delegation.FromDelegation(dis), delegation.FromDelegation(session))
	}

	// 2. a revoked delegation stays revoked under every re-labelling of its root block (same bytes, same multihash)
	owner, holder := cast.Ed("owner"), cast.Ed("holder")
	grant := mk(owner, holder, "debug/echo", owner.DID.String(), Cav{}, "grant")
	access("control: an unrevoked delegation is refused", true, "debug/echo", owner.DID.String(), holder, delegation.FromDelegation(grant))
	revoked[grant.Link().String()] = true
	access("a revoked delegation was accepted", false, "debug/echo", owner.DID.String(), holder, delegation.FromDelegation(grant))
	for _, kind := range []string{"raw", "dag-pb-v0", "dag-json"} {
		if dis, err := disguise(relabel(grant.Link(), kind), grant); err == nil {
			access("a revoked delegation re-labelled as "+kind+" (same bytes, same multihash) was accepted", false,
				"debug/echo", owner.DID.String(), holder, delegation.FromDelegation(dis))
			// ... also one level down
			sub := cast.Ed("sub")
			mid := mk(holder, sub, "debug/echo", owner.DID.String(), Cav{}, "mid-"+kind, delegation.FromDelegation(dis))
			access("a revoked delegation re-labelled as "+kind+", cited one level down, was accepted", false,
				"debug/echo", owner.DID.String(), sub, delegation.FromDelegation(mid))
		}
	}

	// 3. a stranger's token carried under the link of the owner's genuine delegation
	stranger := cast.Ed("stranger")
	real := mk(owner, holder, "debug/echo", owner.DID.String(), Cav{}, "real")
	fake := mk(stranger, holder, "debug/echo", owner.DID.String(), Cav{}, "fake")
	if dis, err := disguise(real.Link(), fake); err == nil {
		access("a stranger's token carried under the link of the owner's delegation was accepted", false,
			"debug/echo", owner.DID.String(), holder, delegation.FromDelegation(dis))
	}
	linkExtraScenarios(real, fake)
	return direct, runs
}

// attestLinkNb: {proof: <link>}
type attestLinkNb struct{ l ipld.Link }

func (a attestLinkNb) ToIPLD() (ipld.Node, error) {
	nb := basicnode.Prototype.Map.NewBuilder()
	ma, _ := nb.BeginMap(1)
	ma.AssembleKey().AssignString("proof")
	ma.AssembleValue().AssignLink(a.l)
	ma.Finish()
	return nb.Build(), nil
}
