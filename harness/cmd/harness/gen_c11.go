package main

// gen_c11.go — C11: no request can crash the server.  Requests are executed in a child
// process (one at a time, announced on stdout) so that a panic in an un-recovered
// goroutine, a stack overflow or any other fatal error is observed as the death of the
// child for exactly that request.

import (
	"bufio"
	"bytes"
	"fmt"
	"github.com/storacha/go-ucanto/core/car"
	"io"
	"math/rand"
	"net/http"
	"os"
	"os/exec"
	"path/filepath"
	"strconv"
	"strings"
	"time"

	"github.com/storacha/go-ucanto/core/invocation"
	"github.com/storacha/go-ucanto/core/ipld"
	"github.com/storacha/go-ucanto/core/message"
	"github.com/storacha/go-ucanto/principal"
	"github.com/storacha/go-ucanto/server"
	"github.com/storacha/go-ucanto/transport/car/request"
	thttp "github.com/storacha/go-ucanto/transport/http"
	"github.com/storacha/go-ucanto/ucan"
)

var c11Mutations = []string{"emptyiss", "emptyaud", "iss1byte", "isstrunc", "issbad", "isshuge", "isscorekey", "isscoreempty",
	"sigempty", "sigcodeonly", "sigshort", "sighugesize", "sigsizemax", "sigsizenearmax", "sigbadcode", "sigbadvarint", "sig",
	"nocaps", "capempty", "nbnull", "nbstring", "manycaps", "prfdangling", "prfmany",
	"expneg", "expzero", "expmax", "nbfmax", "nbfneg", "verweird", "verempty", "ver0", "ver0dot", "ver09", "verlong", "verdots", "nncempty", "aud", "cap", "exp"}

type c11Item struct {
	Kind  string // "batch" | "raw"
	Label string
	Batch *Batch
	Raw   []byte
	Hdr   http.Header
}

// c11Base: a request with one well-formed self-issued invocation, one delegated chain of depth 3 and
// one session (account delegation + attestation); the mutation is applied to one token of it.
func c11Base(seed int64, id int) (*Batch, []string) {
	cast := newCast(seed*15485863 + int64(id))
	service := cast.Ed("service")
	far := int(ucan.Now()) + 1000000
	cw := &World{ID: id, Kind: "c11", Cast: cast, Can: "store/add", Ctx: baseCtx(service)}
	b := &Batch{ID: id, W: cw, Handlers: map[string]string{"store/add": "ok", "debug/echo": "ok"}}
	// well-formed neighbour
	good := &TokSpec{Name: "good", Issuer: cast.Ed("g0"), Audience: service, Exp: &far,
		Caps: []CapSpec{{Can: "store/add", With: cast.Ed("g0").DID.String(), Nb: Cav{}}}}
	cw.Specs = append(cw.Specs, good)
	// chain
	with := cast.Ed("p0").DID.String()
	chain := linearChain(cast, service, "store/add", with, 3, far, Cav{Max: i64(1)})
	for _, sp := range chain {
		sp.Name = "c_" + sp.Name
		for i := range sp.Proofs {
			sp.Proofs[i].Tok = "c_" + sp.Proofs[i].Tok
		}
	}
	cw.Specs = append(cw.Specs, chain...)
	// session
	sw, _ := sessionWorld(seed, id, sessOpts{Attested: "this", AttIssuer: "authority", Resource: "authority", Window: "valid", Pos: 2, Resolver: "absent"})
	_ = sw
	acctKey := cast.Ed("acctkey")
	account := cast.Wrapped("account", "did:mailto:web.mail:alice", acctKey)
	agent := cast.Ed("agent")
	acct := &TokSpec{Name: "s_acct", Issuer: account, Audience: agent, Exp: &far,
		Caps: []CapSpec{{Can: "debug/echo", With: account.DID.String(), Nb: Cav{}}}}
	att := &TokSpec{Name: "s_att", Issuer: service, Audience: agent, Exp: &far,
		Caps: []CapSpec{{Can: "ucan/attest", With: service.DID.String(), Nb: attestNb{cw, "s_acct"}}}}
	sinv := &TokSpec{Name: "s_inv", Issuer: agent, Audience: service, Exp: &far,
		Caps:   []CapSpec{{Can: "debug/echo", With: account.DID.String(), Nb: Cav{}}},
		Proofs: []ProofRef{{Tok: "s_acct", Inline: true}, {Tok: "s_att", Inline: true}}}
	cw.Specs = append(cw.Specs, acct, att, sinv)
	b.Invs = []string{"good", "c_inv", "s_inv"}
	targets := []string{"c_inv", "c_d3", "c_d2", "c_d1", "s_inv", "s_acct", "s_att"}
	return b, targets
}

// nested sessions: k attestation-first tokens issued by non-key principals, all siblings of one another
func c11Nested(seed int64, id int, k int, mutual bool) *Batch {
	cast := newCast(seed*32452843 + int64(id))
	service := cast.Ed("service")
	far := int(ucan.Now()) + 1000000
	cw := &World{ID: id, Kind: "c11-nested", Cast: cast, Can: "debug/echo", Ctx: baseCtx(service)}
	b := &Batch{ID: id, W: cw, Handlers: map[string]string{"debug/echo": "ok"}}
	agent := cast.Ed("agent")
	account := cast.Absentee("account", "did:mailto:web.mail:alice")
	acct := &TokSpec{Name: "acct", Issuer: account, Audience: agent, Exp: &far,
		Caps: []CapSpec{{Can: "debug/echo", With: account.DID.String(), Nb: Cav{}}}}
	cw.Specs = append(cw.Specs, acct)
	inv := &TokSpec{Name: "inv", Issuer: agent, Audience: service, Exp: &far,
		Caps:   []CapSpec{{Can: "debug/echo", With: account.DID.String(), Nb: Cav{}}},
		Proofs: []ProofRef{{Tok: "acct", Inline: true}}}
	prev := "acct"
	for i := 0; i < k; i++ {
		// attestation-first token whose own issuer is neither a did:key nor the authority
		iss := cast.Absentee(fmt.Sprintf("acct%d", i), fmt.Sprintf("did:web:att%d.example", i))
		target := "acct"
		if !mutual {
			target = prev
		}
		a := &TokSpec{Name: fmt.Sprintf("a%d", i), Issuer: iss, Audience: agent, Exp: &far, Nonce: fmt.Sprint(i),
			Caps: []CapSpec{{Can: "ucan/attest", With: service.DID.String(), Nb: attestNb{cw, target}}}}
		cw.Specs = append(cw.Specs, a)
		inv.Proofs = append(inv.Proofs, ProofRef{Tok: a.Name, Inline: true})
		prev = a.Name
	}
	cw.Specs = append(cw.Specs, inv)
	b.Invs = []string{"inv"}
	return b
}

func c11Items(seed int64, tier string) []*c11Item {
	var items []*c11Item
	r := rand.New(rand.NewSource(seed))
	id := 0
	// single field mutations at every position
	_, targets := c11Base(seed, 0)
	for _, tgt := range targets {
		for _, mut := range c11Mutations {
			b, _ := c11Base(seed, id)
			for _, sp := range b.W.Specs {
				if sp.Name == tgt {
					sp.Tamper, sp.TamperTo = mut, b.W.Cast.Ed("carol")
				}
			}
			label := fmt.Sprintf("%s@%s", mut, tgt)
			if id%3 == 1 {
				b.DefaultOpts = true
				label += " server-with-default-options"
			}
			items = append(items, &c11Item{Kind: "batch", Label: label, Batch: b})
			id++
		}
	}
	// pairs
	npairs := 150
	if tier == "thorough" {
		npairs = 3000
	}
	for i := 0; i < npairs; i++ {
		b, _ := c11Base(seed, id)
		t1, t2 := pick(r, targets), pick(r, targets)
		m1, m2 := pick(r, c11Mutations), pick(r, c11Mutations)
		for _, sp := range b.W.Specs {
			if sp.Name == t1 {
				sp.Tamper, sp.TamperTo = m1, b.W.Cast.Ed("carol")
			} else if sp.Name == t2 {
				sp.Tamper, sp.TamperTo = m2, b.W.Cast.Ed("carol")
			}
		}
		items = append(items, &c11Item{Kind: "batch", Label: fmt.Sprintf("%s@%s+%s@%s", m1, t1, m2, t2), Batch: b})
		id++
	}
	// nested / self-referential session structures
	for k := 1; k <= 4; k++ {
		for _, mutual := range []bool{true, false} {
			items = append(items, &c11Item{Kind: "batch", Label: fmt.Sprintf("nested-sessions k=%d mutual=%v", k, mutual), Batch: c11Nested(seed, id, k, mutual)})
			id++
			nb := c11Nested(seed, id, k, mutual)
			nb.DefaultOpts = true
			items = append(items, &c11Item{Kind: "batch", Label: fmt.Sprintf("nested-sessions k=%d mutual=%v server-with-default-options", k, mutual), Batch: nb})
			id++
		}
	}
	// services usually read `with` as a DID (schema.DIDString): resources that are truncated / degenerate DID strings,
	// in the invocation and in a proof, next to a well-formed sibling invocation.  No model case (the model's resource
	// reader is the harness's own): the process must survive and answer.
	for _, ws := range []string{"did:key:", "did:", "did:key", "did:key:z", "did", "", ":", "did:key:zz", "did:web:", "did::", "did:key:z6Mk", "did:key:\x00"} {
		for _, tgt := range []string{"c_inv", "c_d2"} {
			b, _ := c11Base(seed, id)
			for can := range b.Handlers {
				b.Handlers[can] = []string{"ok+didwith", "ok+didkey"}[(id/2)%2] // any DID / did:key resources only
			}
			for _, sp := range b.W.Specs {
				if sp.Name == tgt {
					// properly signed over that resource (a tampered token is refused before its resource is read)
					for ci := range sp.Caps {
						sp.Caps[ci].With = ws
					}
				}
			}
			items = append(items, &c11Item{Kind: "batch-nomodel", Label: fmt.Sprintf("did-resource %q@%s", ws, tgt), Batch: b})
			id++
			// ... and written into the token after signing
			b2, _ := c11Base(seed, id)
			for can := range b2.Handlers {
				b2.Handlers[can] = []string{"ok+didwith", "ok+didkey"}[(id/2)%2]
			}
			for _, sp := range b2.W.Specs {
				if sp.Name == tgt {
					sp.Tamper, sp.TamperStr = "withstr", ws
				}
			}
			items = append(items, &c11Item{Kind: "batch-nomodel", Label: fmt.Sprintf("did-resource-tampered %q@%s", ws, tgt), Batch: b2})
			id++
		}
	}
	// one request whose invocations each carry a version string nobody has seen before (signed over, so only the version
	// makes them unacceptable... or not: whatever the verdict, all of them are handled at once and each gets a receipt)
	for k := 0; k < 6; k++ {
		cast := newCast(seed*86028121 + int64(id))
		service := cast.Ed("service")
		far := int(ucan.Now()) + 1000000
		cw := &World{ID: id, Kind: "c11-versions", Cast: cast, Can: "store/add", Ctx: baseCtx(service)}
		b := &Batch{ID: id, W: cw, Handlers: map[string]string{"store/add": "ok"}}
		for i := 0; i < 48; i++ {
			p := cast.Ed(fmt.Sprintf("v%d", i%7))
			sp := &TokSpec{Name: fmt.Sprintf("vinv%d", i), Issuer: p, Audience: service, Exp: &far, Nonce: fmt.Sprintf("%d.%d", k, i),
				Caps: []CapSpec{{Can: "store/add", With: p.DID.String(), Nb: Cav{}}}}
			if i%8 != 7 {
				sp.Tamper = "veruniq"
			}
			cw.Specs = append(cw.Specs, sp)
			b.Invs = append(b.Invs, sp.Name)
		}
		items = append(items, &c11Item{Kind: "batch", Label: fmt.Sprintf("many-novel-versions-%d", k), Batch: b})
		id++
	}
	// a delegation that cites ITSELF as its proof: its block travels under a CID whose sha2-256 digest is truncated to
	// length 0 (bytes 01 71 12 00), which every byte string "matches", and that same CID is its only proof link
	{
		b, _ := c11Base(seed, id)
		b.SelfRef = true
		items = append(items, &c11Item{Kind: "batch-nomodel", Label: "self-referential-proof (zero-length digest CID)", Batch: b})
		id++
	}
	// the execute list names an invocation more than once (adjacent and separated repeats)
	for k := 0; k < 3; k++ {
		b, _ := c11Base(seed, id)
		switch k {
		case 0:
			b.Invs = append(b.Invs, b.Invs[0])
		case 1:
			b.Invs = append([]string{b.Invs[0]}, b.Invs...)
		case 2:
			b.Invs = append(append([]string{}, b.Invs...), b.Invs...)
		}
		items = append(items, &c11Item{Kind: "batch", Label: fmt.Sprintf("repeated-invocation-links-%d", k), Batch: b})
		id++
	}
	// a signed token whose issuer is the undefined DID
	{
		b, _ := c11Base(seed, id)
		for _, sp := range b.W.Specs {
			if sp.Name == "c_d2" {
				undef := &Prin{Name: "undef", Signer: forgedSigner{by: b.W.Cast.Ed("p1").Signer}, KeyID: b.W.Cast.Ed("p1").KeyID, SigCode: b.W.Cast.Ed("p1").SigCode}
				sp.Issuer = undef
			}
		}
		items = append(items, &c11Item{Kind: "batch", Label: "undefined-issuer-signed@c_d2", Batch: b})
		id++
	}
	// raw byte streams: mutations of a valid request body
	nraw := 1200
	if tier == "thorough" {
		nraw = 60000
	}
	base, _ := c11Base(seed, 999999)
	if err := base.W.Build(); err == nil {
		var invs []invocation.Invocation
		for _, n := range base.Invs {
			invs = append(invs, base.W.built[n].Dlg)
		}
		if msg, err := message.Build(invs, nil); err == nil {
			if req, err := request.Encode(msg); err == nil {
				body, _ := io.ReadAll(req.Body())
				c11RawBase = body // gen_bytes.go describes the raw items as mutations of it
				for i := 0; i < nraw; i++ {
					mb := append([]byte{}, body...)
					switch r.Intn(6) {
					case 0: // truncate
						mb = mb[:r.Intn(len(mb)+1)]
					case 1: // flip bytes
						for n := 1 + r.Intn(4); n > 0; n-- {
							mb[r.Intn(len(mb))] ^= byte(1 << uint(r.Intn(8)))
						}
					case 2: // random bytes
						mb = make([]byte, r.Intn(200))
						r.Read(mb)
					case 3: // overwrite a window with random bytes
						o := r.Intn(len(mb))
						for j := o; j < o+1+r.Intn(16) && j < len(mb); j++ {
							mb[j] = byte(r.Intn(256))
						}
					case 4: // duplicate a chunk
						o := r.Intn(len(mb))
						l := r.Intn(len(mb) - o)
						mb = append(append(append([]byte{}, mb[:o+l]...), mb[o:o+l]...), mb[o+l:]...)
					case 5: // set a length-looking byte to a large value
						o := r.Intn(len(mb))
						mb[o] = 0xff
					}
					items = append(items, &c11Item{Kind: "raw", Label: fmt.Sprintf("raw-%d", i), Raw: mb, Hdr: req.Headers()})
				}
				// well-formed CARs with unusual root lists: none (with and without blocks), several (the message first, last,
				// twice), a root whose block is absent, only foreign roots
				{
					var blks []ipld.Block
					for b, err := range msg.Blocks() {
						if err == nil {
							blks = append(blks, b)
						}
					}
					seq := func(bs []ipld.Block) func(func(ipld.Block, error) bool) {
						return func(yield func(ipld.Block, error) bool) {
							for _, b := range bs {
								if !yield(b, nil) {
									return
								}
							}
						}
					}
					root := msg.Root().Link()
					other := blks[0].Link()
					if other.String() == root.String() && len(blks) > 1 {
						other = blks[1].Link()
					}
					type rootCase struct {
						label string
						rs    []ipld.Link
					}
					for _, rc := range []rootCase{{"no-roots", nil}, {"two-roots-message-first", []ipld.Link{root, other}}, {"two-roots-message-last", []ipld.Link{other, root}},
						{"root-twice", []ipld.Link{root, root}}, {"foreign-root-only", []ipld.Link{fakeLink(4242)}}, {"foreign-root-then-message", []ipld.Link{fakeLink(4242), root}}} {
						label, rs := rc.label, rc.rs
						for _, withBlocks := range []bool{true, false} {
							bs := blks
							if !withBlocks {
								bs = nil
							}
							raw, err := io.ReadAll(car.Encode(rs, seq(bs)))
							if err != nil {
								continue
							}
							items = append(items, &c11Item{Kind: "raw", Label: fmt.Sprintf("car-roots:%s blocks=%v", label, withBlocks), Raw: raw, Hdr: req.Headers()})
						}
					}
				}
				// arbitrary Content-Type / Accept header values (several lines, parameters without "=", odd separators,
				// control characters) with a valid and with an empty body: whatever the answer, the process must survive
				nh := 300
				if tier == "thorough" {
					nh = 5000
				}
				for i := 0; i < nh; i++ {
					h := http.Header{}
					if cts := c20RandHeader(r, false); r.Intn(3) != 0 && len(cts) > 0 {
						h["Content-Type"] = cts
					} else {
						h.Set("Content-Type", car.ContentType)
					}
					if acc := c20RandHeader(r, true); len(acc) > 0 {
						h["Accept"] = acc
					}
					if r.Intn(4) == 0 {
						// parameters with no "=", empty parameters, a bare q
						h["Accept"] = []string{pick(r, []string{car.ContentType, "*/*", "application/*"}) + pick(r, []string{";", ";q", ";v1;q=0.5", ";;", "; =", ";q=", ";=1", "; q ; v"})}
					}
					bodyv := body
					if r.Intn(3) == 0 {
						bodyv = []byte{}
					}
					items = append(items, &c11Item{Kind: "rawhdr", Label: fmt.Sprintf("headers-%d", i), Raw: bodyv, Hdr: h})
				}
			}
		}
	}
	return items
}

var c11RawBase []byte

// child: execute items [from, to) one by one
func c11Child(args []string) int {
	var seed int64 = 1
	tier, out := "quick", "."
	from := 0
	for i := 0; i+1 < len(args); i += 2 {
		switch args[i] {
		case "-seed":
			seed, _ = strconv.ParseInt(args[i+1], 10, 64)
		case "-tier":
			tier = args[i+1]
		case "-out":
			out = args[i+1]
		case "-from":
			from, _ = strconv.Atoi(args[i+1])
		}
	}
	items := c11Items(seed, tier)
	w := bufio.NewWriter(os.Stdout)
	var rawSrv server.ServerView
	for i := from; i < len(items); i++ {
		it := items[i]
		fmt.Fprintf(w, "\nSTART %d %s\n", i, it.Label)
		w.Flush()
		t0 := time.Now()
		switch it.Kind {
		case "batch", "batch-nomodel":
			if err := it.Batch.W.Build(); err != nil {
				fmt.Fprintf(w, "\nSKIP %d build: %v\n", i, err)
				w.Flush()
				continue
			}
			it.Batch.W.ID = i
			obs := it.Batch.Run(nil)
			var cl []string
			for _, r := range obs.Rcpts {
				cl = append(cl, r.Class)
			}
			if it.Kind == "batch" {
				os.WriteFile(filepath.Join(out, fmt.Sprintf("case_%06d.txt", i)), []byte(it.Batch.Coq(obs)), 0o644)
			}
			fmt.Fprintf(w, "\nDONE %d batch err=%q panic=%q ms=%d classes=%s\n", i, obs.ExecErr, obs.Panic, time.Since(t0).Milliseconds(), strings.Join(cl, ","))
		case "raw", "rawhdr":
			if rawSrv == nil {
				b, _ := c11Base(seed, 999999)
				b.W.Build()
				rawSrv, _ = b.newServer(&BatchObs{})
			}
			status, errs := 0, ""
			// the body as THIS process built it (token blocks carry wall-clock fields, so the parent's copy may differ)
			if it.Kind == "raw" {
				bytesC11Keep(out, tier, items, i)
			}
			res, err := rawSrv.Request(thttp.NewHTTPRequest(bytes.NewReader(it.Raw), it.Hdr))
			if err != nil {
				errs = "error"
			} else {
				status = res.Status()
				if res.Body() != nil {
					io.Copy(io.Discard, res.Body())
				}
			}
			fmt.Fprintf(w, "\nDONE %d raw status=%d err=%q\n", i, status, errs)
		}
		w.Flush()
	}
	fmt.Fprintf(w, "\nEND %d\n", len(items))
	w.Flush()
	return 0
}

const c11ItemTimeout = 45 * time.Second

func init() {
	extraCmds["c11child"] = c11Child
	gens["C11"] = func(o genOpts) error {
		items := c11Items(o.seed, o.tier)
		type crash struct {
			Item  int    `json:"item"`
			Label string `json:"label"`
			Log   string `json:"log"`
			Kind  string `json:"kind"`
			Hex   string `json:"raw_request_hex,omitempty"`
		}
		var crashes []crash
		done := map[int]string{}
		from := 0
		self, _ := os.Executable()
		for from < len(items) {
			cmd := exec.Command(self, "c11child", "-seed", fmt.Sprint(o.seed), "-tier", o.tier, "-out", o.out, "-from", fmt.Sprint(from))
			var stderr bytes.Buffer
			cmd.Stderr = &stderr
			stdout, _ := cmd.StdoutPipe()
			if err := cmd.Start(); err != nil {
				return err
			}
			last := -1
			finished := false
			timer := time.AfterFunc(20*time.Minute, func() { cmd.Process.Kill() })
			// a request that is never answered is as bad as a crash: no item may take longer than this
			hung := false
			watch := time.AfterFunc(c11ItemTimeout, func() { hung = true; cmd.Process.Kill() })
			sc := bufio.NewScanner(stdout)
			sc.Buffer(make([]byte, 1<<20), 1<<24)
			for sc.Scan() {
				watch.Reset(c11ItemTimeout)
				line := sc.Text()
				switch {
				case strings.HasPrefix(line, "START "):
					f := strings.Fields(line)
					last, _ = strconv.Atoi(f[1])
				case strings.HasPrefix(line, "DONE "), strings.HasPrefix(line, "SKIP "):
					f := strings.Fields(line)
					n, _ := strconv.Atoi(f[1])
					done[n] = line
					if strings.Contains(line, `err="hang`) && n < len(items) {
						// the in-process watchdog gave up on this request: the server never answered it
						crashes = append(crashes, crash{Item: n, Label: items[n].Label, Kind: "hang",
							Log: "the server did not answer the request within the watchdog period (the handling goroutines were still running)"})
					}
				case strings.HasPrefix(line, "END "):
					finished = true
				}
			}
			err := cmd.Wait()
			timer.Stop()
			watch.Stop()
			if finished {
				break
			}
			// the child died while executing item `last`
			lg := stderr.String()
			if len(lg) > 3000 {
				lg = lg[:1500] + "\n...\n" + lg[len(lg)-1200:]
			}
			if last < 0 {
				return fmt.Errorf("c11 child failed before the first item: %v %s", err, lg)
			}
			c := crash{Item: last, Label: items[last].Label, Log: lg, Kind: items[last].Kind}
			if hung {
				c.Kind = "hang"
				c.Log = fmt.Sprintf("the server did not answer the request within %s (the process was killed); ", c11ItemTimeout) + lg
			}
			if items[last].Kind == "raw" {
				c.Hex = fmt.Sprintf("%x", items[last].Raw)
			}
			crashes = append(crashes, c)
			from = last + 1
		}
		// assemble cases
		st := newBatchStats()
		labels := map[int]string{}
		var cases []string
		nraw, rawStatus := 0, map[string]int{}
		for i, it := range items {
			if it.Kind == "raw" || it.Kind == "rawhdr" {
				nraw++
				if l, ok := done[i]; ok {
					f := strings.Fields(l)
					rawStatus[it.Kind+" "+f[3]]++
				}
				continue
			}
			labels[i] = it.Label
			bts, err := os.ReadFile(filepath.Join(o.out, fmt.Sprintf("case_%06d.txt", i)))
			if err != nil {
				continue
			}
			cases = append(cases, string(bts))
			os.Remove(filepath.Join(o.out, fmt.Sprintf("case_%06d.txt", i)))
			st.Batches++
			st.Invocations += len(it.Batch.Invs)
			if l, ok := done[i]; ok {
				if k := strings.Index(l, "classes="); k >= 0 {
					for _, c := range strings.Split(l[k+8:], ",") {
						st.Classes[c]++
					}
					st.Signatures[it.Label+"|"+l[k:]]++
				}
				if strings.Contains(l, `panic="`) && !strings.Contains(l, `panic=""`) {
					st.Panics = append(st.Panics, fmt.Sprintf("item %d (%s): %s", i, it.Label, l))
				}
				if len(st.Samples) < 6 {
					st.Samples = append(st.Samples, map[string]any{"item": i, "label": it.Label, "result": l})
				}
			}
		}
		if err := writeBatchCases(o.out, "cases_C11", cases, 16); err != nil {
			return err
		}
		// byte-level model of request.Decode (gen_bytes.go): the status of every raw request is 400 exactly
		// when the model says its body is not a decodable agent message
		{
			var raws [][]byte
			var lines []string
			for i, it := range items {
				if it.Kind == "raw" {
					if l, ok := done[i]; ok {
						// the bytes the child sent (written by bytesC11Keep), not this process's copy
						f := filepath.Join(o.out, fmt.Sprintf("raw_%06d.bin", i))
						if b, err := os.ReadFile(f); err == nil {
							raws = append(raws, b)
							lines = append(lines, l)
							os.Remove(f)
						}
					}
				}
			}
			if err := bytesC11(o, raws, lines); err != nil {
				return err
			}
		}
		if err := writeJSON(o.out, "labels.json", labels); err != nil {
			return err
		}
		return writeJSON(o.out, "stats.json", struct {
			*batchStats
			Crashes   []crash        `json:"crash_list"`
			RawCount  int            `json:"raw_requests"`
			RawStatus map[string]int `json:"raw_request_outcomes"`
			Items     int            `json:"items"`
		}{st, crashes, nraw, rawStatus, len(items)})
	}
}

var _ = principal.Signer(nil)
