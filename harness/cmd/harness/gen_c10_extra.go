package main

// gen_c10_extra.go — C10: (a) receipts of a HAND-WRITTEN service method (not server.Provide) that pairs a failure — or a
// success — with effects: the server-issued receipt carries those effects; (b) receipts whose result makes the root
// block large (1.5 MiB, 3 MiB): they still travel through the message / CAR codec and read back with the same result.

import (
	"bytes"
	"fmt"

	"github.com/ipld/go-ipld-prime/datamodel"
	"github.com/ipld/go-ipld-prime/node/basicnode"
	"github.com/storacha/go-ucanto/core/delegation"
	"github.com/storacha/go-ucanto/core/invocation"
	"github.com/storacha/go-ucanto/core/invocation/ran"
	"github.com/storacha/go-ucanto/core/ipld"
	"github.com/storacha/go-ucanto/core/message"
	"github.com/storacha/go-ucanto/core/receipt"
	"github.com/storacha/go-ucanto/core/receipt/fx"
	"github.com/storacha/go-ucanto/core/result"
	"github.com/storacha/go-ucanto/core/result/failure"
	"github.com/storacha/go-ucanto/principal"
	"github.com/storacha/go-ucanto/server"
	"github.com/storacha/go-ucanto/server/transaction"
	"github.com/storacha/go-ucanto/transport"
	"github.com/storacha/go-ucanto/transport/car/response"
	"github.com/storacha/go-ucanto/ucan"
)

type c10Bytes struct{ b []byte }

func (c c10Bytes) ToIPLD() (datamodel.Node, error) { return basicnode.NewBytes(c.b), nil }

func c10Extra(seed int64) (direct []map[string]any, runs int) {
	cast := newCast(seed*7001 + 11)
	service, alice := cast.Ed("service"), cast.Ed("alice")
	far := int(ucan.Now()) + 1000000
	add := func(what string, extra map[string]any) {
		m := map[string]any{"receipt": "extra", "shape": "server / large", "what": what}
		for k, v := range extra {
			m[k] = v
		}
		direct = append(direct, m)
	}
	// ---- (a) hand-written service methods
	for _, okResult := range []bool{false, true} {
		for _, shape := range []string{"fork", "join", "fork+join"} {
			var opts []fx.Option
			var wantForks []string
			wantJoin := ""
			if shape != "join" {
				opts = append(opts, fx.WithFork(fx.FromLink(fakeLink(881)), fx.FromLink(fakeLink(882))))
				wantForks = []string{fakeLink(881).String(), fakeLink(882).String()}
			}
			if shape != "fork" {
				opts = append(opts, fx.WithJoin(fx.FromLink(fakeLink(883))))
				wantJoin = fakeLink(883).String()
			}
			effects := fx.NewEffects(opts...)
			method := func(input invocation.Invocation, ctx server.InvocationContext) (transaction.Transaction[ipld.Builder, ipld.Builder], error) {
				if okResult {
					return transaction.NewTransaction(result.Ok[ipld.Builder, ipld.Builder](c10Bytes{[]byte("done")}), transaction.WithEffects(effects)), nil
				}
				return transaction.NewTransaction(result.Error[ipld.Builder, ipld.Builder](failure.FromError(fmt.Errorf("quota exceeded"))), transaction.WithEffects(effects)), nil
			}
			srv, err := server.NewServer(service.Signer.(principal.Signer), server.WithServiceMethod("test/handwritten", server.ServiceMethod[ipld.Builder](method)),
				server.WithErrorHandler(func(server.HandlerExecutionError[any]) {}))
			if err != nil {
				add("read-back differs from what was issued: server with a hand-written method does not build: "+err.Error(), nil)
				continue
			}
			inv, err := invocation.Invoke(alice.Signer, service.DID, ucan.NewCapability[ucan.CaveatBuilder]("test/handwritten", alice.DID.String(), Cav{}), delegation.WithExpiration(far))
			if err != nil {
				continue
			}
			var rc receipt.AnyReceipt
			var rerr error
			if p := recovered(func() { rc, rerr = srv.Run(inv) }); p != nil || rerr != nil || rc == nil {
				add(fmt.Sprintf("read-back differs from what was issued: Run of a hand-written method failed (%v / %v)", p, rerr), nil)
				continue
			}
			runs++
			forks, join := receiptEffects(rc.Root().Bytes())
			if fmt.Sprint(forks) != fmt.Sprint(wantForks) || join != wantJoin {
				add(fmt.Sprintf("read-back differs from what was issued: effects of a receipt issued by the server for a hand-written method (result ok=%v, %s): receipt has forks %v join %q, the method returned forks %v join %q",
					okResult, shape, forks, join, wantForks, wantJoin), nil)
			}
		}
	}
	// ---- (b) large results
	for _, size := range []int{1<<20 + 1<<19, 3 << 20} {
		big := bytes.Repeat([]byte{byte(size >> 16), 7, 9}, size/3)
		rc, err := receipt.Issue(service.Signer, result.Ok[c10Bytes, c10Bytes](c10Bytes{big}), ran.FromLink(fakeLink(88100+size%97)))
		if err != nil {
			add("read-back differs from what was issued: Issue fails on a large result: "+err.Error(), map[string]any{"size": size})
			continue
		}
		msg, err := message.Build(nil, []receipt.AnyReceipt{rc})
		if err != nil {
			add("message.Build failed: "+err.Error(), map[string]any{"size": size})
			continue
		}
		res, err := response.Encode(msg)
		if err != nil {
			add("response.Encode failed: "+err.Error(), map[string]any{"size": size})
			continue
		}
		var hr transport.HTTPResponse = res
		dmsg, err := response.Decode(hr)
		runs++
		if err != nil {
			add("response.Decode failed: "+err.Error(), map[string]any{"size": size, "detail": "a receipt whose result is large does not survive the CAR codec"})
			continue
		}
		found := false
		for blk, berr := range dmsg.Blocks() {
			if berr == nil && blk.Link().String() == rc.Root().Link().String() {
				found = bytes.Equal(blk.Bytes(), rc.Root().Bytes())
			}
		}
		if !found {
			add("receipt root block missing after transport", map[string]any{"size": size})
		}
	}
	return direct, runs
}
