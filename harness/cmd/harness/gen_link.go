package main

// gen_link.go — link integrity as model-evaluated cases (coq/LinkIntegrity.v, coq/Check_LinkIntegrity.v).
// Every scenario of gen_disguise.go (and a few more re-labellings, shadowing block tables and archives read by
// delegation.Extract) is recorded as the list of blocks (link bytes, block bytes) actually handed to the library together
// with what the accessors of the delegations built on them report (they all go through delegation.Data()).  The Coq side
// evaluates LinkIntegrity.token_at / block_at on the same blocks, with the digest instantiated by the (bytes, sha2-256)
// pairs computed here with crypto/sha256, and has to predict every observation.

import (
	"bytes"
	"crypto/sha256"
	"fmt"
	"io"
	"strings"

	"github.com/ipfs/go-cid"
	cidlink "github.com/ipld/go-ipld-prime/linking/cid"
	"github.com/multiformats/go-multihash"
	"github.com/storacha/go-ucanto/core/car"
	"github.com/storacha/go-ucanto/core/dag/blockstore"
	"github.com/storacha/go-ucanto/core/delegation"
	adm "github.com/storacha/go-ucanto/core/delegation/datamodel"
	"github.com/storacha/go-ucanto/core/ipld"
	"github.com/storacha/go-ucanto/core/ipld/block"
	"github.com/storacha/go-ucanto/core/ipld/codec/cbor"
	ucsha "github.com/storacha/go-ucanto/core/ipld/hash/sha256"
)

type linkObs struct {
	Present bool        `json:"present"`
	Iss     string      `json:"iss"`
	Aud     string      `json:"aud"`
	Caps    [][2]string `json:"caps"`
	NPrf    int         `json:"nprf"`
	Exp     *int        `json:"exp"`
	Panic   string      `json:"panic,omitempty"`
}

type linkLookup struct {
	Link []byte
	Obs  linkObs
	How  string
}

type linkCase struct {
	Label   string
	Blocks  []ipld.Block
	Direct  []linkObs
	Lookups []linkLookup
}

var linkCases []linkCase

// observeFields reads the accessors of a delegation (each of them goes through Data()).
func observeFields(d delegation.Delegation) (o linkObs) {
	o.Present = true
	if p := recovered(func() {
		o.Iss = d.Issuer().DID().String()
		o.Aud = d.Audience().DID().String()
		for _, c := range d.Capabilities() {
			o.Caps = append(o.Caps, [2]string{c.Can(), c.With()})
		}
		o.NPrf = len(d.Proofs())
		if e := d.Expiration(); e != nil {
			v := int(*e)
			o.Exp = &v
		}
	}); p != nil {
		o.Panic = fmt.Sprint(p)
	}
	return o
}

// recordLinkCase hands the blocks to a block reader, builds a delegation on every block (delegation.NewDelegation) and on
// every lookup link (delegation.NewDelegationView: the reader's Get), and records what the accessors report.
func recordLinkCase(label string, blks []ipld.Block, lookups []ipld.Link) {
	br, err := blockstore.NewBlockReader(blockstore.WithBlocks(blks))
	if err != nil {
		return
	}
	lc := linkCase{Label: label, Blocks: blks}
	for _, b := range blks {
		d, err := delegation.NewDelegation(b, br)
		if err != nil {
			lc.Direct = append(lc.Direct, linkObs{Present: true, Panic: "NewDelegation: " + err.Error()})
			continue
		}
		lc.Direct = append(lc.Direct, observeFields(d))
	}
	for _, l := range lookups {
		d, err := delegation.NewDelegationView(l, br)
		if err != nil {
			lc.Lookups = append(lc.Lookups, linkLookup{Link: []byte(l.Binary()), Obs: linkObs{Present: false}, How: "NewDelegationView"})
			continue
		}
		lc.Lookups = append(lc.Lookups, linkLookup{Link: []byte(l.Binary()), Obs: observeFields(d), How: "NewDelegationView"})
	}
	linkCases = append(linkCases, lc)
}

// relabelMore: further CIDs under which the same bytes can be carried (beyond relabel's raw / CIDv0 / dag-json)
func relabelMore(l ipld.Link, data []byte, kind string) ipld.Link {
	c := l.(cidlink.Link).Cid
	switch kind {
	case "raw", "dag-pb-v0", "dag-json":
		return relabel(l, kind)
	case "sha2-512":
		mh, err := multihash.Sum(data, multihash.SHA2_512, -1)
		if err != nil {
			return nil
		}
		return cidlink.Link{Cid: cid.NewCidV1(cid.DagCBOR, mh)}
	case "identity":
		mh, err := multihash.Sum(data, multihash.IDENTITY, -1)
		if err != nil {
			return nil
		}
		return cidlink.Link{Cid: cid.NewCidV1(cid.DagCBOR, mh)}
	case "sha2-256-len0":
		// a sha2-256 multihash whose digest is cut to 0 bytes: every byte string "matches" it in a CAR reader
		return cidlink.Link{Cid: cid.NewCidV1(cid.DagCBOR, multihash.Multihash([]byte{0x12, 0x00}))}
	case "sha2-256-len16":
		dm, err := multihash.Decode(c.Hash())
		if err != nil {
			return nil
		}
		mh, _ := multihash.Encode(dm.Digest[:16], multihash.SHA2_256)
		return cidlink.Link{Cid: cid.NewCidV1(cid.DagCBOR, mh)}
	case "digest-bit":
		dm, err := multihash.Decode(c.Hash())
		if err != nil {
			return nil
		}
		dg := append([]byte{}, dm.Digest...)
		dg[len(dg)-1] ^= 1
		mh, _ := multihash.Encode(dg, multihash.SHA2_256)
		return cidlink.Link{Cid: cid.NewCidV1(cid.DagCBOR, mh)}
	case "dag-cbor-v1":
		return l
	}
	return nil
}

var relabelKinds = []string{"dag-cbor-v1", "raw", "dag-pb-v0", "dag-json", "sha2-512", "identity", "sha2-256-len0", "sha2-256-len16", "digest-bit"}

// linkExtraScenarios: every re-labelling of one token; block tables in which a foreign block shadows, or is shadowed by,
// the genuine one; archives whose root token travels under a CID it does not hash to as dag-cbor / sha2-256.
func linkExtraScenarios(genuine, other delegation.Delegation) {
	data := genuine.Root().Bytes()
	for _, kind := range relabelKinds {
		l := relabelMore(genuine.Link(), data, kind)
		if l == nil {
			continue
		}
		recordLinkCase("re-labelled "+kind, []ipld.Block{block.NewBlock(l, data)}, []ipld.Link{l, other.Link()})
	}
	// another token's link, in both orders with the genuine block under that link
	foreign := block.NewBlock(other.Link(), data)
	recordLinkCase("foreign bytes first, then the link's own bytes", []ipld.Block{foreign, other.Root(), genuine.Root()},
		[]ipld.Link{other.Link(), genuine.Link()})
	recordLinkCase("the link's own bytes first, then foreign bytes", []ipld.Block{other.Root(), foreign, genuine.Root(), block.NewBlock(relabel(genuine.Link(), "raw"), data)},
		[]ipld.Link{other.Link(), genuine.Link(), relabel(genuine.Link(), "raw")})
	// archives: the descriptor block names the token by a re-labelled link and the section carries it under that link
	for _, kind := range []string{"dag-cbor-v1", "raw", "dag-pb-v0", "dag-json", "sha2-256-len0"} {
		l := relabelMore(genuine.Link(), data, kind)
		if l == nil {
			continue
		}
		variant, err := block.Encode(&adm.ArchiveModel{Ucan0_9_1: l}, adm.Type(), cbor.Codec, ucsha.Hasher)
		if err != nil {
			continue
		}
		sections := []ipld.Block{variant, block.NewBlock(l, data)}
		archive, err := io.ReadAll(car.Encode([]ipld.Link{variant.Link()}, func(yield func(ipld.Block, error) bool) {
			for _, b := range sections {
				if !yield(b, nil) {
					return
				}
			}
		}))
		if err != nil {
			continue
		}
		// the blocks as the CAR reader hands them on
		_, it, err := car.Decode(bytes.NewReader(archive))
		if err != nil {
			continue
		}
		var read []ipld.Block
		bad := false
		for b, err := range it {
			if err != nil {
				bad = true
				break
			}
			read = append(read, b)
		}
		if bad {
			continue
		}
		recordLinkCase("archive whose token travels as "+kind, read, nil)
		lc := &linkCases[len(linkCases)-1]
		var o linkObs
		if p := recovered(func() {
			d, err := delegation.Extract(archive)
			if err != nil {
				o = linkObs{Present: false}
				return
			}
			o = observeFields(d)
		}); p != nil {
			o = linkObs{Present: true, Panic: fmt.Sprint(p)}
		}
		lc.Lookups = append(lc.Lookups, linkLookup{Link: []byte(l.Binary()), Obs: o, How: "delegation.Extract"})
	}
}

func coqLobs(o linkObs) string {
	var caps []string
	for _, c := range o.Caps {
		caps = append(caps, fmt.Sprintf("(%s, %s)", hxs(c[0]), hxs(c[1])))
	}
	return fmt.Sprintf("{| lo_present := %s; lo_iss := %s; lo_aud := %s; lo_caps := [%s]; lo_nprf := %d; lo_exp := %s |}",
		coqBool(o.Present), hxs(o.Iss), hxs(o.Aud), strings.Join(caps, "; "), o.NPrf, coqOptZ(o.Exp))
}

// writeLinkCases writes link_<prop>.v (the cases as Gallina terms) and link_<prop>.json (labels, hex, observations for the
// replay) and empties the queue.
func writeLinkCases(dir, prop string) error {
	cases := linkCases
	linkCases = nil
	var recs []string
	var idx []map[string]any
	nblocks := 0
	for i, lc := range cases {
		var bl, sha, direct, views []string
		seen := map[string]bool{}
		var jb []map[string]any
		for k, b := range lc.Blocks {
			nblocks++
			bl = append(bl, fmt.Sprintf("(%s, %s)", hx([]byte(b.Link().Binary())), hx(b.Bytes())))
			if !seen[string(b.Bytes())] {
				seen[string(b.Bytes())] = true
				h := sha256.Sum256(b.Bytes())
				sha = append(sha, fmt.Sprintf("(%s, %s)", hx(b.Bytes()), hx(h[:])))
			}
			direct = append(direct, coqLobs(lc.Direct[k]))
			jb = append(jb, map[string]any{"link_hex": fmt.Sprintf("%x", b.Link().Binary()), "link": b.Link().String(), "bytes_hex": fmt.Sprintf("%x", b.Bytes()),
				"NewDelegation": lc.Direct[k]})
		}
		var jl []map[string]any
		for _, l := range lc.Lookups {
			views = append(views, fmt.Sprintf("(%s, %s)", hx(l.Link), coqLobs(l.Obs)))
			jl = append(jl, map[string]any{"link_hex": fmt.Sprintf("%x", l.Link), "how": l.How, "observed": l.Obs})
		}
		recs = append(recs, fmt.Sprintf("{| lc_id := %d;\n  lc_blocks := [%s];\n  lc_sha := [%s];\n  lc_direct := [%s];\n  lc_view := [%s] |}",
			i, strings.Join(bl, ";\n    "), strings.Join(sha, ";\n    "), strings.Join(direct, ";\n    "), strings.Join(views, ";\n    ")))
		idx = append(idx, map[string]any{"id": i, "label": lc.Label, "blocks": jb, "lookups": jl})
	}
	var sb strings.Builder
	sb.WriteString("From Coq Require Import Uint63.\nFrom Ucanto Require Import Base Pattern Time Validator Check_CBOR LinkIntegrity Check_LinkIntegrity.\nOpen Scope N_scope.\n")
	defs, out := internPacked("Definition cases : list lcase := " + coqList(recs) + ".\n")
	sb.WriteString(defs)
	sb.WriteString(out)
	sb.WriteString("Definition M := Eval vm_compute in check_link_cases cases.\nPrint M.\nDefinition S := Eval vm_compute in count_link_cases cases.\nPrint S.\n")
	if err := writeFile(dir, "link_"+prop+".v", sb.String()); err != nil {
		return err
	}
	return writeJSON(dir, "link_"+prop+".json", map[string]any{"cases": idx, "blocks": nblocks})
}
