package main

// C14: principals survive every representation; keys never cross-verify.
// Runs the implementation on generated keys, DID strings/bytes, key strings,
// signature frames and signature substitutions and writes the inputs, the oracle
// tables (x509, the signatures the crypto library produced) and the observed
// results as Gallina terms for coq/Check_C14.v.  The base encodings are concrete
// functions of the model (coq/BaseDec.v): every (input, result) pair the Go
// base58 / multibase libraries produced during the run, plus generated near
// misses, is written as the EXPECTED result of the Coq decoder / encoder
// (cases_C14_prin_base_*.v, gen_c14_base.go).

import (
	"bytes"
	"crypto/ed25519"
	"crypto/x509"
	"encoding/hex"
	"fmt"
	"math/rand"
	"os"
	"path/filepath"
	"sort"
	"strings"

	mbase "github.com/multiformats/go-multibase"
	"github.com/storacha/go-ucanto/did"
	"github.com/storacha/go-ucanto/principal"
	edsigner "github.com/storacha/go-ucanto/principal/ed25519/signer"
	edverifier "github.com/storacha/go-ucanto/principal/ed25519/verifier"
	rsasigner "github.com/storacha/go-ucanto/principal/rsa/signer"
	rsaverifier "github.com/storacha/go-ucanto/principal/rsa/verifier"
	psigner "github.com/storacha/go-ucanto/principal/signer"
	pverifier "github.com/storacha/go-ucanto/principal/verifier"
	"github.com/storacha/go-ucanto/ucan/crypto/signature"
)

// ---------------------------------------------------------------- helpers

func uvarintBytes(x uint64) []byte {
	var b []byte
	for x >= 0x80 {
		b = append(b, byte(x)|0x80)
		x >>= 7
	}
	return append(b, byte(x))
}

func cat(parts ...[]byte) []byte {
	var r []byte
	for _, p := range parts {
		r = append(r, p...)
	}
	return r
}

func coqOptBytes(b []byte, ok bool) string {
	if !ok {
		return "None"
	}
	return "(Some " + hx(b) + ")"
}

func coqN(x uint64) string { return fmt.Sprintf("%d%%N", x) }

type c14Direct struct {
	Key    string         `json:"key"`
	What   string         `json:"what"`
	Replay map[string]any `json:"replay"`
}

type c14Index struct {
	Kind   string         `json:"kind"`
	Replay map[string]any `json:"replay"`
}

type c14Key struct {
	alg    int // 0 Ed25519, 1 RSA
	signer principal.Signer
	sb, vb []byte
	didStr string
}

func c14KeysDir(out string) string {
	cands := []string{os.Getenv("VERIF_KEYS"), "corpus/keys", filepath.Join(out, "..", "..", "..", "corpus", "keys")}
	for _, c := range cands {
		if c == "" {
			continue
		}
		if st, err := os.Stat(c); err == nil && st.IsDir() {
			return c
		}
	}
	return ""
}

func c14LoadRSA(out string, n int) ([]principal.Signer, string, error) {
	dir := c14KeysDir(out)
	var res []principal.Signer
	src := "corpus/keys"
	if dir != "" {
		files, _ := filepath.Glob(filepath.Join(dir, "rsa_*.txt"))
		sort.Strings(files)
		for _, f := range files {
			if len(res) >= n {
				break
			}
			b, err := os.ReadFile(f)
			if err != nil {
				return nil, "", err
			}
			s, err := rsasigner.Parse(strings.TrimSpace(string(b)))
			if err != nil {
				return nil, "", fmt.Errorf("stored RSA key %s does not parse: %v", f, err)
			}
			res = append(res, s)
		}
	}
	for len(res) < n { // no stored keys: generate (slow, non-deterministic key material)
		src = "generated"
		s, err := rsasigner.Generate()
		if err != nil {
			return nil, "", err
		}
		res = append(res, s)
	}
	return res, src, nil
}

func edSignerFromSeed(seed []byte) (principal.Signer, error) {
	priv := ed25519.NewKeyFromSeed(seed)
	pub := priv.Public().(ed25519.PublicKey)
	b := cat(uvarintBytes(edsigner.Code), seed, uvarintBytes(edverifier.Code), pub)
	return edsigner.Decode(b)
}

func algDecodeSigner(alg int, b []byte) (principal.Signer, error) {
	if alg == 0 {
		return edsigner.Decode(b)
	}
	return rsasigner.Decode(b)
}
func algDecodeVerifier(alg int, b []byte) (principal.Verifier, error) {
	if alg == 0 {
		return edverifier.Decode(b)
	}
	return rsaverifier.Decode(b)
}
func algParseVerifier(alg int, s string) (principal.Verifier, error) {
	if alg == 0 {
		return edverifier.Parse(s)
	}
	return rsaverifier.Parse(s)
}
func algParseSigner(alg int, s string) (principal.Signer, error) {
	if alg == 0 {
		return edsigner.Parse(s)
	}
	return rsasigner.Parse(s)
}
func algFormatSigner(alg int, s principal.Signer) (string, error) {
	if alg == 0 {
		return edsigner.Format(s)
	}
	return rsasigner.Format(s)
}

// oracle tables for one case (x509)
type c14Tabs struct {
	pub  [][2]string
	priv [][2]string
}

var c14OracleChecked, c14OracleBad int

// what go-multibase answers for "z" ++ payload; recorded as an expected result of BaseDec.b58dec
func b58decOracle(payload string) ([]byte, bool) {
	enc, b, err := mbase.Decode("z" + payload)
	ok := err == nil && enc == mbase.Base58BTC
	if !ok {
		b = nil
	}
	c14BaseRecord(0, []byte(payload), b, ok, "base58 payload met by the harness")
	return b, ok
}

func b58encOracle(b []byte) string {
	s, _ := mbase.Encode(mbase.Base58BTC, b)
	c14BaseRecord(2, b, []byte(s[1:]), true, "bytes the harness encoded")
	// the law proved for the model (BaseDec.b58_roundtrip), observed on the library: decode (encode b) = b
	if len(b) > 0 {
		c14OracleChecked++
		if back, ok := b58decOracle(s[1:]); !ok || !bytes.Equal(back, b) {
			c14OracleBad++
		}
	}
	return s[1:]
}

// the base58 payload of a did:key string is an input of the decoder
func (t *c14Tabs) addDecFor(s string) {
	if strings.HasPrefix(s, "did:key:z") {
		b58decOracle(s[len("did:key:z"):])
	}
}
func (t *c14Tabs) addEncFor(b []byte) { b58encOracle(b) }
func (t *c14Tabs) addPubFor(alg int, b []byte) {
	// what RSA verifier.Decode hands to x509: the bytes after the tag
	if len(b) >= 2 {
		_, err := x509.ParsePKCS1PublicKey(b[2:])
		t.pub = append(t.pub, [2]string{hx(b[2:]), coqBool(err == nil)})
	}
}
func (t *c14Tabs) addPrivFor(b []byte) {
	if len(b) >= 2 {
		k, err := x509.ParsePKCS1PrivateKey(b[2:])
		if err != nil {
			t.priv = append(t.priv, [2]string{hx(b[2:]), "None"})
			return
		}
		pubder := x509.MarshalPKCS1PublicKey(&k.PublicKey)
		t.priv = append(t.priv, [2]string{hx(b[2:]), "(Some " + hx(pubder) + ")"})
		_, perr := x509.ParsePKCS1PublicKey(pubder)
		t.pub = append(t.pub, [2]string{hx(pubder), coqBool(perr == nil)})
	}
}
func tabStr(t [][2]string) string {
	var items []string
	for _, e := range t {
		items = append(items, "("+e[0]+", "+e[1]+")")
	}
	if len(items) == 0 {
		return "[]"
	}
	return "[" + strings.Join(items, "; ") + "]"
}

// ---------------------------------------------------------------- DID cases

type didObs struct {
	class  int // 0 error 1 key 2 other
	bytes  []byte
	str    string
	strOK  bool // false: String() panicked
	rtStr  bool // Parse(String()) == d
	rtByte bool // Decode(Bytes()) == d
}

func observeDID(d did.DID, err error) didObs {
	if err != nil {
		return didObs{}
	}
	o := didObs{class: 2, bytes: d.Bytes()}
	if p := recovered(func() { o.str = d.String() }); p == nil {
		o.strOK = true
	}
	if strings.HasPrefix(o.str, "did:key:") {
		// key-ness is not exported; a key DID prints through base58 of its bytes
		if s, _ := mbase.Encode(mbase.Base58BTC, d.Bytes()); "did:key:"+s == o.str {
			o.class = 1
		}
	}
	if o.strOK {
		d2, err2 := did.Parse(o.str)
		o.rtStr = err2 == nil && d2 == d
	}
	d3, err3 := did.Decode(d.Bytes())
	o.rtByte = err3 == nil && d3 == d
	return o
}

func (o didObs) coqStr() string {
	if !o.strOK {
		return "None"
	}
	return "(Some " + hxs(o.str) + ")"
}

var c14Methods = []string{"web", "mailto", "plc", "pkh", "x", "", "KEY", "Key", "keys", "ke", "key", "web:key", "dns"}

func randBytes(r *rand.Rand, n int) []byte {
	b := make([]byte, n)
	r.Read(b)
	return b
}

func randID(r *rand.Rand) string {
	switch r.Intn(8) {
	case 0:
		return ""
	case 1:
		return "example.com"
	case 2:
		return "alice@web.mail"
	case 3: // non-ASCII, valid UTF-8
		return []string{"ü.example", "例え.テスト", "名前:ключ", "🚀"}[r.Intn(4)]
	case 4: // arbitrary bytes (invalid UTF-8 too)
		return string(randBytes(r, r.Intn(12)))
	case 5:
		return "key:z" + b58encOracle(randBytes(r, 1+r.Intn(6)))
	case 6:
		return strings.Repeat(":", r.Intn(3)) + "a" + strings.Repeat(":", r.Intn(3))
	default:
		const al = "abcxyzABC019.-_:%/"
		n := r.Intn(20)
		var sb strings.Builder
		for i := 0; i < n; i++ {
			sb.WriteByte(al[r.Intn(len(al))])
		}
		return sb.String()
	}
}

func z58(b []byte) string { return "z" + b58encOracle(b) }

var c14NearMiss = []string{
	"", "d", "did", "did:", "did::", "did:key", "did:key:", "did:key:z", "did:key:zz", "did:key:z1", "did:key:z11",
	"DID:key:z6Mk", "Did:web:x", "did:KEY:z6Mk", "did:key:Z6Mk", "did:key:z0OIl", "did:key:z 6Mk", "did:key:f00", "did:key:fed01",
	"did:key:mAAA", "did:key:MAAA=", "did:key:\x00abc", "did:key:\xff", "did:key:🚀", "did:key:zé", " did:web:x", "did:web:x ",
	"did:web:", "did:web", "did:w", "did:\x00", "did:\xff\xfe", "did:key:z6MkeTG3bFFSLYVU7VqhgZxqr6YzpaGrQtFMh1uvqGy1vDnP",
	"did:key:z6MkeTG3bFFSLYVU7VqhgZxqr6YzpaGrQtFMh1uvqGy1vDnP ", "did:key:z6MkeTG3bFFSLYVU7VqhgZxqr6YzpaGrQtFMh1uvqGy1vDn",
	"did:key:zTH6gADdcuEQ", "did:key:z2UdMAdaeCsHsaP1wbqQpeWw6",
}

func genDIDString(r *rand.Rand, keys []c14Key, i int) (string, string) {
	if i < len(c14NearMiss) {
		return c14NearMiss[i], "near-miss"
	}
	switch r.Intn(12) {
	case 0, 1:
		return keys[r.Intn(len(keys))].didStr, "did:key real"
	case 2:
		return "did:key:" + z58(cat(uvarintBytes(0xed), randBytes(r, 32))), "did:key ed random"
	case 3:
		return "did:key:" + z58(cat(uvarintBytes(0x1205), randBytes(r, r.Intn(40)))), "did:key rsa random"
	case 4: // payload with another tag / malformed varint
		tags := [][]byte{uvarintBytes(0x1300), uvarintBytes(0x1305), {0x00}, {0x01}, {0xed}, {0xed, 0x81, 0x00}, {0x80}, {0xff, 0xff, 0xff, 0xff, 0xff, 0xff, 0xff, 0xff, 0xff, 0x01}, uvarintBytes(0xec), uvarintBytes(0x1206), {0xed, 0x00}}
		return "did:key:" + z58(cat(tags[r.Intn(len(tags))], randBytes(r, r.Intn(6)))), "did:key other tag"
	case 5: // payload carrying the generic DID tag
		m := c14Methods[r.Intn(len(c14Methods))]
		return "did:key:" + z58(cat(uvarintBytes(0x0d1d), []byte(m+":"+randID(r)))), "did:key generic payload"
	case 6: // mutate a real did:key string
		s := []byte(keys[r.Intn(len(keys))].didStr)
		switch r.Intn(3) {
		case 0:
			s = s[:len(s)-1-r.Intn(3)]
		case 1:
			s[9+r.Intn(len(s)-9)] = "0OIl+/ z"[r.Intn(8)]
		default:
			s = append(s, "1z0 "[r.Intn(4)])
		}
		return string(s), "did:key mutated"
	default:
		m := c14Methods[r.Intn(len(c14Methods))]
		return "did:" + m + ":" + randID(r), "other method"
	}
}

func genDIDBytes(r *rand.Rand, keys []c14Key, i int) ([]byte, string) {
	fixed := [][]byte{nil, {0x9d}, {0x9d, 0x1a}, {0xed}, {0xed, 0x01}, {0x85, 0x24}, {0x9d, 0x1a, 'k', 'e', 'y'}, {0x9d, 0x1a, 'k', 'e', 'y', ':'},
		cat([]byte{0x9d, 0x1a}, []byte("key:zQ")), cat([]byte{0x9d, 0x1a}, []byte("web:example.com")), {0x9d, 0x9a, 0x00}, {0x80}, {0x00}, {0x1d, 0x0d}}
	if i < len(fixed) {
		return fixed[i], "fixed"
	}
	switch r.Intn(8) {
	case 0:
		return keys[r.Intn(len(keys))].vb, "key real"
	case 1:
		return cat(uvarintBytes(0xed), randBytes(r, r.Intn(40))), "ed any length"
	case 2:
		return cat(uvarintBytes(0x1205), randBytes(r, r.Intn(40))), "rsa any length"
	case 3:
		m := c14Methods[r.Intn(len(c14Methods))]
		return cat(uvarintBytes(0x0d1d), []byte(m+":"+randID(r))), "generic"
	case 4: // generic encoding of a did:key string of a real key: the alias
		return cat(uvarintBytes(0x0d1d), []byte(keys[r.Intn(len(keys))].didStr[4:])), "generic key alias"
	case 5:
		return cat(uvarintBytes(uint64(r.Intn(0x3000))), randBytes(r, r.Intn(8))), "random tag"
	default:
		return randBytes(r, r.Intn(10)), "random"
	}
}

// ---------------------------------------------------------------- signature frames

func observeSig(b []byte) (code uint64, size uint64, sizeOK bool, raw []byte, rawOK bool) {
	s := signature.Decode(b)
	code = s.Code()
	if p := recovered(func() { size = s.Size() }); p == nil {
		sizeOK = true
	}
	if p := recovered(func() { raw = s.Raw() }); p == nil {
		rawOK = true
	}
	return
}

func coqOptN(x uint64, ok bool) string {
	if !ok {
		return "None"
	}
	return "(Some " + coqN(x) + ")"
}

// ---------------------------------------------------------------- generator

func init() {
	gens["C14"] = genC14
	extraCmds["c14-keygen"] = c14Keygen
	extraCmds["c14-replay"] = c14Replay
}

func c14Keygen(args []string) int {
	if len(args) < 2 {
		fmt.Fprintln(os.Stderr, "usage: harness c14-keygen <dir> <n>")
		return 2
	}
	var n int
	fmt.Sscanf(args[1], "%d", &n)
	os.MkdirAll(args[0], 0o755)
	for i := 0; i < n; i++ {
		s, err := rsasigner.Generate()
		if err != nil {
			fmt.Fprintln(os.Stderr, err)
			return 1
		}
		str, _ := rsasigner.Format(s)
		if err := os.WriteFile(filepath.Join(args[0], fmt.Sprintf("rsa_%d.txt", i)), []byte(str+"\n"), 0o644); err != nil {
			fmt.Fprintln(os.Stderr, err)
			return 1
		}
	}
	return 0
}

func genC14(o genOpts) error {
	r := rand.New(rand.NewSource(o.seed))
	nEd, nRSA, nMsg, nDIDs, nDIDb, nSigRand, shardsV, shardsD := 8, 4, 5, 500, 250, 1500, 4, 4
	if o.tier == "thorough" {
		nEd, nRSA, nMsg, nDIDs, nDIDb, nSigRand, shardsV, shardsD = 44, 4, 6, 20000, 6000, 30000, 16, 16
	}
	var direct []c14Direct
	index := map[string][]c14Index{}
	addIdx := func(file, kind string, rp map[string]any) {
		index[file] = append(index[file], c14Index{kind, rp})
	}
	stats := map[string]any{}

	// ---- keys
	var keys []c14Key
	for i := 0; i < nEd; i++ {
		s, err := edSignerFromSeed(randBytes(r, 32))
		if err != nil {
			return fmt.Errorf("ed25519 signer from seed: %v", err)
		}
		keys = append(keys, c14Key{alg: 0, signer: s})
	}
	rsas, rsaSrc, err := c14LoadRSA(o.out, nRSA)
	if err != nil {
		return err
	}
	for _, s := range rsas {
		keys = append(keys, c14Key{alg: 1, signer: s})
	}
	for i := range keys {
		keys[i].sb = keys[i].signer.Encode()
		keys[i].vb = keys[i].signer.Verifier().Encode()
		keys[i].didStr = keys[i].signer.DID().String()
	}
	stats["keys"] = map[string]any{"ed25519": nEd, "rsa": len(rsas), "rsa_source": rsaSrc}

	// ---- messages
	msgs := [][]byte{{}, {0}, []byte("hello world"), []byte("hello world!"), randBytes(r, 300)}
	for len(msgs) < nMsg {
		msgs = append(msgs, randBytes(r, 1+r.Intn(64)))
	}

	// ---- a decoded principal is a value of its own: the buffer it was decoded from is reused (here: overwritten) afterwards
	// and the signer / verifier stays what it was; and a did:key string is spelled in base58btc only — a verifier parser
	// accepts no other multibase spelling of the same key (or, if it did, would have to give that string back)
	for i, k := range keys {
		if i%3 != 0 && k.alg == 0 {
			continue
		}
		failB := func(what string) {
			direct = append(direct, c14Direct{"principal-roundtrip", fmt.Sprintf("key %d (alg %d): %s", i, k.alg, what), map[string]any{"alg": k.alg, "signer": hex.EncodeToString(k.sb)}})
		}
		buf := append([]byte{}, k.sb...)
		if s2, err := algDecodeSigner(k.alg, buf); err == nil {
			for j := range buf {
				buf[j] = 0
			}
			if !bytes.Equal(s2.Encode(), k.sb) || s2.DID() != k.signer.DID() {
				failB("signer Decode(buf) changed when buf was overwritten afterwards")
			} else if why := sameSigner(k.signer, s2); why != "" {
				failB("signer Decode(buf) changed when buf was overwritten afterwards: " + why)
			}
		}
		vbuf := append([]byte{}, k.vb...)
		if v2, err := algDecodeVerifier(k.alg, vbuf); err == nil {
			for j := range vbuf {
				vbuf[j] = 0
			}
			if !bytes.Equal(v2.Encode(), k.vb) || v2.DID() != k.signer.Verifier().DID() {
				failB("verifier Decode(buf) changed when buf was overwritten afterwards")
			}
		}
		// other multibase spellings of the same public key after "did:key:"
		for _, enc := range []mbase.Encoding{mbase.Base64, mbase.Base64pad, mbase.Base64url, mbase.Base32, mbase.Base16, mbase.Base58Flickr, mbase.Base36} {
			alt, err := mbase.Encode(enc, k.vb)
			if err != nil {
				continue
			}
			str := "did:key:" + alt
			if v, err := algParseVerifier(k.alg, str); err == nil && v != nil && v.DID().String() != str {
				failB(fmt.Sprintf("verifier Parse accepts %q... (multibase %q) and answers with another DID string: parsing and formatting do not agree", str[:20], string(rune(enc))))
				break
			}
		}
	}

	// ---- freshly GENERATED signers (the keys above are decoded from seeds / stored key files): what Generate() hands out
	// is the same value as what its encoding decodes to and its formatted string parses to
	for alg := 0; alg < 2; alg++ {
		var gs principal.Signer
		var gerr error
		if alg == 0 {
			gs, gerr = edsigner.Generate()
		} else {
			gs, gerr = rsasigner.Generate()
		}
		failG := func(what string) {
			direct = append(direct, c14Direct{"principal-roundtrip", fmt.Sprintf("generated key (alg %d): %s", alg, what), map[string]any{"alg": alg}})
		}
		if gerr != nil {
			failG("Generate fails: " + gerr.Error())
			continue
		}
		if d, err := algDecodeSigner(alg, gs.Encode()); err != nil || !bytes.Equal(d.Encode(), gs.Encode()) || d.DID() != gs.DID() {
			failG("signer Decode(Encode(s)) differs")
		} else if why := sameSigner(gs, d); why != "" {
			failG("signer Decode(Encode(s)) differs: " + why)
		}
		if str, err := algFormatSigner(alg, gs); err != nil {
			failG("signer Format fails")
		} else if d, err := algParseSigner(alg, str); err != nil || !bytes.Equal(d.Encode(), gs.Encode()) {
			failG("signer Parse(Format(s)) differs")
		} else if why := sameSigner(gs, d); why != "" {
			failG("signer Parse(Format(s)) differs: " + why)
		}
		msg := []byte("generated signer")
		if !gs.Verifier().Verify(msg, gs.Sign(msg)) {
			failG("the generated signer's verifier refuses its signature")
		}
	}

	// ---- direct (implementation-only) representation round trips: the property itself
	rtChecks := 0
	for i, k := range keys {
		fail := func(what string) {
			direct = append(direct, c14Direct{"principal-roundtrip", fmt.Sprintf("key %d (alg %d): %s", i, k.alg, what),
				map[string]any{"alg": k.alg, "signer": hex.EncodeToString(k.sb)}})
		}
		s2, err := algDecodeSigner(k.alg, k.sb)
		rtChecks++
		if err != nil || !bytes.Equal(s2.Encode(), k.sb) || s2.DID() != k.signer.DID() {
			fail("signer Decode(Encode(s)) differs")
		} else if why := sameSigner(k.signer, s2); why != "" {
			fail("signer Decode(Encode(s)) differs: " + why)
		}
		str, err := algFormatSigner(k.alg, k.signer)
		rtChecks++
		if err != nil {
			fail("signer Format fails")
		} else if s3, err := algParseSigner(k.alg, str); err != nil || !bytes.Equal(s3.Encode(), k.sb) || s3.DID() != k.signer.DID() {
			fail("signer Parse(Format(s)) differs")
		} else if why := sameSigner(k.signer, s3); why != "" {
			fail("signer Parse(Format(s)) differs: " + why)
		}
		v := k.signer.Verifier()
		v2, err := algDecodeVerifier(k.alg, k.vb)
		rtChecks++
		if err != nil || !bytes.Equal(v2.Encode(), k.vb) || v2.DID() != v.DID() {
			fail("verifier Decode(Encode(v)) differs")
		} else if v2.Code() != v.Code() || !bytes.Equal(v2.Raw(), v.Raw()) {
			fail("verifier Decode(Encode(v)) differs: Code() / Raw()")
		}
		v3, err := algParseVerifier(k.alg, k.didStr)
		rtChecks++
		if err != nil || !bytes.Equal(v3.Encode(), k.vb) || v3.DID() != v.DID() {
			fail("verifier Parse(DID string) differs")
		} else if v3.Code() != v.Code() || !bytes.Equal(v3.Raw(), v.Raw()) {
			fail("verifier Parse(DID string) differs: Code() / Raw()")
		}
		rtChecks++
		if v.DID() != k.signer.DID() || v.DID().String() != k.didStr {
			fail("signer and verifier disagree on the DID")
		}
		d, err := did.Parse(k.didStr)
		rtChecks++
		if err != nil || d != k.signer.DID() || !bytes.Equal(d.Bytes(), k.vb) {
			fail("did.Parse(DID string) differs from the signer's DID")
		}
		d2, err := did.Decode(k.vb)
		rtChecks++
		if err != nil || d2 != k.signer.DID() {
			fail("did.Decode(verifier bytes) differs from the signer's DID")
		}
		// Wrap: only the DID changes
		for _, ids := range []string{"did:web:example.com", "did:mailto:web.mail:alice", keys[(i+1)%len(keys)].didStr} {
			id, _ := did.Parse(ids)
			ws, err := psigner.Wrap(k.signer, id)
			rtChecks++
			if err != nil {
				fail("signer.Wrap refused a did:key signer")
				continue
			}
			m := msgs[2]
			if ws.DID() != id || ws.Verifier().DID() != id || !bytes.Equal(ws.Encode(), k.sb) ||
				!bytes.Equal(ws.Verifier().Encode(), k.vb) || ws.Code() != k.signer.Code() ||
				ws.SignatureCode() != k.signer.SignatureCode() ||
				!bytes.Equal(ws.Sign(m).Bytes(), k.signer.Sign(m).Bytes()) ||
				!ws.Verifier().Verify(m, k.signer.Sign(m)) || !v.Verify(m, ws.Sign(m)) ||
				!bytes.Equal(ws.Unwrap().Encode(), k.sb) || ws.Unwrap().DID() != k.signer.DID() ||
				!bytes.Equal(ws.Raw(), k.signer.Raw()) || !bytes.Equal(ws.Verifier().Raw(), k.signer.Verifier().Raw()) ||
				ws.Verifier().Code() != k.signer.Verifier().Code() || ws.SignatureAlgorithm() != k.signer.SignatureAlgorithm() {
				fail("signer.Wrap under " + ids + " changed more than the DID")
			}
			// the same for a verifier wrapped on its own: every accessor but DID() is the key's
			if wv, err := pverifier.Wrap(k.signer.Verifier(), id); err == nil {
				kv := k.signer.Verifier()
				if wv.DID() != id || !bytes.Equal(wv.Raw(), kv.Raw()) || !bytes.Equal(wv.Encode(), kv.Encode()) || wv.Code() != kv.Code() ||
					!wv.Verify(m, k.signer.Sign(m)) || wv.Verify(msgs[1], k.signer.Sign(m)) {
					fail("verifier.Wrap under " + ids + " changed more than the DID")
				}
			}
		}
	}
	stats["principal_roundtrip_checks"] = rtChecks

	// ---- signatures produced by the crypto library
	type sigEntry struct {
		i, j int
		raw  []byte
		full []byte
	}
	var sigs []sigEntry
	raws := map[[2]int][]byte{}
	for i, k := range keys {
		for j, m := range msgs {
			sv := k.signer.Sign(m)
			sigs = append(sigs, sigEntry{i, j, sv.Raw(), sv.Bytes()})
			raws[[2]int{i, j}] = sv.Raw()
			// determinism (the model's raw_sig is a function)
			if !bytes.Equal(k.signer.Sign(m).Bytes(), sv.Bytes()) {
				direct = append(direct, c14Direct{"sign-nondeterministic", fmt.Sprintf("key %d signs message %d differently on a second call", i, j),
					map[string]any{"alg": k.alg, "signer": hex.EncodeToString(k.sb), "msg": hex.EncodeToString(m)}})
			}
		}
	}
	var keyItems, msgItems, sigItems, signItems []string
	for _, k := range keys {
		keyItems = append(keyItems, fmt.Sprintf("(%s, %s, %s)", coqN(uint64(k.alg)), hx(k.vb), hx(k.sb)))
	}
	for _, m := range msgs {
		msgItems = append(msgItems, hx(m))
	}
	for _, e := range sigs {
		sigItems = append(sigItems, fmt.Sprintf("(%s, %s, %s)", coqN(uint64(e.i)), coqN(uint64(e.j)), hx(e.raw)))
		signItems = append(signItems, fmt.Sprintf("(%s, %s, %s)", coqN(uint64(e.i)), coqN(uint64(e.j)), hx(e.full)))
	}
	tablesV := fmt.Sprintf("Definition keys : keytab := %s.\nDefinition msgs : list bstr := %s.\nDefinition sigs : sigtab := %s.\n",
		coqList(keyItems), coqList(msgItems), coqList(sigItems))

	// ---- verification cases
	type vcase struct {
		i, j int
		sig  []byte
		obs  int
		what string
	}
	var vcases []vcase
	vhist := map[string]map[string]int{}
	variantName := []string{"signer.Verifier()", "verifier.Decode(bytes)", "verifier.Parse(did)", "verifier.Wrap(did:web)"}
	verifierVariant := func(k c14Key, variant int) principal.Verifier {
		switch variant % 4 {
		case 1:
			v, err := algDecodeVerifier(k.alg, k.vb)
			if err == nil {
				return v
			}
		case 2:
			v, err := algParseVerifier(k.alg, k.didStr)
			if err == nil {
				return v
			}
		case 3:
			id, _ := did.Parse("did:web:example.com")
			v, err := pverifier.Wrap(k.signer.Verifier(), id)
			if err == nil {
				return v
			}
		}
		return k.signer.Verifier()
	}
	addV := func(i, j int, sg []byte, what string) {
		variant := len(vcases)
		v := verifierVariant(keys[i], variant)
		obs := 0
		var res bool
		if p := recovered(func() { res = v.Verify(msgs[j], signature.Decode(sg)) }); p != nil {
			obs = 2
		} else if res {
			obs = 1
		}
		vcases = append(vcases, vcase{i, j, sg, obs, what + " via " + variantName[variant%4]})
		if vhist[what] == nil {
			vhist[what] = map[string]int{}
		}
		vhist[what][[]string{"rejected", "accepted", "panic"}[obs]]++
	}
	otherCode := func(alg int) uint64 {
		if alg == 0 {
			return signature.RS256
		}
		return signature.EdDSA
	}
	ownCode := func(alg int) uint64 {
		if alg == 0 {
			return signature.EdDSA
		}
		return signature.RS256
	}
	for i := range keys {
		for k := range keys {
			for j := range msgs {
				// signature of key k over message j resp. another message, shown to verifier i for message j
				addV(i, j, signature.NewSignature(ownCode(keys[k].alg), raws[[2]int{k, j}]).Bytes(), "honest signature, same message")
				addV(i, j, signature.NewSignature(ownCode(keys[k].alg), raws[[2]int{k, (j + 1) % len(msgs)}]).Bytes(), "honest signature, other message")
			}
			// signature-code substitutions on key k's signature
			j := (i + k) % len(msgs)
			raw := raws[[2]int{k, j}]
			addV(i, j, signature.NewSignature(otherCode(keys[k].alg), raw).Bytes(), "re-tagged with the other algorithm's code")
			if i == k || r.Intn(4) == 0 {
				addV(i, j, signature.NewSignature(signature.NON_STANDARD, raw).Bytes(), "re-tagged NON_STANDARD")
				addV(i, j, signature.NewNonStandard("EdDSA", raw).Bytes(), "NewNonStandard frame")
				addV(i, j, signature.NewSignature(0, raw).Bytes(), "re-tagged code 0")
				addV(i, j, signature.NewSignature(signature.ES256K, raw).Bytes(), "re-tagged ES256K")
				addV(i, j, signature.NewSignature(ownCode(keys[i].alg), raw).Bytes(), "tagged with the verifier's code")
				addV(i, j, signature.NewSignature(ownCode(keys[k].alg), raw[:len(raw)-1]).Bytes(), "raw truncated by one byte")
				addV(i, j, signature.NewSignature(ownCode(keys[k].alg), append(append([]byte{}, raw...), 0)).Bytes(), "raw extended by one byte")
				fl := append([]byte{}, raw...)
				fl[r.Intn(len(fl))] ^= 1 << uint(r.Intn(8))
				addV(i, j, signature.NewSignature(ownCode(keys[k].alg), fl).Bytes(), "one bit of raw flipped")
				// the size field is not what Raw() uses: frames with another size value
				addV(i, j, cat(uvarintBytes(ownCode(keys[k].alg)), uvarintBytes(uint64(len(raw)+1)), raw), "size field off by one")
				addV(i, j, cat(uvarintBytes(ownCode(keys[k].alg)), uvarintBytes(uint64(r.Intn(127))), raw), "size field arbitrary (one byte)")
				addV(i, j, cat(uvarintBytes(ownCode(keys[k].alg)), raw), "size field missing")
				full := signature.NewSignature(ownCode(keys[k].alg), raw).Bytes()
				addV(i, j, append(append([]byte{}, full...), []byte("EdDSA")...), "trailing bytes after raw")
				for _, n := range []int{0, 1, 2, 3, 4, 5, len(full) - 1} {
					addV(i, j, full[:n], "frame truncated")
				}
				addV(i, j, cat(uvarintBytes(ownCode(keys[i].alg)), []byte{0x80}), "size varint unterminated")
				addV(i, j, cat([]byte{0xed, 0xa1, 0x83, 0x00}, uvarintBytes(uint64(len(raw))), raw), "code varint not minimal")
			}
		}
	}
	per := (len(vcases) + shardsV - 1) / shardsV
	for s := 0; s < shardsV; s++ {
		lo, hi := s*per, (s+1)*per
		if hi > len(vcases) {
			hi = len(vcases)
		}
		if lo >= hi {
			break
		}
		file := fmt.Sprintf("cases_C14_verify_%02d.v", s)
		var items []string
		for _, c := range vcases[lo:hi] {
			items = append(items, fmt.Sprintf("(%s, %s, %s, %s)", coqN(uint64(c.i)), coqN(uint64(c.j)), hx(c.sig), coqN(uint64(c.obs))))
			addIdx(file+"#1", "verify", map[string]any{"what": c.what, "alg": keys[c.i].alg, "verifier": hex.EncodeToString(keys[c.i].vb),
				"msg": hex.EncodeToString(msgs[c.j]), "sig": hex.EncodeToString(c.sig), "observed": []string{"rejected", "accepted", "panic"}[c.obs],
				"coq": fmt.Sprintf("check_verify [(%s, %s, [])] [%s] [(0, 0, %s)] (0, 0, %s, %s)", coqN(uint64(keys[c.i].alg)), hx(keys[c.i].vb), hx(msgs[c.j]), hx(raws[[2]int{c.i, c.j}]), hx(c.sig), coqN(uint64(c.obs)))})
		}
		var sb strings.Builder
		sb.WriteString("From Ucanto Require Import Base Sig Did Crypto Check_C14.\nOpen Scope N_scope.\n")
		sb.WriteString(tablesV)
		fmt.Fprintf(&sb, "Definition cases : list (N * N * bstr * N) := %s.\n", coqList(items))
		sb.WriteString("Definition M := Eval vm_compute in map (fun i => (1, i)) (check_verifies keys msgs sigs cases).\nPrint M.\n")
		if err := c14WriteFile(o.out, file, sb.String()); err != nil {
			return err
		}
	}

	// ---- principals: Sign frames, Decode / Parse of encodings and near misses, Wrap
	{
		file := "cases_C14_prin.v"
		var sb strings.Builder
		sb.WriteString("From Ucanto Require Import Base Sig Did Crypto Check_C14.\nOpen Scope N_scope.\n")
		sb.WriteString(tablesV)
		fmt.Fprintf(&sb, "Definition signs : list (N * N * bstr) := %s.\n", coqList(signItems))
		for _, e := range sigs {
			addIdx(file+"#1", "sign", map[string]any{"alg": keys[e.i].alg, "signer": hex.EncodeToString(keys[e.i].sb), "msg": hex.EncodeToString(msgs[e.j]), "signature": hex.EncodeToString(e.full)})
		}
		// verifier.Decode
		var vd, vp, sd, wr []string
		nV, nS := map[string]int{}, map[string]int{}
		addVD := func(alg int, b []byte, what string) {
			var t c14Tabs
			t.addPubFor(alg, b)
			v, err := algDecodeVerifier(alg, b)
			obs := "None"
			if err == nil {
				obs = fmt.Sprintf("(Some (%s, %s))", hx(v.Encode()), hx(v.DID().Bytes()))
				nV["ok"]++
			} else {
				nV["error"]++
			}
			vd = append(vd, fmt.Sprintf("(%s, %s, %s, %s)", coqN(uint64(alg)), hx(b), tabStr(t.pub), obs))
			addIdx(file+"#2", "verifier-decode", map[string]any{"what": what, "alg": alg, "bytes": hex.EncodeToString(b), "ok": err == nil})
		}
		addVP := func(alg int, s string, what string) {
			var t c14Tabs
			t.addDecFor(s)
			if d, err := did.Parse(s); err == nil {
				t.addPubFor(alg, d.Bytes())
			}
			v, err := algParseVerifier(alg, s)
			obs := "None"
			if err == nil {
				obs = fmt.Sprintf("(Some (%s, %s))", hx(v.Encode()), hx(v.DID().Bytes()))
			}
			vp = append(vp, fmt.Sprintf("(%s, %s, %s, %s)", coqN(uint64(alg)), hxs(s), tabStr(t.pub), obs))
			addIdx(file+"#3", "verifier-parse", map[string]any{"what": what, "alg": alg, "string": s, "ok": err == nil})
		}
		addSD := func(alg int, b []byte, what string) {
			var t c14Tabs
			if alg == 1 {
				t.addPrivFor(b)
			} else if len(b) > 36 {
				t.addPubFor(0, b[34:])
			}
			s, err := algDecodeSigner(alg, b)
			obs := "None"
			if err == nil {
				obs = fmt.Sprintf("(Some (%s, %s, %s))", hx(s.Encode()), hx(s.Verifier().Encode()), hx(s.DID().Bytes()))
				nS["ok"]++
			} else {
				nS["error"]++
			}
			sd = append(sd, fmt.Sprintf("(%s, %s, %s, %s, %s)", coqN(uint64(alg)), hx(b), tabStr(t.pub), tabStr(t.priv), obs))
			addIdx(file+"#4", "signer-decode", map[string]any{"what": what, "alg": alg, "bytes": hex.EncodeToString(b), "ok": err == nil})
		}
		mutate := func(b []byte) [][]byte {
			res := [][]byte{b, b[:len(b)-1], append(append([]byte{}, b...), 0), nil, b[:2], b[:1], b[2:]}
			for _, tag := range []uint64{0xed, 0x1205, 0x1300, 0x1305, 0x0d1d, 0} {
				res = append(res, cat(uvarintBytes(tag), b[2:]))
			}
			res = append(res, cat([]byte{b[0], b[1] | 0x80, 0x00}, b[2:])) // tag varint not minimal
			fl := append([]byte{}, b...)
			fl[2+r.Intn(len(fl)-2)] ^= 0x10
			res = append(res, fl)
			if len(b) > 40 {
				fl2 := append([]byte{}, b...)
				fl2[34] ^= 0x01 // ed25519 signer: public tag
				res = append(res, fl2)
			}
			return res
		}
		for _, k := range keys {
			for alg := 0; alg < 2; alg++ {
				for _, m := range mutate(k.vb) {
					addVD(alg, m, "verifier bytes / mutation")
				}
				for _, m := range mutate(k.sb) {
					addSD(alg, m, "signer bytes / mutation")
				}
				addVD(alg, k.sb, "signer bytes given to verifier.Decode")
				addSD(alg, k.vb, "verifier bytes given to signer.Decode")
				addVP(alg, k.didStr, "did:key string")
				addVP(alg, k.didStr[:len(k.didStr)-1], "did:key string truncated")
				addVP(alg, "did:key:"+z58(cat(uvarintBytes(0x0d1d), []byte(k.didStr[4:]))), "did:key string with generic payload")
			}
		}
		for alg := 0; alg < 2; alg++ {
			for _, s := range []string{"did:web:example.com", "did:key:", "did:key:z", "", "did:", "did:key:z6Mk"} {
				addVP(alg, s, "not a key")
			}
			// a generic DID of exactly 34 bytes
			addVP(alg, "did:web:"+strings.Repeat("a", 28), "generic DID of the length of an Ed25519 key")
		}
		// Wrap
		wrapIDs := [][]byte{cat(uvarintBytes(0x0d1d), []byte("web:example.com")), cat(uvarintBytes(0x0d1d), []byte("mailto:web.mail:alice")), keys[0].vb, cat(uvarintBytes(0x0d1d), []byte(""))}
		for i, k := range keys {
			for _, idb := range wrapIDs {
				id, err := did.Decode(idb)
				if err != nil {
					continue
				}
				var t c14Tabs
				t.addEncFor(k.vb)
				w, err := pverifier.Wrap(k.signer.Verifier(), id)
				obs := "None"
				if err == nil {
					obs = fmt.Sprintf("(Some (%s, %s))", hx(w.DID().Bytes()), hx(w.Encode()))
					// wrapping a wrapped verifier is refused unless it still prints as did:key
					_, err2 := pverifier.Wrap(w, id)
					if (err2 == nil) != strings.HasPrefix(id.String(), "did:key:") {
						direct = append(direct, c14Direct{"wrap-of-wrapped", "Wrap of a wrapped verifier: accepted/refused against its DID kind", map[string]any{"id": hex.EncodeToString(idb)}})
					}
				}
				wr = append(wr, fmt.Sprintf("(%s, %s, %s)", coqN(uint64(i)), hx(idb), obs))
				addIdx(file+"#5", "verifier-wrap", map[string]any{"alg": k.alg, "verifier": hex.EncodeToString(k.vb), "id": hex.EncodeToString(idb), "ok": err == nil})
			}
		}
		hdr := "From Ucanto Require Import Base Sig Did Crypto Check_C14.\nOpen Scope N_scope.\n"
		fmt.Fprintf(&sb, "Definition M := Eval vm_compute in map (fun i => (1, i)) (check_signs sigs keys signs).\nPrint M.\n")
		if err := c14WriteFile(o.out, file, sb.String()); err != nil {
			return err
		}
		// the remaining kinds in shards of their own (kind number = list number in the index)
		shard := func(kind int, name, typ, fn string, items []string, n int) error {
			for s := 0; s < n; s++ {
				var part []string
				for i := s; i < len(items); i += n {
					part = append(part, items[i])
				}
				var b strings.Builder
				b.WriteString(hdr)
				if fn == "check_wraps keys" {
					b.WriteString(tablesV)
				}
				fmt.Fprintf(&b, "Definition cs : list (%s) := %s.\n", typ, coqList(part))
				fmt.Fprintf(&b, "Definition M := Eval vm_compute in map (fun i => (%d, i * %d + %d)) (%s cs).\nPrint M.\n", kind, n, s, fn)
				if err := c14WriteFile(o.out, fmt.Sprintf("cases_C14_prin_%s_%02d.v", name, s), b.String()); err != nil {
					return err
				}
			}
			return nil
		}
		nsh := 4
		if o.tier == "thorough" {
			nsh = 8
		}
		if err := shard(2, "vdec", "N * bstr * list (bstr * bool) * option (bstr * bstr)", "check_vdecodes", vd, nsh); err != nil {
			return err
		}
		if err := shard(3, "vparse", "N * bstr * list (bstr * bool) * option (bstr * bstr)", "check_vparses", vp, 2); err != nil {
			return err
		}
		if err := shard(4, "sdec", "N * bstr * list (bstr * bool) * list (bstr * option bstr) * option (bstr * bstr * bstr)", "check_sdecodes", sd, nsh); err != nil {
			return err
		}
		if err := shard(5, "wrap", "N * bstr * option (bstr * bstr)", "check_wraps keys", wr, 2); err != nil {
			return err
		}
		// signer.Format / signer.Parse through multibase (gen_c14_base.go)
		sp, sf, nSP := c14SignerStrings(r, keys, o.tier, addIdx, file)
		if err := shard(6, "sparse", "N * bstr * list (bstr * bool) * list (bstr * option bstr) * option (bstr * bstr * bstr)", "check_sparses", sp, nsh); err != nil {
			return err
		}
		if err := shard(7, "sformat", "bstr * bstr", "check_sformats", sf, 1); err != nil {
			return err
		}
		c14ShardFn = shard
		stats["principal_cases"] = map[string]any{"sign": len(signItems), "verifier_decode": nV, "verifier_parse": len(vp), "signer_decode": nS, "wrap": len(wr),
			"signer_parse": nSP, "signer_format": len(sf)}
	}

	// ---- DID strings and bytes
	didHist := map[string]map[string]int{}
	bump := func(kind string, cls int) {
		if didHist[kind] == nil {
			didHist[kind] = map[string]int{}
		}
		didHist[kind][[]string{"error", "key", "other"}[cls]]++
	}
	var samples []map[string]any
	type dcase struct {
		line string
		rp   map[string]any
	}
	var dparse, ddec []dcase
	rtViol := func(kind string, o didObs, rp map[string]any) {
		if o.class == 0 {
			return
		}
		if !o.strOK {
			direct = append(direct, c14Direct{"did-string-panic", "String() panics on a DID that " + kind + " returned", rp})
		} else if !o.rtStr {
			direct = append(direct, c14Direct{"did-string-roundtrip", "Parse(String(d)) does not give back the DID d that " + kind + " returned (generic encoding of the method \"key\")", rp})
		}
		if !o.rtByte {
			direct = append(direct, c14Direct{"did-bytes-roundtrip", "Decode(Bytes(d)) does not give back the DID d that " + kind + " returned", rp})
		}
	}
	for i := 0; i < nDIDs; i++ {
		s, kind := genDIDString(r, keys, i)
		d, err := did.Parse(s)
		o := observeDID(d, err)
		var t c14Tabs
		t.addDecFor(s)
		if o.class == 1 {
			t.addEncFor(o.bytes)
		}
		bump(kind, o.class)
		rp := map[string]any{"kind": kind, "string": s, "string_hex": hex.EncodeToString([]byte(s)), "class": o.class, "bytes": hex.EncodeToString(o.bytes), "String()": o.str}
		rtViol("Parse", o, rp)
		line := fmt.Sprintf("(%s, %s, %s, %s)", hxs(s), coqN(uint64(o.class)), hx(o.bytes), o.coqStr())
		rp["coq"] = "check_did_parse " + line
		dparse = append(dparse, dcase{line, rp})
		if i%61 == 0 && len(samples) < 10 {
			samples = append(samples, rp)
		}
	}
	for i := 0; i < nDIDb; i++ {
		b, kind := genDIDBytes(r, keys, i)
		d, err := did.Decode(b)
		o := observeDID(d, err)
		var t c14Tabs
		if o.class == 1 {
			t.addEncFor(o.bytes)
		}
		bump("bytes: "+kind, o.class)
		rp := map[string]any{"kind": kind, "bytes_in": hex.EncodeToString(b), "class": o.class, "bytes": hex.EncodeToString(o.bytes), "String()": o.str}
		rtViol("Decode", o, rp)
		line := fmt.Sprintf("(%s, %s, %s, %s)", hx(b), coqN(uint64(o.class)), hx(o.bytes), o.coqStr())
		rp["coq"] = "check_did_decode " + line
		ddec = append(ddec, dcase{line, rp})
	}
	// the undefined DID prints as "" (no panic)
	{
		var s string
		if p := recovered(func() { s = did.Undef.String() }); p != nil || s != "" {
			direct = append(direct, c14Direct{"did-undef-string", "DID{}.String() panics or is not empty", map[string]any{}})
		}
	}
	for s := 0; s < shardsD; s++ {
		file := fmt.Sprintf("cases_C14_did_%02d.v", s)
		var a, b []string
		for i := s; i < len(dparse); i += shardsD {
			a = append(a, dparse[i].line)
			addIdx(file+"#1", "did-parse", dparse[i].rp)
		}
		for i := s; i < len(ddec); i += shardsD {
			b = append(b, ddec[i].line)
			addIdx(file+"#2", "did-decode", ddec[i].rp)
		}
		var sb strings.Builder
		sb.WriteString("From Ucanto Require Import Base Sig Did Crypto Check_C14.\nOpen Scope N_scope.\n")
		fmt.Fprintf(&sb, "Definition parses : list (bstr * N * bstr * option bstr) := %s.\n", coqList(a))
		fmt.Fprintf(&sb, "Definition decodes : list (bstr * N * bstr * option bstr) := %s.\n", coqList(b))
		sb.WriteString("Definition M := Eval vm_compute in map (fun i => (1, i)) (check_did_parses parses) ++ map (fun i => (2, i)) (check_did_decodes decodes).\nPrint M.\n")
		if err := c14WriteFile(o.out, file, sb.String()); err != nil {
			return err
		}
	}

	// ---- signature framing on arbitrary bytes
	{
		file := "cases_C14_sig.v"
		var sc, ns, nn []string
		alpha := []byte{0x00, 0x01, 0x05, 0x7f, 0x80, 0x81, 0xa1, 0xed, 0xff}
		var inputs [][]byte
		inputs = append(inputs, nil)
		for _, a := range alpha {
			inputs = append(inputs, []byte{a})
			for _, b := range alpha {
				inputs = append(inputs, []byte{a, b})
				for _, c := range alpha {
					inputs = append(inputs, []byte{a, b, c})
				}
			}
		}
		codes := []uint64{0, 1, 127, 128, signature.EdDSA, signature.RS256, signature.NON_STANDARD, 1<<63 - 1, 1 << 63, 1<<64 - 1}
		for i := 0; i < nSigRand; i++ {
			var b []byte
			switch r.Intn(5) {
			case 0:
				b = randBytes(r, r.Intn(14))
			case 1: // valid frame, maybe cut or extended
				b = signature.NewSignature(codes[r.Intn(len(codes))], randBytes(r, r.Intn(10))).Bytes()
				if r.Intn(2) == 0 {
					b = b[:r.Intn(len(b)+1)]
				} else if r.Intn(2) == 0 {
					b = append(b, randBytes(r, r.Intn(4))...)
				}
			case 2: // code, then arbitrary
				b = cat(uvarintBytes(codes[r.Intn(len(codes))]), randBytes(r, r.Intn(6)))
			case 3: // long continuation runs
				b = bytes.Repeat([]byte{0x80 | byte(r.Intn(128))}, r.Intn(12))
				b = append(b, byte(r.Intn(256)))
			default:
				b = cat(uvarintBytes(uint64(r.Intn(300))), uvarintBytes(uint64(r.Intn(300))), randBytes(r, r.Intn(8)))
			}
			inputs = append(inputs, b)
		}
		sigHist := map[string]int{}
		for _, b := range inputs {
			code, size, sok, raw, rok := observeSig(b)
			line := fmt.Sprintf("(%s, %s, %s, %s)", hx(b), coqN(code), coqOptN(size, sok), coqOptBytes(raw, rok))
			sc = append(sc, line)
			addIdx(file+"#1", "sig", map[string]any{"coq": "check_sig " + line, "bytes": hex.EncodeToString(b), "Code()": code, "Size()": size, "Size() returned": sok, "Raw()": hex.EncodeToString(raw), "Raw() returned": rok})
			switch {
			case !sok || !rok:
				sigHist["panic"]++
				direct = append(direct, c14Direct{"sig-framing-panic", "signature.Size()/Raw() panics on attacker-controlled bytes", map[string]any{"bytes": hex.EncodeToString(b)}})
			case code == 0:
				sigHist["code unreadable or 0"]++
			case len(raw) == 0:
				sigHist["code ok, raw empty"]++
			default:
				sigHist["code ok, raw non-empty"]++
			}
		}
		for _, c := range codes {
			for _, n := range []int{0, 1, 127, 128, 300} {
				raw := randBytes(r, n)
				ns = append(ns, fmt.Sprintf("(%s, %s, %s)", coqN(c), hx(raw), hx(signature.NewSignature(c, raw).Bytes())))
				addIdx(file+"#2", "new-signature", map[string]any{"code": c, "raw": hex.EncodeToString(raw)})
			}
		}
		for _, name := range []string{"", "EdDSA", "x"} {
			for _, n := range []int{0, 1, 64, 200} {
				raw := randBytes(r, n)
				nn = append(nn, fmt.Sprintf("(%s, %s, %s)", hxs(name), hx(raw), hx(signature.NewNonStandard(name, raw).Bytes())))
				addIdx(file+"#3", "new-non-standard", map[string]any{"name": name, "raw": hex.EncodeToString(raw)})
			}
		}
		nsh := 1
		if o.tier == "thorough" {
			nsh = 16
		}
		for s := 0; s < nsh; s++ {
			var part []string
			for i := s; i < len(sc); i += nsh {
				part = append(part, sc[i])
			}
			var sb strings.Builder
			sb.WriteString("From Ucanto Require Import Base Sig Did Crypto Check_C14.\nOpen Scope N_scope.\n")
			fmt.Fprintf(&sb, "Definition frames : list (bstr * N * option N * option bstr) := %s.\n", coqList(part))
			if s == 0 {
				fmt.Fprintf(&sb, "Definition news : list (N * bstr * bstr) := %s.\n", coqList(ns))
				fmt.Fprintf(&sb, "Definition nonstds : list (bstr * bstr * bstr) := %s.\n", coqList(nn))
				fmt.Fprintf(&sb, "Definition M := Eval vm_compute in map (fun i => (1, i * %d + %d)) (check_sigs frames) ++ map (fun i => (2, i)) (check_newsigs news) ++ map (fun i => (3, i)) (check_nonstds nonstds).\nPrint M.\n", nsh, s)
			} else {
				fmt.Fprintf(&sb, "Definition M := Eval vm_compute in map (fun i => (1, i * %d + %d)) (check_sigs frames).\nPrint M.\n", nsh, s)
			}
			name := file
			if s > 0 {
				name = fmt.Sprintf("cases_C14_sig_%02d.v", s)
			}
			if err := c14WriteFile(o.out, name, sb.String()); err != nil {
				return err
			}
		}
		stats["sig_frames"] = map[string]any{"inputs": len(inputs), "classes": sigHist, "new_signature": len(ns), "new_non_standard": len(nn)}
	}

	// ---- the base encodings: near misses, then everything the libraries answered this run
	baseStats, err := c14WriteBase(r, o, keys, addIdx)
	if err != nil {
		return err
	}
	stats["base_encodings"] = baseStats

	if c14OracleBad > 0 {
		direct = append(direct, c14Direct{"base58-oracle-law", "base58btc decode(encode(b)) != b for some non-empty b: the Go library does not satisfy BaseDec.b58_roundtrip", map[string]any{"bad": c14OracleBad}})
	}
	stats["base58_law_checked"] = c14OracleChecked
	stats["verify_cases"] = len(vcases)
	stats["verify_histogram"] = vhist
	stats["did_strings"] = len(dparse)
	stats["did_bytes"] = len(ddec)
	stats["did_histogram"] = didHist
	stats["samples"] = samples
	stats["messages"] = len(msgs)
	if err := writeJSON(o.out, "index.json", index); err != nil {
		return err
	}
	covDirect, covRuns := covC14(o.seed) // gen_cov.go: signature code <-> name, Encode / Decode, SignatureView.Verify
	direct = append(direct, covDirect...)
	stats["cov_direct_runs"] = covRuns
	if err := writeJSON(o.out, "direct.json", direct); err != nil {
		return err
	}
	return writeJSON(o.out, "stats.json", stats)
}

// c14-replay <kind> <hex...>: re-run one case on the implementation
func c14Replay(args []string) int {
	if len(args) < 2 {
		fmt.Fprintln(os.Stderr, "usage: harness c14-replay did-parse <hex string> | did-decode <hex> | sig <hex> | verify <alg> <verifier hex> <msg hex> <sig hex> | base <which> <hex> | signer-parse <alg> <hex string>")
		return 2
	}
	unhex := func(s string) []byte { b, _ := hex.DecodeString(s); return b }
	switch args[0] {
	case "did-parse", "did-decode":
		var d did.DID
		var err error
		if args[0] == "did-parse" {
			d, err = did.Parse(string(unhex(args[1])))
		} else {
			d, err = did.Decode(unhex(args[1]))
		}
		o := observeDID(d, err)
		fmt.Printf("class=%s bytes=%x String()=%q String() returned=%v Parse(String())==d: %v Decode(Bytes())==d: %v err=%v\n",
			[]string{"error", "key", "other"}[o.class], o.bytes, o.str, o.strOK, o.rtStr, o.rtByte, err)
	case "base": // base <which> <hex input>: what the Go base58 / multibase library answers now
		if len(args) < 3 {
			return 2
		}
		in := unhex(args[2])
		var out []byte
		ok := true
		switch args[1] {
		case "0":
			out, ok = b58decOracle(string(in))
		case "1":
			out, ok = mbDecodeOracle(string(in), "replay")
		case "2":
			out = []byte(b58encOracle(in))
		default:
			out = []byte(mb64encOracle(in))
		}
		fmt.Printf("ok=%v result=%x\n", ok, out)
	case "signer-parse": // signer-parse <alg> <hex string>
		if len(args) < 3 {
			return 2
		}
		alg := 0
		if args[1] == "1" {
			alg = 1
		}
		sg, err := algParseSigner(alg, string(unhex(args[2])))
		if err != nil {
			fmt.Printf("Parse: error (%v)\n", err)
		} else {
			fmt.Printf("Parse: ok Encode()=%x DID=%s\n", sg.Encode(), sg.DID().String())
		}
	case "sig":
		code, size, sok, raw, rok := observeSig(unhex(args[1]))
		fmt.Printf("Code()=%#x Size()=%d (returned %v) Raw()=%x (returned %v)\n", code, size, sok, raw, rok)
	case "verify":
		if len(args) < 5 {
			return 2
		}
		alg := 0
		if args[1] == "1" {
			alg = 1
		}
		v, err := algDecodeVerifier(alg, unhex(args[2]))
		if err != nil {
			fmt.Println("verifier does not decode:", err)
			return 1
		}
		var res bool
		p := recovered(func() { res = v.Verify(unhex(args[3]), signature.Decode(unhex(args[4]))) })
		fmt.Printf("Verify=%v panic=%v\n", res, p)
	default:
		return 2
	}
	return 0
}


// sameSigner: every observable of the two signers agrees (not only Encode and DID)
func sameSigner(a, b principal.Signer) string {
	switch {
	case a.Code() != b.Code():
		return "Code()"
	case !bytes.Equal(a.Raw(), b.Raw()):
		return "Raw()"
	case a.SignatureCode() != b.SignatureCode():
		return "SignatureCode()"
	case a.SignatureAlgorithm() != b.SignatureAlgorithm():
		return "SignatureAlgorithm()"
	case !bytes.Equal(a.Verifier().Encode(), b.Verifier().Encode()):
		return "Verifier().Encode()"
	case !bytes.Equal(a.Verifier().Raw(), b.Verifier().Raw()):
		return "Verifier().Raw()"
	case a.Verifier().Code() != b.Verifier().Code():
		return "Verifier().Code()"
	case a.Verifier().DID() != b.Verifier().DID():
		return "Verifier().DID()"
	}
	return ""
}
