package main

import (
	"fmt"
	"math/rand"
	"strings"

	"github.com/storacha/go-ucanto/ucan"
	"github.com/storacha/go-ucanto/validator"
)

// C16: exhaustive string pairs over a small alphabet + random realistic ones.

var c16Alphabet = []byte{'a', 'b', 'A', '/', '*', ':'}

func stringsOfLen(n int) []string {
	if n == 0 {
		return []string{""}
	}
	tails := stringsOfLen(n - 1)
	var res []string
	for _, c := range c16Alphabet {
		for _, t := range tails {
			res = append(res, string(c)+t)
		}
	}
	return res
}

func allStrings(l int) []string {
	var res []string
	for n := 0; n <= l; n++ {
		res = append(res, stringsOfLen(n)...)
	}
	return res
}

func codeStr(f func() string, want string) int {
	var r string
	if p := recovered(func() { r = f() }); p != nil {
		return 3
	}
	if r == want {
		return 1
	}
	if r == "" {
		return 0
	}
	return 2
}

func pairCode(p, c string) int {
	ra := codeStr(func() string { return validator.ResolveAbility(p, c) }, c)
	rr := codeStr(func() string { return validator.ResolveResource(p, c) }, c)
	dd := 0
	if pn := recovered(func() {
		claimed := ucan.NewCapability[any]("x/y", c, nil)
		delegated := ucan.NewCapability[any]("x/y", p, nil)
		if validator.DefaultDerives(claimed, delegated) == nil {
			dd = 1
		}
	}); pn != nil {
		dd = 3
	}
	return ra + 4*rr + 16*dd
}

var c16Resources = []string{
	"did:key:z6MkhaXgBZDvotDkL5257faiztiGiC2QtKLGpbnnEGta2doK", "did:key:z6MkhaXgBZDvotDkL5257faiztiGiC2QtKLGpbnnEGta2dok",
	"did:key:zDnaerDaTF5BXEavCrfRZEk316dpbLsfPDZ3WJ5hRTPFU2169", "did:key:zDnaerx9CtbPJ1q36T5Ln5wYt3MQYeGRG5ehnPAmxcf5mDZpv",
	"did:key:zQ3shokFTS3brHcDQrn82RUDfCZESWL1ZdCEJwekUDPQiYBme", "did:key:zQ3shtxV1FrJfhqE1dvxYRcCknWNjHc3c5X1y3ZSoPDi2aur2",
	"did:key:a", "did:key:b", "did:key:", "did:key:z", "did:key:z0OIl", "did:key:*", "did:key:z6Mk*",
	"did:web:example.com", "did:web:example.com:user", "did:web:Example.com", "did:mailto:example.com:alice", "did:*", "did:", "did",
	"https://example.com", "https://example.com/", "https://example.com/*", "https://Example.com", "https://example.com/a", "https://example.com/a/",
	"a://b", "a://b/", "a://", "a:/", "ucan:*", "*", "", "urn:thing:1", "urn:thing:2", "file:///home/alice/", "file:///home/alice/notes",
}

func randomRealistic(r *rand.Rand) (string, string) {
	segs := []string{"store", "storefront", "upload", "space", "blob", "add", "remove", "list", "Store", "st", "*", "ucan", "did", "key", "zAlice", "mailto", "web.mail", "alice", "https", "example.com", ""}
	mk := func(sep string) string {
		n := 1 + r.Intn(4)
		var ps []string
		for i := 0; i < n; i++ {
			ps = append(ps, segs[r.Intn(len(segs))])
		}
		return strings.Join(ps, sep)
	}
	sep := []string{"/", ":", "/", ":", ""}[r.Intn(5)]
	c := mk(sep)
	var p string
	switch r.Intn(8) {
	case 0:
		p = c
	case 1:
		p = "*"
	case 2:
		p = "ucan:*"
	case 3: // proper wildcard of a prefix segment
		i := strings.LastIndex(c, sep)
		if r.Intn(2) == 0 {
			i = strings.Index(c, sep) // the shortest parent namespace instead of the longest
		}
		if sep != "" && i > 0 {
			p = c[:i] + sep + "*"
		} else {
			p = c + "*"
		}
	case 4: // cut anywhere and append a star
		k := r.Intn(len(c) + 1)
		p = c[:k] + "*"
	case 5: // near miss: drop or change one byte
		if len(c) > 1 {
			k := r.Intn(len(c))
			p = c[:k] + c[k+1:]
		} else {
			p = c + "x"
		}
	case 6:
		k := r.Intn(len(c) + 1)
		p = c[:k] + "/*"
	default:
		p = mk(sep)
	}
	return p, c
}

func init() {
	gens["C16"] = func(o genOpts) error {
		L := 3
		shards := 4
		nrand := 3000
		if o.tier == "thorough" {
			L, shards, nrand = 4, 16, 20000
		}
		strs := allStrings(L)
		hist := map[int]int{}
		rows := make([]string, len(strs))
		for i, p := range strs {
			var sb strings.Builder
			for _, c := range strs {
				code := pairCode(p, c)
				hist[code]++
				sb.WriteByte(byte(48 + code))
			}
			rows[i] = sb.String()
		}
		per := (len(strs) + shards - 1) / shards
		for k := 0; k < shards; k++ {
			lo, hi := k*per, (k+1)*per
			if hi > len(strs) {
				hi = len(strs)
			}
			var items []string
			for i := lo; i < hi; i++ {
				items = append(items, fmt.Sprintf(`(%d%%N, "%s")`, i, rows[i]))
			}
			var sb strings.Builder
			sb.WriteString("From Ucanto Require Import Base Pattern Check_C16.\nOpen Scope string_scope.\n")
			fmt.Fprintf(&sb, "Definition rows : list (N * string) := %s.\n", coqList(items))
			fmt.Fprintf(&sb, "Definition M := Eval vm_compute in check_rows %d rows.\nPrint M.\n", L)
			if err := writeFile(o.out, fmt.Sprintf("cases_C16_%02d.v", k), sb.String()); err != nil {
				return err
			}
		}
		// random realistic pairs
		r := rand.New(rand.NewSource(o.seed))
		var items []string
		var samples []map[string]any
		rhist := map[int]int{}
		for i := 0; i < nrand; i++ {
			p, c := randomRealistic(r)
			code := pairCode(p, c)
			rhist[code]++
			items = append(items, fmt.Sprintf("(%s, %s, %d%%N)", hxs(p), hxs(c), code))
			if i < 8 {
				samples = append(samples, map[string]any{"pattern": p, "claimed": c, "code": code})
			}
		}
		// every ordered pair of resource-like strings: decodable and undecodable did:key values (Ed25519, RSA-like, P-256,
		// secp256k1, bad base58, empty), other DID methods, URLs differing by case, trailing slash, one byte
		for _, p := range c16Resources {
			for _, c := range c16Resources {
				code := pairCode(p, c)
				rhist[code]++
				items = append(items, fmt.Sprintf("(%s, %s, %d%%N)", hxs(p), hxs(c), code))
			}
		}
		nrand += len(c16Resources) * len(c16Resources)
		var sb strings.Builder
		sb.WriteString("From Ucanto Require Import Base Pattern Check_C16.\n")
		fmt.Fprintf(&sb, "Definition cases : list (bstr * bstr * N) := %s.\n", coqList(items))
		sb.WriteString("Definition M := Eval vm_compute in check_random cases.\nPrint M.\n")
		if err := writeFile(o.out, "cases_C16_rand.v", sb.String()); err != nil {
			return err
		}
		return writeJSON(o.out, "stats.json", map[string]any{
			"alphabet": string(c16Alphabet), "max_len": L, "strings": len(strs),
			"pairs": len(strs) * len(strs), "code_histogram_exhaustive": hist,
			"random_pairs": nrand, "code_histogram_random": rhist, "samples": samples,
			"code_meaning": "ra + 4*rr + 16*dd; ra/rr: 1 = returns the claimed string, 0 = returns \"\", 2 = other, 3 = panic; dd: 1 = DefaultDerives accepts, 3 = panic",
			"strings_list": strs,
		})
	}
}
