package main

// gen_cov.go — generator extensions driven by the statement-coverage profile of the quick tier
// (notes/NOTES_COV.md): API variants, options and branches of the library that no generator reached.
//
//   world hooks (world.go):  tokens issued through CapabilityParser.Delegate / Invoke, invocation.Invoke and read
//                            with invocation.NewInvocation; the default expiration of ucan.Issue; rendering of the
//                            Unauthorized error; a principal parser that also knows did:web
//   worlds:                  invocations with several capabilities (unknown abilities next to the claimed one),
//                            default-expiration tokens, a key resolver answering with a non-key DID,
//                            validator.Claim called with top-level proofs that are links (coq/Check_Claim.v)
//   direct oracles:          C07 (default expiration, facts read back, reserved-form facts, failing builders),
//                            C12 (CarBlock.Offset/Length), C13 (block store options, invocation.NewInvocation,
//                            Extract / Parse refusals, receipts of another implementation in message.Build),
//                            C14 (signature code <-> name, Encode/Decode, SignatureView.Verify)

import (
	"bytes"
	"crypto/sha256"
	"encoding/hex"
	"fmt"
	"io"
	"iter"
	"strings"
	"time"

	"github.com/ipfs/go-cid"
	"github.com/ipld/go-ipld-prime/datamodel"
	"github.com/ipld/go-ipld-prime/node/basicnode"
	mbase "github.com/multiformats/go-multibase"
	mh "github.com/multiformats/go-multihash"
	"github.com/storacha/go-ucanto/client"
	"github.com/storacha/go-ucanto/core/car"
	"github.com/storacha/go-ucanto/core/dag/blockstore"
	"github.com/storacha/go-ucanto/core/delegation"
	"github.com/storacha/go-ucanto/core/invocation"
	"github.com/storacha/go-ucanto/core/invocation/ran"
	"github.com/storacha/go-ucanto/core/ipld"
	"github.com/storacha/go-ucanto/core/message"
	"github.com/storacha/go-ucanto/core/receipt"
	"github.com/storacha/go-ucanto/core/result"
	"github.com/storacha/go-ucanto/core/result/failure"
	"github.com/storacha/go-ucanto/core/result/ok"
	"github.com/storacha/go-ucanto/did"
	"github.com/storacha/go-ucanto/transport"
	"github.com/storacha/go-ucanto/ucan"
	"github.com/storacha/go-ucanto/ucan/crypto/signature"
	"github.com/storacha/go-ucanto/validator"
)

// ---------------------------------------------------------------------------
// world hooks

// covDefaultExp: a token issued without any expiration option expires 30 s after the second of issuance
func covDefaultExp(d delegation.Delegation, t0, t1 int) string {
	e := d.Expiration()
	if e == nil {
		return "Expiration() = none, issued without an expiration option (documented default: 30 s from now)"
	}
	if *e < t0+30 || *e > t1+30 {
		return fmt.Sprintf("Expiration() = issuance%+d s, issued without an expiration option (documented default: 30 s from now)", *e-t0)
	}
	return ""
}

func sameToken(a, b delegation.Delegation) bool {
	return a != nil && b != nil && a.Link().String() == b.Link().String() && bytes.Equal(a.Root().Bytes(), b.Root().Bytes())
}

func blockLinks(v interface {
	Blocks() iter.Seq2[ipld.Block, error]
}) string {
	var ls []string
	for b, err := range v.Blocks() {
		if err != nil {
			ls = append(ls, "error")
			continue
		}
		ls = append(ls, b.Link().String())
	}
	return strings.Join(ls, ",")
}

// covIssueVariants: how most applications issue tokens — through the helper methods of the capability they declared
// (CapabilityParser.Delegate / Invoke / New) and invocation.Invoke — must give the token delegation.Delegate gives for
// the same arguments (signing is deterministic for every signer of the cast); invocation.NewInvocation over the root
// block reads the same token.  Returns a description of the first difference (the first result is reserved: nil).
func covIssueVariants(w *World, sp *TokSpec, sg ucan.Signer, opts []delegation.Option, d delegation.Delegation) (delegation.Delegation, string) {
	if w.ID%2 != 0 || len(sp.Caps) != 1 {
		return nil, ""
	}
	c := sp.Caps[0]
	cav, isCav := c.Nb.(Cav)
	if !isCav {
		return nil, ""
	}
	desc := (&World{Can: c.Can}).descriptor(&Obs{})
	d2, err := desc.Delegate(sg, sp.Audience.DID, c.With, cav, opts...)
	if err != nil || !sameToken(d2, d) {
		return nil, fmt.Sprintf("CapabilityParser.Delegate() = another token (or an error: %v) than delegation.Delegate issues for the same arguments", err)
	}
	if blockLinks(d2) != blockLinks(d) {
		return nil, "CapabilityParser.Delegate().Blocks() = another block sequence than delegation.Delegate gives for the same arguments"
	}
	iv, err := desc.Invoke(sg, sp.Audience.DID, c.With, cav, opts...)
	if err != nil || !sameToken(iv, d) {
		return nil, fmt.Sprintf("CapabilityParser.Invoke() = another token (or an error: %v) than delegation.Delegate issues for the same arguments", err)
	}
	iv2, err := invocation.Invoke(sg, sp.Audience.DID, ucan.NewCapability[ucan.CaveatBuilder](c.Can, c.With, cav), opts...)
	if err != nil || !sameToken(iv2, d) || blockLinks(iv2) != blockLinks(d) {
		return nil, fmt.Sprintf("invocation.Invoke() = another token (or an error: %v) than delegation.Delegate issues for the same arguments", err)
	}
	if nc := desc.New(c.With, cav); nc.Can() != c.Can || nc.With() != c.With {
		return nil, fmt.Sprintf("CapabilityParser.New() = %s on %s, asked for %s on %s", nc.Can(), nc.With(), c.Can, c.With)
	}
	br, err := blockstore.NewBlockReader(blockstore.WithBlocksIterator(d.Blocks()))
	if err != nil {
		return nil, "blockstore.NewBlockReader() = error over the blocks of a freshly issued token: " + err.Error()
	}
	nv, err := invocation.NewInvocation(d.Root(), br)
	if err != nil || !sameToken(nv, d) || blockLinks(nv) != blockLinks(d) || len(nv.Capabilities()) != 1 ||
		nv.Issuer().DID() != d.Issuer().DID() || nv.Audience().DID() != d.Audience().DID() {
		return nil, fmt.Sprintf("invocation.NewInvocation() = another token (or an error: %v) than the one whose root block and blocks it was given", err)
	}
	// (the helper-issued tokens are byte-identical with identical block sequences; the world keeps its own token)
	_, _, _ = d2, iv, nv
	return nil, ""
}

// covRenderError: the Unauthorized error can be rendered (a server puts its message into the receipt) — small worlds only
func covRenderError(w *World, x validator.Unauthorized) {
	if len(w.Specs) > 12 {
		return
	}
	_ = x.Error()
	_, _ = failure.FromError(x).ToIPLD()
}

// ---------------------------------------------------------------------------
// validator.Claim with top-level proofs given as links

// RunClaim calls validator.Claim with the given top-level proofs (Inline: the delegation itself; otherwise its link).
// Returns the observations and the model ids of the links reported as unavailable proofs.
func (w *World) RunClaim(top []ProofRef) (*Obs, []int) {
	obs := &Obs{}
	var prfs []delegation.Proof
	for _, pr := range top {
		b := w.built[pr.Tok]
		if pr.Inline {
			prfs = append(prfs, delegation.FromDelegation(b.Dlg))
		} else {
			prfs = append(prfs, delegation.FromLink(b.Dlg.Link()))
		}
	}
	var unavailable []int
	obs.NowBefore = int(time.Now().Unix())
	if p := recovered(func() {
		a, x := validator.Claim[Cav](w.descriptor(obs), prfs, w.vctx(obs))
		if x == nil && a != nil {
			obs.Authorized = true
			obs.Path = walkAuth(a)
		} else if x != nil {
			for _, ip := range x.InvalidProofs() {
				if _, ok := ip.(validator.Revoked); ok {
					obs.ErrRevoked = true
				}
				if up, ok := ip.(validator.UnavailableProof); ok {
					unavailable = append(unavailable, w.lid(up.Link()))
				}
			}
			covRenderError(w, x)
		}
	}); p != nil {
		obs.Panic = fmt.Sprint(p)
	}
	obs.NowAfter = int(time.Now().Unix())
	w.Ctx.Now = obs.NowBefore
	return obs, unavailable
}

func (w *World) coqClaim(top []ProofRef, obs *Obs, unavailable []int) string {
	wc := w.Coq(obs)
	var tp []string
	for _, pr := range top {
		b := w.built[pr.Tok]
		if pr.Inline {
			tp = append(tp, "TDlg "+w.coqDlg(b.Dlg))
		} else {
			tp = append(tp, fmt.Sprintf("TLink %d", w.lid(b.Dlg.Link())))
		}
	}
	var un []string
	for _, u := range unavailable {
		un = append(un, fmt.Sprint(u))
	}
	return fmt.Sprintf("{| cc_world := %s;\n cc_top := [%s];\n cc_unavailable := [%s] |}", wc, strings.Join(tp, "; "), strings.Join(un, "; "))
}

// covClaimCases: chains of depth 1..3 (proofs inline, or cited by link and supplied by the resolver) claimed through
// validator.Claim with different top-level proof lists.
func covClaimCases(seed int64, idBase int, st *worldStats, labels map[int]string) ([]string, error) {
	var cases []string
	id := idBase
	far := int(ucan.Now()) + 1000000
	variants := []string{"inline", "link-resolvable", "link-unresolvable", "unresolvable-around-inline", "two-unresolvable",
		"holder-delegation", "forged-inline+unresolvable", "resolvable+unresolvable+inline-duplicate", "stranger-inline+link-resolvable"}
	for depth := 1; depth <= 3; depth++ {
		for _, linked := range []bool{false, true} {
			for _, v := range variants {
				cast := newCast(seed*4273 + int64(id))
				service := cast.Ed("service")
				with := cast.Ed("p0").DID.String()
				specs := linearChain(cast, service, "store/add", with, depth, far, Cav{})
				w := &World{ID: id, Kind: "claim-links", Cast: cast, Can: "store/add", Inv: "inv", Ctx: baseCtx(service)}
				if linked {
					for _, sp := range specs {
						for i := range sp.Proofs {
							sp.Proofs[i].Inline = false
							w.Ctx.Resolvable[sp.Proofs[i].Tok] = true
						}
					}
				}
				// two tokens nobody can resolve, and a stranger's self-made delegation of the same resource
				junk1 := &TokSpec{Name: "junk1", Issuer: cast.Ed("carol"), Audience: cast.Ed("bob"), Exp: &far, Nonce: "j1",
					Caps: []CapSpec{{Can: "store/add", With: cast.Ed("carol").DID.String(), Nb: Cav{}}}}
				junk2 := &TokSpec{Name: "junk2", Issuer: cast.Ed("carol"), Audience: cast.Ed("bob"), Exp: &far, Nonce: "j2",
					Caps: []CapSpec{{Can: "store/add", With: cast.Ed("carol").DID.String(), Nb: Cav{}}}}
				stranger := &TokSpec{Name: "stranger", Issuer: cast.Ed("mallory"), Audience: service, Exp: &far,
					Caps: []CapSpec{{Can: "store/add", With: with, Nb: Cav{}}}}
				specs = append([]*TokSpec{junk1, junk2, stranger}, specs...)
				inv := specs[len(specs)-1]
				var top []ProofRef
				switch v {
				case "inline":
					top = []ProofRef{{Tok: "inv", Inline: true}}
				case "link-resolvable":
					w.Ctx.Resolvable["inv"] = true
					top = []ProofRef{{Tok: "inv", Inline: false}}
				case "link-unresolvable":
					top = []ProofRef{{Tok: "inv", Inline: false}}
				case "unresolvable-around-inline":
					top = []ProofRef{{Tok: "junk1", Inline: false}, {Tok: "inv", Inline: true}, {Tok: "junk2", Inline: false}}
				case "two-unresolvable":
					top = []ProofRef{{Tok: "junk2", Inline: false}, {Tok: "junk1", Inline: false}}
				case "holder-delegation":
					// the last delegation of the chain claimed directly (its holder has not invoked anything yet)
					top = []ProofRef{{Tok: "junk1", Inline: false}, {Tok: specs[len(specs)-2].Name, Inline: true}}
				case "forged-inline+unresolvable":
					inv.SignedBy = cast.Ed("mallory")
					top = []ProofRef{{Tok: "inv", Inline: true}, {Tok: "junk1", Inline: false}}
				case "resolvable+unresolvable+inline-duplicate":
					w.Ctx.Resolvable["inv"] = true
					top = []ProofRef{{Tok: "junk1", Inline: false}, {Tok: "inv", Inline: false}, {Tok: "inv", Inline: true}}
				case "stranger-inline+link-resolvable":
					w.Ctx.Resolvable["inv"] = true
					top = []ProofRef{{Tok: "stranger", Inline: true}, {Tok: "junk2", Inline: false}, {Tok: "inv", Inline: false}}
				}
				w.Specs = specs
				if err := w.Build(); err != nil {
					return nil, err
				}
				obs, un := w.RunClaim(top)
				label := fmt.Sprintf("validator.Claim top-level proofs=%s depth=%d chain-proofs=%s", v, depth, map[bool]string{false: "inline", true: "by link"}[linked])
				labels[id] = label
				st.Worlds++
				st.Kinds[w.Kind]++
				if obs.Authorized {
					st.Authorized++
				}
				st.Verifies += len(obs.Verifies)
				if obs.Panic != "" {
					st.Panics++
					st.PanicList = append(st.PanicList, fmt.Sprintf("world %d (%s): %s", w.ID, label, obs.Panic))
				}
				st.Signatures[fmt.Sprintf("%s|auth=%v|path=%d|verifs=%d|unavailable=%d", label, obs.Authorized, len(obs.Path), len(obs.Verifies), len(un))]++
				cases = append(cases, w.coqClaim(top, obs, un))
				id++
			}
		}
	}
	return cases, nil
}

func writeClaimCases(dir, prefix string, cases []string) error {
	if len(cases) == 0 {
		return nil
	}
	var sb bytes.Buffer
	sb.WriteString("From Ucanto Require Import Base Pattern Time Validator Check_Validator Check_Claim.\nOpen Scope N_scope.\n")
	defs, body := internHex(coqList(cases))
	sb.WriteString(defs)
	fmt.Fprintf(&sb, "Definition cases : list ccase := %s.\n", body)
	sb.WriteString("Definition M := Eval vm_compute in check_claims cases.\nPrint M.\n")
	return writeFile(dir, prefix+"_00.v", sb.String())
}

// ---------------------------------------------------------------------------
// extra worlds for validator.Access

// covExtraWorlds: (a) invocations / delegations carrying a capability of an ability the descriptor does not know next to
// the claimed one (ParseCapability's unknown-capability branch: the other capability must still be found, and an
// invocation with ONLY unknown abilities is not authorized); (b) tokens issued without an expiration option (library
// default) as invocation and as proof; (c) a key resolver that answers with a non-key DID the principal parser knows
// (verifier.Wrap refuses it: the token is not acceptable).
func covExtraWorlds(seed int64, idBase int, sessions bool) ([]*World, []string) {
	var ws []*World
	var labels []string
	id := idBase
	far := int(ucan.Now()) + 1000000
	add := func(w *World, label string) {
		w.ID = id
		id++
		ws = append(ws, w)
		labels = append(labels, label)
	}
	for depth := 0; depth <= 3; depth++ {
		for _, v := range []string{"unknown-first", "unknown-last", "only-unknown", "unknown-between-foreign", "proof-unknown-first", "default-exp-inv", "default-exp-proof", "default-exp-all"} {
			if depth == 0 && strings.Contains(v, "proof") {
				continue
			}
			cast := newCast(seed*5531 + int64(id))
			service := cast.Ed("service")
			with := cast.Ed("p0").DID.String()
			specs := linearChain(cast, service, "store/add", with, depth, far, Cav{Max: i64(3)})
			inv := specs[len(specs)-1]
			claim := inv.Caps[0]
			other := CapSpec{Can: "debug/echo", With: with, Nb: Cav{}}
			other2 := CapSpec{Can: "store/remove", With: with, Nb: Cav{Tag: strp("x")}}
			switch v {
			case "unknown-first":
				inv.Caps = []CapSpec{other, claim}
			case "unknown-last":
				inv.Caps = []CapSpec{claim, other2}
			case "only-unknown":
				inv.Caps = []CapSpec{other, other2}
			case "unknown-between-foreign":
				// the claimed ability twice: on a resource the chain does not reach, then (after an unknown one) on the right one
				inv.Caps = []CapSpec{{Can: "store/add", With: cast.Ed("carol").DID.String(), Nb: Cav{}}, other, claim}
			case "proof-unknown-first":
				specs[0].Caps = []CapSpec{other, other2, specs[0].Caps[0]}
			case "default-exp-inv":
				inv.DefaultExp, inv.Exp = true, nil
			case "default-exp-proof":
				specs[0].DefaultExp, specs[0].Exp = true, nil
			case "default-exp-all":
				for _, sp := range specs {
					sp.DefaultExp, sp.Exp = true, nil
				}
			}
			w := &World{Kind: "cov-extra", Cast: cast, Can: "store/add", Inv: "inv", Specs: specs, Ctx: baseCtx(service)}
			add(w, fmt.Sprintf("depth=%d %s", depth, v))
		}
	}
	if sessions {
		for pos := 0; pos <= 2; pos++ {
			for _, att := range []string{"none", "this"} {
				w, label := sessionWorld(seed, id, sessOpts{Attested: att, AttIssuer: "authority", Resource: "authority", Window: "valid", Pos: pos, Resolver: "webkey"})
				add(w, "session "+label)
			}
		}
	}
	return ws, labels
}

// ---------------------------------------------------------------------------
// batches for servers built with the library's defaults

func covBatches(seed int64, idBase int) []*Batch {
	var bs []*Batch
	id := idBase
	far := int(ucan.Now()) + 1000000
	for depth := 1; depth <= 2; depth++ {
		for _, v := range []string{"inline", "by-link", "inline+dangling", "by-link+inline-duplicate"} {
			for _, kind := range []string{"ok", "fail"} {
				cast := newCast(seed*8191 + int64(id))
				service := cast.Ed("service")
				with := cast.Ed("p0").DID.String()
				specs := linearChain(cast, service, "store/add", with, depth, far, Cav{})
				inv := specs[len(specs)-1]
				switch v {
				case "by-link":
					inv.Proofs[0].Inline = false
				case "inline+dangling":
					inv.Dangling = 1
				case "by-link+inline-duplicate":
					inv.Proofs = append([]ProofRef{{Tok: inv.Proofs[0].Tok, Inline: false}}, inv.Proofs...)
				}
				w := &World{ID: id, Kind: "batch-defaults", Cast: cast, Can: "store/add", Inv: "inv", Specs: specs, Ctx: baseCtx(service)}
				bs = append(bs, &Batch{ID: id, W: w, Invs: []string{"inv"}, Handlers: map[string]string{"store/add": kind}, DefaultOpts: true,
					Label: fmt.Sprintf("server with default options, depth=%d proof=%s handler=%s", depth, v, kind)})
				id++
			}
		}
	}
	return bs
}

// ---------------------------------------------------------------------------
// client connection

// covConnAccessors: a connection reports the principal, channel, codec and hasher it was built with (SHA-256 by default)
func covConnAccessors(conn client.Connection, id did.DID, ch transport.Channel) (mm string) {
	if p := recovered(func() {
		if conn.ID() == nil || conn.ID().DID() != id {
			mm = "Connection.ID() is not the principal the connection was made for"
			return
		}
		if conn.Codec() == nil || conn.Channel() == nil {
			mm = "Connection.Codec() / Channel() is nil"
			return
		}
		h := conn.Hasher()
		if h == nil {
			mm = "Connection.Hasher() is nil"
			return
		}
		h.Write([]byte("abc"))
		want := sha256.Sum256([]byte("abc"))
		if !bytes.Equal(h.Sum(nil), want[:]) {
			mm = "Connection.Hasher() is not SHA-256"
		}
	}); p != nil {
		mm = fmt.Sprintf("Connection accessors panicked: %v", p)
	}
	return mm
}

// ---------------------------------------------------------------------------
// C07

type failingNb struct{}

func (failingNb) ToIPLD() (datamodel.Node, error) { return nil, fmt.Errorf("caveats cannot be built") }

type nilNb struct{}

func (nilNb) ToIPLD() (datamodel.Node, error) { return nil, nil }

type failingFact struct{}

func (failingFact) ToIPLD() (map[string]datamodel.Node, error) {
	return nil, fmt.Errorf("fact cannot be built")
}

type mapFact map[string]datamodel.Node

func (m mapFact) ToIPLD() (map[string]datamodel.Node, error) { return m, nil }

func covC07(seed int64) (direct []map[string]any, runs int) {
	cast := newCast(seed*911 + 7)
	bad := func(label, what string) {
		direct = append(direct, map[string]any{"token": -2, "label": "cov: " + label, "what": what})
	}
	issuers := []*Prin{cast.Ed("alice"), cast.RSA("rsa0", 0), cast.Wrapped("web", "did:web:alice.example", cast.Ed("webkey"))}
	aud := cast.Ed("bob")
	for _, iss := range issuers {
		caps := []ucan.Capability[ucan.CaveatBuilder]{ucan.NewCapability[ucan.CaveatBuilder]("store/add", iss.DID.String(), Cav{Max: i64(5)})}
		// (1) NO expiration option at all, through the three entry points
		for _, how := range []string{"ucan.Issue", "delegation.Delegate", "invocation.Invoke"} {
			runs++
			label := how + " without an expiration option, issuer " + iss.Name
			t0 := int(time.Now().Unix())
			var view ucan.View
			var err error
			switch how {
			case "ucan.Issue":
				view, err = ucan.Issue(iss.Signer, aud.DID, caps, ucan.WithNonce("n"))
			case "delegation.Delegate":
				var d delegation.Delegation
				d, err = delegation.Delegate(iss.Signer, aud.DID, caps, delegation.WithNonce("n"))
				if err == nil {
					view = d.Data()
				}
			case "invocation.Invoke":
				var d delegation.Delegation
				d, err = invocation.Invoke(iss.Signer, aud.DID, caps[0])
				if err == nil {
					view = d.Data()
				}
			}
			t1 := int(time.Now().Unix())
			if err != nil {
				bad(label, "issuing failed: "+err.Error())
				continue
			}
			e := view.Expiration()
			if e == nil || *e < t0+30 || *e > t1+30 {
				bad(label, fmt.Sprintf("expiration is %s, the documented default is 30 s from now (%d..%d)", coqOptZ(e), t0+30, t1+30))
				continue
			}
			if ucan.IsExpired(view) || ucan.IsTooEarly(view) {
				bad(label, "a token issued a moment ago with the default expiration is outside its validity window")
			}
			if okv, verr := ucan.VerifySignature(view, iss.Real); verr != nil || !okv {
				bad(label, "freshly issued token does not verify against its issuer")
			}
			// transported
			if td, _, derr := reDecode(view.Model()); derr != nil {
				bad(label, "token does not decode after encoding: "+derr.Error())
			} else if okv, verr := ucan.VerifySignature(td.Data(), iss.Real); verr != nil || !okv {
				bad(label, "token does not verify after encode/decode")
			} else if te := td.Expiration(); te == nil || *te != *e {
				bad(label, "expiration differs after encode/decode")
			}
			// the defaulted expiration is signed: moving it (or dropping it) breaks the signature
			for _, alt := range []string{"exp+1", "exp-dropped"} {
				m := *view.Model()
				if alt == "exp+1" {
					x := *e + 1
					m.Exp = &x
				} else {
					m.Exp = nil
				}
				av, _ := ucan.NewUCAN(&m)
				if okv, verr := ucan.VerifySignature(av, iss.Real); verr == nil && okv {
					direct = append(direct, map[string]any{"token": -2, "label": "cov: " + label, "alteration": "default-" + alt,
						"what": "token with a defaulted expiration still verifies after altering " + alt})
				}
			}
			if okv, verr := ucan.VerifySignature(view, aud.Real); verr == nil && okv {
				bad(label, "token verifies against another principal bob")
			}
		}
		// (2) facts are signed and read back
		runs++
		facts := []ucan.FactBuilder{mapFact{"challenge": basicnode.NewString("abc"), "n": basicnode.NewInt(7)}, mapFact{"/": basicnode.NewInt(1)}, mapFact{}}
		fv, err := ucan.Issue(iss.Signer, aud.DID, caps, ucan.WithFacts(facts), ucan.WithExpiration(farFuture))
		label := "facts, issuer " + iss.Name
		if err != nil {
			bad(label, "issuing failed: "+err.Error())
		} else {
			got := fv.Facts()
			okf := len(got) == 3 && len(got[0]) == 2 && len(got[1]) == 1 && len(got[2]) == 0
			if okf {
				c, _ := got[0]["challenge"].(datamodel.Node)
				n, _ := got[0]["n"].(datamodel.Node)
				s, _ := got[1]["/"].(datamodel.Node)
				okf = c != nil && n != nil && s != nil
				if okf {
					cs, e1 := c.AsString()
					ni, e2 := n.AsInt()
					si, e3 := s.AsInt()
					okf = e1 == nil && e2 == nil && e3 == nil && cs == "abc" && ni == 7 && si == 1
				}
			}
			if !okf {
				bad(label, "Facts() does not give back the facts the token was issued with")
			}
			if okv, verr := ucan.VerifySignature(fv, iss.Real); verr != nil || !okv {
				bad(label, "freshly issued token does not verify against its issuer")
			}
			if td, _, derr := reDecode(fv.Model()); derr != nil {
				bad(label, "token does not decode after encoding: "+derr.Error())
			} else if okv, verr := ucan.VerifySignature(td.Data(), iss.Real); verr != nil || !okv {
				bad(label, "token does not verify after encode/decode")
			} else if len(td.Data().Facts()) != 3 {
				bad(label, "Facts() differs after encode/decode")
			}
		}
		// (3) a fact that reads as a DAG-JSON link or bytes: two different tokens would share one signing payload, so it is
		// either refused by Issue, or the token issued must not verify with the fact replaced by its look-alike
		for k, reserved := range []mapFact{{"/": basicnode.NewString("bafkqaaa")}, {"/": func() datamodel.Node {
			nb := basicnode.Prototype.Map.NewBuilder()
			ma, _ := nb.BeginMap(1)
			ma.AssembleKey().AssignString("bytes")
			ma.AssembleValue().AssignString("AQID")
			ma.Finish()
			return nb.Build()
		}()}} {
			runs++
			label := fmt.Sprintf("reserved-form fact %d, issuer %s", k, iss.Name)
			rv, err := ucan.Issue(iss.Signer, aud.DID, caps, ucan.WithFacts([]ucan.FactBuilder{reserved}), ucan.WithExpiration(farFuture))
			if err == nil {
				okv, verr := ucan.VerifySignature(rv, iss.Real)
				direct = append(direct, map[string]any{"token": -2, "label": "cov: " + label, "key": "issue-guard-mismatch",
					"what": fmt.Sprintf("Issue signed a fact that DAG-JSON writes like a link / bytes (the signature does not bind the field); VerifySignature says %v %v", okv, verr)})
			} else if rv != nil {
				bad(label, "Issue returned an error AND a token")
			}
		}
		// (4) builders that fail: an error, no token
		runs++
		if v, err := ucan.Issue(iss.Signer, aud.DID, []ucan.Capability[ucan.CaveatBuilder]{ucan.NewCapability[ucan.CaveatBuilder]("store/add", iss.DID.String(), failingNb{})}); err == nil || v != nil {
			bad("failing caveat builder, issuer "+iss.Name, "Issue returned a token although the caveats could not be built")
		}
		// a builder that answers with no node at all: if a token comes out, it verifies
		if p := recovered(func() {
			v, err := ucan.Issue(iss.Signer, aud.DID, []ucan.Capability[ucan.CaveatBuilder]{ucan.NewCapability[ucan.CaveatBuilder]("store/add", iss.DID.String(), nilNb{})}, ucan.WithExpiration(farFuture))
			if err == nil {
				if okv, verr := ucan.VerifySignature(v, iss.Real); verr != nil || !okv {
					bad("caveat builder answering nil, issuer "+iss.Name, "freshly issued token does not verify against its issuer")
				}
			}
		}); p != nil {
			// observed on the pinned tree: Issue panics inside bindnode (checkSignableNode lets a nil node through). The builder
			// broke its contract and no token exists, so no property is violated; recorded in notes/NOTES_COV.md only.
			_ = p
		}
		if v, err := ucan.Issue(iss.Signer, aud.DID, caps, ucan.WithFacts([]ucan.FactBuilder{failingFact{}})); err == nil || v != nil {
			bad("failing fact builder, issuer "+iss.Name, "Issue returned a token although a fact could not be built")
		}
		if d, err := delegation.Delegate(iss.Signer, aud.DID, []ucan.Capability[ucan.CaveatBuilder]{ucan.NewCapability[ucan.CaveatBuilder]("store/add", iss.DID.String(), failingNb{})}); err == nil || d != nil {
			bad("failing caveat builder, issuer "+iss.Name, "Delegate returned a delegation although the caveats could not be built")
		}
	}
	return direct, runs
}

// ---------------------------------------------------------------------------
// C12

// covC12Offsets: every block car.Decode delivers is a CarBlock whose Offset / Length locate exactly its bytes in the archive
func covC12Offsets(arch []byte) (detail string, nblocks int) {
	var out string
	if p := recovered(func() {
		_, it, err := car.Decode(bytes.NewReader(arch))
		if err != nil {
			return
		}
		i := 0
		for b, err := range it {
			if err != nil {
				return
			}
			cb, ok := b.(car.CarBlock)
			if !ok {
				out = fmt.Sprintf("block %d is not a CarBlock", i)
				return
			}
			off, n := cb.Offset(), cb.Length()
			if n != uint64(len(b.Bytes())) || off+n > uint64(len(arch)) || !bytes.Equal(arch[off:off+n], b.Bytes()) {
				out = fmt.Sprintf("block %d: Offset()=%d Length()=%d do not locate its %d bytes in the archive", i, off, n, len(b.Bytes()))
				return
			}
			// the section's CID sits right in front of the data
			if c, ok := cidOf(b.Link()); ok && (off < uint64(len(c)) || !bytes.Equal(arch[off-uint64(len(c)):off], c)) {
				out = fmt.Sprintf("block %d: the bytes before Offset()=%d are not the block's CID", i, off)
				return
			}
			i++
			nblocks++
		}
	}); p != nil {
		out = fmt.Sprintf("panic: %v", p)
	}
	return out, nblocks
}

func cidOf(l ipld.Link) ([]byte, bool) {
	c, err := cid.Decode(l.String())
	if err != nil {
		return nil, false
	}
	return c.Bytes(), true
}

// ---------------------------------------------------------------------------
// C13

func seqOf(blks []ipld.Block, failAt int) iter.Seq2[ipld.Block, error] {
	return func(yield func(ipld.Block, error) bool) {
		for i, b := range blks {
			if i == failAt {
				if !yield(nil, fmt.Errorf("source failed")) {
					return
				}
				continue
			}
			if !yield(b, nil) {
				return
			}
		}
	}
}

type blockSource interface {
	Iterator() iter.Seq2[ipld.Block, error]
	Get(ipld.Link) (ipld.Block, bool, error)
}

func storeOrder(s blockSource) string {
	var ls []string
	for b, err := range s.Iterator() {
		if err != nil {
			ls = append(ls, "error")
			continue
		}
		ls = append(ls, b.Link().String())
	}
	return strings.Join(ls, ",")
}

// a receipt of another implementation of the Receipt interface (e.g. a decorator an application wraps receipts in)
type wrappedReceipt struct{ receipt.AnyReceipt }

func covC13(seed int64) (direct []map[string]any, runs int) {
	cast := newCast(seed*1777 + 13)
	bad := func(what string) {
		direct = append(direct, map[string]any{"delegation": -2, "what": "cov: " + what})
	}
	far := farFuture
	alice, bob, carol, service := cast.Ed("alice"), cast.Ed("bob"), cast.Ed("carol"), cast.Ed("service")
	mk := func(iss, aud *Prin, nonce string, prf ...delegation.Proof) delegation.Delegation {
		d, err := delegation.Delegate(iss.Signer, aud.DID, []ucan.Capability[ucan.CaveatBuilder]{ucan.NewCapability[ucan.CaveatBuilder]("store/add", alice.DID.String(), Cav{})},
			delegation.WithExpiration(far), delegation.WithNonce(nonce), delegation.WithProof(prf...))
		if err != nil {
			panic(err)
		}
		return d
	}
	root := mk(alice, bob, "r")
	mid := mk(bob, carol, "m", delegation.FromDelegation(root))
	leaf := mk(carol, service, "l", delegation.FromDelegation(mid))
	var blks []ipld.Block
	for b, err := range leaf.Blocks() {
		if err != nil {
			bad("Blocks() yielded an error")
			return
		}
		blks = append(blks, b)
	}
	want := ""
	{
		var ls []string
		for _, b := range blks {
			ls = append(ls, b.Link().String())
		}
		want = strings.Join(ls, ",")
	}
	dups := append(append([]ipld.Block{}, blks...), blks...)
	// (1) the ways of filling a block store / block reader are equivalent: every block once, in first-seen order
	type mkStore struct {
		name string
		f    func() (blockSource, error)
	}
	half := len(blks) / 2
	for _, m := range []mkStore{
		{"NewBlockStore(WithBlocks)", func() (blockSource, error) { return blockstore.NewBlockStore(blockstore.WithBlocks(blks)) }},
		{"NewBlockStore(WithBlocksIterator)", func() (blockSource, error) {
			return blockstore.NewBlockStore(blockstore.WithBlocksIterator(seqOf(blks, -1)))
		}},
		{"NewBlockStore(WithBlocks with repeats)", func() (blockSource, error) { return blockstore.NewBlockStore(blockstore.WithBlocks(dups)) }},
		{"NewBlockStore(WithBlocksIterator with repeats)", func() (blockSource, error) {
			return blockstore.NewBlockStore(blockstore.WithBlocksIterator(seqOf(dups, -1)))
		}},
		{"NewBlockStore(WithBlocks, WithBlocksIterator)", func() (blockSource, error) {
			return blockstore.NewBlockStore(blockstore.WithBlocks(blks[:half]), blockstore.WithBlocksIterator(seqOf(blks[half:], -1)))
		}},
		{"NewBlockStore() + Put", func() (blockSource, error) {
			s, err := blockstore.NewBlockStore()
			if err != nil {
				return nil, err
			}
			for _, b := range dups {
				if err := s.Put(b); err != nil {
					return nil, err
				}
			}
			return s, nil
		}},
		{"NewBlockReader(WithBlocks)", func() (blockSource, error) { return blockstore.NewBlockReader(blockstore.WithBlocks(blks)) }},
		{"NewBlockReader(WithBlocks with repeats)", func() (blockSource, error) { return blockstore.NewBlockReader(blockstore.WithBlocks(dups)) }},
		{"NewBlockReader(WithBlocksIterator with repeats)", func() (blockSource, error) {
			return blockstore.NewBlockReader(blockstore.WithBlocksIterator(seqOf(dups, -1)))
		}},
		{"NewBlockReader(WithBlocks, WithBlocksIterator)", func() (blockSource, error) {
			return blockstore.NewBlockReader(blockstore.WithBlocks(blks[:half]), blockstore.WithBlocksIterator(seqOf(blks, -1)))
		}},
	} {
		runs++
		s, err := m.f()
		if err != nil {
			bad(m.name + " failed: " + err.Error())
			continue
		}
		if got := storeOrder(s); got != want {
			bad(m.name + ": the store does not hold exactly the blocks it was given, each once, in first-seen order")
			continue
		}
		for _, b := range blks {
			g, found, err := s.Get(b.Link())
			if err != nil || !found || !bytes.Equal(g.Bytes(), b.Bytes()) {
				bad(m.name + ": a block it was given is not retrievable by its link")
				break
			}
		}
		if _, found, _ := s.Get(fakeLink(31337)); found {
			bad(m.name + ": Get finds a block that was never put")
		}
		// a delegation viewed over the store reads back the same
		if br, ok := s.(blockstore.BlockReader); ok {
			if v, err := delegation.NewDelegationView(leaf.Link(), br); err != nil || blockLinks(v) != want {
				bad(m.name + ": the delegation viewed over the store has another block sequence")
			}
		}
	}
	// a source that fails: no store / reader, an error
	for _, at := range []int{0, 1, len(blks) - 1} {
		runs++
		if s, err := blockstore.NewBlockStore(blockstore.WithBlocksIterator(seqOf(blks, at))); err == nil || s != nil {
			bad("NewBlockStore(WithBlocksIterator): a failing block source does not surface as an error")
		}
		if s, err := blockstore.NewBlockReader(blockstore.WithBlocksIterator(seqOf(blks, at))); err == nil || s != nil {
			bad("NewBlockReader(WithBlocksIterator): a failing block source does not surface as an error")
		}
	}
	// (2) archives that are not a delegation archive are refused (an error and no delegation), never a panic
	arch, err := io.ReadAll(leaf.Archive())
	if err != nil {
		bad("Archive failed: " + err.Error())
		return
	}
	aroots, ait, err := car.Decode(bytes.NewReader(arch))
	if err != nil || len(aroots) != 1 {
		bad("Archive is not a CAR with one root")
		return
	}
	var ablks []ipld.Block
	for b, err := range ait {
		if err != nil {
			bad("Archive does not decode")
			return
		}
		ablks = append(ablks, b)
	}
	var variant ipld.Block
	var rest []ipld.Block
	for _, b := range ablks {
		if b.Link().String() == aroots[0].String() {
			variant = b
		} else {
			rest = append(rest, b)
		}
	}
	enc := func(roots []ipld.Link, bl []ipld.Block) []byte {
		b, err := io.ReadAll(car.Encode(roots, seqOf(bl, -1)))
		if err != nil {
			panic(err)
		}
		return b
	}
	var noLeaf []ipld.Block
	for _, b := range ablks {
		if b.Link().String() != leaf.Link().String() {
			noLeaf = append(noLeaf, b)
		}
	}
	type refusal struct {
		name string
		arch []byte
	}
	refusals := []refusal{
		{"no root", enc(nil, ablks)},
		{"two roots", enc([]ipld.Link{aroots[0], leaf.Link()}, ablks)},
		{"root block absent", enc(aroots, rest)},
		{"root is the token itself, not an archive descriptor", enc([]ipld.Link{leaf.Link()}, ablks)},
		{"descriptor names a token whose block is absent", enc(aroots, noLeaf)},
		{"empty input", nil},
		{"not a CAR", []byte("not a car file at all")},
	}
	for _, rf := range refusals {
		runs++
		if p := recovered(func() {
			d, err := delegation.Extract(rf.arch)
			if err == nil || d != nil {
				direct = append(direct, map[string]any{"delegation": -2, "what": "cov: Extract accepts an archive it must refuse: " + rf.name, "archive": hex.EncodeToString(rf.arch)})
			}
		}); p != nil {
			direct = append(direct, map[string]any{"delegation": -2, "what": fmt.Sprintf("cov: Extract panicked on a malformed archive (%s): %v", rf.name, p), "archive": hex.EncodeToString(rf.arch)})
		}
	}
	if variant == nil {
		bad("the archive's root block is missing from the archive")
	}
	// well-formed archive with the blocks in another order and an unrelated extra block reads back the same
	{
		runs++
		extra := mk(alice, carol, "unrelated")
		shuffled := append([]ipld.Block{extra.Root()}, rest...)
		shuffled = append(shuffled, variant)
		d, err := delegation.Extract(enc(aroots, shuffled))
		if err != nil || d == nil || d.Link().String() != leaf.Link().String() || !bytes.Equal(d.Root().Bytes(), leaf.Root().Bytes()) {
			bad("Extract of an archive whose root block comes last (with an unrelated block in front) does not give the delegation back")
		}
	}
	// Parse: the string must be a CIDv1 with the CAR codec over an identity multihash
	str, err := delegation.Format(leaf)
	if err != nil {
		bad("Format failed: " + err.Error())
		return
	}
	idmh, _ := mh.Sum(arch, mh.IDENTITY, -1)
	shamh, _ := mh.Sum(arch, mh.SHA2_256, -1)
	b64 := func(c cid.Cid) string { s, _ := c.StringOfBase(mbase.Base64); return s }
	if b64(cid.NewCidV1(0x0202, idmh)) != str {
		bad("Format is not the base64 CIDv1 (CAR codec, identity multihash) of the archive bytes")
	}
	for _, ps := range []refusal{
		{"raw codec instead of CAR", []byte(b64(cid.NewCidV1(0x55, idmh)))},
		{"sha2-256 multihash instead of identity", []byte(b64(cid.NewCidV1(0x0202, shamh)))},
		{"not a CID", []byte("mAXCG this is not a cid")},
		{"empty string", nil},
		{"identity CID of something that is not an archive", []byte(b64(cid.NewCidV1(0x0202, func() mh.Multihash { m, _ := mh.Sum([]byte("hello"), mh.IDENTITY, -1); return m }())))},
	} {
		runs++
		if p := recovered(func() {
			d, err := delegation.Parse(string(ps.arch))
			if err == nil || d != nil {
				direct = append(direct, map[string]any{"delegation": -2, "what": "cov: Parse accepts a string it must refuse: " + ps.name, "input": string(ps.arch)})
			}
		}); p != nil {
			direct = append(direct, map[string]any{"delegation": -2, "what": fmt.Sprintf("cov: Parse panicked (%s): %v", ps.name, p), "input": string(ps.arch)})
		}
	}
	// the same archive in another multibase still parses to the same delegation
	{
		runs++
		s32, _ := cid.NewCidV1(0x0202, idmh).StringOfBase(mbase.Base32)
		d, err := delegation.Parse(s32)
		if err != nil || d == nil || d.Link().String() != leaf.Link().String() {
			bad("Parse of the base32 form of a formatted delegation does not give the delegation back")
		}
	}
	// (3) receipts of another Receipt implementation in a message: keyed by the invocation they name
	{
		runs++
		inv, err := invocation.Invoke(carol.Signer, service.DID, ucan.NewCapability[ucan.CaveatBuilder]("store/add", alice.DID.String(), Cav{}),
			delegation.WithExpiration(far), delegation.WithProof(delegation.FromDelegation(mid)))
		if err != nil {
			bad("Invoke failed: " + err.Error())
			return
		}
		for _, embedded := range []bool{true, false} {
			r := ran.FromInvocation(inv)
			if !embedded {
				r = ran.FromLink(inv.Link())
			}
			rc, err := receipt.Issue(service.Signer.(ucan.Signer), result.Ok[ipld.Builder, ipld.Builder](ok.Unit{}), r)
			if err != nil {
				bad("receipt.Issue failed: " + err.Error())
				continue
			}
			if l := receipt.RanLink[ipld.Node, ipld.Node](rc); l == nil || l.String() != inv.Link().String() {
				bad(fmt.Sprintf("RanLink of a receipt (ran embedded: %v) is not the link of the invocation it was issued for", embedded))
			}
			wr := wrappedReceipt{rc}
			wl := receipt.RanLink[ipld.Node, ipld.Node](wr)
			if embedded && (wl == nil || wl.String() != inv.Link().String()) {
				bad("RanLink of a wrapped receipt that embeds its invocation is not the link of that invocation")
			}
			msg, err := message.Build(nil, []receipt.AnyReceipt{wr})
			switch {
			case embedded && err != nil:
				bad("message.Build refuses a wrapped receipt that embeds its invocation: " + err.Error())
			case embedded:
				if rl, found := msg.Get(inv.Link()); !found || rl.String() != rc.Root().Link().String() {
					bad("message.Build: a wrapped receipt is not retrievable by the link of its invocation")
				}
			case !embedded && err == nil:
				// the wrapper cannot tell which invocation it is for: whatever key Build chose, looking the receipt up by a
				// key must give THIS receipt, and it must be found under its invocation or not at all
				if rl, found := msg.Get(inv.Link()); found && rl.String() != rc.Root().Link().String() {
					bad("message.Build: the report maps the invocation to another receipt")
				}
			}
		}
	}
	return direct, runs
}

// ---------------------------------------------------------------------------
// C14

func covC14(seed int64) (direct []c14Direct, runs int) {
	codes := []uint64{signature.ES256K, signature.BLS12381G1, signature.BLS12381G2, signature.EdDSA, signature.ES256,
		signature.ES384, signature.ES512, signature.RS256, signature.EIP191}
	names := map[string]uint64{}
	for _, c := range codes {
		runs++
		n, err := signature.CodeName(c)
		if err != nil || n == "" {
			direct = append(direct, c14Direct{"sigcode-name", fmt.Sprintf("CodeName(0x%x) fails for a supported signature code", c), map[string]any{"code": c}})
			continue
		}
		if prev, dup := names[n]; dup {
			direct = append(direct, c14Direct{"sigcode-name", fmt.Sprintf("CodeName maps 0x%x and 0x%x to the same name %s: a signature would verify under another algorithm's name", prev, c, n), map[string]any{"code": c}})
		}
		names[n] = c
		back, err := signature.NameCode(n)
		if err != nil || back != c {
			direct = append(direct, c14Direct{"sigcode-name", fmt.Sprintf("NameCode(CodeName(0x%x)) = 0x%x", c, back), map[string]any{"code": c, "name": n}})
		}
	}
	for _, c := range []uint64{0, 1, 0xed, 0x1205, signature.NON_STANDARD, 0xd0ec, 0xd01203, 0xd01204, 0xd192, 1 << 40} {
		runs++
		if n, err := signature.CodeName(c); err == nil {
			direct = append(direct, c14Direct{"sigcode-name", fmt.Sprintf("CodeName(0x%x) = %q for a code that is not a supported algorithm", c, n), map[string]any{"code": c}})
		}
	}
	for _, n := range []string{"", "eddsa", "EdDSA ", "RS512", "none", "ES256K1"} {
		runs++
		if c, err := signature.NameCode(n); err != nil || c != signature.NON_STANDARD {
			direct = append(direct, c14Direct{"sigcode-name", fmt.Sprintf("NameCode(%q) = 0x%x: an unknown name must be the non-standard code, never a supported algorithm", n, c), map[string]any{"name": n}})
		}
	}
	// Encode / Decode / view
	cast := newCast(seed*733 + 14)
	keys := []*Prin{cast.Ed("k1"), cast.Ed("k2"), cast.RSA("r1", 0), cast.RSA("r2", 1)}
	msg := []byte("the message that was signed")
	for i, k := range keys {
		runs++
		s := k.Signer.Sign(msg)
		enc := signature.Encode(s)
		dec := signature.Decode(enc)
		if !bytes.Equal(enc, s.Bytes()) || dec.Code() != s.Code() || !bytes.Equal(dec.Raw(), s.Raw()) || dec.Size() != uint64(len(s.Raw())) {
			direct = append(direct, c14Direct{"signature-roundtrip", "Decode(Encode(s)) differs from s in code, size or raw bytes", map[string]any{"key": k.Name}})
		}
		ns := signature.NewSignature(s.Code(), s.Raw())
		if !bytes.Equal(ns.Bytes(), s.Bytes()) {
			direct = append(direct, c14Direct{"signature-roundtrip", "NewSignature(code, raw) differs from the signature the signer produced", map[string]any{"key": k.Name}})
		}
		view := signature.NewSignatureView(dec)
		for j, o := range keys {
			want := i == j
			if got := view.Verify(msg, o.Real); got != want {
				direct = append(direct, c14Direct{"cross-verify", fmt.Sprintf("SignatureView.Verify: signature of %s checked with the verifier of %s = %v", k.Name, o.Name, got), map[string]any{"signer": k.Name, "verifier": o.Name}})
			}
			if got := view.Verify(msg, o.Real); got != o.Real.Verify(msg, dec) {
				direct = append(direct, c14Direct{"cross-verify", "SignatureView.Verify disagrees with Verifier.Verify", map[string]any{"signer": k.Name, "verifier": o.Name}})
			}
		}
		if view.Verify(append([]byte("x"), msg...), k.Real) {
			direct = append(direct, c14Direct{"cross-verify", "SignatureView.Verify accepts the signature for another message", map[string]any{"key": k.Name}})
		}
	}
	return direct, runs
}
