package main

// gen_c18.go — C18: stored tokens, archives and keys stay readable and valid; formats do not drift.
// A corpus of deterministic issuance programs whose outputs were captured from the pinned
// (repaired) tree lives in corpus/golden/corpus.json.  Every run
//   (i)  re-executes the programs and compares what must be reproduced byte for byte,
//   (ii) parses the RECORDED artefacts with the current tree,
//   (iii) hands the recorded blocks to the Coq format model (Formats / ReceiptFormat / MessageFormat / Car).
// VERIF_C18_CAPTURE=<file> rewrites the corpus instead (used once, on the clean tree).

import (
	"bytes"
	"crypto/sha256"
	"encoding/hex"
	"encoding/json"
	"fmt"
	"io"
	"os"
	"path/filepath"
	"sort"
	"strings"

	"github.com/ipfs/go-cid"
	cidlink "github.com/ipld/go-ipld-prime/linking/cid"
	mh "github.com/multiformats/go-multihash"
	"github.com/storacha/go-ucanto/core/ipld/block"
	"github.com/ipld/go-ipld-prime/datamodel"
	"github.com/ipld/go-ipld-prime/node/basicnode"
	"github.com/storacha/go-ucanto/core/dag/blockstore"
	"github.com/storacha/go-ucanto/core/delegation"
	"github.com/storacha/go-ucanto/core/invocation"
	"github.com/storacha/go-ucanto/core/invocation/ran"
	"github.com/storacha/go-ucanto/core/ipld"
	"github.com/storacha/go-ucanto/core/ipld/codec/cbor"
	"github.com/storacha/go-ucanto/core/message"
	"github.com/storacha/go-ucanto/core/receipt"
	rdm "github.com/storacha/go-ucanto/core/receipt/datamodel"
	"github.com/storacha/go-ucanto/core/receipt/fx"
	"github.com/storacha/go-ucanto/core/result"
	"github.com/storacha/go-ucanto/did"
	"github.com/storacha/go-ucanto/principal"
	edsig "github.com/storacha/go-ucanto/principal/ed25519/signer"
	edver "github.com/storacha/go-ucanto/principal/ed25519/verifier"
	rsasig "github.com/storacha/go-ucanto/principal/rsa/signer"
	rsaver "github.com/storacha/go-ucanto/principal/rsa/verifier"
	psigner "github.com/storacha/go-ucanto/principal/signer"
	"github.com/storacha/go-ucanto/transport"
	"github.com/storacha/go-ucanto/transport/car/request"
	uhttp "github.com/storacha/go-ucanto/transport/http"
	"github.com/storacha/go-ucanto/ucan"
	"github.com/storacha/go-ucanto/ucan/crypto/signature"
	pdm "github.com/storacha/go-ucanto/ucan/datamodel/payload"
)

type c18Rec struct {
	ID      string   `json:"id"`
	Kind    string   `json:"kind"` // token | receipt | message | key
	Payload string   `json:"signing_payload,omitempty"`
	Sig     string   `json:"signature_hex,omitempty"`
	Root    string   `json:"root_block_hex,omitempty"`
	CID     string   `json:"cid,omitempty"`
	Archive string   `json:"archive_car_hex,omitempty"`
	Format  string   `json:"formatted,omitempty"`
	Outcome string   `json:"outcome_bytes_hex,omitempty"`
	Car     string   `json:"message_car_hex,omitempty"`
	KeyStr  string   `json:"key_string,omitempty"`
	DID     string   `json:"did,omitempty"`
	DIDHex  string   `json:"did_bytes_hex,omitempty"`
	Issuer  string   `json:"issuer_key,omitempty"`
	Links   []string `json:"links,omitempty"`
}

func c18Keys() (map[string]principal.Signer, []string, error) {
	keys := map[string]principal.Signer{}
	var names []string
	for i := 0; i < 4; i++ {
		var seed [32]byte
		copy(seed[:], fmt.Sprintf("c18-golden-ed25519-key-%02d-------", i))
		keys[fmt.Sprintf("ed%d", i)] = edFromSeed(seed)
		names = append(names, fmt.Sprintf("ed%d", i))
	}
	dir := ""
	for _, c := range []string{os.Getenv("VERIF_KEYS"), "corpus/keys", "../corpus/keys", "/verif/corpus/keys"} {
		if c != "" {
			if _, err := os.Stat(filepath.Join(c, "rsa_0.txt")); err == nil {
				dir = c
				break
			}
		}
	}
	if dir == "" {
		return nil, nil, fmt.Errorf("RSA key corpus not found")
	}
	for i := 0; i < 2; i++ {
		b, err := os.ReadFile(filepath.Join(dir, fmt.Sprintf("rsa_%d.txt", i)))
		if err != nil {
			return nil, nil, err
		}
		s, err := rsasig.Parse(strings.TrimSpace(string(b)))
		if err != nil {
			return nil, nil, fmt.Errorf("stored RSA key %d no longer parses: %v", i, err)
		}
		keys[fmt.Sprintf("rsa%d", i)] = s
		names = append(names, fmt.Sprintf("rsa%d", i))
	}
	wd, _ := did.Parse("did:web:golden.example")
	ws, err := psigner.Wrap(keys["ed3"], wd)
	if err != nil {
		return nil, nil, err
	}
	keys["web"] = ws
	names = append(names, "web")
	// further wrapped principals (not in `names`: used by the programs of section F only)
	for i, ds := range c18WrappedDIDs {
		wd, err := did.Parse(ds)
		if err != nil {
			return nil, nil, err
		}
		w, err := psigner.Wrap(keys["ed2"], wd)
		if err != nil {
			return nil, nil, err
		}
		keys[fmt.Sprintf("wrapped%d", i)] = w
	}
	// a principal whose DID needs percent-encoding (did:web with a port), section I
	if wp, err := did.Parse("did:web:localhost%3A8080"); err == nil {
		if w, err := psigner.Wrap(keys["ed1"], wp); err == nil {
			keys["webport"] = w
		} else {
			return nil, nil, err
		}
	} else {
		return nil, nil, err
	}
	return keys, names, nil
}

var c18Caveats = []func() datamodel.Node{
	func() datamodel.Node { n, _ := Cav{}.ToIPLD(); return n },
	func() datamodel.Node { n, _ := Cav{Link: fakeLink(1)}.ToIPLD(); return n },
	func() datamodel.Node {
		n, _ := Cav{Max: i64(-9007199254740993), Tag: strp("ünïcödé ✓")}.ToIPLD()
		return n
	},
	func() datamodel.Node {
		nb := basicnode.Prototype.Map.NewBuilder()
		ma, _ := nb.BeginMap(4)
		for _, k := range []string{"bb", "a", "ccc", "B"} { // insertion order differs from the canonical order
			ma.AssembleKey().AssignString(k)
			inner := basicnode.Prototype.Map.NewBuilder()
			ia, _ := inner.BeginMap(2)
			ia.AssembleKey().AssignString("zz")
			ia.AssembleValue().AssignInt(int64(len(k)))
			ia.AssembleKey().AssignString("y")
			ia.AssembleValue().AssignNull()
			ia.Finish()
			ma.AssembleValue().AssignNode(inner.Build())
		}
		ma.Finish()
		return nb.Build()
	},
	func() datamodel.Node { n, _ := Cav{Tags: []string{"x", "", "yy"}}.ToIPLD(); return n },
	func() datamodel.Node {
		nb := basicnode.Prototype.Map.NewBuilder()
		ma, _ := nb.BeginMap(2)
		ma.AssembleKey().AssignString("bytes")
		ma.AssembleValue().AssignBytes([]byte{0, 1, 2, 255, 254})
		ma.AssembleKey().AssignString("big")
		ma.AssembleValue().AssignInt(9223372036854775807)
		ma.Finish()
		return nb.Build()
	},
	func() datamodel.Node { n, _ := Cav{Hdr: map[string]string{"x-a": "1", "x-b": "2"}}.ToIPLD(); return n },
}

func payloadString(d delegation.Delegation, alg string) (string, error) {
	m := d.Data().Model()
	var prf []string
	for _, l := range d.Proofs() {
		prf = append(prf, l.String())
	}
	p := pdm.PayloadModel{Iss: d.Issuer().DID().String(), Aud: d.Audience().DID().String(), Att: m.Att, Prf: prf, Exp: m.Exp, Fct: m.Fct, Nnc: m.Nnc, Nbf: m.Nbf}
	return formatSignPayload(p, d.Version(), alg)
}

func verifierOf(s principal.Signer) principal.Verifier { return s.Verifier() }

// c18Run executes every program; the result is a function of the code only
func c18Run() ([]c18Rec, error) {
	keys, names, err := c18Keys()
	if err != nil {
		return nil, err
	}
	var recs []c18Rec
	var tokens []delegation.Delegation
	tokRec := func(id, key string, d delegation.Delegation) error {
		s := keys[key]
		alg, _ := signature.CodeName(d.Signature().Code())
		pl, err := payloadString(d, alg)
		if err != nil {
			return err
		}
		ab, err := io.ReadAll(d.Archive())
		if err != nil {
			return err
		}
		fs, err := delegation.Format(d)
		if err != nil {
			return err
		}
		_ = s
		recs = append(recs, c18Rec{ID: id, Kind: "token", Payload: pl, Sig: hex.EncodeToString(d.Signature().Bytes()),
			Root: hex.EncodeToString(d.Root().Bytes()), CID: d.Link().String(), Archive: hex.EncodeToString(ab), Format: fs, Issuer: key})
		tokens = append(tokens, d)
		return nil
	}
	audOf := func(i int) principal.Signer { return keys[names[(i+1)%len(names)]] }
	// A. every option subset with ed0; selected subsets with the other keys
	n := 0
	for _, key := range names {
		masks := []int{0, 2, 12, 21, 42, 63}
		if key == "ed0" {
			masks = nil
			for m := 0; m < 64; m++ {
				masks = append(masks, m)
			}
		}
		for _, mask := range masks {
			var opts []delegation.Option
			if mask&2 != 0 {
				opts = append(opts, delegation.WithNoExpiration())
			} else if mask&1 != 0 {
				opts = append(opts, delegation.WithExpiration(2000000000+n))
			} else {
				opts = append(opts, delegation.WithExpiration(1900000000)) // pinned: the default (now + 30 s) is the only non-deterministic input
			}
			if mask&4 != 0 {
				opts = append(opts, delegation.WithNotBefore(1000+n))
			}
			if mask&8 != 0 {
				opts = append(opts, delegation.WithNonce(fmt.Sprintf("nonce-%d", n)))
			}
			if mask&16 != 0 {
				opts = append(opts, delegation.WithFacts([]ucan.FactBuilder{
					factB{map[string]datamodel.Node{"hello": basicnode.NewString("world"), "n": basicnode.NewInt(int64(n))}},
					factB{map[string]datamodel.Node{"link": basicnode.NewLink(fakeLink(2))}}}))
			}
			if mask&32 != 0 {
				var prfs []delegation.Proof
				if len(tokens) > 0 {
					prfs = append(prfs, delegation.FromDelegation(tokens[n%8])) // one of the first eight (proof-free) tokens
				}
				prfs = append(prfs, delegation.FromLink(fakeLink(3)))
				opts = append(opts, delegation.WithProof(prfs...))
			}
			var caps []ucan.Capability[ucan.CaveatBuilder]
			for c := 0; c <= n%3; c++ {
				caps = append(caps, ucan.NewCapability[ucan.CaveatBuilder](abilities[(n+c)%len(abilities)], []string{keys[key].DID().String(), "ucan:*", "https://example.com/é"}[(n+c)%3],
					nodeNb{c18Caveats[(n+c)%len(c18Caveats)]()}))
			}
			d, err := delegation.Delegate(keys[key], audOf(n).DID(), caps, opts...)
			if err != nil {
				return nil, fmt.Errorf("program tok-%s-%02d: %v", key, mask, err)
			}
			if err := tokRec(fmt.Sprintf("tok-%s-mask%02d", key, mask), key, d); err != nil {
				return nil, err
			}
			n++
		}
	}
	// B. chains with inline proofs, depth 1..3
	for depth := 1; depth <= 3; depth++ {
		var prev delegation.Delegation
		for lvl := 0; lvl <= depth; lvl++ {
			key := names[lvl%4]
			opts := []delegation.Option{delegation.WithExpiration(2100000000 + depth), delegation.WithNonce(fmt.Sprintf("chain-%d-%d", depth, lvl))}
			if prev != nil {
				opts = append(opts, delegation.WithProof(delegation.FromDelegation(prev)))
			}
			d, err := delegation.Delegate(keys[key], keys[names[(lvl+1)%4]].DID(), []ucan.Capability[ucan.CaveatBuilder]{
				ucan.NewCapability[ucan.CaveatBuilder]("store/*", keys["ed0"].DID().String(), nodeNb{c18Caveats[lvl%len(c18Caveats)]()})}, opts...)
			if err != nil {
				return nil, err
			}
			prev = d
		}
		if err := tokRec(fmt.Sprintf("chain-depth%d", depth), names[depth%4], prev); err != nil {
			return nil, err
		}
	}
	// C. receipts
	inv0, err := invocation.Invoke(keys["ed1"], keys["ed0"].DID(), ucan.NewCapability[ucan.CaveatBuilder]("store/add", keys["ed1"].DID().String(), nodeNb{c18Caveats[1]()}),
		delegation.WithExpiration(1900000000), delegation.WithNonce("inv0"))
	if err != nil {
		return nil, err
	}
	var rcpts []receipt.AnyReceipt
	for i, key := range []string{"ed0", "rsa0", "web"} {
		for v := 0; v < 4; v++ {
			var res result.Result[nodeB, nodeB]
			val := c18Caveats[(i+v+2)%len(c18Caveats)]()
			if v%2 == 0 {
				res = result.Ok[nodeB, nodeB](nodeB{val})
			} else {
				res = result.Error[nodeB, nodeB](nodeB{val})
			}
			var opts []receipt.Option
			if v >= 1 {
				opts = append(opts, receipt.WithFork(fx.FromLink(fakeLink(4)), fx.FromInvocation(inv0)))
			}
			if v >= 2 {
				opts = append(opts, receipt.WithJoin(fx.FromLink(fakeLink(5))))
				a, b := int64(7), "meta-value"
				opts = append(opts, receipt.WithMeta(map[string]any{"zz": &a, "a": &b}))
			}
			if v == 3 {
				opts = append(opts, receipt.WithProofs(delegation.Proofs{delegation.FromLink(fakeLink(6)), delegation.FromDelegation(tokens[0])}))
			}
			rn := ran.FromInvocation(inv0)
			if v == 1 {
				rn = ran.FromLink(inv0.Link())
			}
			rc, err := receipt.Issue(keys[key], res, rn, opts...)
			if err != nil {
				return nil, fmt.Errorf("program rcpt-%s-%d: %v", key, v, err)
			}
			ob, err := outcomeBytesOf(rc.Root().Bytes())
			if err != nil {
				return nil, err
			}
			sigb := rc.Signature().Bytes()
			recs = append(recs, c18Rec{ID: fmt.Sprintf("rcpt-%s-%d", key, v), Kind: "receipt", Root: hex.EncodeToString(rc.Root().Bytes()),
				CID: rc.Root().Link().String(), Outcome: hex.EncodeToString(ob), Sig: hex.EncodeToString(sigb), Issuer: key})
			rcpts = append(rcpts, rc)
		}
	}
	// D. messages
	var invs []invocation.Invocation
	for i := 0; i < 3; i++ {
		iv, err := invocation.Invoke(keys[names[i]], keys["ed0"].DID(), ucan.NewCapability[ucan.CaveatBuilder]("store/add", keys[names[i]].DID().String(), nodeNb{c18Caveats[i]()}),
			delegation.WithExpiration(1900000000), delegation.WithNonce(fmt.Sprintf("msg-inv-%d", i)), delegation.WithProof(delegation.FromDelegation(tokens[i])))
		if err != nil {
			return nil, err
		}
		invs = append(invs, iv)
	}
	msgs := []struct {
		id   string
		invs []invocation.Invocation
		rc   []receipt.AnyReceipt
	}{{"msg-empty", nil, nil}, {"msg-1inv", invs[:1], nil}, {"msg-3inv", invs, nil}, {"msg-rcpts", nil, rcpts[:5]}, {"msg-both", invs[:2], rcpts[3:6]}}
	for _, m := range msgs {
		msg, err := message.Build(m.invs, m.rc)
		if err != nil {
			return nil, fmt.Errorf("program %s: %v", m.id, err)
		}
		req, _ := request.Encode(msg)
		cb, _ := io.ReadAll(req.Body())
		var links []string
		for _, l := range msg.Invocations() {
			links = append(links, l.String())
		}
		for _, l := range msg.Receipts() {
			links = append(links, "r:"+l.String())
		}
		sort.Strings(links)
		recs = append(recs, c18Rec{ID: m.id, Kind: "message", Root: hex.EncodeToString(msg.Root().Bytes()), CID: msg.Root().Link().String(),
			Car: hex.EncodeToString(cb), Links: links})
	}
	// E. keys and DIDs
	for _, key := range names {
		s := keys[key]
		ks := ""
		if key == "web" {
			ks, _ = edsig.Format(keys["ed3"])
		} else if strings.HasPrefix(key, "ed") {
			ks, _ = edsig.Format(s)
		} else {
			ks, _ = rsasig.Format(s)
		}
		sg := s.Sign([]byte("golden message")).Bytes()
		recs = append(recs, c18Rec{ID: "key-" + key, Kind: "key", KeyStr: ks, DID: s.DID().String(), DIDHex: hex.EncodeToString(s.DID().Bytes()), Sig: hex.EncodeToString(sg)})
	}
	// F. DID strings of many methods (parse -> bytes -> string), and tokens between such principals
	for i, ds := range c18DIDs {
		d, err := did.Parse(ds)
		if err != nil {
			return nil, fmt.Errorf("program did-%d (%s): %v", i, ds, err)
		}
		back, err := did.Decode(d.Bytes())
		if err != nil {
			return nil, fmt.Errorf("program did-%d (%s): decode of own bytes: %v", i, ds, err)
		}
		recs = append(recs, c18Rec{ID: fmt.Sprintf("did-%02d", i), Kind: "did", DID: ds, DIDHex: hex.EncodeToString(d.Bytes()), KeyStr: d.String(), Format: back.String()})
	}
	for i, ds := range c18WrappedDIDs {
		k := fmt.Sprintf("wrapped%d", i)
		ws := keys[k]
		ad, _ := did.Parse(c18DIDs[(i*3+1)%c18DIDsBase])
		d, err := delegation.Delegate(ws, ad, []ucan.Capability[ucan.CaveatBuilder]{
			ucan.NewCapability[ucan.CaveatBuilder]("store/add", ds, nodeNb{c18Caveats[i]()})}, delegation.WithExpiration(1900000000), delegation.WithNonce(k))
		if err != nil {
			return nil, fmt.Errorf("program tok-%s: %v", k, err)
		}
		if err := tokRec("tok-"+k, k, d); err != nil {
			return nil, err
		}
	}
	// G. caveats and facts that use "/" as an ordinary map key next to the reserved DAG-JSON shapes (which are refused):
	// a path-keyed map, a single "/" key with a non-string value, a "bytes"-keyed inner map with a non-string value
	slash := func(build func(ma datamodel.MapAssembler)) datamodel.Node {
		nb := basicnode.Prototype.Map.NewBuilder()
		ma, _ := nb.BeginMap(4)
		build(ma)
		ma.Finish()
		return nb.Build()
	}
	slashCavs := []datamodel.Node{
		slash(func(ma datamodel.MapAssembler) {
			ma.AssembleKey().AssignString("routes")
			ma.AssembleValue().AssignNode(slash(func(m2 datamodel.MapAssembler) {
				m2.AssembleKey().AssignString("/")
				m2.AssembleValue().AssignString("index.html")
				m2.AssembleKey().AssignString("/about")
				m2.AssembleValue().AssignString("about.html")
			}))
		}),
		slash(func(ma datamodel.MapAssembler) {
			ma.AssembleKey().AssignString("/")
			ma.AssembleValue().AssignInt(5)
		}),
		slash(func(ma datamodel.MapAssembler) {
			ma.AssembleKey().AssignString("x")
			ma.AssembleValue().AssignNode(slash(func(m2 datamodel.MapAssembler) {
				m2.AssembleKey().AssignString("/")
				m2.AssembleValue().AssignNode(slash(func(m3 datamodel.MapAssembler) {
					m3.AssembleKey().AssignString("bytes")
					m3.AssembleValue().AssignInt(7)
				}))
			}))
		}),
		slash(func(ma datamodel.MapAssembler) {
			ma.AssembleKey().AssignString("/")
			ma.AssembleValue().AssignNode(slash(func(m2 datamodel.MapAssembler) {
				m2.AssembleKey().AssignString("bytes")
				m2.AssembleValue().AssignString("AQID")
				m2.AssembleKey().AssignString("more")
				m2.AssembleValue().AssignBool(true)
			}))
		}),
	}
	for k, cv := range slashCavs {
		d, err := delegation.Delegate(keys["ed1"], keys["ed0"].DID(), []ucan.Capability[ucan.CaveatBuilder]{
			ucan.NewCapability[ucan.CaveatBuilder]("site/publish", keys["ed1"].DID().String(), nodeNb{cv})},
			delegation.WithExpiration(1900000000), delegation.WithNonce(fmt.Sprintf("slash-%d", k)),
			delegation.WithFacts([]ucan.FactBuilder{factB{map[string]datamodel.Node{"/": basicnode.NewInt(int64(k)), "/x": cv}}}))
		if err != nil {
			return nil, fmt.Errorf("program tok-slashkey-%d: %v", k, err)
		}
		if err := tokRec(fmt.Sprintf("tok-slashkey-%d", k), "ed1", d); err != nil {
			return nil, err
		}
	}
	// H. option ORDER (a later option overrides an earlier one) and attached blocks of every CID form in the archive
	for k, opts := range [][]delegation.Option{
		{delegation.WithExpiration(2000000123), delegation.WithNoExpiration()},
		{delegation.WithNoExpiration(), delegation.WithExpiration(2000000123)},
		{delegation.WithExpiration(2000000123), delegation.WithExpiration(2000000456)},
		{delegation.WithNonce("first"), delegation.WithNonce("second"), delegation.WithNotBefore(7), delegation.WithNotBefore(9), delegation.WithExpiration(1900000000)},
	} {
		d, err := delegation.Delegate(keys["ed2"], keys["ed0"].DID(), []ucan.Capability[ucan.CaveatBuilder]{
			ucan.NewCapability[ucan.CaveatBuilder]("store/add", keys["ed2"].DID().String(), nodeNb{c18Caveats[0]()})}, opts...)
		if err != nil {
			return nil, fmt.Errorf("program tok-optorder-%d: %v", k, err)
		}
		if err := tokRec(fmt.Sprintf("tok-optorder-%d", k), "ed2", d); err != nil {
			return nil, err
		}
	}
	{
		d, err := delegation.Delegate(keys["ed2"], keys["ed0"].DID(), []ucan.Capability[ucan.CaveatBuilder]{
			ucan.NewCapability[ucan.CaveatBuilder]("store/add", keys["ed2"].DID().String(), nodeNb{c18Caveats[1]()})},
			delegation.WithExpiration(1900000000), delegation.WithNonce("attached"))
		if err != nil {
			return nil, err
		}
		for _, data := range [][]byte{[]byte("inline value"), {}, bytes.Repeat([]byte{7}, 100)} {
			idh, _ := mh.Sum(data, mh.IDENTITY, -1)
			if err := d.Attach(block.NewBlock(cidlink.Link{Cid: cid.NewCidV1(0x55, idh)}, data)); err != nil {
				return nil, err
			}
			sh, _ := mh.Sum(data, mh.SHA2_256, -1)
			if err := d.Attach(block.NewBlock(cidlink.Link{Cid: cid.NewCidV1(0x55, sh)}, data)); err != nil {
				return nil, err
			}
		}
		if err := tokRec("tok-attachments", "ed2", d); err != nil {
			return nil, err
		}
	}
	// I. principals whose DID needs percent-encoding (did:web with a port): issuer (a wrapped key), audience and resource
	{
		ws := keys["webport"]
		ad, _ := did.Parse("did:web:example.com%3A3000:user:alice")
		d, err := delegation.Delegate(ws, ad, []ucan.Capability[ucan.CaveatBuilder]{
			ucan.NewCapability[ucan.CaveatBuilder]("store/add", "did:web:localhost%3A8080", nodeNb{c18Caveats[0]()})}, delegation.WithExpiration(1900000000), delegation.WithNonce("web-port"))
		if err != nil {
			return nil, fmt.Errorf("program tok-web-port: %v", err)
		}
		if err := tokRec("tok-web-port", "webport", d); err != nil {
			return nil, err
		}
	}
	// J. re-issuing with a proof that was READ BACK FROM STORAGE (Archive -> Extract, Format -> Parse): the new token's
	// archive and string are the recorded ones, as when the proof is still the in-process object
	for vi, via := range []string{"archive", "string"} {
		src := tokens[5+vi]
		var stored delegation.Delegation
		if via == "archive" {
			ab, err := io.ReadAll(src.Archive())
			if err != nil {
				return nil, err
			}
			stored, err = delegation.Extract(ab)
			if err != nil {
				return nil, fmt.Errorf("program reissue-%s: extract: %v", via, err)
			}
		} else {
			fs, err := delegation.Format(src)
			if err != nil {
				return nil, err
			}
			stored, err = delegation.Parse(fs)
			if err != nil {
				return nil, fmt.Errorf("program reissue-%s: parse: %v", via, err)
			}
		}
		d, err := delegation.Delegate(keys["ed1"], keys["ed2"].DID(), []ucan.Capability[ucan.CaveatBuilder]{
			ucan.NewCapability[ucan.CaveatBuilder]("store/add", keys["ed0"].DID().String(), nodeNb{c18Caveats[1]()})},
			delegation.WithExpiration(1900000000), delegation.WithNonce("reissue-"+via), delegation.WithProof(delegation.FromDelegation(stored)))
		if err != nil {
			return nil, fmt.Errorf("program reissue-%s: %v", via, err)
		}
		if err := tokRec("reissue-stored-proof-"+via, "ed1", d); err != nil {
			return nil, err
		}
		// ... and a second generation: the re-issued token stored and used as a proof again
		ab, err := io.ReadAll(d.Archive())
		if err != nil {
			return nil, err
		}
		stored2, err := delegation.Extract(ab)
		if err != nil {
			return nil, fmt.Errorf("program reissue2-%s: extract: %v", via, err)
		}
		d2, err := delegation.Delegate(keys["ed2"], keys["ed3"].DID(), []ucan.Capability[ucan.CaveatBuilder]{
			ucan.NewCapability[ucan.CaveatBuilder]("store/add", keys["ed0"].DID().String(), nodeNb{c18Caveats[1]()})},
			delegation.WithExpiration(1900000000), delegation.WithNonce("reissue2-"+via), delegation.WithProof(delegation.FromDelegation(stored2)))
		if err != nil {
			return nil, fmt.Errorf("program reissue2-%s: %v", via, err)
		}
		if err := tokRec("reissue2-stored-proof-"+via, "ed2", d2); err != nil {
			return nil, err
		}
	}
	return recs, nil
}

var c18WrappedDIDs = []string{"did:dns:golden.example", "did:ion:EiClkZMDxPKqC9c", "did:mailto:example.com:alice"}

// the first c18DIDsBase entries are the ones the recorded section-F tokens pick their audiences from
const c18DIDsBase = 17

var c18DIDs = []string{"did:web:example.com", "did:web:example.com:user:alice", "did:mailto:example.com:alice", "did:dns:example.com", "did:dht:i9xkp8ddcbcg8jwq54ox699wuzxyifsqx4jru45zodqu453ksz6y",
	"did:ion:EiClkZMDxPKqC9c-umQfTkR8vvZ9JPhl_xLDI9Nfk38w5w", "did:indy:sovrin:WRfXPg8dantKVubE3HX8pw", "did:iota:0xe4edef97da1257e83cbeb49159cfdd2da6ac971ac447f233f8439cf29376ebfe",
	"did:plc:ewvi7nxzyoun6zhxrhs64oiz", "did:pkh:eip155:1:0xb9c5714089478a327f09197987f16f9e5d936e8a", "did:d:x", "did:i:x", "did:did:x", "did:x:did:key:y", "did:ethr:0xb9c5714089478a327f09197987f16f9e5d936e8a",
	"did:key:z6MkhaXgBZDvotDkL5257faiztiGiC2QtKLGpbnnEGta2doK", "did:key:z4MXj1wBzi9jUstyPMS4jQqB6KdJaiatPkAtVtGc6bQEQEEsKTic4G7Rou3iBf9vPmT5dbkm9qsZsuVNjq8HCuW1w24nhBFGkRE4cd2Uf2tfrB3N7h4mnyPp1BF3ZttHTYv3DLUPi1zMdkULiow3M1GfXkoC6DoxDUm1jmN6GBj22SjVsr6dxezRVQc7aj9TxE7JLbMH1wh5X3kA58H3DFW8rnYMakFGbca5CB2Jf6CnGQZmL7o5uJAdTwXfy2iiiyPxXEGerMhHwhjTA1mKYobyk2CpeEcmvynADfNZ5MBvcCS7m3XkFCMNUYBS9NQ3fze6vMSUPsNa6GVYmKx2x6JrdEjCk3qRMMmyjnjCMfR4pXbRMZa3i",
	// percent-encoded and punctuated method-specific ids (did:web with a port, with a path; RFC 3986 unreserved marks)
	"did:web:localhost%3A8080", "did:web:example.com%3A3000:user:alice", "did:web:w3c-ccg.github.io:user:alice", "did:example:a.b-c_d", "did:web:xn--caf-dma.example",
	"did:example:123456789abcdefghi%20x", "did:tz:tz1YwA1FwpgLtc1G8DKbbZ6e6PTb1dQMRn5x"}

func outcomeBytesOf(root []byte) ([]byte, error) {
	// re-encode the outcome of a receipt root block (what the issuer signed)
	return reencodeOutcome(root)
}

type c18Diff struct {
	ID    string `json:"id"`
	Field string `json:"field"`
	What  string `json:"what"`
	Want  string `json:"recorded,omitempty"`
	Got   string `json:"now,omitempty"`
}

func short(s string) string {
	if len(s) > 160 {
		return s[:80] + "…" + s[len(s)-60:]
	}
	return s
}

func init() {
	gens["C18"] = func(o genOpts) error {
		recs, err := c18Run()
		if err != nil {
			return err
		}
		if cap := os.Getenv("VERIF_C18_CAPTURE"); cap != "" {
			b, _ := json.MarshalIndent(recs, "", " ")
			return os.WriteFile(cap, b, 0o644)
		}
		corpusPath := ""
		for _, c := range []string{os.Getenv("VERIF_C18_CORPUS"), "corpus/golden/corpus.json", "../corpus/golden/corpus.json", "/verif/corpus/golden/corpus.json"} {
			if c != "" {
				if _, err := os.Stat(c); err == nil {
					corpusPath = c
					break
				}
			}
		}
		if corpusPath == "" {
			return fmt.Errorf("golden corpus not found")
		}
		var golden []c18Rec
		cb, err := os.ReadFile(corpusPath)
		if err != nil {
			return err
		}
		if err := json.Unmarshal(cb, &golden); err != nil {
			return err
		}
		now := map[string]c18Rec{}
		for _, r := range recs {
			now[r.ID] = r
		}
		diffs := []c18Diff{}
		cmp := func(id, field, want, got string) {
			if want != got {
				diffs = append(diffs, c18Diff{ID: id, Field: field, What: "re-executing the program no longer reproduces the recorded " + field, Want: short(want), Got: short(got)})
			}
		}
		keys, _, err := c18Keys()
		if err != nil {
			return err
		}
		kinds := map[string]int{}
		var tokCases, rcCases, msgCases, archCases, carCases, signCases []string
		var signDids [][][]byte
		var samples []any
		for gi, g := range golden {
			kinds[g.Kind]++
			n, ok := now[g.ID]
			if !ok {
				diffs = append(diffs, c18Diff{ID: g.ID, Field: "program", What: "program no longer runs"})
				continue
			}
			// (i) what must be reproduced byte for byte
			switch g.Kind {
			case "token":
				cmp(g.ID, "signing payload", g.Payload, n.Payload)
				cmp(g.ID, "signature", g.Sig, n.Sig)
				cmp(g.ID, "root block", g.Root, n.Root)
				cmp(g.ID, "CID", g.CID, n.CID)
				cmp(g.ID, "formatted delegation", g.Format, n.Format)
			case "receipt":
				cmp(g.ID, "root block", g.Root, n.Root)
				cmp(g.ID, "signed outcome bytes", g.Outcome, n.Outcome)
				cmp(g.ID, "signature", g.Sig, n.Sig)
				cmp(g.ID, "CID", g.CID, n.CID)
			case "message":
				cmp(g.ID, "root block", g.Root, n.Root)
				cmp(g.ID, "CID", g.CID, n.CID)
			case "did":
				cmp(g.ID, "DID bytes", g.DIDHex, n.DIDHex)
				cmp(g.ID, "DID string", g.KeyStr, n.KeyStr)
				cmp(g.ID, "DID string after decoding the bytes", g.Format, n.Format)
			case "key":
				cmp(g.ID, "key string", g.KeyStr, n.KeyStr)
				cmp(g.ID, "DID", g.DID, n.DID)
				cmp(g.ID, "DID bytes", g.DIDHex, n.DIDHex)
				cmp(g.ID, "signature of the fixed message", g.Sig, n.Sig)
			}
			// (ii) the RECORDED artefacts parsed by the current tree
			bad := func(field, what string) {
				diffs = append(diffs, c18Diff{ID: g.ID, Field: field, What: what})
			}
			switch g.Kind {
			case "token":
				ab, _ := hex.DecodeString(g.Archive)
				root, _ := hex.DecodeString(g.Root)
				sig, _ := hex.DecodeString(g.Sig)
				for _, how := range []string{"Extract(archive)", "Parse(formatted)"} {
					var d delegation.Delegation
					var err error
					if how == "Extract(archive)" {
						d, err = delegation.Extract(ab)
					} else {
						d, err = delegation.Parse(g.Format)
					}
					if err != nil {
						bad(how, "recorded artefact no longer parses: "+err.Error())
						continue
					}
					if d.Link().String() != g.CID {
						bad(how, "parses to another link")
					}
					if !bytes.Equal(d.Root().Bytes(), root) {
						bad(how, "root block bytes differ")
					}
					if !bytes.Equal(d.Signature().Bytes(), sig) {
						bad(how, "signature bytes differ")
					}
					okv, verr := ucan.VerifySignature(d.Data(), verifierOf(keys[g.Issuer]))
					if verr != nil || !okv {
						bad(how, "recorded token no longer verifies against its issuer")
					}
					alg, _ := signature.CodeName(d.Signature().Code())
					if pl, err := payloadString(d, alg); err != nil || pl != g.Payload {
						bad(how, "signing payload rebuilt from the recorded token differs from the recorded payload")
					}
					// load and save again: the stored artefact is reproduced byte for byte
					if how == "Extract(archive)" {
						if ab2, err := io.ReadAll(d.Archive()); err != nil || !bytes.Equal(ab2, ab) {
							bad(how, fmt.Sprintf("a stored archive that is loaded and saved again is no longer the same bytes (%d stored, %d saved)", len(ab), len(ab2)))
						}
					} else if fs2, err := delegation.Format(d); err != nil || fs2 != g.Format {
						bad(how, "a stored delegation string that is parsed and formatted again is no longer the same string")
					}
				}
				ut, err := utokenCoqFromBytes(root)
				if err == nil {
					tokCases = append(tokCases, fmt.Sprintf("(%d, %s, %s)", gi, ut, hx(root)))
					// the model's signing payload (DagJson.v) must be the RECORDED signing payload
					if dd, derr := delegation.Extract(ab); derr == nil {
						alg, _ := signature.CodeName(dd.Signature().Code())
						signCases = append(signCases, fmt.Sprintf("(%d, %s, %s, %s)", gi, hxs(alg), ut, coqOptBytes([]byte(g.Payload), true)))
						signDids = append(signDids, [][]byte{dd.Issuer().DID().Bytes(), dd.Audience().DID().Bytes()})
					}
				}
				if roots, blks, err := carDecodeBytes(ab); err == nil {
					var rs, bs []string
					for _, r := range roots {
						rs = append(rs, hx([]byte(r.Binary())))
					}
					for _, b := range blks {
						bs = append(bs, fmt.Sprintf("(%s, %s)", hx([]byte(b.Link().Binary())), hx(b.Bytes())))
						if b.Link().String() == roots[0].String() {
							archCases = append(archCases, fmt.Sprintf("(%d, %s, %s)", gi, hx(linkBinaryOf(g.CID)), hx(b.Bytes())))
						}
					}
					carCases = append(carCases, fmt.Sprintf("([%s], [%s], %s)", strings.Join(rs, "; "), strings.Join(bs, "; "), hx(ab)))
				} else {
					bad("archive", "recorded CAR no longer decodes: "+err.Error())
				}
			case "receipt":
				root, _ := hex.DecodeString(g.Root)
				sig, _ := hex.DecodeString(g.Sig)
				ob, err := reencodeOutcome(root)
				if err != nil {
					bad("receipt", "recorded receipt root no longer decodes: "+err.Error())
				} else {
					if hex.EncodeToString(ob) != g.Outcome {
						bad("receipt", "re-encoding the outcome of the recorded receipt gives other bytes than were signed")
					}
					if !verifierOf(keys[g.Issuer]).Verify(ob, signature.Decode(sig)) {
						bad("receipt", "recorded receipt signature no longer verifies")
					}
				}
				if rt, err := rcptCoqFromBytes(root); err == nil {
					rcCases = append(rcCases, fmt.Sprintf("(%d, %s, %s, %s)", gi, rt, hx(root), hx(mustHex(g.Outcome))))
				}
			case "message":
				cb, _ := hex.DecodeString(g.Car)
				hdr := map[string][]string{"Content-Type": {"application/vnd.ipld.car"}}
				m, err := request.Decode(newRawRequest(cb, hdr))
				if err != nil {
					bad("message", "recorded message CAR no longer decodes: "+err.Error())
				} else {
					var links []string
					for _, l := range m.Invocations() {
						links = append(links, l.String())
					}
					for _, l := range m.Receipts() {
						links = append(links, "r:"+l.String())
					}
					sort.Strings(links)
					if strings.Join(links, ",") != strings.Join(g.Links, ",") || m.Root().Link().String() != g.CID {
						bad("message", "recorded message reads back with other invocation / receipt links")
					}
					br, _ := blockstore.NewBlockReader(blockstore.WithBlocksIterator(m.Blocks()))
					for _, l := range m.Invocations() {
						if _, err := invocation.NewInvocationView(l, br); err != nil {
							bad("message", "invocation of the recorded message is no longer viewable")
						}
					}
				}
				root, _ := hex.DecodeString(g.Root)
				if mt, err := amsgCoqFromBytes(root); err == nil {
					msgCases = append(msgCases, fmt.Sprintf("(%d, %s, %s)", gi, mt, hx(root)))
				}
			case "did":
				raw, _ := hex.DecodeString(g.DIDHex)
				if d, err := did.Decode(raw); err != nil {
					bad("did", "recorded DID bytes no longer decode: "+err.Error())
				} else if d.String() != g.DID {
					bad("did", "recorded DID bytes decode to another DID string")
				}
				if d, err := did.Parse(g.DID); err != nil || hex.EncodeToString(d.Bytes()) != g.DIDHex {
					bad("did", "recorded DID string parses to other bytes")
				}
			case "key":
				var s principal.Signer
				var err error
				if strings.Contains(g.ID, "rsa") {
					s, err = rsasig.Parse(g.KeyStr)
				} else {
					s, err = edsig.Parse(g.KeyStr)
				}
				if err != nil {
					bad("key", "recorded key string no longer parses: "+err.Error())
					break
				}
				sigb, _ := hex.DecodeString(g.Sig)
				if !s.Verifier().Verify([]byte("golden message"), signature.Decode(sigb)) {
					bad("key", "recorded signature no longer verifies with the parsed key")
				}
				if g.ID != "key-web" {
					// a key ring read record by record through one scratch buffer: the stored bytes are decoded, the buffer is
					// reused for the next record, and the key that was loaded is still the stored identity
					buf := append([]byte{}, s.Encode()...)
					var s2 principal.Signer
					if strings.Contains(g.ID, "rsa") {
						s2, err = rsasig.Decode(buf)
					} else {
						s2, err = edsig.Decode(buf)
					}
					if err != nil {
						bad("key", "the encoded form of the recorded key no longer decodes: "+err.Error())
					} else {
						for j := range buf {
							buf[j] = byte(j)
						}
						if s2.DID().String() != g.DID || !bytes.Equal(s2.Encode(), s.Encode()) ||
							!s2.Verifier().Verify([]byte("golden message"), signature.Decode(sigb)) ||
							!s.Verifier().Verify([]byte("reissued"), s2.Sign([]byte("reissued"))) {
							bad("key", "a key decoded from a buffer that was reused afterwards is no longer the stored identity")
						}
					}
				}
				if g.ID != "key-web" {
					if s.DID().String() != g.DID {
						bad("key", "recorded key string parses to another DID")
					}
					d, err := did.Parse(g.DID)
					if err != nil || hex.EncodeToString(d.Bytes()) != g.DIDHex {
						bad("key", "recorded DID string parses to other bytes")
					}
					var v principal.Verifier
					if strings.Contains(g.ID, "rsa") {
						v, err = rsaver.Parse(g.DID)
					} else {
						v, err = edver.Parse(g.DID)
					}
					if err != nil || !v.Verify([]byte("golden message"), signature.Decode(sigb)) {
						bad("key", "verifier parsed from the recorded DID no longer accepts the recorded signature")
					}
				}
			}
			if len(samples) < 5 && gi%40 == 0 {
				samples = append(samples, map[string]any{"id": g.ID, "kind": g.Kind, "cid": g.CID, "root_bytes": len(g.Root) / 2})
			}
		}
		// (iii) model cases
		writeCases := func(name, typ, fn string, cases []string, imports string) error {
			var sb strings.Builder
			sb.WriteString("From Ucanto Require Import Base Ipld Cbor Formats ReceiptFormat Blockstore MessageFormat Check_Formats" + imports + ".\nOpen Scope N_scope.\n")
			defs, body := internHex(coqList(cases))
			sb.WriteString(defs)
			fmt.Fprintf(&sb, "Definition cases : list (%s) := %s.\n", typ, body)
			fmt.Fprintf(&sb, "Definition M := Eval vm_compute in %s cases.\nPrint M.\n", fn)
			return writeFile(o.out, name, sb.String())
		}
		half := len(tokCases) / 2
		if err := writeCases("cases_C18_tok_00.v", "N * utoken * bstr", "check_tokens", tokCases[:half], ""); err != nil {
			return err
		}
		if err := writeCases("cases_C18_tok_01.v", "N * utoken * bstr", "check_tokens", tokCases[half:], ""); err != nil {
			return err
		}
		if err := writeCases("cases_C18_rcpt_00.v", "N * rcpt * bstr * bstr", "check_receipts", rcCases, ""); err != nil {
			return err
		}
		if err := writeCases("cases_C18_msg_00.v", "N * amsg * bstr", "check_messages", msgCases, ""); err != nil {
			return err
		}
		if err := writeCases("cases_C18_arch_00.v", "N * bstr * bstr", "check_archives", archCases, ""); err != nil {
			return err
		}
		if err := writeSignShards(o.out, "C18", signCases, signDids, 2); err != nil {
			return err
		}
		// CAR framing of the recorded archives (Car.car_encode reproduces the bytes)
		{
			var sb strings.Builder
			sb.WriteString("From Ucanto Require Import Base Varint Cid Car Check_C12.\nOpen Scope N_scope.\n")
			defs, body := internHex(coqList(carCases))
			sb.WriteString(defs)
			fmt.Fprintf(&sb, "Definition cases : list enc_case := %s.\n", body)
			sb.WriteString("Definition M := Eval vm_compute in bad_codes (fun e => if run_enc e then 0 else 1) cases 0.\nPrint M.\n")
			if err := writeFile(o.out, "cases_C18_car_00.v", sb.String()); err != nil {
				return err
			}
		}
		sum := sha256.Sum256(cb)
		return writeJSON(o.out, "stats.json", map[string]any{"programs": len(golden), "by_kind": kinds, "differences": diffs,
			"corpus_sha256": hex.EncodeToString(sum[:]), "samples": samples,
			"model_cases": map[string]int{"token_blocks": len(tokCases), "receipt_blocks": len(rcCases), "message_blocks": len(msgCases), "archive_variant_blocks": len(archCases), "archive_car_framings": len(carCases), "signing_payloads": len(signCases)}})
	}
}

func mustHex(s string) []byte { b, _ := hex.DecodeString(s); return b }

func reencodeOutcome(root []byte) ([]byte, error) {
	var rm rdm.ReceiptModel[ipld.Node, ipld.Node]
	if err := cbor.Decode(root, &rm, rdm.TypeSystem().TypeByName("Receipt")); err != nil {
		return nil, err
	}
	return cbor.Encode(&rm.Ocm, rdm.TypeSystem().TypeByName("Outcome"))
}

func linkBinaryOf(s string) []byte {
	c, err := cid.Decode(s)
	if err != nil {
		return nil
	}
	return c.Bytes()
}

func newRawRequest(body []byte, hdr map[string][]string) transport.HTTPRequest {
	return uhttp.NewHTTPRequest(bytes.NewReader(body), hdr)
}
