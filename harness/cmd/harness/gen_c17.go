package main

// C17: concurrency driver for core/dag/blockstore (and delegation.Attach,
// which is a thin wrapper around a blockstore).
//
//	harness c17run -seed S -first F -n N -k K -procs P -variant V -out DIR -tag T
//
// runs the histories F, F+1, ..., F+N-1 one after the other in this process.
// For every history a PROGRAM (K worker threads of put/get/iter operations
// over a small pool of blocks, plus optional setup puts) is derived from
// (S, id, K) only; the program is then executed with real goroutines and what
// every operation observed is recorded.  The observations are written as one
// JSON line per history (DIR/hist_T.jsonl, appended and closed after every
// history so that it survives a crash) and, once all N histories are done, as
// a Coq file DIR/cases_C17_T.v that is judged by Check_C17.
//
// The driver does not judge anything and does not recover from panics, fatal
// errors ("concurrent map writes") or race detector aborts: the line
// "C17-HISTORY <id>" printed to stderr before each history tells the parent
// which history was running when the process died.  Replaying a history is
// just `c17run -first id -n 1` with the same seed/k/procs/variant.

import (
	"bytes"
	"encoding/json"
	"flag"
	"fmt"
	"iter"
	"math/rand"
	"os"
	"path/filepath"
	"runtime"
	"strings"
	"sync"

	"github.com/ipfs/go-cid"
	cidlink "github.com/ipld/go-ipld-prime/linking/cid"
	"github.com/multiformats/go-multihash"
	"github.com/storacha/go-ucanto/core/dag/blockstore"
	"github.com/storacha/go-ucanto/core/delegation"
	"github.com/storacha/go-ucanto/core/ipld"
	"github.com/storacha/go-ucanto/core/ipld/block"
	"github.com/storacha/go-ucanto/principal/ed25519/signer"
	"github.com/storacha/go-ucanto/ucan"
)

const (
	c17Put  = 0
	c17Get  = 1
	c17Iter = 2

	c17UnknownKey = 999 // iteration yielded a link that is not in the pool
	c17UnknownVal = 99  // block bytes are neither variant 0 nor variant 1
	c17ErrVal     = -1  // iteration yielded a non-nil error / Get found nothing
)

// ---------------------------------------------------------------- program

type c17Op struct {
	kind    int
	key     int  // put, get
	val     int  // put: which byte variant
	pause   int  // 0 none, 1 one Gosched, 2 pauseN Gosched
	pauseN  int  // number of Gosched for pause == 2
	yieldGo bool // iter: Gosched between yielded items
}

type c17Program struct {
	id      int64
	variant string // "store" | "deleg" (never "mixed")
	nk      int
	setup   [][2]int // (key, val) puts done by main before the workers start
	threads [][]c17Op
}

// c17Generate derives the program of history id.  It depends on (seed, id, k)
// and on the requested variant only, never on -procs.
func c17Generate(seed, id int64, k int, variant string) c17Program {
	rng := rand.New(rand.NewSource(seed*1000003 + id*7919 + int64(k)))
	p := c17Program{id: id, variant: variant}
	if variant == "mixed" {
		if rng.Intn(100) < 75 {
			p.variant = "store"
		} else {
			p.variant = "deleg"
		}
	}
	p.nk = 2 + rng.Intn(2*k+2)
	pickVal := func() int {
		if rng.Intn(100) < 15 {
			return 1
		}
		return 0
	}
	p.setup = [][2]int{}
	if rng.Intn(100) < 30 {
		n := 1 + rng.Intn(3)
		for i := 0; i < n; i++ {
			key := rng.Intn(p.nk)
			p.setup = append(p.setup, [2]int{key, pickVal()})
		}
	}
	p.threads = make([][]c17Op, k)
	for t := 0; t < k; t++ {
		nops := 3 + rng.Intn(8)
		ops := make([]c17Op, nops)
		for i := range ops {
			var op c17Op
			r := rng.Intn(100)
			if p.variant == "store" {
				switch {
				case r < 50:
					op.kind = c17Put
				case r < 78:
					op.kind = c17Get
				default:
					op.kind = c17Iter
				}
			} else {
				if r < 70 {
					op.kind = c17Put
				} else {
					op.kind = c17Iter
				}
			}
			switch op.kind {
			case c17Put:
				op.key = rng.Intn(p.nk)
				op.val = pickVal()
			case c17Get:
				op.key = rng.Intn(p.nk)
			case c17Iter:
				op.yieldGo = rng.Intn(2) == 0
			}
			op.pause = rng.Intn(3)
			if op.pause == 2 {
				op.pauseN = 2 + rng.Intn(4)
			}
			ops[i] = op
		}
		p.threads[t] = ops
	}
	return p
}

// ---------------------------------------------------------------- pool

type c17Pool struct {
	links []ipld.Link
	blks  [][2]block.Block // blks[j][v]: key j, byte variant v (same link)
	byts  [][2][]byte
	index map[string]int // link.String() -> key
}

func c17MakePool(seed, id int64, nk int) (*c17Pool, error) {
	pl := &c17Pool{index: map[string]int{}}
	for j := 0; j < nk; j++ {
		b0 := []byte(fmt.Sprintf("c17 block %d/%d/%d v0", seed, id, j))
		b1 := []byte(fmt.Sprintf("c17 block %d/%d/%d v1", seed, id, j))
		mh, err := multihash.Sum(b0, multihash.SHA2_256, -1)
		if err != nil {
			return nil, err
		}
		var l ipld.Link = cidlink.Link{Cid: cid.NewCidV1(cid.Raw, mh)}
		pl.links = append(pl.links, l)
		pl.blks = append(pl.blks, [2]block.Block{block.NewBlock(l, b0), block.NewBlock(l, b1)})
		pl.byts = append(pl.byts, [2][]byte{b0, b1})
		pl.index[l.String()] = j
	}
	return pl, nil
}

// value says which byte variant of key j the block carries.
func (pl *c17Pool) value(j int, b ipld.Block) int {
	if b == nil {
		return c17UnknownVal
	}
	bs := b.Bytes()
	if j >= 0 && j < len(pl.byts) {
		if bytes.Equal(bs, pl.byts[j][0]) {
			return 0
		}
		if bytes.Equal(bs, pl.byts[j][1]) {
			return 1
		}
	}
	return c17UnknownVal
}

// item maps one step of an iteration to (key, value).
func (pl *c17Pool) item(b ipld.Block, err error) [2]int {
	if err != nil {
		// the library reports "missing block for key: <link>" with a nil
		// block; recover the key from the message when possible.
		key := c17UnknownKey
		if b != nil && b.Link() != nil {
			if j, ok := pl.index[b.Link().String()]; ok {
				key = j
			}
		} else {
			msg := err.Error()
			if i := strings.LastIndex(msg, ": "); i >= 0 {
				if j, ok := pl.index[msg[i+2:]]; ok {
					key = j
				}
			}
		}
		return [2]int{key, c17ErrVal}
	}
	if b == nil || b.Link() == nil {
		return [2]int{c17UnknownKey, c17UnknownVal}
	}
	j, ok := pl.index[b.Link().String()]
	if !ok {
		return [2]int{c17UnknownKey, c17UnknownVal}
	}
	return [2]int{j, pl.value(j, b)}
}

// ---------------------------------------------------------------- results

type c17Res struct {
	kind  int
	key   int
	val   int // put: variant written; get: variant seen (c17ErrVal if absent)
	found bool
	items [][2]int
	anom  []string
}

func (r c17Res) json() any {
	switch r.kind {
	case c17Put:
		return struct {
			Op string `json:"op"`
			K  int    `json:"k"`
			V  int    `json:"v"`
		}{"put", r.key, r.val}
	case c17Get:
		return struct {
			Op    string `json:"op"`
			K     int    `json:"k"`
			Found bool   `json:"found"`
			V     int    `json:"v"`
		}{"get", r.key, r.found, r.val}
	default:
		return struct {
			Op    string   `json:"op"`
			Items [][2]int `json:"items"`
		}{"iter", r.items}
	}
}

func c17CoqItems(items [][2]int) string {
	if len(items) == 0 {
		return "[]"
	}
	ss := make([]string, len(items))
	for i, it := range items {
		if it[1] < 0 {
			ss[i] = fmt.Sprintf("(%d, None)", it[0])
		} else {
			ss[i] = fmt.Sprintf("(%d, Some %d)", it[0], it[1])
		}
	}
	return "[" + strings.Join(ss, "; ") + "]"
}

func (r c17Res) coq() string {
	switch r.kind {
	case c17Put:
		return fmt.Sprintf("P %d %d", r.key, r.val)
	case c17Get:
		if !r.found {
			return fmt.Sprintf("G %d None", r.key)
		}
		return fmt.Sprintf("G %d (Some %d)", r.key, r.val)
	default:
		return "I " + c17CoqItems(r.items)
	}
}

type c17History struct {
	prog      c17Program
	threads   [][]c17Res
	final     [][2]int
	finalGets [][2]int
	anomalies []string
}

func (h *c17History) coq() string {
	var ths []string
	if len(h.prog.setup) > 0 {
		ss := make([]string, len(h.prog.setup))
		for i, s := range h.prog.setup {
			ss[i] = fmt.Sprintf("P %d %d", s[0], s[1])
		}
		ths = append(ths, "["+strings.Join(ss, "; ")+"]")
	}
	for _, th := range h.threads {
		ss := make([]string, len(th))
		for i, r := range th {
			ss[i] = r.coq()
		}
		ths = append(ths, "["+strings.Join(ss, "; ")+"]")
	}
	threads := "[" + strings.Join(ths, "; ") + "]"
	return fmt.Sprintf(" mkH %d %s %s %s", h.prog.id, threads, c17CoqItems(h.final), c17CoqItems(h.finalGets))
}

// ---------------------------------------------------------------- execution

// c17Target is the object under test: a bare blockstore or a delegation.
type c17Target struct {
	bs   blockstore.BlockStore
	dlg  delegation.Delegation
	base int // deleg: blocks yielded by Blocks() before any attach
}

func (t *c17Target) put(b block.Block) error {
	if t.dlg != nil {
		return t.dlg.Attach(b)
	}
	return t.bs.Put(b)
}

func (t *c17Target) iterate(pl *c17Pool, yieldGo bool) [][2]int {
	items := [][2]int{}
	n := 0
	if t.dlg != nil {
		for b, err := range t.dlg.Blocks() {
			n++
			if n <= t.base {
				continue
			}
			items = append(items, pl.item(b, err))
			if yieldGo {
				runtime.Gosched()
			}
		}
		return items
	}
	for b, err := range t.bs.Iterator() {
		items = append(items, pl.item(b, err))
		if yieldGo {
			runtime.Gosched()
		}
	}
	return items
}

func (t *c17Target) get(pl *c17Pool, key int) (found bool, val int, err error) {
	b, ok, err := t.bs.Get(pl.links[key])
	if !ok {
		return false, c17ErrVal, err
	}
	return true, pl.value(key, b), err
}

var c17Signer struct {
	once sync.Once
	iss  ucan.Signer
	aud  ucan.Principal
	err  error
}

func c17NewDelegation() (delegation.Delegation, error) {
	c17Signer.once.Do(func() {
		a, err := signer.Generate()
		if err != nil {
			c17Signer.err = err
			return
		}
		b, err := signer.Generate()
		if err != nil {
			c17Signer.err = err
			return
		}
		c17Signer.iss, c17Signer.aud = a, b
	})
	if c17Signer.err != nil {
		return nil, c17Signer.err
	}
	return delegation.Delegate(
		c17Signer.iss,
		c17Signer.aud,
		[]ucan.Capability[ucan.NoCaveats]{
			ucan.NewCapability("test/attach", c17Signer.iss.DID().String(), ucan.NoCaveats{}),
		},
	)
}

func c17Pause(op c17Op) {
	switch op.pause {
	case 1:
		runtime.Gosched()
	case 2:
		for i := 0; i < op.pauseN; i++ {
			runtime.Gosched()
		}
	}
}

func c17Execute(seed int64, prog c17Program) (*c17History, error) {
	pl, err := c17MakePool(seed, prog.id, prog.nk)
	if err != nil {
		return nil, err
	}
	h := &c17History{prog: prog, anomalies: []string{}, finalGets: [][2]int{}}
	tg := &c17Target{}
	if prog.variant == "store" {
		var opts []blockstore.Option
		if len(prog.setup) > 0 {
			var sb []ipld.Block
			for _, s := range prog.setup {
				sb = append(sb, pl.blks[s[0]][s[1]])
			}
			opts = append(opts, blockstore.WithBlocks(sb))
		}
		bs, err := blockstore.NewBlockStore(opts...)
		if err != nil {
			return nil, fmt.Errorf("NewBlockStore: %w", err)
		}
		tg.bs = bs
	} else {
		d, err := c17NewDelegation()
		if err != nil {
			return nil, fmt.Errorf("Delegate: %w", err)
		}
		tg.dlg = d
		for range d.Blocks() {
			tg.base++
		}
		for i, s := range prog.setup {
			if err := d.Attach(pl.blks[s[0]][s[1]]); err != nil {
				h.anomalies = append(h.anomalies, fmt.Sprintf("setup %d: Attach key %d: error %v", i, s[0], err))
			}
		}
	}

	// Every worker writes only results[t]; main reads them after wg.Wait().
	results := make([][]c17Res, len(prog.threads))
	start := make(chan struct{})
	var wg sync.WaitGroup
	for t := range prog.threads {
		wg.Add(1)
		go func(t int, ops []c17Op) {
			defer wg.Done()
			res := make([]c17Res, 0, len(ops))
			<-start
			for i, op := range ops {
				c17Pause(op)
				r := c17Res{kind: op.kind}
				switch op.kind {
				case c17Put:
					r.key, r.val = op.key, op.val
					if err := tg.put(pl.blks[op.key][op.val]); err != nil {
						r.anom = append(r.anom, fmt.Sprintf("thread %d op %d: put key %d: error %v", t, i, op.key, err))
					}
				case c17Get:
					r.key = op.key
					found, val, err := tg.get(pl, op.key)
					r.found, r.val = found, val
					if err != nil {
						r.anom = append(r.anom, fmt.Sprintf("thread %d op %d: get key %d: error %v", t, i, op.key, err))
					}
				case c17Iter:
					r.items = tg.iterate(pl, op.yieldGo)
				}
				res = append(res, r)
			}
			results[t] = res
		}(t, prog.threads[t])
	}
	close(start)
	wg.Wait()

	h.threads = results
	for _, th := range results {
		for _, r := range th {
			h.anomalies = append(h.anomalies, r.anom...)
		}
	}
	h.final = tg.iterate(pl, false)
	// one iterator value consumed more than once (a second traversal, a traversal after an early stop, two goroutines
	// ranging the same value) yields the same sequence every time
	{
		collect := func(it iter.Seq2[ipld.Block, error], stopAfter int) []string {
			var ls []string
			for b, err := range it {
				if err != nil {
					ls = append(ls, "err")
					continue
				}
				ls = append(ls, b.Link().String())
				if stopAfter > 0 && len(ls) >= stopAfter {
					break
				}
			}
			return ls
		}
		var it iter.Seq2[ipld.Block, error]
		if tg.dlg != nil {
			it = tg.dlg.Blocks()
		} else {
			it = tg.bs.Iterator()
		}
		first := collect(it, 0)
		_ = collect(it, 1)
		second := collect(it, 0)
		var c1, c2 []string
		var wg sync.WaitGroup
		wg.Add(2)
		go func() { defer wg.Done(); c1 = collect(it, 0) }()
		go func() { defer wg.Done(); c2 = collect(it, 0) }()
		wg.Wait()
		for _, other := range [][]string{second, c1, c2} {
			if strings.Join(other, ",") != strings.Join(first, ",") {
				h.anomalies = append(h.anomalies, fmt.Sprintf("final: the same iterator value traversed again yields %d items, first traversal %d", len(other), len(first)))
				break
			}
		}
	}
	if prog.variant == "store" {
		for j := 0; j < prog.nk; j++ {
			found, val, err := tg.get(pl, j)
			if err != nil {
				h.anomalies = append(h.anomalies, fmt.Sprintf("final: get key %d: error %v", j, err))
			}
			if !found {
				val = c17ErrVal
			}
			h.finalGets = append(h.finalGets, [2]int{j, val})
		}
	}
	return h, nil
}

// ---------------------------------------------------------------- output

func c17AppendLine(path string, line []byte) error {
	f, err := os.OpenFile(path, os.O_APPEND|os.O_CREATE|os.O_WRONLY, 0o644)
	if err != nil {
		return err
	}
	if _, err := f.Write(append(line, '\n')); err != nil {
		f.Close()
		return err
	}
	// no fsync: the line only has to survive a crash of this process
	return f.Close()
}

func (h *c17History) jsonLine(seed int64, k, procs int) ([]byte, error) {
	threads := make([][]any, len(h.threads))
	for t, th := range h.threads {
		threads[t] = make([]any, len(th))
		for i, r := range th {
			threads[t][i] = r.json()
		}
	}
	rec := struct {
		ID        int64    `json:"id"`
		K         int      `json:"k"`
		Procs     int      `json:"procs"`
		Variant   string   `json:"variant"`
		Seed      int64    `json:"seed"`
		Setup     [][2]int `json:"setup"`
		Threads   [][]any  `json:"threads"`
		Final     [][2]int `json:"final"`
		FinalGets [][2]int `json:"final_gets"`
		Anomalies []string `json:"anomalies"`
	}{h.prog.id, k, procs, h.prog.variant, seed, h.prog.setup, threads, h.final, h.finalGets, h.anomalies}
	return json.Marshal(rec)
}

func cmdC17Run(args []string) int {
	fs := flag.NewFlagSet("c17run", flag.ExitOnError)
	seed := fs.Int64("seed", 1, "PRNG seed")
	first := fs.Int64("first", 0, "id of the first history")
	n := fs.Int("n", 1, "number of histories (ids first .. first+n-1)")
	k := fs.Int("k", 4, "worker goroutines per history")
	procs := fs.Int("procs", 4, "GOMAXPROCS")
	variant := fs.String("variant", "mixed", "store|deleg|mixed")
	out := fs.String("out", ".", "output directory")
	tag := fs.String("tag", "0", "suffix of the output files")
	fs.Parse(args)
	switch *variant {
	case "store", "deleg", "mixed":
	default:
		fmt.Fprintf(os.Stderr, "c17run: unknown variant %q\n", *variant)
		return 2
	}
	if *k < 1 || *procs < 1 || *n < 0 {
		fmt.Fprintln(os.Stderr, "c17run: need -k >= 1, -procs >= 1, -n >= 0")
		return 2
	}
	runtime.GOMAXPROCS(*procs)
	if err := os.MkdirAll(*out, 0o755); err != nil {
		fmt.Fprintf(os.Stderr, "c17run: %v\n", err)
		return 1
	}
	jsonl := filepath.Join(*out, "hist_"+*tag+".jsonl")
	var cases []string
	for id := *first; id < *first+int64(*n); id++ {
		fmt.Fprintf(os.Stderr, "C17-HISTORY %d\n", id)
		prog := c17Generate(*seed, id, *k, *variant)
		h, err := c17Execute(*seed, prog)
		if err != nil {
			fmt.Fprintf(os.Stderr, "c17run: history %d: %v\n", id, err)
			return 1
		}
		line, err := h.jsonLine(*seed, *k, *procs)
		if err == nil {
			err = c17AppendLine(jsonl, line)
		}
		if err != nil {
			fmt.Fprintf(os.Stderr, "c17run: history %d: %v\n", id, err)
			return 1
		}
		cases = append(cases, h.coq())
	}
	var sb strings.Builder
	sb.WriteString("From Ucanto Require Import Base Blockstore Check_C17.\nOpen Scope N_scope.\n")
	if len(cases) == 0 {
		sb.WriteString("Definition cases : list hcase := [].\n")
	} else {
		sb.WriteString("Definition cases : list hcase := [\n" + strings.Join(cases, ";\n") + "\n].\n")
	}
	sb.WriteString("Definition M := Eval vm_compute in check_cases cases.\nPrint M.\n")
	if err := writeFile(*out, "cases_C17_"+*tag+".v", sb.String()); err != nil {
		fmt.Fprintf(os.Stderr, "c17run: %v\n", err)
		return 1
	}
	return 0
}

func init() {
	extraCmds["c17run"] = cmdC17Run
}
