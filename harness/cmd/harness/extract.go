package main

// verif-extract: regenerates Coq files from /repo's current source.
//
//   - a translator for a deliberately tiny, pure subset of Go (strings, ints,
//     pointers to ints, if/return, &&, ||, !, ==, !=, <=, <, +, -, len, slicing,
//     strings.HasPrefix/HasSuffix/Contains) into Gallina terms in the outcome
//     monad of coq/GoSem.v;
//   - fact extractors (constants, lock/access tables).
//
// Anything outside the subset is an error ("unsupported"), never a guess: the
// file is then not produced and the check falls back to the correspondence.

import (
	"fmt"
	"go/ast"
	"go/parser"
	"go/token"
	"os"
	"path/filepath"
	"strconv"
	"strings"
)

type env struct {
	calls  map[string]string // call-expression source text -> Gallina variable
	consts map[string]string // (qualified) identifiers -> Gallina term
	ignore func(s ast.Stmt, t *tr) bool
	ret    func(t *tr, results []ast.Expr) string
}

type tr struct {
	fset *token.FileSet
	e    env
}

type unsupported struct{ msg string }

func (t *tr) fail(n ast.Node, msg string) {
	panic(unsupported{fmt.Sprintf("%s: unsupported: %s", t.fset.Position(n.Pos()), msg)})
}

func bytesLit(s string) string {
	if s == "" {
		return "(@nil N)"
	}
	var parts []string
	for _, b := range []byte(s) {
		parts = append(parts, strconv.Itoa(int(b)))
	}
	return "[" + strings.Join(parts, "; ") + "]%N"
}

func (t *tr) src(n ast.Node) string {
	switch x := n.(type) {
	case *ast.Ident:
		return x.Name
	case *ast.SelectorExpr:
		return t.src(x.X) + "." + x.Sel.Name
	case *ast.CallExpr:
		var as []string
		for _, a := range x.Args {
			as = append(as, t.src(a))
		}
		return t.src(x.Fun) + "(" + strings.Join(as, ",") + ")"
	case *ast.BasicLit:
		return x.Value
	case *ast.StarExpr:
		return "*" + t.src(x.X)
	case *ast.CompositeLit:
		return t.src(x.Type) + "{}"
	}
	return fmt.Sprintf("<%T>", n)
}

func isNil(x ast.Expr) bool {
	id, ok := x.(*ast.Ident)
	return ok && id.Name == "nil"
}

// expr translates to a Gallina term of type (outcome T)
func (t *tr) expr(x ast.Expr) string {
	switch v := x.(type) {
	case *ast.ParenExpr:
		return t.expr(v.X)
	case *ast.Ident:
		if c, ok := t.e.consts[v.Name]; ok {
			return "(ret " + c + ")"
		}
		if v.Name == "nil" {
			t.fail(x, "bare nil")
		}
		return "(ret " + v.Name + ")"
	case *ast.BasicLit:
		switch v.Kind {
		case token.STRING:
			s, _ := strconv.Unquote(v.Value)
			return "(ret " + bytesLit(s) + ")"
		case token.INT:
			return "(ret " + v.Value + "%Z)"
		}
	case *ast.SelectorExpr:
		if c, ok := t.e.consts[t.src(v)]; ok {
			return "(ret " + c + ")"
		}
	case *ast.StarExpr:
		return "(derefM " + t.expr(v.X) + ")"
	case *ast.UnaryExpr:
		if v.Op == token.NOT {
			return "(notM " + t.expr(v.X) + ")"
		}
	case *ast.BinaryExpr:
		if v.Op == token.EQL || v.Op == token.NEQ {
			var other ast.Expr
			if isNil(v.Y) {
				other = v.X
			} else if isNil(v.X) {
				other = v.Y
			}
			if other != nil {
				r := "(isnilM " + t.expr(other) + ")"
				if v.Op == token.NEQ {
					r = "(notM " + r + ")"
				}
				return r
			}
		}
		a, b := t.expr(v.X), t.expr(v.Y)
		switch v.Op {
		case token.LAND:
			return "(andM " + a + " " + b + ")"
		case token.LOR:
			return "(orM " + a + " " + b + ")"
		case token.EQL:
			return "(eqM " + a + " " + b + ")"
		case token.NEQ:
			return "(neqM " + a + " " + b + ")"
		case token.LEQ:
			return "(leM " + a + " " + b + ")"
		case token.LSS:
			return "(ltM " + a + " " + b + ")"
		case token.GEQ:
			return "(leM " + b + " " + a + ")"
		case token.GTR:
			return "(ltM " + b + " " + a + ")"
		case token.SUB:
			return "(subM " + a + " " + b + ")"
		case token.ADD:
			return "(addM " + a + " " + b + ")"
		}
	case *ast.SliceExpr:
		if v.Slice3 {
			t.fail(x, "3-index slice")
		}
		lo, hi := "(ret 0%Z)", "(lenM "+t.expr(v.X)+")"
		if v.Low != nil {
			lo = t.expr(v.Low)
		}
		if v.High != nil {
			hi = t.expr(v.High)
		}
		return "(sliceM " + t.expr(v.X) + " " + lo + " " + hi + ")"
	case *ast.CallExpr:
		key := t.src(v)
		if c, ok := t.e.calls[key]; ok {
			return "(ret " + c + ")"
		}
		switch t.src(v.Fun) {
		case "len":
			return "(lenM " + t.expr(v.Args[0]) + ")"
		case "strings.HasPrefix":
			return "(prefixM " + t.expr(v.Args[0]) + " " + t.expr(v.Args[1]) + ")"
		case "strings.HasSuffix":
			return "(suffixM " + t.expr(v.Args[0]) + " " + t.expr(v.Args[1]) + ")"
		case "strings.Contains":
			return "(containsM " + t.expr(v.Args[0]) + " " + t.expr(v.Args[1]) + ")"
		}
	}
	t.fail(x, fmt.Sprintf("expression %T %s", x, t.src(x)))
	return ""
}

func elseStmts(e ast.Stmt) []ast.Stmt {
	switch v := e.(type) {
	case *ast.BlockStmt:
		return v.List
	case *ast.IfStmt:
		return []ast.Stmt{v}
	}
	return nil
}

// stmts translates a statement list every path of which returns.
func (t *tr) stmts(ss []ast.Stmt) string {
	if len(ss) == 0 {
		panic(unsupported{"control reaches the end of the function without return"})
	}
	s, rest := ss[0], ss[1:]
	if t.e.ignore != nil && t.e.ignore(s, t) {
		return t.stmts(rest)
	}
	switch v := s.(type) {
	case *ast.ReturnStmt:
		return t.e.ret(t, v.Results)
	case *ast.AssignStmt:
		if len(v.Lhs) == 1 && len(v.Rhs) == 1 && (v.Tok == token.DEFINE || v.Tok == token.ASSIGN) {
			if id, ok := v.Lhs[0].(*ast.Ident); ok {
				return "(bind " + t.expr(v.Rhs[0]) + " (fun " + id.Name + " =>\n " + t.stmts(rest) + "))"
			}
		}
	case *ast.IfStmt:
		if v.Init != nil {
			t.fail(v, "if with init")
		}
		// if c { x = e } with no else: a conditional re-assignment
		if len(v.Body.List) == 1 && v.Else == nil {
			if as, ok := v.Body.List[0].(*ast.AssignStmt); ok && as.Tok == token.ASSIGN && len(as.Lhs) == 1 {
				if id, ok := as.Lhs[0].(*ast.Ident); ok {
					return "(bind " + t.expr(v.Cond) + " (fun c_ => bind (if c_ then " + t.expr(as.Rhs[0]) +
						" else ret " + id.Name + ") (fun " + id.Name + " =>\n " + t.stmts(rest) + ")))"
				}
			}
		}
		body := append(append([]ast.Stmt{}, v.Body.List...), rest...)
		els := rest
		if v.Else != nil {
			els = append(append([]ast.Stmt{}, elseStmts(v.Else)...), rest...)
		}
		return "(bind " + t.expr(v.Cond) + " (fun c_ => if c_ then\n " + t.stmts(body) + "\n else\n " + t.stmts(els) + "))"
	}
	t.fail(s, fmt.Sprintf("statement %T", s))
	return ""
}

func findFunc(f *ast.File, name string, recv string) *ast.FuncDecl {
	for _, d := range f.Decls {
		if fd, ok := d.(*ast.FuncDecl); ok && fd.Name.Name == name {
			if recv == "" && fd.Recv == nil {
				return fd
			}
			if recv != "" && fd.Recv != nil && len(fd.Recv.List) == 1 {
				ty := fd.Recv.List[0].Type
				if st, ok := ty.(*ast.StarExpr); ok {
					ty = st.X
				}
				if id, ok := ty.(*ast.Ident); ok && id.Name == recv {
					return fd
				}
				if ix, ok := ty.(*ast.IndexExpr); ok {
					if id, ok := ix.X.(*ast.Ident); ok && id.Name == recv {
						return fd
					}
				}
			}
		}
	}
	return nil
}

func parseFile(fset *token.FileSet, path string) *ast.File {
	f, err := parser.ParseFile(fset, path, nil, 0)
	if err != nil {
		panic(unsupported{err.Error()})
	}
	return f
}

func mustFunc(f *ast.File, name, recv string) *ast.FuncDecl {
	fd := findFunc(f, name, recv)
	if fd == nil || fd.Body == nil {
		panic(unsupported{"function " + name + " not found"})
	}
	return fd
}

// string constants declared at package level: name -> value
func stringConsts(f *ast.File) map[string]string {
	res := map[string]string{}
	for _, d := range f.Decls {
		gd, ok := d.(*ast.GenDecl)
		if !ok || gd.Tok != token.CONST {
			continue
		}
		for _, sp := range gd.Specs {
			vs := sp.(*ast.ValueSpec)
			for i, n := range vs.Names {
				if i < len(vs.Values) {
					if bl, ok := vs.Values[i].(*ast.BasicLit); ok {
						res[n.Name] = bl.Value
					}
				}
			}
		}
	}
	return res
}

const genHeader = "(* GENERATED by verif-extract from /repo — do not edit. *)\nFrom Ucanto Require Import Base GoSem.\nOpen Scope N_scope.\n\n"

func retFirst(t *tr, rs []ast.Expr) string { return t.expr(rs[0]) }

// paramNames: the names of the n parameters of a function, in order
func paramNames(t *tr, fd *ast.FuncDecl, n int) []string {
	var names []string
	for _, fl := range fd.Type.Params.List {
		for _, id := range fl.Names {
			names = append(names, id.Name)
		}
	}
	if len(names) != n {
		t.fail(fd, fmt.Sprintf("expected %d parameters, found %d", n, len(names)))
	}
	return names
}

func genPattern(repo string) string {
	fset := token.NewFileSet()
	f := parseFile(fset, filepath.Join(repo, "validator/capability.go"))
	var sb strings.Builder
	sb.WriteString(genHeader)
	t := &tr{fset, env{calls: map[string]string{}, consts: map[string]string{}, ret: retFirst}}
	// parameter names are taken from the source (a renamed parameter is not a change of the function)
	fd := mustFunc(f, "ResolveAbility", "")
	pn := paramNames(t, fd, 2)
	fmt.Fprintf(&sb, "Definition ResolveAbility (%s %s : bstr) : outcome bstr :=\n %s.\n\n", pn[0], pn[1], t.stmts(fd.Body.List))
	fd = mustFunc(f, "ResolveResource", "")
	pn = paramNames(t, fd, 2)
	fmt.Fprintf(&sb, "Definition ResolveResource (%s %s : bstr) : outcome bstr :=\n %s.\n\n", pn[0], pn[1], t.stmts(fd.Body.List))
	fd = mustFunc(f, "DefaultDerives", "")
	pn = paramNames(t, fd, 2)
	t.e.calls = map[string]string{pn[1] + ".With()": "dwith", pn[0] + ".With()": "cwith"}
	t.e.ret = func(t *tr, rs []ast.Expr) string {
		if isNil(rs[0]) {
			return "(ret true)"
		}
		if c, ok := rs[0].(*ast.CallExpr); ok && t.src(c.Fun) == "schema.NewSchemaError" {
			return "(ret false)"
		}
		t.fail(rs[0], "return form")
		return ""
	}
	fmt.Fprintf(&sb, "Definition DefaultDerives (cwith dwith : bstr) : outcome bool :=\n %s.\n", t.stmts(fd.Body.List))
	return sb.String()
}

func genTime(repo string) string {
	fset := token.NewFileSet()
	f := parseFile(fset, filepath.Join(repo, "ucan/lib.go"))
	var sb strings.Builder
	sb.WriteString(genHeader)
	t := &tr{fset, env{consts: map[string]string{}, ret: retFirst,
		calls: map[string]string{"ucan.Expiration()": "uexp", "ucan.NotBefore()": "unbf", "Now()": "now"}}}
	fd := mustFunc(f, "IsExpired", "")
	fmt.Fprintf(&sb, "Definition IsExpired (uexp : option Z) (now : Z) : outcome bool :=\n %s.\n\n", t.stmts(fd.Body.List))
	fd = mustFunc(f, "IsTooEarly", "")
	fmt.Fprintf(&sb, "Definition IsTooEarly (unbf now : Z) : outcome bool :=\n %s.\n", t.stmts(fd.Body.List))
	return sb.String()
}

var httpStatus = map[string]int{
	"http.StatusOK": 200, "http.StatusBadRequest": 400, "http.StatusUnauthorized": 401,
	"http.StatusForbidden": 403, "http.StatusNotFound": 404, "http.StatusMethodNotAllowed": 405,
	"http.StatusNotAcceptable": 406, "http.StatusRequestTimeout": 408, "http.StatusConflict": 409,
	"http.StatusGone": 410, "http.StatusLengthRequired": 411, "http.StatusRequestEntityTooLarge": 413,
	"http.StatusUnsupportedMediaType": 415, "http.StatusUnprocessableEntity": 422,
	"http.StatusInternalServerError": 500, "http.StatusNotImplemented": 501,
}

func genAccept(repo string) string {
	fset := token.NewFileSet()
	carf := parseFile(fset, filepath.Join(repo, "core/car/car.go"))
	ct, ok := stringConsts(carf)["ContentType"]
	if !ok {
		panic(unsupported{"car.ContentType constant not found"})
	}
	cts, _ := strconv.Unquote(ct)
	reqf := parseFile(fset, filepath.Join(repo, "transport/car/request/request.go"))
	// request.ContentType must be an alias of car.ContentType
	aliasOK := false
	for _, d := range reqf.Decls {
		if gd, ok := d.(*ast.GenDecl); ok && gd.Tok == token.CONST {
			for _, sp := range gd.Specs {
				vs := sp.(*ast.ValueSpec)
				for i, n := range vs.Names {
					if n.Name == "ContentType" && i < len(vs.Values) {
						if se, ok := vs.Values[i].(*ast.SelectorExpr); ok && se.Sel.Name == "ContentType" {
							aliasOK = true
						}
					}
				}
			}
		}
	}
	if !aliasOK {
		panic(unsupported{"request.ContentType is not car.ContentType"})
	}
	f := parseFile(fset, filepath.Join(repo, "transport/car/codec.go"))
	var sb strings.Builder
	sb.WriteString(genHeader)
	fmt.Fprintf(&sb, "Definition car_content_type : bstr := %s.\n\n", bytesLit(cts))
	t := &tr{fset, env{
		consts: map[string]string{"request.ContentType": "car_content_type", "car.ContentType": "car_content_type"},
		calls:  map[string]string{`req.Headers().Get("Content-Type")`: "hct", `req.Headers().Get("Accept")`: "hacc"},
	}}
	t.e.ignore = func(s ast.Stmt, t *tr) bool {
		// response header bookkeeping has no influence on the decision
		switch v := s.(type) {
		case *ast.AssignStmt:
			if id, ok := v.Lhs[0].(*ast.Ident); ok && id.Name == "headers" && len(v.Rhs) == 1 && t.src(v.Rhs[0]) == "http.Header{}" {
				return true
			}
		case *ast.ExprStmt:
			if c, ok := v.X.(*ast.CallExpr); ok {
				fn := t.src(c.Fun)
				if fn == "headers.Set" || fn == "headers.Add" {
					return true
				}
			}
		}
		return false
	}
	t.e.ret = func(t *tr, rs []ast.Expr) string {
		if len(rs) == 2 && isNil(rs[1]) && !isNil(rs[0]) {
			return "(ret 0%Z)" // a codec was selected
		}
		if len(rs) == 2 && isNil(rs[0]) {
			if c, ok := rs[1].(*ast.CallExpr); ok && t.src(c.Fun) == "thttp.NewHTTPError" && len(c.Args) == 3 {
				if st, ok := httpStatus[t.src(c.Args[1])]; ok {
					return fmt.Sprintf("(ret %d%%Z)", st)
				}
				if bl, ok := c.Args[1].(*ast.BasicLit); ok && bl.Kind == token.INT {
					return "(ret " + bl.Value + "%Z)"
				}
			}
		}
		t.fail(rs[0], "return form")
		return ""
	}
	fd := mustFunc(f, "Accept", "carInbound")
	fmt.Fprintf(&sb, "(* 0 = request accepted (a codec is selected); otherwise the HTTP status of the refusal *)\n")
	fmt.Fprintf(&sb, "Definition Accept (hct hacc : bstr) : outcome Z :=\n %s.\n", t.stmts(fd.Body.List))
	return sb.String()
}

var generators = map[string]func(string) string{
	"Pattern": genPattern,
	"Time":    genTime,
	"Accept":  genAccept,
}

func cmdExtract(args []string) int {
	if len(args) < 2 {
		fmt.Fprintln(os.Stderr, "usage: harness extract <repo> <outdir> [names...]")
		return 2
	}
	repo, out := args[0], args[1]
	names := args[2:]
	if len(names) == 0 {
		for n := range generators {
			names = append(names, n)
		}
	}
	rc := 0
	for _, n := range names {
		g, ok := generators[n]
		if !ok {
			fmt.Fprintf(os.Stderr, "extract: unknown generator %s\n", n)
			rc = 1
			continue
		}
		func() {
			defer func() {
				if r := recover(); r != nil {
					if u, ok := r.(unsupported); ok {
						fmt.Fprintf(os.Stderr, "extract %s: %s\n", n, u.msg)
						rc = 1
						return
					}
					panic(r)
				}
			}()
			txt := g(repo)
			if err := os.WriteFile(filepath.Join(out, "Gen_"+n+".v"), []byte(txt), 0o644); err != nil {
				fmt.Fprintln(os.Stderr, err)
				rc = 1
			}
		}()
	}
	return rc
}
